(* Lemmas about Model/OneToOne.v *)
From Coq Require Import List Bool ZArith QArith Lia Permutation.
From Splinkv Require Import Model.OneToOne.
Import ListNotations.
Open Scope Z_scope.

(* ------------------------------------------------------------------ generic *)
Lemma in_join : forall (A B : Type) (on : A -> B -> bool) a b x y,
  In (x, y) (join on a b) <-> In x a /\ In y b /\ on x y = true.
Proof.
  intros. unfold join. rewrite in_flat_map. split.
  - intros [x0 [Hx H]]. apply in_map_iff in H. destruct H as [y0 [Heq Hy]].
    inversion Heq; subst. apply filter_In in Hy. tauto.
  - intros (Hx & Hy & Hon). exists x. split; [assumption|]. apply in_map. apply filter_In. tauto.
Qed.

Lemma fold_min_le_acc : forall l a, fold_left Z.min l a <= a.
Proof. induction l; intros; simpl; [lia|]. specialize (IHl (Z.min a0 a)). lia. Qed.

Lemma fold_min_le : forall l a x, In x l -> fold_left Z.min l a <= x.
Proof.
  induction l; intros a0 x H; simpl in *; [tauto|]. destruct H as [->|H].
  - pose proof (fold_min_le_acc l (Z.min a0 x)). lia.
  - apply IHl; assumption.
Qed.

Lemma fold_min_in : forall l a, fold_left Z.min l a = a \/ In (fold_left Z.min l a) l.
Proof.
  induction l; intros a0; simpl; [tauto|].
  destruct (IHl (Z.min a0 a)) as [H|H]; [|tauto].
  rewrite H. destruct (Z.min_spec a0 a) as [[_ ->]|[_ ->]]; tauto.
Qed.

Lemma minl_in : forall l, l <> [] -> In (minl l) l.
Proof.
  destruct l; [congruence|]. intros _. unfold minl.
  destruct (fold_min_in l z) as [->|H]; simpl; tauto.
Qed.

Lemma minl_le : forall l x, In x l -> minl l <= x.
Proof.
  destruct l; simpl; [tauto|]. intros x [->|H]; [apply fold_min_le_acc|apply fold_min_le; assumption].
Qed.

Lemma filter_le1 : forall (B : Type) (g : B -> Z) (p : B -> bool) (k : Z) b,
  NoDup (map g b) -> (forall y, In y b -> p y = true -> g y = k) -> (length (filter p b) <= 1)%nat.
Proof.
  induction b as [|y b IH]; simpl; intros Hnd Hk; [lia|].
  inversion Hnd as [|? ? Hnot Hnd']; subst.
  destruct (p y) eqn:Hp.
  - simpl. assert (filter p b = []) as ->; [|simpl; lia].
    destruct (filter p b) as [|z t] eqn:Hf; [reflexivity|exfalso].
    assert (Hz : In z (filter p b)) by (rewrite Hf; left; reflexivity).
    apply filter_In in Hz. destruct Hz as [Hz Hpz].
    apply Hnot. rewrite (Hk y (or_introl eq_refl) Hp). rewrite <- (Hk z (or_intror Hz) Hpz).
    apply in_map. assumption.
  - apply IH; [assumption|]. intros; apply Hk; auto.
Qed.

Lemma join_keys_nodup : forall (A B : Type) (f : A -> Z) (on : A -> B -> bool) a b,
  NoDup (map f a) -> (forall x, In x a -> (length (filter (on x) b) <= 1)%nat) ->
  NoDup (map (fun xy => f (fst xy)) (join on a b)).
Proof.
  induction a as [|x a IH]; intros b Hnd Hle; simpl; [constructor|].
  inversion Hnd as [|? ? Hnot Hnd']; subst.
  rewrite map_app. specialize (IH b Hnd' (fun x0 H => Hle x0 (or_intror H))).
  specialize (Hle x (or_introl eq_refl)).
  destruct (filter (on x) b) as [|y [|y' t]]; simpl in *; [assumption| |lia].
  constructor; [|assumption]. intro Hin. apply Hnot.
  apply in_map_iff in Hin. destruct Hin as [[x0 y0] [Heq Hin]]. simpl in Heq.
  apply in_join in Hin. destruct Hin as [Hx0 _]. rewrite <- Heq. apply in_map. assumption.
Qed.

Lemma nodup_key_unique : forall (t : list reprow) r1 r2,
  NoDup (map rr_node t) -> In r1 t -> In r2 t -> rr_node r1 = rr_node r2 -> r1 = r2.
Proof.
  induction t as [|r t IH]; simpl; intros r1 r2 Hnd H1 H2 Heq; [tauto|].
  inversion Hnd as [|? ? Hnot Hnd']; subst.
  destruct H1 as [<-|H1], H2 as [<-|H2]; auto.
  - exfalso. apply Hnot. rewrite Heq. apply in_map. assumption.
  - exfalso. apply Hnot. rewrite <- Heq. apply in_map. assumption.
Qed.

(* ------------------------------------------------------------------ flags *)
Lemma contains_flag_true : forall prev c d,
  contains_flag prev c d = true <-> exists r, In r prev /\ rr_rep r = c /\ rr_sds r = d.
Proof.
  intros. unfold contains_flag. rewrite existsb_exists. split.
  - intros [r [Hr H]]. apply andb_true_iff in H. destruct H as [H1 H2].
    apply Z.eqb_eq in H1, H2. eauto.
  - intros [r [Hr [H1 H2]]]. exists r. split; [assumption|]. rewrite H1, H2, !Z.eqb_refl. reflexivity.
Qed.

Lemma duplicate_criteria_flags : forall dfs prev c1 c2,
  duplicate_criteria (flags_of dfs prev c1) (flags_of dfs prev c2)
  = existsb (fun d => contains_flag prev c1 d && contains_flag prev c2 d) dfs.
Proof.
  intros. unfold duplicate_criteria, flags_of. induction dfs as [|d t IH]; simpl; [reflexivity|].
  rewrite IH. reflexivity.
Qed.

Lemma with_flags_in : forall dfs prev w,
  In w (df_representatives_with_flags dfs prev) <->
  exists r, In r prev /\ w = {| wf_node := rr_node r; wf_sds := rr_sds r; wf_rep := rr_rep r;
                                wf_flags := flags_of dfs prev (rr_rep r) |}.
Proof.
  intros. unfold df_representatives_with_flags. rewrite in_map_iff. split.
  - intros [[r cf] [Heq Hin]]. apply in_join in Hin. destruct Hin as (Hr & Hcf & Hon).
    unfold representative_contains_flags in Hcf. apply in_map_iff in Hcf.
    destruct Hcf as [c [<- Hc]]. simpl in *. apply Z.eqb_eq in Hon. subst c.
    exists r. split; [assumption|]. symmetry. exact Heq.
  - intros [r [Hr ->]]. exists (r, (rr_rep r, flags_of dfs prev (rr_rep r))). split; [reflexivity|].
    apply in_join. split; [assumption|]. split; [|simpl; apply Z.eqb_refl].
    unfold representative_contains_flags.
    apply in_map with (f := fun c => (c, flags_of dfs prev c)).
    apply nodup_In. apply in_map. assumption.
Qed.

(* ------------------------------------------------------------------ candidates *)
Definition no_shared (dfs : list Z) (prev : list reprow) (c1 c2 : Z) : Prop :=
  forall d, In d dfs -> ~ (contains_flag prev c1 d = true /\ contains_flag prev c2 d = true).

Lemma dupcrit_false_iff : forall dfs prev c1 c2,
  duplicate_criteria (flags_of dfs prev c1) (flags_of dfs prev c2) = false <-> no_shared dfs prev c1 c2.
Proof.
  intros. rewrite duplicate_criteria_flags. unfold no_shared. split.
  - intros H d Hd [H1 H2]. assert (existsb (fun d => contains_flag prev c1 d && contains_flag prev c2 d) dfs = true).
    { apply existsb_exists. exists d. rewrite H1, H2. auto. } congruence.
  - intros H. apply not_true_is_false. intro Hex. apply existsb_exists in Hex.
    destruct Hex as [d [Hd Hb]]. apply andb_true_iff in Hb. exact (H d Hd Hb).
Qed.

Lemma candidates_in : forall dfs nbs prev a,
  In a (candidates dfs nbs prev) <->
  exists nb rl rr, In nb nbs /\ In rl prev /\ In rr prev /\
    nb_node nb = rr_node rl /\ nb_nb nb = rr_node rr /\
    rr_rep rl <> rr_rep rr /\ no_shared dfs prev (rr_rep rl) (rr_rep rr) /\
    a = {| c_rid := nb_rid nb; c_node := nb_node nb; c_nb := nb_nb nb; c_p := nb_p nb;
           c_lrep := rr_rep rl; c_rrep := rr_rep rr |}.
Proof.
  intros. unfold candidates. rewrite in_map_iff. split.
  - intros [[[nb l] r] [Heq Hin]]. apply filter_In in Hin. destruct Hin as [Hin Hw].
    apply in_join in Hin. destruct Hin as (Hnl & Hr & Hon2). simpl in Hon2.
    apply in_join in Hnl. destruct Hnl as (Hnb & Hl & Hon1).
    apply with_flags_in in Hl. destruct Hl as [rl [Hrl ->]].
    apply with_flags_in in Hr. destruct Hr as [rr [Hrr ->]]. simpl in *.
    apply andb_true_iff in Hw. destruct Hw as [Hne Hdc].
    apply negb_true_iff in Hne, Hdc. apply Z.eqb_neq in Hne. apply dupcrit_false_iff in Hdc.
    apply Z.eqb_eq in Hon1, Hon2.
    exists nb, rl, rr. repeat split; auto.
  - intros (nb & rl & rr & Hnb & Hrl & Hrr & H1 & H2 & Hne & Hns & ->).
    exists (nb, {| wf_node := rr_node rl; wf_sds := rr_sds rl; wf_rep := rr_rep rl; wf_flags := flags_of dfs prev (rr_rep rl) |},
            {| wf_node := rr_node rr; wf_sds := rr_sds rr; wf_rep := rr_rep rr; wf_flags := flags_of dfs prev (rr_rep rr) |}).
    split; [reflexivity|]. apply filter_In. split.
    + apply in_join. split; [|split].
      * apply in_join. split; [assumption|]. split; [apply with_flags_in; eauto|]. simpl. apply Z.eqb_eq. assumption.
      * apply with_flags_in; eauto.
      * simpl. apply Z.eqb_eq. assumption.
    + simpl. apply andb_true_iff. split; apply negb_true_iff.
      * apply Z.eqb_neq. assumption.
      * apply dupcrit_false_iff. assumption.
Qed.

Lemma same_row_node : forall a b, same_row a b = true -> c_node a = c_node b /\ c_nb a = c_nb b.
Proof.
  unfold same_row. intros a b H. apply andb_true_iff in H. destruct H as [H _].
  apply andb_true_iff in H. destruct H as [H H2].
  apply andb_true_iff in H. destruct H as [_ H1]. apply Z.eqb_eq in H1, H2. tauto.
Qed.

(* ------------------------------------------------------------------ one step *)
Section Step.
  Variable dfs : list Z.
  Variable nbs : list nbrow.
  Variables chl chr : chooser.
  Variable it : nat.
  Variable prev : list reprow.
  Hypothesis Hnd : NoDup (map rr_node prev).

  Let acc := df_neighbours_k dfs nbs chl chr it prev.
  Let src := source dfs nbs chl chr it prev.
  Definition vals (v : Z) : list Z := map snd (filter (fun s => fst s =? v) src).

  Lemma vals_in : forall v c,
    In c (vals v) <->
    (exists a r, In a acc /\ In r prev /\ c_node a = v /\ c_nb a = rr_node r /\ rr_rep r = c)
    \/ (exists r, In r prev /\ rr_node r = v /\ rr_rep r = c).
  Proof.
    intros. unfold vals. rewrite in_map_iff. split.
    - intros [[k c0] [Hc H]]. simpl in Hc. subst c0. apply filter_In in H. destruct H as [H Hk].
      simpl in Hk. apply Z.eqb_eq in Hk. subst k. unfold src, source in H. apply in_app_or in H.
      destruct H as [H|H]; apply in_map_iff in H.
      + destruct H as [[a r] [Heq H]]. apply in_join in H. destruct H as (Ha & Hr & Hon).
        apply Z.eqb_eq in Hon. simpl in Heq. inversion Heq. left. exists a, r. auto.
      + destruct H as [r [Heq Hr]]. inversion Heq. right. exists r. auto.
    - intros [[a [r (Ha & Hr & Hv & Hn & Hc)]]|[r (Hr & Hv & Hc)]].
      + exists (v, c). split; [reflexivity|]. apply filter_In. split; [|simpl; apply Z.eqb_refl].
        unfold src, source. apply in_or_app. left. apply in_map_iff. exists (a, r). simpl.
        split; [congruence|]. apply in_join. split; [assumption|]. split; [assumption|]. apply Z.eqb_eq. assumption.
      + exists (v, c). split; [reflexivity|]. apply filter_In. split; [|simpl; apply Z.eqb_refl].
        unfold src, source. apply in_or_app. right. apply in_map_iff. exists r. split; [congruence|assumption].
  Qed.

  Lemma vals_nonempty : forall r, In r prev -> vals (rr_node r) <> [].
  Proof.
    intros r Hr Hnil. assert (H : In (rr_rep r) (vals (rr_node r))) by (apply vals_in; right; eauto).
    rewrite Hnil in H. exact H.
  Qed.

  Lemma step_in : forall x,
    In x (oto_step dfs nbs chl chr it prev) <->
    exists r, In r prev /\
      x = (rr_node r, minl (vals (rr_node r)), rr_sds r, negb (minl (vals (rr_node r)) =? rr_rep r)).
  Proof.
    intros. unfold oto_step, df_representatives_k. rewrite in_map_iff. split.
    - intros [[[k m] p] [Heq H]]. apply in_join in H. destruct H as (Hr & Hp & Hon).
      simpl in Hon. apply Z.eqb_eq in Hon. subst k. unfold r_table in Hr. apply in_map_iff in Hr.
      destruct Hr as [k [Hk _]]. inversion Hk; subst. exists p. split; [assumption|]. simpl. reflexivity.
    - intros [r [Hr ->]]. exists ((rr_node r, minl (vals (rr_node r))), r). split; [reflexivity|].
      apply in_join. split; [|split; [assumption|simpl; apply Z.eqb_refl]].
      unfold r_table. apply in_map_iff. exists (rr_node r). split; [reflexivity|].
      apply nodup_In. unfold source. rewrite map_app. apply in_or_app. right.
      rewrite map_map. simpl. apply in_map_iff. exists r. auto.
  Qed.

  Lemma step_nodes_nodup : NoDup (map rr_node (strip (oto_step dfs nbs chl chr it prev))).
  Proof.
    unfold strip, oto_step, df_representatives_k. rewrite !map_map.
    apply join_keys_nodup with (f := fun r : Z * Z => fst r).
    - unfold r_table. rewrite map_map. simpl. rewrite map_id. apply NoDup_nodup.
    - intros x _. apply filter_le1 with (g := rr_node) (k := fst x); [assumption|].
      intros y _ H. apply Z.eqb_eq in H. auto.
  Qed.

  Lemma strip_step_in : forall v c s,
    In (v, c, s) (strip (oto_step dfs nbs chl chr it prev)) <->
    exists c0, In (v, c0, s) prev /\ c = minl (vals v).
  Proof.
    intros. unfold strip. rewrite in_map_iff. split.
    - intros [x [Hx Hin]]. apply step_in in Hin. destruct Hin as [[[v0 c0] s0] [Hr ->]].
      simpl in Hx. inversion Hx; subst. exists c0. auto.
    - intros [c0 [Hr ->]]. exists (v, minl (vals v), s, negb (minl (vals v) =? c0)). split; [reflexivity|].
      apply step_in. exists (v, c0, s). auto.
  Qed.

  (* the new representative is the old one or the neighbour's through an accepted row *)
  Lemma new_rep_cases : forall v c0 s,
    In (v, c0, s) prev ->
    minl (vals v) = c0 \/
    exists a r, In a acc /\ In r prev /\ c_node a = v /\ c_nb a = rr_node r /\ rr_rep r = minl (vals v).
  Proof.
    intros v c0 s Hr. pose proof (minl_in (vals v) (vals_nonempty _ Hr)) as Hin.
    apply vals_in in Hin. destruct Hin as [(a & r & H)|(r & Hr' & Hv & Hc)].
    - right. exists a, r. tauto.
    - left. assert (r = (v, c0, s)) by (apply nodup_key_unique with prev; auto). subst r. symmetry. exact Hc.
  Qed.

  Lemma new_rep_le : forall v c0 s, In (v, c0, s) prev -> minl (vals v) <= c0.
  Proof. intros. apply minl_le. apply vals_in. right. exists (v, c0, s). auto. Qed.

  (* accepted rows *)
  Lemma acc_in : forall a, In a acc ->
    In a (candidates dfs nbs prev) /\
    same_row a (chl it (c_lrep a) (part_l (candidates dfs nbs prev) (c_lrep a))) = true /\
    same_row a (chr it (c_rrep a) (part_r (candidates dfs nbs prev) (c_rrep a))) = true.
  Proof.
    intros a H. unfold acc, df_neighbours_k in H. apply filter_In in H. destruct H as [H Hb].
    apply andb_true_iff in Hb. unfold rank_l_is_1, rank_r_is_1 in Hb. tauto.
  Qed.

  (* at most one node enters a class per iteration *)
  Lemma acc_entering_unique : forall a1 a2, In a1 acc -> In a2 acc -> c_rrep a1 = c_rrep a2 -> c_node a1 = c_node a2.
  Proof.
    intros a1 a2 H1 H2 Heq. apply acc_in in H1, H2. destruct H1 as (_ & _ & H1), H2 as (_ & _ & H2).
    rewrite Heq in H1. apply same_row_node in H1, H2. destruct H1, H2. congruence.
  Qed.

  Lemma dupfree_step : dupfree dfs prev -> dupfree dfs (strip (oto_step dfs nbs chl chr it prev)).
  Proof.
    intros Hdf [[v1 c] s1] [[v2 c'] s2] H1 H2. unfold rr_rep, rr_sds, rr_node. simpl.
    intros <- <- Hd. apply strip_step_in in H1, H2.
    destruct H1 as [c1 [Hp1 Hc1]], H2 as [c2 [Hp2 Hc2]].
    destruct (new_rep_cases _ _ _ Hp1) as [E1|(a1 & r1 & Ha1 & Hr1 & Hn1 & Hb1 & Hrep1)];
    destruct (new_rep_cases _ _ _ Hp2) as [E2|(a2 & r2 & Ha2 & Hr2 & Hn2 & Hb2 & Hrep2)].
    - (* both stayed *)
      apply (Hdf (v1, c1, s1) (v2, c2, s1)); auto. unfold rr_rep. simpl. congruence.
    - (* v1 was in class c, v2 enters it: the flags forbid the row *)
      exfalso. destruct (acc_in _ Ha2) as (Hc & _ & _). apply candidates_in in Hc.
      destruct Hc as (nb & rl & rr & _ & Hrl & Hrr & Hnl & Hnr & _ & Hns & Heq).
      rewrite Heq in Hn2, Hb2. simpl in Hn2, Hb2.
      assert (rl = (v2, c2, s1)) by (apply nodup_key_unique with prev; auto; change (rr_node rl = v2); congruence).
      assert (rr = r2) by (apply nodup_key_unique with prev; auto; congruence).
      subst rl rr. apply (Hns s1 Hd). split; apply contains_flag_true.
      + exists (v2, c2, s1). auto.
      + exists (v1, c1, s1). split; [assumption|]. split; [change (c1 = rr_rep r2); congruence|reflexivity].
    - exfalso. destruct (acc_in _ Ha1) as (Hc & _ & _). apply candidates_in in Hc.
      destruct Hc as (nb & rl & rr & _ & Hrl & Hrr & Hnl & Hnr & _ & Hns & Heq).
      rewrite Heq in Hn1, Hb1. simpl in Hn1, Hb1.
      assert (rl = (v1, c1, s1)) by (apply nodup_key_unique with prev; auto; change (rr_node rl = v1); congruence).
      assert (rr = r1) by (apply nodup_key_unique with prev; auto; congruence).
      subst rl rr. apply (Hns s1 Hd). split; apply contains_flag_true.
      + exists (v1, c1, s1). auto.
      + exists (v2, c2, s1). split; [assumption|]. split; [change (c2 = rr_rep r1); congruence|reflexivity].
    - (* both entered: only one row enters a class *)
      assert (Hrr1 : c_rrep a1 = rr_rep r1).
      { destruct (acc_in _ Ha1) as (Hc & _ & _). apply candidates_in in Hc.
        destruct Hc as (nb & rl & rr & _ & Hrl & Hrr & Hnl & Hnr & _ & _ & Heq).
        rewrite Heq in Hb1 |- *. simpl in *. f_equal. apply nodup_key_unique with prev; auto. congruence. }
      assert (Hrr2 : c_rrep a2 = rr_rep r2).
      { destruct (acc_in _ Ha2) as (Hc & _ & _). apply candidates_in in Hc.
        destruct Hc as (nb & rl & rr & _ & Hrl & Hrr & Hnl & Hnr & _ & _ & Heq).
        rewrite Heq in Hb2 |- *. simpl in *. f_equal. apply nodup_key_unique with prev; auto. congruence. }
      rewrite <- Hn1, <- Hn2. apply acc_entering_unique; auto. congruence.
  Qed.
End Step.

(* ------------------------------------------------------------------ invariant over the loop *)
Definition same_records (t1 t2 : list reprow) : Prop :=
  forall v s, (exists c, In (v, c, s) t1) <-> (exists c, In (v, c, s) t2).

Lemma step_same_records : forall dfs nbs chl chr it prev,
  NoDup (map rr_node prev) -> same_records prev (strip (oto_step dfs nbs chl chr it prev)).
Proof.
  intros. intros v s. split.
  - intros [c Hc]. eexists. apply strip_step_in; eauto.
  - intros [c Hc]. apply strip_step_in in Hc; auto. destruct Hc as [c0 [Hc0 _]]. eauto.
Qed.

Definition inv (dfs : list Z) (t0 t : list reprow) : Prop :=
  NoDup (map rr_node t) /\ same_records t0 t /\ dupfree dfs t.

Lemma inv_step : forall dfs nbs chl chr it t0 t,
  inv dfs t0 t -> inv dfs t0 (strip (oto_step dfs nbs chl chr it t)).
Proof.
  intros dfs nbs chl chr it t0 t (Hnd & Hsame & Hdf). split; [|split].
  - apply step_nodes_nodup. assumption.
  - intros v s. rewrite (Hsame v s). apply step_same_records. assumption.
  - apply dupfree_step; assumption.
Qed.

Lemma inv_iter : forall dfs nbs chl chr k it t0 t,
  inv dfs t0 t -> inv dfs t0 (oto_iter dfs nbs chl chr k it t).
Proof.
  induction k; intros; simpl; [assumption|]. apply IHk. apply inv_step. assumption.
Qed.

Lemma inv_loop : forall dfs nbs chl chr fuel it t0 t out,
  inv dfs t0 t -> oto_loop dfs nbs chl chr fuel it t = Some out -> inv dfs t0 out.
Proof.
  induction fuel; intros it t0 t out Hinv H; simpl in H; [discriminate|].
  destruct (Nat.eqb _ 0).
  - inversion H; subst. apply inv_step. assumption.
  - eapply IHfuel; [|exact H]. apply inv_step. assumption.
Qed.

Lemma inv_init : forall dfs nodes,
  NoDup (map n_id nodes) -> inv dfs (df_representatives nodes) (df_representatives nodes).
Proof.
  intros dfs nodes Hnd. unfold df_representatives. split; [|split].
  - rewrite map_map. simpl. exact Hnd.
  - intros v s. tauto.
  - intros r1 r2 H1 H2 Hrep _ _. apply in_map_iff in H1, H2.
    destruct H1 as [n1 [<- _]], H2 as [n2 [<- _]]. unfold rr_rep, rr_node in *. simpl in *. exact Hrep.
Qed.

Lemma init_records : forall nodes v s,
  In (v, s) nodes <-> exists c, In (v, c, s) (df_representatives nodes).
Proof.
  intros. unfold df_representatives. split.
  - intros H. exists v. apply in_map_iff. exists (v, s). auto.
  - intros [c H]. apply in_map_iff in H. destruct H as [[v0 s0] [Heq H]].
    unfold n_id, n_sds in Heq. simpl in Heq. inversion Heq; subst. assumption.
Qed.

(* the loop only exits when nothing changed: the exit table is a fixpoint of the step *)
Lemma count_zero_no_update : forall t, count_needs_updating t = O -> forall x, In x t -> snd x = false.
Proof.
  unfold count_needs_updating. intros t H x Hx. destruct (snd x) eqn:E; [|reflexivity].
  assert (In x (filter snd t)) by (apply filter_In; auto).
  destruct (filter snd t); [contradiction|discriminate].
Qed.

Lemma loop_exit : forall dfs nbs chl chr fuel it t out,
  oto_loop dfs nbs chl chr fuel it t = Some out ->
  exists it' t', out = strip (oto_step dfs nbs chl chr it' t') /\
                 count_needs_updating (oto_step dfs nbs chl chr it' t') = O /\
                 exists k, t' = oto_iter dfs nbs chl chr k it t /\ it' = (it + k)%nat.
Proof.
  induction fuel; intros it t out H; simpl in H; [discriminate|].
  destruct (Nat.eqb _ 0) eqn:E.
  - inversion H; subst. exists it, t. split; [reflexivity|]. split; [apply Nat.eqb_eq; exact E|].
    exists O. simpl. split; [reflexivity|lia].
  - apply IHfuel in H. destruct H as (it' & t' & Hout & Hc & k & Ht' & Hit').
    exists it', t'. split; [assumption|]. split; [assumption|]. exists (S k). simpl. split; [assumption|lia].
Qed.

(* ------------------------------------------------------------------ concrete choosers satisfy rank1_ok *)
Lemma argmax_spec : forall rows best,
  In (argmax best rows) (best :: rows) /\
  forall r, In r (best :: rows) -> (c_p r <= c_p (argmax best rows))%Q.
Proof.
  induction rows as [|x t IH]; intros best; simpl.
  - split; [tauto|]. intros r [<-|[]]. apply Qle_refl.
  - destruct (Qle_bool (c_p x) (c_p best)) eqn:E.
    + destruct (IH best) as [Hin Hmax]. split.
      * simpl in Hin. tauto.
      * intros r [<-|[<-|Hr]].
        -- apply Hmax. left. reflexivity.
        -- apply Qle_trans with (c_p best); [apply Qle_bool_iff; exact E|apply Hmax; left; reflexivity].
        -- apply Hmax. right. assumption.
    + destruct (IH x) as [Hin Hmax]. split.
      * simpl in Hin. tauto.
      * assert (Hlt : (c_p best < c_p x)%Q).
        { apply Qnot_le_lt. intro H. apply Qle_bool_iff in H. congruence. }
        intros r [<-|[<-|Hr]].
        -- apply Qle_trans with (c_p x); [apply Qlt_le_weak; exact Hlt|apply Hmax; left; reflexivity].
        -- apply Hmax. left. reflexivity.
        -- apply Hmax. right. assumption.
Qed.

Lemma first_max_ok : rank1_ok first_max.
Proof.
  intros it k rows Hne. unfold first_max. destruct rows as [|r t]; [congruence|]. apply argmax_spec.
Qed.

(* the last row of maximal probability: a second legal tie-break *)
Fixpoint argmax_last (best : crow) (rows : list crow) : crow :=
  match rows with
  | [] => best
  | r :: t => argmax_last (if Qle_bool (c_p best) (c_p r) then r else best) t
  end.
Definition last_max : chooser :=
  fun _ _ rows => match rows with [] => dummy_row | r :: t => argmax_last r t end.

Lemma argmax_last_spec : forall rows best,
  In (argmax_last best rows) (best :: rows) /\
  forall r, In r (best :: rows) -> (c_p r <= c_p (argmax_last best rows))%Q.
Proof.
  induction rows as [|x t IH]; intros best; simpl.
  - split; [tauto|]. intros r [<-|[]]. apply Qle_refl.
  - destruct (Qle_bool (c_p best) (c_p x)) eqn:E.
    + destruct (IH x) as [Hin Hmax]. split.
      * simpl in Hin. tauto.
      * intros r [<-|[<-|Hr]].
        -- apply Qle_trans with (c_p x); [apply Qle_bool_iff; exact E|apply Hmax; left; reflexivity].
        -- apply Hmax. left. reflexivity.
        -- apply Hmax. right. assumption.
    + destruct (IH best) as [Hin Hmax]. split.
      * simpl in Hin. tauto.
      * assert (Hlt : (c_p x < c_p best)%Q).
        { apply Qnot_le_lt. intro H. apply Qle_bool_iff in H. congruence. }
        intros r [<-|[<-|Hr]].
        -- apply Hmax. left. reflexivity.
        -- apply Qle_trans with (c_p best); [apply Qlt_le_weak; exact Hlt|apply Hmax; left; reflexivity].
        -- apply Hmax. right. assumption.
Qed.

Lemma last_max_ok : rank1_ok last_max.
Proof.
  intros it k rows Hne. unfold last_max. destruct rows as [|r t]; [congruence|]. apply argmax_last_spec.
Qed.

(* ------------------------------------------------------------------ the returned table *)
Lemma output_dupfree :
  forall dfs thr (chl chr : chooser) fuel nodes E out,
    NoDup (map n_id nodes) ->
    one_to_one_clustering dfs thr chl chr fuel nodes E = Some out ->
    NoDup (map fst out) /\
    (forall v, In v (map n_id nodes) <-> In v (map fst out)) /\
    forall v1 v2 c s, In (v1, c) out -> In (v2, c) out -> In (v1, s) nodes -> In (v2, s) nodes ->
                      In s dfs -> v1 = v2.
Proof.
  intros dfs thr chl chr fuel nodes E out Hnd H. unfold one_to_one_clustering in H.
  destruct (oto_loop _ _ _ _ _ _ _) as [t|] eqn:Hl; [|discriminate]. simpl in H. inversion H; subst out. clear H.
  destruct (inv_loop _ _ _ _ _ _ _ _ _ (inv_init dfs nodes Hnd) Hl) as (Hnd' & Hsame & Hdf).
  assert (Hrec : forall v s, In (v, s) nodes <-> exists c, In (v, c, s) t).
  { intros v s. rewrite init_records. apply Hsame. }
  rewrite map_map. simpl. split; [exact Hnd'|]. split.
  - intros v. split; intros Hv; apply in_map_iff in Hv.
    + destruct Hv as [[v0 s] [<- Hn]]. apply Hrec in Hn. destruct Hn as [c Hc].
      apply in_map_iff. exists (v0, c, s). auto.
    + destruct Hv as [[[v0 c] s] [<- Hc]]. apply in_map_iff. exists (v0, s). split; [reflexivity|].
      apply Hrec. eauto.
  - intros v1 v2 c s H1 H2 Hn1 Hn2 Hs.
    assert (Hfix : forall v, In (v, c) (map (fun r => (rr_node r, rr_rep r)) t) -> In (v, s) nodes -> In (v, c, s) t).
    { intros v Hv Hn. apply in_map_iff in Hv. destruct Hv as [[[v0 c0] s0] [Heq Hin]].
      unfold rr_node, rr_rep in Heq. simpl in Heq. inversion Heq; subst.
      apply Hrec in Hn. destruct Hn as [c' Hc'].
      assert (Hx : (v, c, s0) = (v, c', s)) by (apply nodup_key_unique with t; auto).
      inversion Hx; subst. assumption. }
    apply (Hdf (v1, c, s) (v2, c, s)); auto.
Qed.

(* ------------------------------------------------------------------ ties: connectivity can fail *)
Definition w_nodes : list node := [(0,0);(1,0);(2,0);(3,1);(4,0)].
Definition w_edges : list edge := [(0,3,(7#10)%Q);(1,4,(9#10)%Q);(2,4,(9#10)%Q);(3,4,(9#10)%Q)].
Definition w_out : list reprow := [(0,0,0);(1,1,0);(2,1,0);(3,0,1);(4,0,0)].

Lemma w_loop :
  oto_loop [1] (df_neighbours (Some (1#2)%Q) w_edges) first_max last_max 20 1 (df_representatives w_nodes)
  = Some w_out.
Proof. vm_compute. reflexivity. Qed.

Lemma w_not_in_class : ~ in_class w_out 1 4.
Proof.
  intros [s H]. unfold w_out in H. simpl in H.
  repeat (destruct H as [H|H]; [inversion H|]). exact H.
Qed.

Lemma w_tedge_from_1 : forall w, tedge (Some (1#2)%Q) w_edges 1 w -> w = 4.
Proof.
  intros w (e & He & _ & Hends). unfold w_edges in He. simpl in He.
  repeat (destruct He as [<-|He]; [unfold e_l, e_r in Hends; simpl in Hends; lia|]). contradiction.
Qed.

Lemma connected_ties_refuted :
  exists dfs thr nodes E (chl chr : chooser) fuel out c v w,
    NoDup (map n_id nodes) /\ rank1_ok chl /\ rank1_ok chr /\
    oto_loop dfs (df_neighbours thr E) chl chr fuel 1 (df_representatives nodes) = Some out /\
    in_class out c v /\ in_class out c w /\
    ~ conn_in thr E (in_class out c) v w.
Proof.
  exists [1], (Some (1#2)%Q), w_nodes, w_edges, first_max, last_max, 20%nat, w_out, 1, 1, 2.
  split. { unfold w_nodes. simpl. repeat constructor; simpl; intuition lia. }
  split; [exact first_max_ok|]. split; [exact last_max_ok|]. split; [exact w_loop|].
  split. { exists 0. unfold w_out. simpl. tauto. }
  split. { exists 0. unfold w_out. simpl. tauto. }
  intro H. inversion H as [|v w u _ Hte Hrest]; subst.
  apply w_tedge_from_1 in Hte. subst w.
  inversion Hrest as [v Hp|v w u Hp _ _]; subst; apply w_not_in_class; exact Hp.
Qed.

(* ------------------------------------------------------------------ the neighbours table *)
Definition fwd (i : nat) (e : edge) : nbrow :=
  {| nb_rid := (i, false); nb_node := e_l e; nb_nb := e_r e; nb_p := e_p e |}.
Definition bwd (i : nat) (e : edge) : nbrow :=
  {| nb_rid := (i, true); nb_node := e_r e; nb_nb := e_l e; nb_p := e_p e |}.

Lemma nbs_in : forall thr E nb,
  In nb (df_neighbours thr E) <->
  exists i e, In (i, e) (indexed E) /\ above thr (e_p e) = true /\ (nb = fwd i e \/ nb = bwd i e).
Proof.
  intros. unfold df_neighbours. rewrite in_app_iff, !in_map_iff. split.
  - intros [[[i e] [Heq H]]|[[i e] [Heq H]]]; apply filter_In in H; destruct H as [H Ha];
      exists i, e; (split; [assumption|]); (split; [assumption|]); [left|right]; symmetry; exact Heq.
  - intros (i & e & Hin & Ha & [-> | ->]); [left|right]; exists (i, e); (split; [reflexivity|]);
      apply filter_In; split; assumption.
Qed.

Lemma indexed_bounds : forall (l : list edge) k i e,
  In (i, e) (combine (seq k (length l)) l) -> (k <= i)%nat /\ In e l.
Proof.
  induction l as [|a l IH]; intros k i e H; [contradiction|]. cbn [length seq combine] in H.
  destruct H as [H|H].
  - inversion H; subst. split; [lia|left; reflexivity].
  - apply IH in H. destruct H. split; [lia|right; assumption].
Qed.

Lemma in_indexed : forall (l : list edge) k e, In e l -> exists i, In (i, e) (combine (seq k (length l)) l).
Proof.
  induction l as [|a l IH]; intros k e H; [contradiction|]. cbn [length seq combine].
  destruct H as [->|H]; [exists k; left; reflexivity|].
  destruct (IH (S k) e H) as [i Hi]. exists i. right. assumption.
Qed.

(* ------------------------------------------------------------------ rank orders (the ORDER BY of the windows) *)
Record rank_order (le : rank_le) : Prop := {
  ro_total : forall e e', le e e' = true \/ le e' e = true;
  ro_trans : forall e1 e2 e3, le e1 e2 = true -> le e2 e3 = true -> le e1 e3 = true;
  ro_flip_l : forall e e', le (flip e) e' = le e e';
  ro_flip_r : forall e e', le e (flip e') = le e e' }.

(* the same edge up to orientation *)
Definition req (e e' : edge) : Prop := e' = e \/ e' = flip e.

Lemma le_req : forall le, rank_order le -> forall e e' e1 e2, req e e1 -> req e' e2 -> le e1 e2 = le e e'.
Proof.
  intros le Ho e e' e1 e2 [->| ->] [->| ->]; try reflexivity.
  - apply ro_flip_r; assumption.
  - apply ro_flip_l; assumption.
  - rewrite (ro_flip_l le Ho), (ro_flip_r le Ho). reflexivity.
Qed.

Lemma strict_index : forall le (l : list edge) k i j e e',
  strict_rank le l ->
  In (i, e) (combine (seq k (length l)) l) -> In (j, e') (combine (seq k (length l)) l) ->
  le e e' = true -> le e' e = true -> i = j /\ e = e'.
Proof.
  intros le. induction l as [|a l IH]; intros k i j e e' Htf Hi Hj H1 H2; [contradiction|].
  inversion Htf as [|? ? Hfa Htf']; subst. cbn [length seq combine] in Hi, Hj.
  destruct Hi as [Hi|Hi], Hj as [Hj|Hj].
  - inversion Hi; inversion Hj; subst. auto.
  - exfalso. inversion Hi; subst. apply indexed_bounds in Hj. destruct Hj as [_ Hj].
    rewrite Forall_forall in Hfa. apply (Hfa e' Hj). auto.
  - exfalso. inversion Hj; subst. apply indexed_bounds in Hi. destruct Hi as [_ Hi].
    rewrite Forall_forall in Hfa. apply (Hfa e Hi). auto.
  - apply (IH (S k)); assumption.
Qed.

Lemma fop_impl : forall (A : Type) (R R' : A -> A -> Prop) l,
  (forall a b, R a b -> R' a b) -> ForallOrdPairs R l -> ForallOrdPairs R' l.
Proof.
  intros A R R' l H Hf. induction Hf; constructor; [|assumption].
  rewrite Forall_forall in *. auto.
Qed.

(* order by match_probability desc *)
Lemma le_prob_order : rank_order le_prob.
Proof.
  split; unfold le_prob.
  - intros e e'. destruct (Qlt_le_dec (e_p e') (e_p e)) as [H|H].
    + right. apply Qle_bool_iff. apply Qlt_le_weak. assumption.
    + left. apply Qle_bool_iff. assumption.
  - intros e1 e2 e3 H1 H2. apply Qle_bool_iff in H1, H2. apply Qle_bool_iff. eapply Qle_trans; eassumption.
  - reflexivity.
  - reflexivity.
Qed.

Lemma tie_free_strict : forall E, tie_free E -> strict_rank le_prob E.
Proof.
  intros E. apply fop_impl. intros a b Hne [H1 H2]. unfold le_prob in *.
  apply Qle_bool_iff in H1, H2. apply Hne. apply Qle_antisym; assumption.
Qed.

Lemma rank1_ok_prob : forall ch, rank1_ok ch -> rank1_ok_for le_prob ch.
Proof.
  intros ch H it k rows Hne. destruct (H it k rows Hne) as [Hin Hmax]. split; [assumption|].
  intros r Hr. unfold le_prob, row_edge, e_p. cbn [snd]. apply Qle_bool_iff. apply Hmax. assumption.
Qed.

(* order by match_probability desc, least(node_id, neighbour), greatest(node_id, neighbour) *)
Lemma e_p_flip : forall e, e_p (flip e) = e_p e. Proof. reflexivity. Qed.
Lemma e_lo_flip : forall e, e_lo (flip e) = e_lo e.
Proof. intros. unfold e_lo, flip, e_l, e_r. cbn [fst snd]. apply Z.min_comm. Qed.
Lemma e_hi_flip : forall e, e_hi (flip e) = e_hi e.
Proof. intros. unfold e_hi, flip, e_l, e_r. cbn [fst snd]. apply Z.max_comm. Qed.

Lemma le_tiebreak_char : forall e1 e2,
  le_tiebreak e1 e2 = true <->
  (e_p e1 < e_p e2)%Q \/
  ((e_p e1 == e_p e2)%Q /\ (e_lo e2 < e_lo e1 \/ (e_lo e2 = e_lo e1 /\ e_hi e2 <= e_hi e1))).
Proof.
  intros e1 e2. unfold le_tiebreak. destruct (Qeq_bool (e_p e1) (e_p e2)) eqn:Eq.
  - apply Qeq_bool_iff in Eq. rewrite orb_true_iff, andb_true_iff, Z.ltb_lt, Z.eqb_eq, Z.leb_le. split.
    + intros H. right. split; assumption.
    + intros [H|[_ H]]; [|assumption]. exfalso. rewrite Eq in H. exact (Qlt_irrefl _ H).
  - assert (Hne : ~ (e_p e1 == e_p e2)%Q) by (intro H; apply Qeq_bool_iff in H; congruence).
    rewrite Qle_bool_iff. split.
    + intros H. left. apply Qle_lteq in H. destruct H; [assumption|contradiction].
    + intros [H|[H _]]; [apply Qlt_le_weak; assumption|contradiction].
Qed.

Lemma le_tiebreak_order : rank_order le_tiebreak.
Proof.
  split.
  - intros e e'. rewrite !le_tiebreak_char.
    destruct (Q_dec (e_p e) (e_p e')) as [[H|H]|H]; [left; left; assumption|right; left; assumption|].
    destruct (Z_lt_le_dec (e_lo e') (e_lo e)) as [Hl|Hl]; [left; right; split; [assumption|left; assumption]|].
    destruct (Z_lt_le_dec (e_lo e) (e_lo e')) as [Hl'|Hl']; [right; right; split; [symmetry; assumption|left; assumption]|].
    destruct (Z_le_gt_dec (e_hi e') (e_hi e)) as [Hh|Hh].
    + left. right. split; [assumption|]. right. lia.
    + right. right. split; [symmetry; assumption|]. right. lia.
  - intros e1 e2 e3. rewrite !le_tiebreak_char. intros [H1|[H1 K1]] [H2|[H2 K2]].
    + left. eapply Qlt_trans; eassumption.
    + left. rewrite <- H2. assumption.
    + left. rewrite H1. assumption.
    + right. split; [rewrite H1; assumption|lia].
  - intros e e'. unfold le_tiebreak. rewrite e_p_flip, e_lo_flip, e_hi_flip. reflexivity.
  - intros e e'. unfold le_tiebreak. rewrite e_p_flip, e_lo_flip, e_hi_flip. reflexivity.
Qed.

Lemma nodup_pairs_strict : forall E, nodup_pairs E -> strict_rank le_tiebreak E.
Proof.
  intros E. apply fop_impl. intros a b Hne [H1 H2]. apply le_tiebreak_char in H1, H2. apply Hne.
  destruct H1 as [H1|[H1 K1]], H2 as [H2|[H2 K2]].
  - exfalso. apply (Qlt_irrefl (e_p a)). eapply Qlt_trans; eassumption.
  - exfalso. rewrite H2 in H1. exact (Qlt_irrefl _ H1).
  - exfalso. rewrite H1 in H2. exact (Qlt_irrefl _ H2).
  - split; [assumption|lia].
Qed.

Lemma le_tiebreak_refines_prob : forall ch, rank1_ok_for le_tiebreak ch -> rank1_ok ch.
Proof.
  intros ch H it k rows Hne. destruct (H it k rows Hne) as [Hin Hmax]. split; [assumption|].
  intros r Hr. specialize (Hmax r Hr). apply le_tiebreak_char in Hmax. unfold row_edge, e_p in Hmax. cbn [snd] in Hmax.
  destruct Hmax as [Hlt|[Heq _]]; [apply Qlt_le_weak; assumption|rewrite Heq; apply Qle_refl].
Qed.

Lemma argmax_le_spec : forall le, rank_order le -> forall rows best,
  In (argmax_le le best rows) (best :: rows) /\
  forall r, In r (best :: rows) -> le (row_edge r) (row_edge (argmax_le le best rows)) = true.
Proof.
  intros le Ho. induction rows as [|x t IH]; intros best; cbn [argmax_le].
  - split; [left; reflexivity|]. intros r [<-|[]]. destruct (ro_total le Ho (row_edge best) (row_edge best)); assumption.
  - destruct (le (row_edge x) (row_edge best)) eqn:El.
    + destruct (IH best) as [Hin Hmax]. split; [cbn [In] in *; tauto|].
      intros r [<-|[<-|Hr']].
      * apply Hmax. left. reflexivity.
      * apply (ro_trans le Ho) with (row_edge best); [assumption|apply Hmax; left; reflexivity].
      * apply Hmax. right. assumption.
    + destruct (IH x) as [Hin Hmax]. split; [cbn [In] in *; tauto|].
      assert (Hbx : le (row_edge best) (row_edge x) = true).
      { destruct (ro_total le Ho (row_edge best) (row_edge x)); [assumption|congruence]. }
      intros r [<-|[<-|Hr']].
      * apply (ro_trans le Ho) with (row_edge x); [assumption|apply Hmax; left; reflexivity].
      * apply Hmax. left. reflexivity.
      * apply Hmax. right. assumption.
Qed.

Lemma max_by_ok : forall le, rank_order le -> rank1_ok_for le (max_by le).
Proof.
  intros le Ho it k rows Hne. unfold max_by. destruct rows as [|r t]; [congruence|]. apply argmax_le_spec. assumption.
Qed.

Lemma indexed_fun : forall (l : list edge) k i e e',
  In (i, e) (combine (seq k (length l)) l) -> In (i, e') (combine (seq k (length l)) l) -> e = e'.
Proof.
  induction l as [|a l IH]; intros k i e e' H1 H2; [contradiction|]. cbn [length seq combine] in H1, H2.
  destruct H1 as [H1|H1], H2 as [H2|H2].
  - congruence.
  - inversion H1; subst. apply indexed_bounds in H2. lia.
  - inversion H2; subst. apply indexed_bounds in H1. lia.
  - apply (IH (S k) i); assumption.
Qed.

(* ------------------------------------------------------------------ strictly ranked input: maximality *)
Section Ranked.
  Variable le : rank_le.
  Hypothesis Hord : rank_order le.
  Variable dfs : list Z.
  Variable thr : option Q.
  Variable E : list edge.
  Variables chl chr : chooser.
  Variable it : nat.
  Variable prev : list reprow.
  Hypothesis Hnd : NoDup (map rr_node prev).
  Hypothesis Htf : strict_rank le E.
  Hypothesis Hl : rank1_ok_for le chl.
  Hypothesis Hr : rank1_ok_for le chr.

  Let nbs := df_neighbours thr E.
  Let rows := candidates dfs nbs prev.
  Let acc' := df_neighbours_k dfs nbs chl chr it prev.

  (* where a candidate row comes from *)
  Lemma cand_prov : forall a, In a rows ->
    exists i e rl rr, In (i, e) (indexed E) /\ above thr (e_p e) = true /\
      In rl prev /\ In rr prev /\ c_lrep a = rr_rep rl /\ c_rrep a = rr_rep rr /\
      rr_rep rl <> rr_rep rr /\ no_shared dfs prev (rr_rep rl) (rr_rep rr) /\
      c_p a = e_p e /\ c_node a = rr_node rl /\ c_nb a = rr_node rr /\
      ((c_rid a = (i, false) /\ c_node a = e_l e /\ c_nb a = e_r e) \/
       (c_rid a = (i, true) /\ c_node a = e_r e /\ c_nb a = e_l e)).
  Proof.
    intros a Ha. apply candidates_in in Ha.
    destruct Ha as (nb & rl & rr & Hnb & Hrl & Hrr & H1 & H2 & Hne & Hns & ->).
    apply nbs_in in Hnb. destruct Hnb as (i & e & Hie & Hab & Hd).
    exists i, e, rl, rr. cbn [c_rid c_node c_nb c_p c_lrep c_rrep].
    repeat (split; [first [assumption|reflexivity]|]).
    destruct Hd as [->| ->]; cbn [fwd bwd nb_rid nb_node nb_nb nb_p] in *.
    - split; [reflexivity|]. split; [assumption|]. split; [assumption|]. left. auto.
    - split; [reflexivity|]. split; [assumption|]. split; [assumption|]. right. auto.
  Qed.

  Lemma cand_req : forall a i e, c_p a = e_p e ->
    ((c_rid a = (i, false) /\ c_node a = e_l e /\ c_nb a = e_r e) \/
     (c_rid a = (i, true) /\ c_node a = e_r e /\ c_nb a = e_l e)) -> req e (row_edge a).
  Proof.
    intros a i [[l r] p] Hp [(_ & H1 & H2)|(_ & H1 & H2)]; unfold req, row_edge, flip, e_l, e_r, e_p in *;
      cbn [fst snd] in *; [left|right]; congruence.
  Qed.

  Lemma same_row_intro : forall a b,
    c_rid a = c_rid b -> c_node a = c_node b -> c_nb a = c_nb b -> (c_p a == c_p b)%Q -> same_row a b = true.
  Proof.
    intros a b H1 H2 H3 H4. unfold same_row, rid_eqb. rewrite H1, H2, H3, Nat.eqb_refl, eqb_reflx, !Z.eqb_refl.
    apply Qeq_bool_iff in H4. rewrite H4. reflexivity.
  Qed.

  Lemma tie_same_row : forall a b, In a rows -> In b rows ->
    (c_lrep a = c_lrep b \/ c_rrep a = c_rrep b) ->
    le (row_edge a) (row_edge b) = true -> le (row_edge b) (row_edge a) = true -> same_row a b = true.
  Proof.
    intros a b Ha Hb Hpart H1 H2.
    destruct (cand_prov a Ha) as (i & e & rl & rr & Hie & _ & Hrl & Hrr & Hla & Hra & Hne & _ & Hpa & Hna & Hba & Hda).
    destruct (cand_prov b Hb) as (j & e' & rl' & rr' & Hje & _ & Hrl' & Hrr' & Hlb & Hrb & Hne' & _ & Hpb & Hnb & Hbb & Hdb).
    pose proof (cand_req a i e Hpa Hda) as Hqa. pose proof (cand_req b j e' Hpb Hdb) as Hqb.
    rewrite (le_req le Hord e e' _ _ Hqa Hqb) in H1. rewrite (le_req le Hord e' e _ _ Hqb Hqa) in H2.
    destruct (strict_index le E 0 i j e e' Htf Hie Hje H1 H2) as [<- <-].
    destruct Hda as [(Hra1 & Hn1 & Hb1)|(Hra1 & Hn1 & Hb1)], Hdb as [(Hrb1 & Hn2 & Hb2)|(Hrb1 & Hn2 & Hb2)].
    - apply same_row_intro; first [congruence | (rewrite Hpa, Hpb; reflexivity)].
    - exfalso.
      assert (rr = rl') by (apply nodup_key_unique with prev; auto; congruence).
      assert (rl = rr') by (apply nodup_key_unique with prev; auto; congruence).
      subst. destruct Hpart; congruence.
    - exfalso.
      assert (rr = rl') by (apply nodup_key_unique with prev; auto; congruence).
      assert (rl = rr') by (apply nodup_key_unique with prev; auto; congruence).
      subst. destruct Hpart; congruence.
    - apply same_row_intro; first [congruence | (rewrite Hpa, Hpb; reflexivity)].
  Qed.

  Lemma global_max_accepted : forall a, In a rows ->
    (forall r, In r rows -> le (row_edge r) (row_edge a) = true) -> In a acc'.
  Proof.
    intros a Ha Hmax. unfold acc', df_neighbours_k. apply filter_In. split; [exact Ha|].
    apply andb_true_iff. split.
    - unfold rank_l_is_1. fold nbs. fold rows.
      assert (Hne : part_l rows (c_lrep a) <> []).
      { intro H. assert (Hin : In a (part_l rows (c_lrep a))) by (apply filter_In; split; [assumption|apply Z.eqb_refl]).
        rewrite H in Hin. exact Hin. }
      destruct (Hl it (c_lrep a) _ Hne) as [Hin Hge]. set (b := chl it (c_lrep a) (part_l rows (c_lrep a))) in *.
      apply filter_In in Hin. destruct Hin as [Hb Hbl]. apply Z.eqb_eq in Hbl.
      apply tie_same_row; auto. apply Hge. apply filter_In. split; [assumption|apply Z.eqb_refl].
    - unfold rank_r_is_1. fold nbs. fold rows.
      assert (Hne : part_r rows (c_rrep a) <> []).
      { intro H. assert (Hin : In a (part_r rows (c_rrep a))) by (apply filter_In; split; [assumption|apply Z.eqb_refl]).
        rewrite H in Hin. exact Hin. }
      destruct (Hr it (c_rrep a) _ Hne) as [Hin Hge]. set (b := chr it (c_rrep a) (part_r rows (c_rrep a))) in *.
      apply filter_In in Hin. destruct Hin as [Hb Hbl]. apply Z.eqb_eq in Hbl.
      apply tie_same_row; auto. apply Hge. apply filter_In. split; [assumption|apply Z.eqb_refl].
  Qed.

  Lemma no_shared_sym : forall c1 c2, no_shared dfs prev c1 c2 -> no_shared dfs prev c2 c1.
  Proof. intros c1 c2 H d Hd [H1 H2]. apply (H d Hd). tauto. Qed.

  Lemma mirror_in : forall a, In a rows ->
    exists a', In a' rows /\ c_node a' = c_nb a /\ c_nb a' = c_node a /\
               c_lrep a' = c_rrep a /\ c_rrep a' = c_lrep a /\ c_p a' = c_p a.
  Proof.
    intros a Ha. apply candidates_in in Ha.
    destruct Ha as (nb & rl & rr & Hnb & Hrl & Hrr & H1 & H2 & Hne & Hns & ->).
    assert (Hnb' : exists nb', In nb' nbs /\ nb_node nb' = nb_nb nb /\ nb_nb nb' = nb_node nb /\ nb_p nb' = nb_p nb).
    { apply nbs_in in Hnb. destruct Hnb as (i & e & Hie & Hab & [-> | ->]).
      - exists (bwd i e). split; [apply nbs_in; exists i, e; auto|]. cbn. auto.
      - exists (fwd i e). split; [apply nbs_in; exists i, e; auto|]. cbn. auto. }
    destruct Hnb' as [nb' Hnb'].
    destruct Hnb' as (Hin' & Hn' & Hb' & Hp').
    exists {| c_rid := nb_rid nb'; c_node := nb_node nb'; c_nb := nb_nb nb'; c_p := nb_p nb';
              c_lrep := rr_rep rr; c_rrep := rr_rep rl |}.
    cbn [c_rid c_node c_nb c_p c_lrep c_rrep]. split; [|auto].
    apply candidates_in. exists nb', rr, rl. repeat (split; [first [assumption|congruence]|]).
    split; [apply no_shared_sym; assumption|reflexivity].
  Qed.

  Lemma mirror_req : forall a a', c_node a' = c_nb a -> c_nb a' = c_node a -> c_p a' = c_p a ->
    req (row_edge a) (row_edge a').
  Proof. intros a a' H1 H2 H3. right. unfold row_edge, flip, e_l, e_r, e_p. cbn [fst snd]. congruence. Qed.

  Lemma exists_global_max : rows <> [] ->
    exists a, In a rows /\ forall r, In r rows -> le (row_edge r) (row_edge a) = true.
  Proof.
    intros Hne. destruct rows as [|r0 t] eqn:Er; [congruence|].
    destruct (argmax_le_spec le Hord t r0) as [Hin Hmax]. exists (argmax_le le r0 t). split; assumption.
  Qed.

  (* a step that changes nothing had no candidate row *)
  Lemma no_change_no_candidates :
    (forall r, In r prev -> minl (vals dfs nbs chl chr it prev (rr_node r)) = rr_rep r) -> rows = [].
  Proof.
    intros Hnc. destruct rows as [|r0 t] eqn:Erows; [reflexivity|exfalso].
    assert (Hne : rows <> []) by (rewrite Erows; discriminate).
    destruct (exists_global_max Hne) as [a [Ha Hmax]].
    destruct (mirror_in a Ha) as (a' & Ha' & Hn' & Hb' & Hl' & Hr' & Hp').
    assert (Hmax' : forall r, In r rows -> le (row_edge r) (row_edge a') = true).
    { intros r Hr0. rewrite (le_req le Hord (row_edge r) (row_edge a) (row_edge r) (row_edge a') (or_introl eq_refl) (mirror_req a a' Hn' Hb' Hp')).
      auto. }
    pose proof (global_max_accepted a Ha Hmax) as Hacc.
    pose proof (global_max_accepted a' Ha' Hmax') as Hacc'.
    apply candidates_in in Ha. destruct Ha as (nb & rl & rr & _ & Hrl & Hrr & H1 & H2 & Hne' & _ & Heq).
    assert (Hv : c_node a = rr_node rl) by (rewrite Heq; cbn; assumption).
    assert (Hw : c_nb a = rr_node rr) by (rewrite Heq; cbn; assumption).
    assert (Hle1 : rr_rep rl <= rr_rep rr).
    { rewrite <- (Hnc rl Hrl). apply minl_le. apply (proj2 (vals_in dfs nbs chl chr it prev _ _)). left. exists a, rr. auto. }
    assert (Hle2 : rr_rep rr <= rr_rep rl).
    { rewrite <- (Hnc rr Hrr). apply minl_le. apply (proj2 (vals_in dfs nbs chl chr it prev _ _)). left. exists a', rl.
      repeat split; auto; congruence. }
    lia.
  Qed.
End Ranked.

(* at exit the table is unchanged by the last step *)
Lemma exit_fixpoint : forall dfs nbs chl chr it t,
  NoDup (map rr_node t) ->
  count_needs_updating (oto_step dfs nbs chl chr it t) = O ->
  (forall r, In r t -> minl (vals dfs nbs chl chr it t (rr_node r)) = rr_rep r) /\
  (forall v c s, In (v, c, s) (strip (oto_step dfs nbs chl chr it t)) <-> In (v, c, s) t).
Proof.
  intros dfs nbs chl chr it t Hnd Hc.
  assert (Hnc : forall r, In r t -> minl (vals dfs nbs chl chr it t (rr_node r)) = rr_rep r).
  { intros r Hr. pose proof (count_zero_no_update _ Hc) as Hz.
    assert (Hin : In (rr_node r, minl (vals dfs nbs chl chr it t (rr_node r)), rr_sds r,
                      negb (minl (vals dfs nbs chl chr it t (rr_node r)) =? rr_rep r))
                     (oto_step dfs nbs chl chr it t)).
    { apply step_in; try assumption. exists r. auto. }
    apply Hz in Hin. cbn [snd] in Hin. apply negb_false_iff in Hin. apply Z.eqb_eq. exact Hin. }
  split; [exact Hnc|]. intros v c s. rewrite strip_step_in by assumption. split.
  - intros [c0 [Hin ->]]. pose proof (Hnc (v, c0, s) Hin) as Hx. unfold rr_node, rr_rep in Hx. cbn [fst snd] in Hx.
    rewrite Hx. exact Hin.
  - intros Hin. exists c. split; [assumption|]. pose proof (Hnc (v, c, s) Hin) as Hx.
    unfold rr_node, rr_rep in Hx. cbn [fst snd] in Hx. symmetry. exact Hx.
Qed.

Lemma maximal_ranked : forall le, rank_order le -> forall dfs thr (chl chr : chooser) fuel nodes E out,
  NoDup (map n_id nodes) -> strict_rank le E -> rank1_ok_for le chl -> rank1_ok_for le chr ->
  oto_loop dfs (df_neighbours thr E) chl chr fuel 1 (df_representatives nodes) = Some out ->
  forall v w, ~ admissible_cross dfs thr E out v w.
Proof.
  intros le Hord dfs thr chl chr fuel nodes E out Hnd Htf Hl Hr Hloop v w Hadm.
  destruct (loop_exit _ _ _ _ _ _ _ _ Hloop) as (it' & t' & Hout & Hc & k & Ht' & _).
  assert (Hinv : inv dfs (df_representatives nodes) t').
  { rewrite Ht'. apply inv_iter. apply inv_init. assumption. }
  destruct Hinv as (Hnd' & _ & _).
  destruct (exit_fixpoint _ _ _ _ _ _ Hnd' Hc) as [Hnc Hsame]. rewrite <- Hout in Hsame.
  pose proof (no_change_no_candidates le Hord dfs thr E chl chr it' t' Hnd' Htf Hl Hr Hnc) as Hrows.
  destruct Hadm as [(e & He & Hab & Hends) (cv & cw & sv & sw & Hv & Hw & Hne & Hns)].
  apply Hsame in Hv, Hw.
  destruct (in_indexed E 0 e He) as [i Hi].
  assert (Hns' : no_shared dfs t' cv cw).
  { intros d Hd [H1 H2]. apply (Hns d Hd). split; apply contains_flag_true.
    - apply contains_flag_true in H1. destruct H1 as [[[x c] s] [Hx Hcs]]. exists (x, c, s). split; [apply Hsame; assumption|assumption].
    - apply contains_flag_true in H2. destruct H2 as [[[x c] s] [Hx Hcs]]. exists (x, c, s). split; [apply Hsame; assumption|assumption]. }
  assert (Hcand : exists a, In a (candidates dfs (df_neighbours thr E) t')).
  { destruct Hends as [[H1 H2]|[H1 H2]].
    - eexists. apply candidates_in. exists (fwd i e), (v, cv, sv), (w, cw, sw).
      split; [apply nbs_in; exists i, e; auto|]. repeat (split; [first [assumption|reflexivity]|]). reflexivity.
    - eexists. apply candidates_in. exists (bwd i e), (v, cv, sv), (w, cw, sw).
      split; [apply nbs_in; exists i, e; auto|]. repeat (split; [first [assumption|reflexivity]|]). reflexivity. }
  destruct Hcand as [a Ha]. rewrite Hrows in Ha. exact Ha.
Qed.

Lemma maximal_tiefree : forall dfs thr (chl chr : chooser) fuel nodes E out,
  NoDup (map n_id nodes) -> tie_free E -> rank1_ok chl -> rank1_ok chr ->
  oto_loop dfs (df_neighbours thr E) chl chr fuel 1 (df_representatives nodes) = Some out ->
  forall v w, ~ admissible_cross dfs thr E out v w.
Proof.
  intros dfs thr chl chr fuel nodes E out Hnd Htf Hl Hr.
  apply (maximal_ranked le_prob le_prob_order); auto using tie_free_strict, rank1_ok_prob.
Qed.

(* ------------------------------------------------------------------ weak connectivity (all choosers) *)
Lemma cand_tedge : forall dfs thr E prev a,
  In a (candidates dfs (df_neighbours thr E) prev) -> tedge thr E (c_node a) (c_nb a).
Proof.
  intros dfs thr E prev a Ha. apply candidates_in in Ha.
  destruct Ha as (nb & rl & rr & Hnb & _ & _ & _ & _ & _ & _ & ->). cbn [c_node c_nb].
  apply nbs_in in Hnb. destruct Hnb as (i & e & Hie & Hab & Hd).
  apply indexed_bounds in Hie. destruct Hie as [_ He]. exists e. split; [assumption|]. split; [assumption|].
  destruct Hd as [-> | ->]; cbn [fwd bwd nb_node nb_nb]; [left|right]; auto.
Qed.

Definition wconn (thr : option Q) (E : list edge) (t : list reprow) : Prop :=
  forall v c s, In (v, c, s) t -> conn_in thr E (fun _ => True) v c.

Lemma wconn_step : forall dfs thr E chl chr it t,
  NoDup (map rr_node t) -> wconn thr E t ->
  wconn thr E (strip (oto_step dfs (df_neighbours thr E) chl chr it t)).
Proof.
  intros dfs thr E chl chr it t Hnd Hw v c s Hin. apply strip_step_in in Hin.
  destruct Hin as [c0 [Hp ->]].
  destruct (new_rep_cases dfs (df_neighbours thr E) chl chr it t Hnd v c0 s Hp) as [->|(a & r & Ha & Hr & Hn & Hb & Hrep)].
  - apply (Hw v c0 s Hp).
  - destruct (acc_in _ _ _ _ _ _ _ Ha) as (Hc & _ & _). apply cand_tedge in Hc. rewrite Hn, Hb in Hc.
    rewrite <- Hrep. destruct r as [[w cw] sw]. apply conn_step with w; [exact I|exact Hc|].
    apply (Hw w cw sw Hr).
Qed.

Lemma wconn_loop : forall dfs thr E chl chr fuel it t0 t out,
  inv dfs t0 t -> wconn thr E t ->
  oto_loop dfs (df_neighbours thr E) chl chr fuel it t = Some out -> wconn thr E out.
Proof.
  induction fuel; intros it t0 t out Hinv Hw H; cbn [oto_loop] in H; [discriminate|].
  destruct (Nat.eqb _ 0).
  - inversion H; subst. apply wconn_step; [apply Hinv|assumption].
  - eapply IHfuel; [| |exact H].
    + apply inv_step. exact Hinv.
    + apply wconn_step; [apply Hinv|assumption].
Qed.

Lemma connected_weak : forall dfs thr (chl chr : chooser) fuel nodes E out,
  NoDup (map n_id nodes) ->
  oto_loop dfs (df_neighbours thr E) chl chr fuel 1 (df_representatives nodes) = Some out ->
  forall v c s, In (v, c, s) out -> conn_in thr E (fun _ => True) v c.
Proof.
  intros dfs thr chl chr fuel nodes E out Hnd H.
  apply (wconn_loop dfs thr E chl chr fuel 1 _ _ out (inv_init dfs nodes Hnd)); [|exact H].
  intros v c s Hin. unfold df_representatives in Hin. apply in_map_iff in Hin.
  destruct Hin as [n [Heq _]]. inversion Heq; subst. apply conn_refl. exact I.
Qed.

(* ------------------------------------------------------------------ the enumeration behind oto_step_allowed is complete *)
Lemma prod_choices_in : forall (ks : list (Z * list crow)) (f : Z -> crow),
  (forall k opts, In (k, opts) ks -> In (f k) opts) ->
  In (map (fun ko => (fst ko, f (fst ko))) ks) (prod_choices ks).
Proof.
  induction ks as [|[k opts] ks IH]; intros f H; [left; reflexivity|]. cbn [map prod_choices fst].
  apply in_flat_map. exists (f k). split; [apply H; left; reflexivity|].
  apply in_map. apply IH. intros k' o' Hin. apply H. right. assumption.
Qed.

Lemma find_assignment : forall (keys : list Z) (g : Z -> crow) k,
  In k keys -> find (fun kr : Z * crow => fst kr =? k) (map (fun c => (c, g c)) keys) = Some (k, g k).
Proof.
  induction keys as [|c keys IH]; intros g k Hin; [contradiction|]. cbn [map find fst].
  destruct (c =? k) eqn:E; [apply Z.eqb_eq in E; subst; reflexivity|].
  destruct Hin as [->|Hin]; [rewrite Z.eqb_refl in E; discriminate|]. apply IH. assumption.
Qed.

Lemma max_rows_in : forall (ch : chooser) it k rows,
  rank1_ok ch -> rows <> [] -> In (ch it k rows) (max_rows rows).
Proof.
  intros ch it k rows Hok Hne. destruct (Hok it k rows Hne) as [Hin Hmax]. unfold max_rows.
  apply filter_In. split; [assumption|]. apply forallb_forall. intros r Hr. apply Qle_bool_iff. apply Hmax. assumption.
Qed.

Lemma same_set_refl : forall a, same_set a a = true.
Proof.
  intros a. unfold same_set.
  assert (H : forallb (fun x => existsb (pairZ_eqb x) a) a = true).
  { apply forallb_forall. intros x Hx. apply existsb_exists. exists x. split; [assumption|].
    unfold pairZ_eqb. rewrite !Z.eqb_refl. reflexivity. }
  rewrite H. reflexivity.
Qed.

Lemma step_depends_on_choices : forall dfs nbs (chl chr chl' chr' : chooser) it it' prev,
  (forall r, In r (candidates dfs nbs prev) ->
     chl it (c_lrep r) (part_l (candidates dfs nbs prev) (c_lrep r))
     = chl' it' (c_lrep r) (part_l (candidates dfs nbs prev) (c_lrep r))) ->
  (forall r, In r (candidates dfs nbs prev) ->
     chr it (c_rrep r) (part_r (candidates dfs nbs prev) (c_rrep r))
     = chr' it' (c_rrep r) (part_r (candidates dfs nbs prev) (c_rrep r))) ->
  oto_step dfs nbs chl chr it prev = oto_step dfs nbs chl' chr' it' prev.
Proof.
  intros dfs nbs chl chr chl' chr' it it' prev H1 H2.
  assert (Hacc : df_neighbours_k dfs nbs chl chr it prev = df_neighbours_k dfs nbs chl' chr' it' prev).
  { unfold df_neighbours_k. apply filter_ext_in. intros r Hr. unfold rank_l_is_1, rank_r_is_1.
    rewrite (H1 r Hr), (H2 r Hr). reflexivity. }
  unfold oto_step, df_representatives_k, r_table, source. rewrite Hacc. reflexivity.
Qed.

Lemma allowed_complete : forall dfs nbs (chl chr : chooser) it prev,
  rank1_ok chl -> rank1_ok chr ->
  oto_step_allowed dfs nbs prev (node_rep (oto_step dfs nbs chl chr it prev)) = true.
Proof.
  intros dfs nbs chl chr it prev Hl Hr. unfold oto_step_allowed, oto_step_results.
  set (rows := candidates dfs nbs prev).
  set (gl := fun c => chl it c (part_l rows c)). set (gr := fun c => chr it c (part_r rows c)).
  set (kl := nodup Z.eq_dec (map c_lrep rows)). set (kr := nodup Z.eq_dec (map c_rrep rows)).
  set (al := map (fun c => (c, gl c)) kl). set (ar := map (fun c => (c, gr c)) kr).
  assert (Hal : In al (l_choices rows)).
  { unfold l_choices. fold kl.
    replace al with (map (fun ko : Z * list crow => (fst ko, gl (fst ko))) (map (fun c => (c, max_rows (part_l rows c))) kl))
      by (unfold al; rewrite map_map; reflexivity).
    apply prod_choices_in. intros k opts Hin. apply in_map_iff in Hin. destruct Hin as [c [Heq Hc]].
    inversion Heq; subst. unfold gl. apply max_rows_in; [assumption|].
    apply nodup_In in Hc. apply in_map_iff in Hc. destruct Hc as [r [Hrc Hr']].
    intro Hnil. assert (Hin : In r (part_l rows k)) by (apply filter_In; split; [assumption|apply Z.eqb_eq; assumption]).
    rewrite Hnil in Hin. exact Hin. }
  assert (Har : In ar (r_choices rows)).
  { unfold r_choices. fold kr.
    replace ar with (map (fun ko : Z * list crow => (fst ko, gr (fst ko))) (map (fun c => (c, max_rows (part_r rows c))) kr))
      by (unfold ar; rewrite map_map; reflexivity).
    apply prod_choices_in. intros k opts Hin. apply in_map_iff in Hin. destruct Hin as [c [Heq Hc]].
    inversion Heq; subst. unfold gr. apply max_rows_in; [assumption|].
    apply nodup_In in Hc. apply in_map_iff in Hc. destruct Hc as [r [Hrc Hr']].
    intro Hnil. assert (Hin : In r (part_r rows k)) by (apply filter_In; split; [assumption|apply Z.eqb_eq; assumption]).
    rewrite Hnil in Hin. exact Hin. }
  apply existsb_exists. exists (node_rep (oto_step dfs nbs (chooser_of al) (chooser_of ar) O prev)). split.
  - apply in_flat_map. exists al. split; [assumption|]. apply in_map_iff. exists ar. split; [reflexivity|assumption].
  - rewrite (step_depends_on_choices dfs nbs chl chr (chooser_of al) (chooser_of ar) it O prev).
    + apply same_set_refl.
    + intros r Hr'. fold rows. unfold chooser_of, al.
      rewrite find_assignment by (apply nodup_In; apply in_map; assumption). reflexivity.
    + intros r Hr'. fold rows. unfold chooser_of, ar.
      rewrite find_assignment by (apply nodup_In; apply in_map; assumption). reflexivity.
Qed.

(* ------------------------------------------------------------------ termination of the loop *)
Definition zsum (l : list Z) : Z := fold_right Z.add 0 l.
Definition mu (t : list reprow) : Z := zsum (map rr_rep t).

Lemma zsum_perm : forall l l', Permutation l l' -> zsum l = zsum l'.
Proof. intros l l' H. unfold zsum. induction H; cbn [fold_right] in *; lia. Qed.

Lemma zsum_le : forall (A : Type) (f g : A -> Z) (l : list A),
  (forall x, In x l -> f x <= g x) -> zsum (map f l) <= zsum (map g l).
Proof.
  induction l as [|x l IH]; intros H; [reflexivity|]. cbn [map]. unfold zsum. cbn [fold_right]. fold (zsum (map f l)). fold (zsum (map g l)).
  assert (f x <= g x) by (apply H; left; reflexivity).
  assert (zsum (map f l) <= zsum (map g l)) by (apply IH; intros; apply H; right; assumption).
  unfold zsum in *. lia.
Qed.

Lemma zsum_lt : forall (A : Type) (f g : A -> Z) (l : list A) x0,
  (forall x, In x l -> f x <= g x) -> In x0 l -> f x0 < g x0 -> zsum (map f l) < zsum (map g l).
Proof.
  induction l as [|x l IH]; intros x0 H Hin Hlt; [contradiction|]. cbn [map zsum fold_right].
  assert (Hx : f x <= g x) by (apply H; left; reflexivity).
  assert (Hl : zsum (map f l) <= zsum (map g l)) by (apply zsum_le; intros; apply H; right; assumption).
  destruct Hin as [->|Hin].
  - unfold zsum in *. lia.
  - assert (zsum (map f l) < zsum (map g l)) by (apply IH with x0; auto; intros; apply H; right; assumption).
    unfold zsum in *. lia.
Qed.

Lemma zsum_ge : forall lb (l : list Z), (forall x, In x l -> lb <= x) -> lb * Z.of_nat (length l) <= zsum l.
Proof.
  induction l as [|x l IH]; intros H; cbn [length zsum fold_right]; [lia|].
  assert (lb <= x) by (apply H; left; reflexivity).
  assert (lb * Z.of_nat (length l) <= zsum l) by (apply IH; intros; apply H; right; assumption).
  unfold zsum in *. lia.
Qed.

Section Termination.
  Variable dfs : list Z.
  Variable nbs : list nbrow.
  Variables chl chr : chooser.

  Definition newrow (it : nat) (t : list reprow) (r : reprow) : reprow :=
    (rr_node r, minl (vals dfs nbs chl chr it t (rr_node r)), rr_sds r).

  Lemma step_perm : forall it t, NoDup (map rr_node t) ->
    Permutation (strip (oto_step dfs nbs chl chr it t)) (map (newrow it t) t).
  Proof.
    intros it t Hnd. apply NoDup_Permutation.
    - apply NoDup_map_inv with (f := rr_node). apply step_nodes_nodup. assumption.
    - apply NoDup_map_inv with (f := rr_node). rewrite map_map. unfold newrow, rr_node at 1. cbn [fst]. exact Hnd.
    - intros [[v c] s]. rewrite strip_step_in. rewrite in_map_iff. split.
      + intros [c0 [Hin ->]]. exists (v, c0, s). split; [reflexivity|assumption].
      + intros [[[v0 c0] s0] [Heq Hin]]. unfold newrow, rr_node, rr_sds in Heq. cbn [fst snd] in Heq.
        inversion Heq; subst. exists c0. split; [assumption|reflexivity].
  Qed.

  Lemma mu_step : forall it t, NoDup (map rr_node t) ->
    mu (strip (oto_step dfs nbs chl chr it t)) = zsum (map (fun r => minl (vals dfs nbs chl chr it t (rr_node r))) t).
  Proof.
    intros it t Hnd. unfold mu. rewrite (zsum_perm _ _ (Permutation_map rr_rep (step_perm it t Hnd))).
    rewrite map_map. reflexivity.
  Qed.

  Lemma step_pointwise : forall it t r, NoDup (map rr_node t) -> In r t ->
    minl (vals dfs nbs chl chr it t (rr_node r)) <= rr_rep r.
  Proof. intros it t [[v c] s] Hnd Hin. apply (new_rep_le dfs nbs chl chr it t v c s Hin). Qed.

  Lemma mu_decreases : forall it t, NoDup (map rr_node t) ->
    count_needs_updating (oto_step dfs nbs chl chr it t) <> O ->
    mu (strip (oto_step dfs nbs chl chr it t)) < mu t.
  Proof.
    intros it t Hnd Hc. rewrite mu_step by assumption. unfold mu.
    unfold count_needs_updating in Hc.
    destruct (filter snd (oto_step dfs nbs chl chr it t)) as [|x l] eqn:Ef; [contradiction|].
    assert (Hx : In x (filter snd (oto_step dfs nbs chl chr it t))) by (rewrite Ef; left; reflexivity).
    apply filter_In in Hx. destruct Hx as [Hx Hb]. apply step_in in Hx. destruct Hx as [r [Hr ->]].
    cbn [snd] in Hb. apply negb_true_iff in Hb. apply Z.eqb_neq in Hb.
    apply zsum_lt with r; [intros; apply step_pointwise; assumption|assumption|].
    pose proof (step_pointwise it t r Hnd Hr). lia.
  Qed.

  Lemma step_lower_bound : forall lb it t, NoDup (map rr_node t) ->
    (forall r, In r t -> lb <= rr_rep r) ->
    forall r, In r (strip (oto_step dfs nbs chl chr it t)) -> lb <= rr_rep r.
  Proof.
    intros lb it t Hnd Hlb [[v c] s] Hin. apply strip_step_in in Hin. destruct Hin as [c0 [Hp ->]].
    pose proof (minl_in _ (vals_nonempty dfs nbs chl chr it t _ Hp)) as Hm. cbn [rr_node fst] in Hm.
    apply vals_in in Hm. unfold rr_rep at 1. cbn [fst snd].
    destruct Hm as [(a & r & _ & Hr & _ & _ & <-)|(r & Hr & _ & <-)]; apply Hlb; assumption.
  Qed.

  Lemma step_length : forall it t, NoDup (map rr_node t) ->
    length (strip (oto_step dfs nbs chl chr it t)) = length t.
  Proof. intros. rewrite (Permutation_length (step_perm it t H)). apply map_length. Qed.

  Lemma loop_terminates_aux : forall lb fuel it t,
    NoDup (map rr_node t) -> (forall r, In r t -> lb <= rr_rep r) ->
    (Z.to_nat (mu t - lb * Z.of_nat (length t)) < fuel)%nat ->
    oto_loop dfs nbs chl chr fuel it t <> None.
  Proof.
    induction fuel; intros it t Hnd Hlb Hf; [lia|]. cbn [oto_loop].
    destruct (Nat.eqb (count_needs_updating (oto_step dfs nbs chl chr it t)) 0) eqn:Ec; [discriminate|].
    apply Nat.eqb_neq in Ec. apply IHfuel.
    - apply step_nodes_nodup. assumption.
    - apply step_lower_bound; assumption.
    - pose proof (mu_decreases it t Hnd Ec) as Hdec. rewrite step_length by assumption.
      assert (Hge : lb * Z.of_nat (length t) <= mu (strip (oto_step dfs nbs chl chr it t))).
      { rewrite <- (step_length it t Hnd). unfold mu. rewrite <- (map_length rr_rep). apply zsum_ge.
        intros x Hx. apply in_map_iff in Hx. destruct Hx as [r [<- Hr]].
        apply (step_lower_bound lb it t Hnd Hlb r Hr). }
      lia.
  Qed.
End Termination.

Lemma loop_terminates : forall dfs thr (chl chr : chooser) nodes E,
  NoDup (map n_id nodes) ->
  exists fuel, forall fuel', (fuel <= fuel')%nat ->
    oto_loop dfs (df_neighbours thr E) chl chr fuel' 1 (df_representatives nodes) <> None.
Proof.
  intros dfs thr chl chr nodes E Hnd. set (t := df_representatives nodes). set (lb := minl (map n_id nodes)).
  exists (S (Z.to_nat (mu t - lb * Z.of_nat (length t)))). intros fuel' Hf.
  apply loop_terminates_aux with lb.
  - unfold t, df_representatives. rewrite map_map. exact Hnd.
  - intros r Hr. unfold t, df_representatives in Hr. apply in_map_iff in Hr. destruct Hr as [n [<- Hn]].
    unfold rr_rep. cbn [fst snd]. apply minl_le. apply in_map. assumption.
  - lia.
Qed.
