(* Proofs for Model/Serialise.v: soundness of the symbolic checker.
   Main results
     seval_sound      symbolic evaluation describes every concrete evaluation
     sstage_sound     one save+load stage
     pipeline_sound   pipeline_ok = true  ->  every target field of the final record
                      equals its specification, for all well-formed inputs
     roundtrip        table_ok = true -> load (save l) = l  (literal equality)          *)
From Coq Require Import List Bool ZArith String Lia.
From Splinkv Require Import Model.Serialise.
Import ListNotations.
Open Scope string_scope.

(* ------------------------------------------------------------------ equality tests *)
Lemma strs_eqb_eq : forall a b, strs_eqb a b = true <-> a = b.
Proof.
  induction a as [|x a IH]; destruct b as [|y b]; simpl; split; intro H; try congruence; auto.
  - apply andb_true_iff in H. destruct H as [H1 H2]. apply String.eqb_eq in H1.
    apply IH in H2. congruence.
  - inversion H; subst. apply andb_true_iff. split; [apply String.eqb_refl|apply IH; reflexivity].
Qed.

Lemma val_eqb_eq : forall a b, val_eqb a b = true <-> a = b.
Proof.
  intros a b. destruct a as [|x|n d|s|l], b as [|y|n' d'|s'|l']; simpl; split; intro H; try congruence; auto.
  - apply Bool.eqb_prop in H. congruence.
  - inversion H. apply Bool.eqb_reflx.
  - apply andb_true_iff in H. destruct H as [H1 H2]. apply Z.eqb_eq in H1.
    apply Pos.eqb_eq in H2. congruence.
  - inversion H; subst. rewrite Z.eqb_refl, Pos.eqb_refl. reflexivity.
  - apply String.eqb_eq in H. congruence.
  - inversion H. apply String.eqb_refl.
  - apply strs_eqb_eq in H. congruence.
  - inversion H. apply strs_eqb_eq. reflexivity.
Qed.

Lemma val_eqb_refl : forall a, val_eqb a a = true.
Proof. intro. apply val_eqb_eq. reflexivity. Qed.

Lemma cls_eqb_eq : forall a b, cls_eqb a b = true -> a = b.
Proof.
  intros a b. destruct a as [x|], b as [y|]; simpl; intro H; try congruence. apply val_eqb_eq in H. congruence.
Qed.

Lemma in_K_eq : forall K v c, in_K K c = true -> in_K K v = false -> val_eqb v c = false.
Proof.
  intros K v c Hc Hv. destruct (val_eqb v c) eqn:E; [|reflexivity].
  apply val_eqb_eq in E. subst. congruence.
Qed.

(* ------------------------------------------------------------------ meaning of symbolic values *)
Definition generic (K : list val) (v : val) : Prop := truthy v = true /\ in_K K v = false.

Definition rel (l : record) (K : list val) (s : sval) (v : val) : Prop :=
  match s with
  | SF f => v = get l f /\ generic K v
  | SC c => v = c
  | SX => True
  end.

Definition senv_ok (l : record) (K : list val) (se : senv) (r : record) : Prop :=
  forall f s, lookup se f = Some s -> rel l K s (get r f).

Lemma struth_sound : forall l K s v b, rel l K s v -> struth s = Some b -> truthy v = b.
Proof.
  intros l K s v b Hr Hs. destruct s; simpl in *; inversion Hs; subst.
  - destruct Hr as [_ [Ht _]]. exact Ht.
  - reflexivity.
Qed.

Lemma sget_rel : forall l K se r f, senv_ok l K se r -> rel l K (sget se f) (get r f).
Proof.
  intros l K se r f H. unfold sget. destruct (lookup se f) eqn:E; [apply H; exact E|exact I].
Qed.

Lemma generic_not_none : forall K v, generic K v -> val_eqb v VNone = false.
Proof.
  intros K v [Ht _]. destruct v; simpl in *; try reflexivity. discriminate.
Qed.

Theorem seval_sound :
  forall l K se r env, senv_ok l K se r ->
  forall e, match seval K se e with
            | RRaise => eval e r env = None
            | RVal s => forall v, eval e r env = Some v -> rel l K s v
            end.
Proof.
  intros l K se r env Hse. induction e; simpl.
  - intros v Hv. inversion Hv; subst. apply sget_rel. exact Hse.
  - intros; exact I.
  - intros v0 Hv. inversion Hv; subst. reflexivity.
  - (* ENot *)
    destruct (seval K se e) as [|s]; [rewrite IHe; reflexivity|].
    destruct (struth s) as [b|] eqn:Es; [|intros; exact I].
    intros v Hv. destruct (eval e r env) as [w|] eqn:Ew; [|discriminate].
    inversion Hv; subst. simpl. rewrite (struth_sound _ _ _ _ _ (IHe _ eq_refl) Es). reflexivity.
  - (* EIsNone *)
    destruct (seval K se e) as [|s]; [rewrite IHe; reflexivity|].
    destruct s; intros v Hv; (destruct (eval e r env) as [w|] eqn:Ew; [|discriminate]);
      inversion Hv; subst; specialize (IHe _ eq_refl); simpl in *.
    + destruct IHe as [_ Hg]. rewrite (generic_not_none _ _ Hg). reflexivity.
    + subst. reflexivity.
    + exact I.
  - (* EEq *)
    destruct (seval K se e) as [|s]; [rewrite IHe; reflexivity|].
    destruct s.
    + destruct (in_K K c) eqn:Ec; [|intros; exact I].
      intros v Hv. destruct (eval e r env) as [w|] eqn:Ew; [|discriminate].
      inversion Hv; subst. specialize (IHe _ eq_refl). simpl in *. destruct IHe as [_ [_ Hk]].
      rewrite (in_K_eq _ _ _ Ec Hk). reflexivity.
    + intros v Hv. destruct (eval e r env) as [w|] eqn:Ew; [|discriminate].
      inversion Hv; subst. specialize (IHe _ eq_refl). simpl in *. subst. reflexivity.
    + intros; exact I.
  - (* EAnd *)
    destruct (seval K se e1) as [|s]; [rewrite IHe1; reflexivity|].
    destruct (struth s) as [[|]|] eqn:Es.
    + destruct (eval e1 r env) as [w|] eqn:Ew.
      * rewrite (struth_sound _ _ _ _ _ (IHe1 _ eq_refl) Es). exact IHe2.
      * destruct (seval K se e2); [reflexivity|intros; discriminate].
    + intros v Hv. destruct (eval e1 r env) as [w|] eqn:Ew; [|discriminate].
      rewrite (struth_sound _ _ _ _ _ (IHe1 _ eq_refl) Es) in Hv. inversion Hv; subst.
      apply IHe1. reflexivity.
    + intros; exact I.
  - (* EOr *)
    destruct (seval K se e1) as [|s]; [rewrite IHe1; reflexivity|].
    destruct (struth s) as [[|]|] eqn:Es.
    + intros v Hv. destruct (eval e1 r env) as [w|] eqn:Ew; [|discriminate].
      rewrite (struth_sound _ _ _ _ _ (IHe1 _ eq_refl) Es) in Hv. inversion Hv; subst.
      apply IHe1. reflexivity.
    + destruct (eval e1 r env) as [w|] eqn:Ew.
      * rewrite (struth_sound _ _ _ _ _ (IHe1 _ eq_refl) Es). exact IHe2.
      * destruct (seval K se e2); [reflexivity|intros; discriminate].
    + intros; exact I.
  - (* EIf *)
    destruct (seval K se e1) as [|s]; [rewrite IHe1; reflexivity|].
    destruct (struth s) as [[|]|] eqn:Es.
    + destruct (eval e1 r env) as [w|] eqn:Ew.
      * rewrite (struth_sound _ _ _ _ _ (IHe1 _ eq_refl) Es). exact IHe2.
      * destruct (seval K se e2); [reflexivity|intros; discriminate].
    + destruct (eval e1 r env) as [w|] eqn:Ew.
      * rewrite (struth_sound _ _ _ _ _ (IHe1 _ eq_refl) Es). exact IHe3.
      * destruct (seval K se e3); [reflexivity|intros; discriminate].
    + intros; exact I.
  - reflexivity.
Qed.

(* ------------------------------------------------------------------ association lists *)
Lemma existsb_eqb_false : forall k ks, existsb (String.eqb k) ks = false -> ~ In k ks.
Proof.
  intros k ks H Hin. assert (existsb (String.eqb k) ks = true).
  { apply existsb_exists. exists k. split; [exact Hin|apply String.eqb_refl]. }
  congruence.
Qed.

Lemma lookup_not_in : forall (A : Type) (r : list (string * A)) k,
  ~ In k (map fst r) -> lookup r k = None.
Proof.
  induction r as [|[k' v] r IH]; simpl; intros k H; [reflexivity|].
  destruct (String.eqb k k') eqn:E.
  - apply String.eqb_eq in E. subst. exfalso. apply H. left. reflexivity.
  - apply IH. intro. apply H. right. assumption.
Qed.

Lemma lookup_in_keys : forall (A : Type) (r : list (string * A)) k v,
  lookup r k = Some v -> In k (map fst r).
Proof.
  induction r as [|[k' v'] r IH]; simpl; intros k v H; [discriminate|].
  destruct (String.eqb k k') eqn:E.
  - apply String.eqb_eq in E. left. congruence.
  - right. eapply IH. exact H.
Qed.

(* ------------------------------------------------------------------ save *)
Lemma save_keys : forall t r env j, save t r env = Some j ->
  forall k, In k (map fst j) -> In k (map r_key t).
Proof.
  induction t as [|ru t IH]; simpl; intros r env j H k Hk.
  - inversion H; subst. destruct Hk.
  - destruct (eval (r_guard ru) r env) as [g|]; [|discriminate].
    destruct (truthy g).
    + destruct (eval (r_val ru) r env) as [v|]; [|discriminate].
      destruct (save t r env) as [j'|] eqn:Ej; [|discriminate].
      inversion H; subst. simpl in Hk. destruct Hk as [Hk|Hk]; [left; exact Hk|].
      right. eapply IH; eauto.
    + right. eapply IH; eauto.
Qed.

Lemma find_rule_none : forall t k, find_rule t k = None -> ~ In k (map r_key t).
Proof.
  induction t as [|ru t IH]; simpl; intros k H; [tauto|].
  destruct (String.eqb k (r_key ru)) eqn:E; [discriminate|].
  intros [Hin|Hin].
  - subst. rewrite String.eqb_refl in E. discriminate.
  - eapply IH; eauto.
Qed.

Lemma save_lookup :
  forall t r env j, nodup_keys (map r_key t) = true -> save t r env = Some j ->
  forall k, match find_rule t k with
            | None => lookup j k = None
            | Some ru => exists g, eval (r_guard ru) r env = Some g /\
                           if truthy g
                           then exists v, eval (r_val ru) r env = Some v /\ lookup j k = Some v
                           else lookup j k = None
            end.
Proof.
  induction t as [|ru t IH]; simpl; intros r env j Hnd H k.
  - inversion H; subst. reflexivity.
  - apply andb_true_iff in Hnd. destruct Hnd as [Hfresh Hnd].
    apply negb_true_iff in Hfresh. apply existsb_eqb_false in Hfresh.
    destruct (eval (r_guard ru) r env) as [g|] eqn:Eg; [|discriminate].
    destruct (String.eqb k (r_key ru)) eqn:Ek.
    + apply String.eqb_eq in Ek. subst k. exists g. split; [exact Eg|].
      destruct (truthy g).
      * destruct (eval (r_val ru) r env) as [v|] eqn:Ev; [|discriminate].
        destruct (save t r env) as [j'|] eqn:Ej; [|discriminate].
        inversion H; subst. exists v. split; [reflexivity|]. simpl. rewrite String.eqb_refl. reflexivity.
      * apply lookup_not_in. intro Hin. apply Hfresh. eapply save_keys; eauto.
    + destruct (truthy g).
      * destruct (eval (r_val ru) r env) as [v|] eqn:Ev; [|discriminate].
        destruct (save t r env) as [j'|] eqn:Ej; [|discriminate].
        inversion H; subst. specialize (IH r env j' Hnd Ej k).
        simpl. rewrite Ek. exact IH.
      * exact (IH r env j Hnd H k).
Qed.

(* ------------------------------------------------------------------ kwargs / post *)
Lemma kwargs_lookup : forall d j le,
  nodup_keys (map l_key d) = true -> In le d ->
  lookup (kwargs d j) (l_key le) =
  Some (match lookup j (l_key le) with Some v => v | None => l_default le end).
Proof.
  induction d as [|le0 d IH]; simpl; intros j le Hnd Hin; [destruct Hin|].
  apply andb_true_iff in Hnd. destruct Hnd as [Hfresh Hnd].
  apply negb_true_iff in Hfresh. apply existsb_eqb_false in Hfresh.
  destruct Hin as [Heq|Hin].
  - subst. rewrite String.eqb_refl. reflexivity.
  - destruct (String.eqb (l_key le) (l_key le0)) eqn:E.
    + apply String.eqb_eq in E. exfalso. apply Hfresh. rewrite <- E. apply in_map. exact Hin.
    + apply IH; assumption.
Qed.

Lemma post_lookup : forall d kw env r le,
  nodup_keys (map l_key d) = true -> post d kw env = Some r -> In le d ->
  exists v, eval (l_post le) kw env = Some v /\ lookup r (l_key le) = Some v.
Proof.
  induction d as [|le0 d IH]; simpl; intros kw env r le Hnd H Hin; [destruct Hin|].
  apply andb_true_iff in Hnd. destruct Hnd as [Hfresh Hnd].
  apply negb_true_iff in Hfresh. apply existsb_eqb_false in Hfresh.
  destruct (eval (l_post le0) kw env) as [v0|] eqn:E0; [|discriminate].
  destruct (post d kw env) as [r'|] eqn:Er; [|discriminate]. inversion H; subst.
  destruct Hin as [Heq|Hin].
  - subst. exists v0. split; [exact E0|]. simpl. rewrite String.eqb_refl. reflexivity.
  - destruct (IH kw env r' le Hnd Er Hin) as [v [Hv Hl]]. exists v. split; [exact Hv|].
    simpl. destruct (String.eqb (l_key le) (l_key le0)) eqn:E; [|exact Hl].
    apply String.eqb_eq in E. exfalso. apply Hfresh. rewrite <- E. apply in_map. exact Hin.
Qed.

Lemma post_keys : forall d kw env r, post d kw env = Some r -> map fst r = map l_key d.
Proof.
  induction d as [|le d IH]; simpl; intros kw env r H.
  - inversion H; reflexivity.
  - destruct (eval (l_post le) kw env); [|discriminate].
    destruct (post d kw env) as [r'|] eqn:E; [|discriminate]. inversion H; subst.
    simpl. f_equal. eapply IH; eauto.
Qed.

(* ------------------------------------------------------------------ smap *)
Lemma smap_lookup : forall f d se, smap f d = Some se ->
  forall k s, lookup se k = Some s -> exists le, In le d /\ l_key le = k /\ f le = RVal s.
Proof.
  induction d as [|le d IH]; simpl; intros se H k s Hl.
  - inversion H; subst. discriminate.
  - destruct (f le) as [|s0] eqn:Ef; [discriminate|].
    destruct (smap f d) as [se'|] eqn:Es; [|discriminate]. inversion H; subst.
    simpl in Hl. destruct (String.eqb k (l_key le)) eqn:E.
    + apply String.eqb_eq in E. inversion Hl; subst. exists le. auto.
    + destruct (IH se' eq_refl k s Hl) as [le' [Hin [Hk Hf]]]. exists le'. auto.
Qed.

Lemma smap_none : forall f d, smap f d = None -> exists le, In le d /\ f le = RRaise.
Proof.
  induction d as [|le d IH]; simpl; intro H; [discriminate|].
  destruct (f le) as [|s] eqn:Ef.
  - exists le. auto.
  - destruct (smap f d) as [se'|] eqn:Es; [discriminate|].
    destruct (IH eq_refl) as [le' [Hin Hf]]. exists le'. auto.
Qed.

(* ------------------------------------------------------------------ one stage *)
Lemma skwarg_sound :
  forall l K se r env t d j le,
    senv_ok l K se r -> nodup_keys (map r_key t) = true -> nodup_keys (map l_key d) = true ->
    save t r env = Some j -> In le d ->
    match skwarg K se t le with
    | RRaise => False
    | RVal s => rel l K s (get (kwargs d j) (l_key le))
    end.
Proof.
  intros l K se r env t d j le Hse Hndt Hndd Hsave Hin.
  unfold skwarg, get. rewrite (kwargs_lookup d j le Hndd Hin).
  pose proof (save_lookup t r env j Hndt Hsave (l_key le)) as Hl.
  destruct (find_rule t (l_key le)) as [ru|].
  - destruct Hl as [g [Hg Hl]].
    pose proof (seval_sound l K se r env Hse (r_guard ru)) as Sg.
    destruct (seval K se (r_guard ru)) as [|sg]; [congruence|].
    specialize (Sg _ Hg).
    destruct (struth sg) as [[|]|] eqn:Es.
    + rewrite (struth_sound _ _ _ _ _ Sg Es) in Hl. destruct Hl as [v [Hv Hlk]].
      pose proof (seval_sound l K se r env Hse (r_val ru)) as Sv.
      destruct (seval K se (r_val ru)) as [|sv]; [congruence|].
      rewrite Hlk. apply Sv. exact Hv.
    + rewrite (struth_sound _ _ _ _ _ Sg Es) in Hl. rewrite Hl. reflexivity.
    + exact I.
  - rewrite Hl. reflexivity.
Qed.

Theorem sstage_sound :
  forall l K se r env st r',
    stage_shape_ok st = true -> senv_ok l K se r -> run_stage st r env = Some r' ->
    match sstage K se st with
    | None => False
    | Some se' => senv_ok l K se' r'
    end.
Proof.
  intros l K se r env st r' Hshape Hse Hrun.
  unfold stage_shape_ok in Hshape. apply andb_true_iff in Hshape. destruct Hshape as [Hshape _].
  apply andb_true_iff in Hshape. destruct Hshape as [Hndt Hndd].
  unfold run_stage in Hrun. destruct (save (s_rules st) r env) as [j|] eqn:Ej; [|discriminate].
  unfold load in Hrun. unfold sstage.
  destruct (smap (skwarg K se (s_rules st)) (s_loader st)) as [skw|] eqn:Ekw.
  - assert (Hkw : senv_ok l K skw (kwargs (s_loader st) j)).
    { intros f s Hl. destruct (smap_lookup _ _ _ Ekw f s Hl) as [le [Hin [Hk Hf]]]. subst f.
      pose proof (skwarg_sound l K se r env _ _ j le Hse Hndt Hndd Ej Hin) as H.
      rewrite Hf in H. exact H. }
    destruct (smap (fun le => seval K skw (l_post le)) (s_loader st)) as [se'|] eqn:Ep.
    + intros f s Hl. destruct (smap_lookup _ _ _ Ep f s Hl) as [le [Hin [Hk Hf]]]. subst f.
      destruct (post_lookup _ _ _ _ le Hndd Hrun Hin) as [v [Hv Hlk]].
      pose proof (seval_sound l K skw _ env Hkw (l_post le)) as S. rewrite Hf in S.
      unfold get. rewrite Hlk. apply S. exact Hv.
    + destruct (smap_none _ _ Ep) as [le [Hin Hf]].
      destruct (post_lookup _ _ _ _ le Hndd Hrun Hin) as [v [Hv _]].
      pose proof (seval_sound l K skw _ env Hkw (l_post le)) as S. rewrite Hf in S. congruence.
  - destruct (smap_none _ _ Ekw) as [le [Hin Hf]].
    pose proof (skwarg_sound l K se r env _ _ j le Hse Hndt Hndd Ej Hin) as H.
    rewrite Hf in H. exact H.
Qed.

Theorem spipeline_sound :
  forall l K ps se r r',
    forallb stage_shape_ok (map fst ps) = true -> senv_ok l K se r ->
    run_pipeline ps r = Some r' ->
    match spipeline K se (map fst ps) with
    | None => False
    | Some se' => senv_ok l K se' r'
    end.
Proof.
  intros l K. induction ps as [|[st env] ps IH]; simpl; intros se r r' Hshape Hse Hrun.
  - inversion Hrun; subst. exact Hse.
  - apply andb_true_iff in Hshape. destruct Hshape as [Hs Hshape].
    destruct (run_stage st r env) as [r1|] eqn:E1; [|discriminate].
    pose proof (sstage_sound l K se r env st r1 Hs Hse E1) as H1.
    destruct (sstage K se st) as [se1|]; [|exact H1].
    eapply IH; eauto.
Qed.

(* ------------------------------------------------------------------ class assignments *)
Definition sigma_of (K : list val) (l : record) (hint : list string) : sigma :=
  map (fun f => (f, match class_of K (get l f) with Some c => c | None => CG end)) hint.

Lemma lookup_sigma_of : forall K l hint f c,
  lookup (sigma_of K l hint) f = Some c ->
  c = match class_of K (get l f) with Some c => c | None => CG end.
Proof.
  induction hint as [|g hint IH]; simpl; intros f c H; [discriminate|].
  destruct (String.eqb f g) eqn:E.
  - apply String.eqb_eq in E. subst. inversion H. reflexivity.
  - apply IH. exact H.
Qed.

Lemma lookup_in : forall (A : Type) (r : list (string * A)) k v, lookup r k = Some v -> In (k, v) r.
Proof.
  induction r as [|[k' v'] r IH]; simpl; intros k v H; [discriminate|].
  destruct (String.eqb k k') eqn:E.
  - apply String.eqb_eq in E. inversion H; subst. left. reflexivity.
  - right. apply IH. exact H.
Qed.

Lemma wf_class : forall K allowed cons l f cs,
  wfb K allowed cons l = true -> lookup allowed f = Some cs ->
  exists c, class_of K (get l f) = Some c /\ In c cs.
Proof.
  intros K allowed cons l f cs Hwf Hl. unfold wfb in Hwf. apply andb_true_iff in Hwf.
  destruct Hwf as [Hall _]. rewrite forallb_forall in Hall.
  specialize (Hall (f, cs) (lookup_in _ _ _ _ Hl)). unfold class_ok in Hall. simpl in Hall.
  destruct (class_of K (get l f)) as [c|]; [|discriminate]. exists c. split; [reflexivity|].
  apply existsb_exists in Hall. destruct Hall as [c' [Hin Heq]]. apply cls_eqb_eq in Heq. subst. exact Hin.
Qed.

Lemma sigma_of_in_assigns : forall K allowed cons l hint,
  wfb K allowed cons l = true -> forallb (declared allowed) hint = true ->
  In (sigma_of K l hint) (assigns allowed hint).
Proof.
  intros K allowed cons l hint Hwf. induction hint as [|f hint IH]; simpl; intro Hd.
  - left. reflexivity.
  - apply andb_true_iff in Hd. destruct Hd as [Hf Hd]. unfold declared in Hf.
    destruct (lookup allowed f) as [cs|] eqn:El; [|discriminate].
    destruct (wf_class _ _ _ _ _ _ Hwf El) as [c [Hc Hin]].
    apply in_flat_map. exists c. split.
    + unfold allowed_of. rewrite El. exact Hin.
    + rewrite Hc. apply in_map. apply IH. exact Hd.
Qed.

Lemma sigma_of_constr : forall K allowed cons l hint,
  wfb K allowed cons l = true -> forallb (sigma_constr_ok (sigma_of K l hint)) cons = true.
Proof.
  intros K allowed cons l hint Hwf. unfold wfb in Hwf. apply andb_true_iff in Hwf.
  destruct Hwf as [_ Hc]. rewrite forallb_forall in *. intros [[[f1 c1] f2] c2] Hin.
  specialize (Hc _ Hin). simpl in *.
  destruct (lookup (sigma_of K l hint) f1) as [a|] eqn:E1; [|reflexivity].
  destruct (lookup (sigma_of K l hint) f2) as [b|] eqn:E2; [|reflexivity].
  apply lookup_sigma_of in E1. apply lookup_sigma_of in E2.
  destruct (class_of K (get l f1)) as [a'|]; [|discriminate].
  destruct (class_of K (get l f2)) as [b'|]; [|discriminate]. subst. exact Hc.
Qed.

Lemma class_of_rel : forall K l f c,
  class_of K (get l f) = Some c ->
  rel l K (match c with CC c0 => SC c0 | CG => SF f end) (get l f).
Proof.
  intros K l f c H. unfold class_of in H.
  destruct (in_K K (get l f)) eqn:Ek.
  - inversion H; subst. reflexivity.
  - destruct (truthy (get l f)) eqn:Et; [|discriminate]. inversion H; subst.
    simpl. split; [reflexivity|split; assumption].
Qed.

Lemma senv_of_sigma_ok : forall K allowed cons l hint,
  wfb K allowed cons l = true -> forallb (declared allowed) hint = true ->
  senv_ok l K (senv_of (sigma_of K l hint)) l.
Proof.
  intros K allowed cons l hint Hwf. induction hint as [|g hint IH]; simpl; intros Hd f s Hl.
  - discriminate.
  - apply andb_true_iff in Hd. destruct Hd as [Hg Hd]. simpl in Hl.
    destruct (String.eqb f g) eqn:E.
    + apply String.eqb_eq in E. subst g. inversion Hl; subst. clear Hl.
      unfold declared in Hg. destruct (lookup allowed f) as [cs|] eqn:El; [|discriminate].
      destruct (wf_class _ _ _ _ _ _ Hwf El) as [c [Hc _]]. rewrite Hc.
      apply class_of_rel. exact Hc.
    + apply IH; assumption.
Qed.

(* ------------------------------------------------------------------ main soundness theorem *)
Theorem pipeline_sound :
  forall K allowed cons ps targets,
    pipeline_ok K allowed cons (map fst ps) targets = true ->
    forall l r, wfb K allowed cons l = true -> run_pipeline ps l = Some r ->
    forall tg env v, In tg targets -> eval (t_spec tg) l env = Some v ->
                     get r (t_key tg) = v.
Proof.
  intros K allowed cons ps targets Hok l r Hwf Hrun tg env v Hin Hspec.
  unfold pipeline_ok in Hok. apply andb_true_iff in Hok. destruct Hok as [Hshape Htg].
  rewrite forallb_forall in Htg. specialize (Htg tg Hin).
  unfold target_ok in Htg. apply andb_true_iff in Htg. destruct Htg as [Hdecl Hall].
  rewrite forallb_forall in Hall.
  set (sg := sigma_of K l (t_hint tg)).
  assert (Hsg : In sg (sigmas allowed cons (t_hint tg))).
  { unfold sigmas. apply filter_In. split.
    - apply sigma_of_in_assigns with (cons := cons); assumption.
    - apply sigma_of_constr with (allowed := allowed). exact Hwf. }
  specialize (Hall sg Hsg). unfold check_sigma in Hall.
  assert (Hse : senv_ok l K (senv_of sg) l) by (eapply senv_of_sigma_ok; eauto).
  pose proof (spipeline_sound l K ps (senv_of sg) l r Hshape Hse Hrun) as Hp.
  destruct (spipeline K (senv_of sg) (map fst ps)) as [sef|]; [|destruct Hp].
  pose proof (seval_sound l K (senv_of sg) l env Hse (t_spec tg)) as Hs.
  destruct (seval K (senv_of sg) (t_spec tg)) as [|s']; [discriminate|].
  specialize (Hs _ Hspec).
  pose proof (sget_rel l K sef r (t_key tg) Hp) as Hr.
  destruct (sget sef (t_key tg)) as [f| c|]; destruct s' as [f'|c'|]; simpl in Hall; try discriminate.
  - apply String.eqb_eq in Hall. subst f'. simpl in *. destruct Hr as [Hr _]. destruct Hs as [Hs _]. congruence.
  - apply val_eqb_eq in Hall. subst c'. simpl in *. congruence.
Qed.

(* ------------------------------------------------------------------ literal round trip *)
Lemma get_cons_other : forall k k' v (r : record), String.eqb k k' = false -> get ((k', v) :: r) k = get r k.
Proof. intros. unfold get. simpl. rewrite H. reflexivity. Qed.

Lemma record_ext : forall (a b : record),
  map fst a = map fst b -> nodup_keys (map fst a) = true ->
  (forall k, In k (map fst a) -> get a k = get b k) -> a = b.
Proof.
  induction a as [|[k v] a IH]; destruct b as [|[k' v'] b]; simpl; intros Hk Hnd Hg; try discriminate; auto.
  inversion Hk; subst k'. apply andb_true_iff in Hnd. destruct Hnd as [Hfresh Hnd].
  apply negb_true_iff in Hfresh. pose proof (existsb_eqb_false _ _ Hfresh) as Hni.
  assert (v = v').
  { specialize (Hg k (or_introl eq_refl)). unfold get in Hg. simpl in Hg.
    rewrite String.eqb_refl in Hg. exact Hg. }
  subst v'. f_equal. apply IH; auto.
  intros k0 Hin. specialize (Hg k0 (or_intror Hin)).
  assert (E : String.eqb k0 k = false).
  { destruct (String.eqb k0 k) eqn:E; [|reflexivity]. apply String.eqb_eq in E. subst. contradiction. }
  rewrite !get_cons_other in Hg by exact E. exact Hg.
Qed.

Theorem roundtrip :
  forall K allowed cons t d hints,
    table_ok K allowed cons t d hints = true ->
    forall l env r, wfb K allowed cons l = true -> normalised d l = true ->
      run_stage {| s_rules := t; s_loader := d |} l env = Some r -> r = l.
Proof.
  intros K allowed cons t d hints Hok l env r Hwf Hnorm Hrun.
  set (st := {| s_rules := t; s_loader := d |}) in *.
  assert (Hrun' : run_pipeline [(st, env)] l = Some r) by (simpl; rewrite Hrun; reflexivity).
  pose proof (pipeline_sound K allowed cons [(st, env)] (id_targets d hints) Hok l r Hwf Hrun') as Hs.
  apply strs_eqb_eq in Hnorm.
  assert (Hkeys : map fst r = map l_key d).
  { unfold run_stage in Hrun. destruct (save (s_rules st) l env); [|discriminate].
    unfold load in Hrun. eapply post_keys; eauto. }
  assert (Hnd : nodup_keys (map l_key d) = true).
  { unfold table_ok, pipeline_ok in Hok. apply andb_true_iff in Hok. destruct Hok as [Hsh _].
    simpl in Hsh. rewrite andb_true_r in Hsh. unfold stage_shape_ok in Hsh.
    apply andb_true_iff in Hsh. destruct Hsh as [Hsh _]. apply andb_true_iff in Hsh. tauto. }
  apply record_ext.
  - congruence.
  - rewrite Hkeys. exact Hnd.
  - intros k Hin. rewrite Hkeys in Hin. apply in_map_iff in Hin. destruct Hin as [le [Hk Hin]]. subst k.
    apply (Hs {| t_key := l_key le; t_spec := EField (l_key le);
                 t_hint := match lookup hints (l_key le) with Some h => h | None => [l_key le] end |} []).
    + unfold id_targets. apply in_map_iff. exists le. auto.
    + reflexivity.
Qed.

Corollary second_generation :
  forall K allowed cons t d hints,
    table_ok K allowed cons t d hints = true ->
    forall l env r env2, wfb K allowed cons l = true -> normalised d l = true ->
      run_stage {| s_rules := t; s_loader := d |} l env = Some r ->
      save t r env2 = save t l env2.
Proof.
  intros K allowed cons t d hints Hok l env r env2 Hwf Hn Hrun.
  rewrite (roundtrip K allowed cons t d hints Hok l env r Hwf Hn Hrun). reflexivity.
Qed.

(* ------------------------------------------------------------------ generic refutations *)
(* A field emitted only when it is truthy (`if self._x: out[k] = self._x`) cannot carry a
   falsy value different from the constructor default. *)
Theorem truthy_guard_loses_falsy :
  forall k dflt v env, truthy v = false -> v <> dflt ->
    run_stage {| s_rules := [{| r_key := k; r_guard := EField k; r_val := EField k |}];
                 s_loader := [{| l_key := k; l_default := dflt; l_post := EField k |}] |}
              [(k, v)] env = Some [(k, dflt)].
Proof.
  intros k dflt v env Ht Hne. unfold run_stage. simpl. unfold get. simpl.
  rewrite String.eqb_refl. rewrite Ht. simpl. unfold load. simpl. unfold get. simpl.
  rewrite String.eqb_refl. reflexivity.
Qed.

(* A field emitted only when it differs from a literal c (`if self._x != c`) comes back as the
   constructor default when it equals c. *)
Theorem ne_guard_loses_literal :
  forall k c dflt env,
    run_stage {| s_rules := [{| r_key := k; r_guard := ENot (EEq (EField k) c); r_val := EField k |}];
                 s_loader := [{| l_key := k; l_default := dflt; l_post := EField k |}] |}
              [(k, c)] env = Some [(k, dflt)].
Proof.
  intros k c dflt env. unfold run_stage. simpl. unfold get. simpl.
  rewrite String.eqb_refl. rewrite val_eqb_refl. simpl. unfold load. simpl. unfold get. simpl.
  rewrite String.eqb_refl. reflexivity.
Qed.
