(* Proofs about Model/Catalog.v (C18); builds on Proofs/CacheP.v. *)
From Coq Require Import List Bool Arith String Lia.
From Splinkv Require Import Model.Cache Model.Catalog Proofs.CacheP.
Import ListNotations.
Open Scope string_scope.
Open Scope list_scope.

Section CatalogProofs.
  Variable K : Type.
  Variable keqb : K -> K -> bool.
  Variable hash : sqlt -> nat -> K.
  Hypothesis keqb_spec : forall a b, keqb a b = true <-> a = b.
  Hypothesis hash_inj : forall t u t' u', hash t u = hash t' u' -> t = t' /\ u = u'.

  Local Notation state := (state K).
  Local Notation handle := (handle K).
  Local Notation PL := (PL K).
  Local Notation PH := (PH K).
  Local Notation aget := (aget K keqb).
  Local Notation aset := (aset K keqb).
  Local Notation aremove := (aremove K keqb).
  Local Notation amem := (amem K keqb).
  Local Notation InvS := (InvS K keqb hash).
  Local Notation Sound := (Sound K keqb hash).
  Local Notation Inv := (Inv K keqb hash).
  Local Notation regs_ok := (regs_ok K).
  Local Notation leaves_stable := (leaves_stable K keqb).
  Local Notation cstep := (cstep K keqb hash).
  Local Notation crun := (crun K keqb hash).
  Local Notation cop_safe := (cop_safe K).
  Local Notation COp := (COp K).
  Local Notation CRegisterTable := (CRegisterTable K).
  Local Notation CDropTable := (CDropTable K).

  Opaque tfname CWTF CONCAT.
  Arguments Cache.aset : simpl never.
  Arguments Cache.aremove : simpl never.
  Arguments Cache.amem : simpl never.
  Arguments Cache.content : simpl never.

  (* Splink-origin entries are exactly the hashed names (normal mode, no realtime cached path) *)
  Definition CatOK (s : state) : Prop :=
    forall p e, aget (st_db K s) p = Some e -> (e_origin e = Splink <-> is_hashed K p = true).

  (* every named (un-hashed) table that exists keeps its entry: name, content, origin *)
  Definition kept (s s' : state) : Prop :=
    forall l e, aget (st_db K s) (PL l) = Some e -> aget (st_db K s') (PL l) = Some e.
  Lemma kept_refl s : kept s s.
  Proof. intros l e H. exact H. Qed.
  Lemma kept_trans s1 s2 s3 : kept s1 s2 -> kept s2 s3 -> kept s1 s3.
  Proof. intros A B l e H. apply B. apply A. exact H. Qed.

  Lemma CatOK_aset_hashed s n k v :
    CatOK s -> CatOK (set_db K s (aset (st_db K s) (PH n k) {| e_prov := v; e_origin := Splink |})).
  Proof.
    intros C p e. cbn. rewrite (aget_aset K keqb keqb_spec).
    destruct (pname_eqb K keqb (PH n k) p) eqn:E.
    - apply (pname_eqb_spec K keqb keqb_spec) in E. subst. intros H. inversion H; subst. cbn. tauto.
    - apply C.
  Qed.
  Lemma CatOK_aset_leaf s l v o :
    CatOK s -> o <> Splink -> CatOK (set_db K s (aset (st_db K s) (PL l) {| e_prov := v; e_origin := o |})).
  Proof.
    intros C Ho p e. cbn. rewrite (aget_aset K keqb keqb_spec).
    destruct (pname_eqb K keqb (PL l) p) eqn:E.
    - apply (pname_eqb_spec K keqb keqb_spec) in E. subst. intros H. inversion H; subst. cbn. split; [contradiction|discriminate].
    - apply C.
  Qed.
  Lemma CatOK_subset s s' :
    CatOK s -> (forall p e, aget (st_db K s') p = Some e -> aget (st_db K s) p = Some e) -> CatOK s'.
  Proof. intros C H p e Hg. apply C. apply H. exact Hg. Qed.

  Lemma drop_db_subset s h p e :
    aget (st_db K (fst (drop_handle K keqb s h))) p = Some e -> aget (st_db K s) p = Some e.
  Proof.
    rewrite (drop_handle_fst K keqb). destruct (h_cbs K h); auto. cbn. rewrite (aget_aremove K keqb keqb_spec).
    destruct (pname_eqb K keqb (h_phys K h) p); [discriminate|auto].
  Qed.
  Lemma drop_kept s h : cbs_hashed K h -> kept s (fst (drop_handle K keqb s h)).
  Proof. intros Hh l e H. rewrite (drop_handle_leaves K keqb keqb_spec); auto. Qed.

  Lemma delete_step_subset s k p e :
    aget (st_db K (delete_step K keqb s k)) p = Some e -> aget (st_db K s) p = Some e.
  Proof.
    unfold delete_step. destruct (aget (st_cache K s) k); auto.
    destruct (h_cbs K h && pname_eqb K keqb k (h_phys K h)); auto. apply drop_db_subset.
  Qed.
  Lemma delete_fold_subset keys : forall s p e,
    aget (st_db K (fold_left (delete_step K keqb) keys s)) p = Some e -> aget (st_db K s) p = Some e.
  Proof.
    induction keys as [|k r IH]; cbn; intros s p e H; auto. apply IH in H. eapply delete_step_subset; eauto.
  Qed.

  Lemma invalidate_subset s p e :
    aget (st_db K (invalidate K keqb s)) p = Some e -> aget (st_db K s) p = Some e.
  Proof.
    unfold invalidate. destruct (st_cache K s); auto. cbn. unfold delete_tables. intros H.
    apply delete_fold_subset in H. exact H.
  Qed.

  (* the database after one pipeline: unchanged, or one more hashed Splink table *)
  Lemma exec_pipeline_db s templ tree al mids uc :
    st_debug K s = false ->
    let s' := fst (fst (exec_pipeline K keqb hash s templ tree al mids uc)) in
    st_db K s' = st_db K s \/
    exists v, st_db K s' = aset (st_db K s) (PH templ (hash tree (st_uid K s))) {| e_prov := v; e_origin := Splink |}.
  Proof.
    intros Hd. unfold exec_pipeline. rewrite Hd.
    assert (R : let s' := fst (fst (exec_run K keqb hash s templ tree)) in
                st_db K s' = st_db K s \/
                exists v, st_db K s' = aset (st_db K s) (PH templ (hash tree (st_uid K s))) {| e_prov := v; e_origin := Splink |}).
    { unfold exec_run. destruct (forallb _ _); cbn; [right; eauto | left; auto]. }
    destruct uc; [|exact R].
    destruct (aget (st_cache K s) (named K templ)); [left; reflexivity|].
    destruct (aget (st_cache K s) (PH templ (hash tree (st_uid K s)))); [left; reflexivity|].
    destruct (amem (st_db K s) (PH templ (hash tree (st_uid K s)))); [left; reflexivity|exact R].
  Qed.

  Lemma exec_pipeline_cat s templ tree al mids uc :
    st_debug K s = false -> CatOK s ->
    let s' := fst (fst (exec_pipeline K keqb hash s templ tree al mids uc)) in CatOK s' /\ kept s s'.
  Proof.
    intros Hd C. destruct (exec_pipeline_db s templ tree al mids uc Hd) as [E|[v E]]; cbn in *.
    - split.
      + intros p e. rewrite E. apply C.
      + intros l e. rewrite E. auto.
    - split.
      + intros p e. rewrite E. apply (CatOK_aset_hashed s templ (hash tree (st_uid K s)) v C).
      + intros l e. rewrite E. rewrite (aget_aset_other K keqb keqb_spec); auto. discriminate.
  Qed.

  (* ---------------------------------------------------------------- one instruction *)
  Lemma step_instr_cat s regs tr i :
    plain i -> InvS s -> regs_ok regs -> CatOK s ->
    let s' := fst (fst (step_instr K keqb hash (s, regs, tr) i)) in CatOK s' /\ kept s s'.
  Proof.
    intros Hp I Hr C.
    destruct i; cbn -[exec_pipeline invalidate delete_tables evict_cwtf drop_handle resolve_all] in *; try contradiction.
    - (* INamedOrExec *)
      destruct (aget (st_cache K s) (named K n)); cbn -[exec_pipeline resolve_all]; [split; [exact C|apply kept_refl]|].
      set (r := resolve_all K keqb s regs ins).
      pose proof (exec_pipeline_cat s n (the_tree n p r) (r_aliases r) (r_inline r ++ mids) true (iv_nodebug _ _ _ _ I) C) as H.
      destruct (exec_pipeline K keqb hash s n (the_tree n p r) (r_aliases r) (r_inline r ++ mids) true) as [[s1 h] ev].
      cbn in *. exact H.
    - (* IExec *)
      set (r := resolve_all K keqb s regs ins).
      pose proof (exec_pipeline_cat s n (the_tree n p r) (r_aliases r) (r_inline r ++ mids) use_cache (iv_nodebug _ _ _ _ I) C) as H.
      destruct (exec_pipeline K keqb hash s n (the_tree n p r) (r_aliases r) (r_inline r ++ mids) use_cache) as [[s1 h] ev].
      cbn in *. exact H.
    - (* IComputeConcat *)
      destruct (aget (st_cache K s) (named K CONCAT)); cbn -[exec_pipeline]; [split; [exact C|apply kept_refl]|].
      destruct (aget (st_cache K s) (named K CWTF)); cbn -[exec_pipeline]; [split; [exact C|apply kept_refl]|].
      pose proof (exec_pipeline_cat s CONCAT (concat_tree K s) [] [] true (iv_nodebug _ _ _ _ I) C) as H.
      destruct (exec_pipeline K keqb hash s CONCAT (concat_tree K s) [] [] true) as [[s1 h] ev].
      cbn in *. exact H.
    - (* IFreshUid *)
      split; [exact C|intros l e H; exact H].
    - (* IDrop *)
      destruct (nth_error regs i) eqn:E; cbn; [|split; [exact C|apply kept_refl]].
      assert (Hh : cbs_hashed K h). { unfold CacheP.regs_ok in Hr. rewrite Forall_forall in Hr. apply Hr. eapply nth_error_In; eauto. }
      destruct (drop_handle K keqb s h) as [s1 ev] eqn:Ed. cbn.
      assert (s1 = fst (drop_handle K keqb s h)) by (rewrite Ed; auto). subst s1.
      split; [eapply CatOK_subset; [exact C|apply drop_db_subset] | apply drop_kept; auto].
    - (* IRegisterTF *)
      destruct (amem (st_db K s) (PL (LUid (tfname c) (st_luid K s)))) eqn:Em; cbn -[evict_cwtf]; [split; [exact C|apply kept_refl]|].
      set (l := LUid (tfname c) (st_luid K s)) in *.
      set (e := {| e_prov := PLookup c ver; e_origin := Caller |}).
      set (s1 := set_db K s (aset (st_db K s) (PL l) e)).
      set (s2 := set_cache K s1 (aset (st_cache K s1) (named K (tfname c))
                                      {| h_templ := tfname c; h_phys := PL l; h_src := Leaf l; h_cbs := false |})).
      assert (C2 : CatOK s2) by (apply (CatOK_aset_leaf s l (PLookup c ver) Caller C); discriminate).
      assert (K2 : kept s s2).
      { intros l0 e0 H. unfold s2, s1. cbn. rewrite (aget_aset_other K keqb keqb_spec); auto.
        intros X. inversion X; subst. unfold Cache.amem in Em. rewrite H in Em. discriminate. }
      destruct (fx77 (st_fix K s)).
      + change (CatOK (evict_cwtf K keqb s2) /\ kept s (evict_cwtf K keqb s2)).
        unfold evict_cwtf. destruct (aget (st_cache K s2) (named K CWTF)) eqn:E2; [|split; auto].
        destruct (h_cbs K h) eqn:Ec; [|split; auto].
        assert (Hh : cbs_hashed K h).
        { assert (E3 : aget (st_cache K s) (named K CWTF) = Some h).
          { unfold s2, s1 in E2. cbn in E2. rewrite (aget_aset_other K keqb keqb_spec) in E2; auto.
            intros X. symmetry in X. apply (named_tf_neq_cwtf K) in X. auto. }
          eapply (iv_cache_cbs _ _ _ _ I); eauto. }
        split; [eapply CatOK_subset; [exact C2|apply drop_db_subset] | eapply kept_trans; [exact K2|apply drop_kept; auto]].
      + split; auto.
    - (* IRegisterRecords *)
      set (l := LUid base (st_ctr K s)).
      assert (Em : amem (st_db K s) (PL l) = false).
      { destruct (amem (st_db K s) (PL l)) eqn:Em; auto. apply (iv_fresh _ _ _ _ I) in Em. lia. }
      split.
      + apply (CatOK_aset_leaf s l (PRecords (st_ctr K s)) Caller C). discriminate.
      + intros l0 e0 H. cbn. rewrite (aget_aset_other K keqb keqb_spec); auto.
        intros X. inversion X; subst. unfold Cache.amem in Em. rewrite H in Em. discriminate.
    - (* ISetParams *)
      split; [exact C|intros l e H; exact H].
    - (* IInvalidate *)
      split; [eapply CatOK_subset; [exact C|apply invalidate_subset]|].
      intros l e H. rewrite (invalidate_leaves K keqb hash keqb_spec); auto.
    - (* IDeleteTables *)
      split; [eapply CatOK_subset; [exact C|unfold delete_tables; apply delete_fold_subset]|].
      intros l e H. unfold delete_tables. rewrite (delete_fold_leaves K keqb hash keqb_spec); auto.
  Qed.

  Lemma run_prog_cat prog : forall s regs tr,
    Forall plain prog -> InvS s -> Sound s -> regs_ok regs -> CatOK s ->
    let s' := fst (fst (fold_left (step_instr K keqb hash) prog (s, regs, tr))) in CatOK s' /\ kept s s'.
  Proof.
    induction prog as [|i r IH]; cbn -[step_instr]; intros s regs tr Hp I Hs Hr C; [split; [exact C|apply kept_refl]|].
    inversion Hp; subst.
    pose proof (step_instr_inv K keqb hash keqb_spec hash_inj s regs tr i H1 I Hs Hr) as H.
    pose proof (step_instr_cat s regs tr i H1 I Hr C) as HC.
    destruct (step_instr K keqb hash (s, regs, tr) i) as [[s1 regs1] tr1]. cbn in H, HC.
    destruct H as (I1 & S1 & R1 & _). destruct HC as [C1 K1].
    destruct (IH s1 regs1 tr1 H2 I1 S1 R1 C1) as [C2 K2]. split; [exact C2|eapply kept_trans; eauto].
  Qed.

  (* ---------------------------------------------------------------- catalog operations *)
  Definition CInv (s : state) : Prop := InvS s /\ Sound s /\ CatOK s.

  Lemma register_leaf_inv s l v :
    CInv s -> amem (st_db K s) (PL l) = false -> (forall b u, l = LUid b u -> u < st_ctr K s) ->
    CInv (register_leaf K keqb s l v) /\ kept s (register_leaf K keqb s l v).
  Proof.
    intros (I & Hs & C) Hnew Hl. unfold register_leaf. split; [split; [|split]|].
    - pose proof (InvS_register_leaf K keqb hash keqb_spec s l {| e_prov := v; e_origin := Caller |} (st_ctr K s) I Hnew (le_n _) Hl) as H.
      destruct s; exact H.
    - unfold CacheP.Sound. cbn. apply (sound_register_leaf K keqb hash keqb_spec); auto.
    - apply CatOK_aset_leaf; auto. discriminate.
    - intros l0 e0 H. cbn. rewrite (aget_aset_other K keqb keqb_spec); auto.
      intros X. inversion X; subst. unfold Cache.amem in Hnew. rewrite H in Hnew. discriminate.
  Qed.

  Lemma ci_eqb_refl n : ci_eqb n n = true.
  Proof. unfold ci_eqb. apply String.eqb_refl. Qed.

  Lemma taken_of_existing db n name e :
    aget db (PL (LPlain n)) = Some e -> ci_eqb n name = true -> name_taken K db name = true.
  Proof.
    intros H Hc. apply (aget_In K keqb keqb_spec) in H. unfold name_taken. apply existsb_exists.
    exists (PL (LPlain n), e). split; auto.
  Qed.
  Lemma not_taken_absent db name : name_taken K db name = false -> amem db (PL (LPlain name)) = false.
  Proof.
    intros H. unfold Cache.amem. destruct (aget db (PL (LPlain name))) eqn:E; auto.
    rewrite (taken_of_existing db name name d E (ci_eqb_refl name)) in H. discriminate.
  Qed.

  (* ---------------------------------------------------------------- register_multiple_tables *)
  Lemma name_taken_filter db f name : name_taken K (filter f db) name = true -> name_taken K db name = true.
  Proof.
    unfold name_taken. rewrite !existsb_exists. intros [x [Hin Hx]]. apply filter_In in Hin. exists x. tauto.
  Qed.
  Lemma name_taken_aset_other db a e b :
    name_taken K db b = false -> ci_eqb a b = false -> name_taken K (aset db (PL (LPlain a)) e) b = false.
  Proof.
    intros Hn Hc. unfold Cache.aset. unfold name_taken. cbn [existsb fst same_name]. rewrite Hc. cbn.
    destruct (existsb (fun kv => same_name K b (fst kv)) (Cache.aremove K keqb db (PL (LPlain a)))) eqn:E; auto.
    unfold Cache.aremove in E. apply (name_taken_filter db _ b) in E. rewrite E in Hn. discriminate.
  Qed.
  Lemma ci_distinct_combine aliases : forall (items : list reg_item),
    ci_distinct aliases = true -> ci_distinct (map snd (combine items aliases)) = true.
  Proof.
    induction aliases as [|a r IH]; intros items H; [destruct items; reflexivity|].
    destruct items as [|i items]; [reflexivity|]. cbn in *. apply andb_true_iff in H. destruct H as [H1 H2].
    rewrite (IH items H2), andb_true_r. apply negb_true_iff in H1. apply negb_true_iff.
    destruct (existsb (ci_eqb a) (map snd (combine items r))) eqn:E; auto.
    apply existsb_exists in E. destruct E as [x [Hin Hx]]. apply in_map_iff in Hin. destruct Hin as [[i0 x0] [<- Hin]].
    apply in_combine_r in Hin. assert (X : existsb (ci_eqb a) r = true) by (apply existsb_exists; eauto).
    rewrite X in H1. discriminate.
  Qed.
  Lemma reg_clashes_nil db pairs :
    reg_clashes K db pairs = [] ->
    forall p, In p pairs -> is_frame (fst p) = true -> name_taken K db (snd p) = false.
  Proof.
    unfold reg_clashes. intros H p Hin Hf. apply map_eq_nil in H.
    destruct (name_taken K db (snd p)) eqn:E; auto.
    assert (X : In p (filter (fun p => is_frame (fst p) && name_taken K db (snd p)) pairs))
      by (apply filter_In; split; auto; rewrite Hf, E; reflexivity).
    rewrite H in X. destruct X.
  Qed.

  (* the registration loop on aliases that are free and pairwise different: invariants kept, every existing named entry kept *)
  Lemma reg_frames_inv pairs : forall s,
    CInv s ->
    (forall p, In p pairs -> is_frame (fst p) = true -> name_taken K (st_db K s) (snd p) = false) ->
    ci_distinct (map snd pairs) = true ->
    CInv (reg_frames K keqb s pairs) /\ kept s (reg_frames K keqb s pairs) /\
    st_fix K (reg_frames K keqb s pairs) = st_fix K s.
  Proof.
    induction pairs as [|[i a] r IH]; intros s Hi Hfree Hd; [cbn; split; [exact Hi|split; [apply kept_refl|reflexivity]]|].
    cbn in Hd. apply andb_true_iff in Hd. destruct Hd as [Hd1 Hd2]. apply negb_true_iff in Hd1.
    unfold reg_frames. cbn [fold_left fst snd]. fold (reg_frames K keqb).
    destruct i as [t|ver].
    - apply IH; auto. intros p Hin. apply Hfree. right. exact Hin.
    - assert (Ht : name_taken K (st_db K s) a = false) by (apply (Hfree (RFrame ver, a)); [left; reflexivity|reflexivity]).
      assert (Em : amem (st_db K s) (PL (LPlain a)) = false).
      { unfold Cache.amem. destruct (aget (st_db K s) (PL (LPlain a))) eqn:E; auto.
        assert (X : name_taken K (st_db K s) a = true).
        { apply (aget_In K keqb keqb_spec) in E. unfold name_taken. apply existsb_exists.
          exists (PL (LPlain a), d). split; auto. cbn. unfold ci_eqb. apply String.eqb_refl. }
        rewrite X in Ht. discriminate. }
      destruct Hi as (I & Hs & C).
      set (s1 := register_leaf K keqb s (LPlain a) (PInput a ver)).
      assert (A : CInv s1).
      { unfold s1, register_leaf. split; [|split].
        - pose proof (InvS_register_leaf K keqb hash keqb_spec s (LPlain a) {| e_prov := PInput a ver; e_origin := Caller |}
                        (st_ctr K s) I Em (le_n _)) as H.
          destruct s; apply H. intros b u X; discriminate.
        - unfold CacheP.Sound. cbn. apply (sound_register_leaf K keqb hash keqb_spec); auto.
        - intros p e. cbn. rewrite (aget_aset K keqb keqb_spec).
          destruct (pname_eqb K keqb (PL (LPlain a)) p) eqn:E.
          + apply (pname_eqb_spec K keqb keqb_spec) in E. subst. intros H. inversion H; subst. cbn. split; discriminate.
          + apply C. }
      assert (B : kept s s1).
      { intros l0 e0 H. unfold s1, register_leaf. cbn. rewrite (aget_aset_other K keqb keqb_spec); auto.
        intros X. inversion X; subst. unfold Cache.amem in Em. rewrite H in Em. discriminate. }
      assert (F : forall p, In p r -> is_frame (fst p) = true -> name_taken K (st_db K s1) (snd p) = false).
      { intros p Hin Hf. unfold s1, register_leaf. cbn. apply name_taken_aset_other.
        - apply Hfree; [right; exact Hin|exact Hf].
        - destruct (ci_eqb a (snd p)) eqn:E; auto.
          assert (X : existsb (ci_eqb a) (map snd r) = true) by (apply existsb_exists; exists (snd p); split; [apply in_map; exact Hin|exact E]).
          rewrite X in Hd1. discriminate. }
      destruct (IH s1 A F Hd2) as (A2 & B2 & F2).
      split; [exact A2|split; [exact (kept_trans _ _ _ B B2)|etransitivity; [exact F2|reflexivity]]].
  Qed.

  (* alignment: whatever the overwrite flag, register_multiple_tables touches only names that are (up to letter case) the alias
     of a FRAME item; the alias of a by-name item is a label and no table of that name is dropped or replaced *)
  Lemma aget_filter_key (g : pname K -> bool) (db : db_t K) k :
    g k = true -> aget (filter (fun kv => g (fst kv)) db) k = aget db k.
  Proof.
    intros Hg. induction db as [|[k' v] r IH]; cbn; auto.
    destruct (g k') eqn:E; cbn.
    - destruct (pname_eqb K keqb k' k); auto.
    - destruct (pname_eqb K keqb k' k) eqn:E2; auto.
      apply (pname_eqb_spec K keqb keqb_spec) in E2. subst. rewrite Hg in E. discriminate.
  Qed.
  Lemma reg_drop_existing_spares pairs : forall db l e,
    aget db (PL l) = Some e ->
    (forall p, In p pairs -> is_frame (fst p) = true -> same_name K (snd p) (PL l) = false) ->
    aget (reg_drop_existing K db pairs) (PL l) = Some e.
  Proof.
    induction pairs as [|p r IH]; intros db l e H Hp; [exact H|].
    unfold reg_drop_existing. cbn [fold_left]. fold (reg_drop_existing K).
    apply IH; [|intros q Hq; apply Hp; right; exact Hq].
    destruct (is_frame (fst p) && name_taken K db (snd p)) eqn:E; [|exact H].
    apply andb_true_iff in E. destruct E as [Ef _].
    unfold drop_name. rewrite (aget_filter_key (fun k => negb (same_name K (snd p) k))); [exact H|].
    rewrite (Hp p (or_introl eq_refl) Ef). reflexivity.
  Qed.
  Lemma reg_frames_spares pairs : forall s l e,
    aget (st_db K s) (PL l) = Some e ->
    (forall p, In p pairs -> is_frame (fst p) = true -> same_name K (snd p) (PL l) = false) ->
    aget (st_db K (reg_frames K keqb s pairs)) (PL l) = Some e.
  Proof.
    induction pairs as [|[i a] r IH]; intros s l e H Hp; [exact H|].
    unfold reg_frames. cbn [fold_left fst snd]. fold (reg_frames K keqb).
    apply IH; [|intros q Hq; apply Hp; right; exact Hq].
    destruct i as [t|ver]; [exact H|].
    unfold register_leaf. cbn. rewrite (aget_aset_other K keqb keqb_spec); [exact H|].
    intros X. inversion X; subst. pose proof (Hp (RFrame ver, a) (or_introl eq_refl) eq_refl) as Y.
    cbn in Y. rewrite ci_eqb_refl in Y. discriminate.
  Qed.
  Theorem register_multiple_touches_frame_aliases_only s items aliases ow l e :
    aget (st_db K s) (PL l) = Some e ->
    (forall ver a, In (RFrame ver, a) (combine items aliases) -> same_name K a (PL l) = false) ->
    aget (st_db K (fst (cstep s (CRegisterMultiple K items aliases ow)))) (PL l) = Some e.
  Proof.
    intros H Hp.
    assert (Hp' : forall p, In p (combine items aliases) -> is_frame (fst p) = true -> same_name K (snd p) (PL l) = false).
    { intros [i a] Hin Hf. destruct i; [discriminate|]. cbn. eapply Hp; eauto. }
    cbn. unfold register_multiple. destruct ow.
    - cbn. apply reg_frames_spares; auto. cbn. apply reg_drop_existing_spares; auto.
    - destruct (reg_clashes K (st_db K s) (combine items aliases)); cbn; [apply reg_frames_spares; auto|exact H].
  Qed.

  (* a frame whose alias names an existing object (up to letter case): the whole call is refused, nothing changes *)
  Theorem register_multiple_refused s items aliases ver a existing :
    In (RFrame ver, a) (combine items aliases) ->
    amem (st_db K s) (PL (LPlain existing)) = true -> ci_eqb existing a = true ->
    exists evs, cstep s (CRegisterMultiple K items aliases false) = (s, evs) /\ In (Refused a) evs.
  Proof.
    intros Hin Hm Hc. cbn. unfold register_multiple.
    assert (Ht : name_taken K (st_db K s) a = true).
    { unfold Cache.amem in Hm. destruct (aget (st_db K s) (PL (LPlain existing))) eqn:E; [|discriminate].
      eapply taken_of_existing; eauto. }
    assert (X : In a (reg_clashes K (st_db K s) (combine items aliases))).
    { unfold reg_clashes. apply in_map_iff. exists (RFrame ver, a). split; [reflexivity|]. apply filter_In. split; [exact Hin|]. cbn. exact Ht. }
    destruct (reg_clashes K (st_db K s) (combine items aliases)) eqn:Ec; [destruct X|].
    eexists. split; [reflexivity|]. apply in_map. exact X.
  Qed.

  (* register_table(frame, name, overwrite) IS register_multiple_tables([frame], [name], overwrite) *)
  Theorem register_table_is_singleton s name ow ver :
    cstep s (CRegisterTable name ow ver) = cstep s (CRegisterMultiple K [RFrame ver] [name] ow).
  Proof.
    cbn. unfold register_multiple, reg_clashes, reg_drop_existing, reg_frames, drop_name. cbn.
    destruct (name_taken K (st_db K s) name); destruct ow; cbn; try reflexivity; destruct s; reflexivity.
  Qed.

  Lemma evict_cat s : InvS s -> CatOK s -> CatOK (evict_cwtf K keqb s) /\ kept s (evict_cwtf K keqb s).
  Proof.
    intros I C. unfold evict_cwtf. destruct (aget (st_cache K s) (named K CWTF)) eqn:E; [|split; [exact C|apply kept_refl]].
    destruct (h_cbs K h) eqn:Ec; [|split; [exact C|apply kept_refl]].
    pose proof (iv_cache_cbs _ _ _ _ I _ _ E) as Hh.
    split; [eapply CatOK_subset; [exact C|apply drop_db_subset] | apply drop_kept; auto].
  Qed.

  Lemma cstep_inv s c :
    cop_safe (st_fix K s) c = true -> CInv s ->
    CInv (fst (cstep s c)) /\ kept s (fst (cstep s c)) /\ st_fix K (fst (cstep s c)) = st_fix K s.
  Proof.
    intros Hok (I & Hs & C). destruct c; cbn -[run_op exec_pipeline] in *.
    - (* COp *)
      apply andb_true_iff in Hok. destruct Hok as [Hh Hn].
      assert (Hne : forall v, o <> ChangeInputInvalidate v) by (intros v ->; discriminate).
      pose proof (step_inv K keqb hash keqb_spec hash_inj s o Hh (conj I Hs)) as H. destruct H as ([I' Hs'] & _ & _ & _ & Hfx).
      unfold step in Hfx.
      unfold step in I', Hs'. unfold run_op, run_prog in *.
      pose proof (run_prog_cat (prog_of_op K s o) s [] [] (prog_plain K s o Hh Hne) I Hs (Forall_nil _) C) as HC.
      destruct (fold_left (step_instr K keqb hash) (prog_of_op K s o) (s, [], [])) as [[s1 regs1] tr1]. cbn in *.
      destruct HC as [C1 K1]. split; [split; [|split]|split]; auto.
    - (* CRegisterTable *)
      apply negb_true_iff in Hok. subst overwrite.
      destruct (name_taken K (st_db K s) name) eqn:Et; cbn; [split; [split; [|split]; auto|split; [apply kept_refl|auto]]|].
      pose proof (not_taken_absent _ _ Et) as Em.
      destruct (register_leaf_inv s (LPlain name) (PInput name ver) (conj I (conj Hs C)) Em) as [A B]; [intros b u X; discriminate|].
      split; [exact A|split; [exact B|reflexivity]].
    - (* CRegisterMultiple *)
      apply andb_true_iff in Hok. destruct Hok as [Ho Hd]. apply negb_true_iff in Ho. subst overwrite.
      unfold register_multiple. destruct (reg_clashes K (st_db K s) (combine items aliases)) eqn:Ec; cbn -[reg_frames];
        [|split; [split; [|split]; auto|split; [apply kept_refl|auto]]].
      exact (reg_frames_inv (combine items aliases) s (conj I (conj Hs C)) (reg_clashes_nil _ _ Ec) (ci_distinct_combine aliases items Hd)).
    - (* CRegisterByName *)
      set (h := {| h_templ := slot_name k; h_phys := PL (LPlain name); h_src := Leaf (LPlain name); h_cbs := false |}).
      set (s1 := set_cache K s (aset (st_cache K s) (named K (slot_name k)) h)).
      assert (I1 : InvS s1) by (apply (InvS_set_named K keqb hash keqb_spec); auto; intros X; discriminate).
      assert (S1 : Sound s1) by exact Hs.
      assert (C1 : CatOK s1) by exact C.
      assert (K1 : kept s s1) by (intros l e X; exact X).
      destruct k; try (split; [split; [|split]; auto|split; [exact K1|reflexivity]]).
      destruct (fx77 (st_fix K s)); [|split; [split; [|split]; auto|split; [exact K1|reflexivity]]].
      destruct (evict_cwtf_inv K keqb hash keqb_spec s1 I1) as (A1 & A2 & A3).
      destruct (evict_cat s1 I1 C1) as [B1 B2].
      split; [split; [exact A1|split; [apply A2; exact S1|exact B1]]|split; [exact (kept_trans _ _ _ K1 B2)|]].
      destruct A3 as (_ & _ & _ & _ & _ & _ & _ & A8). etransitivity; [exact A8|reflexivity].
    - (* CHandleByName *)
      split; [split; [|split]; auto|split; [apply kept_refl|reflexivity]].
    - (* CDropTable *)
      apply negb_true_iff in Hok. subst force. cbn. split; [split; [|split]; auto|split; [apply kept_refl|auto]].
    - (* CDropFrame *)
      destruct (aget (st_cache K s) key) eqn:E; [|cbn; split; [split; [|split]; auto|split; [apply kept_refl|auto]]].
      pose proof (iv_cache_cbs _ _ _ _ I _ _ E) as Hh.
      pose proof (drop_handle_fields K keqb s h) as F. cbn in F.
      split; [split; [apply (drop_handle_InvS K keqb hash keqb_spec); auto|split; [apply (drop_handle_sound K keqb hash keqb_spec); auto|]]|split].
      + eapply CatOK_subset; [exact C|apply drop_db_subset].
      + apply drop_kept; auto.
      + tauto.
    - (* CRealtime *)
      set (u := st_ctr K s).
      set (s0 := set_luid_ctr K s (st_luid K s) (S u)).
      assert (J0 : CInv s0).
      { split; [|split; [exact Hs|exact C]]. destruct I. constructor; cbn; auto; try (unfold u; lia).
        intros b u0 H. apply iv_fresh in H. unfold u. lia. }
      assert (E1 : amem (st_db K s0) (PL (LUid RTL u)) = false).
      { destruct (amem (st_db K s0) (PL (LUid RTL u))) eqn:Em; auto. apply (iv_fresh _ _ _ _ I) in Em. unfold u in Em. lia. }
      assert (F1 : forall b u0, LUid RTL u = LUid b u0 -> u0 < st_ctr K s0) by (intros b u0 X; inversion X; subst; cbn; lia).
      destruct (register_leaf_inv s0 (LUid RTL u) (PRecords u) J0 E1 F1) as [J1 K1].
      set (s1 := register_leaf K keqb s0 (LUid RTL u) (PRecords u)) in *.
      assert (E2 : amem (st_db K s1) (PL (LUid RTR u)) = false).
      { unfold s1, register_leaf. cbn. rewrite (amem_aset K keqb keqb_spec).
        assert (X : pname_eqb K keqb (PL (LUid RTL u)) (PL (LUid RTR u)) = false) by (cbn; vm_compute; reflexivity).
        rewrite X. cbn.
        destruct (amem (st_db K s) (PL (LUid RTR u))) eqn:Em; auto. apply (iv_fresh _ _ _ _ I) in Em. unfold u in Em. lia. }
      assert (F2 : forall b u0, LUid RTR u = LUid b u0 -> u0 < st_ctr K s1) by (intros b u0 X; inversion X; subst; cbn; lia).
      destruct (register_leaf_inv s1 (LUid RTR u) (PRecords u) J1 E2 F2) as [J2 K2].
      set (s2 := register_leaf K keqb s1 (LUid RTR u) (PRecords u)) in *.
      destruct J2 as (I2 & S2 & C2).
      assert (K0 : kept s s0) by (intros l e X; exact X).
      assert (K02 : kept s s2) by (eapply kept_trans; [exact K0|]; eapply kept_trans; [exact K1|exact K2]).
      assert (Gen : forall templ T al mids uc, name_of T = templ ->
                let r := exec_pipeline K keqb hash s2 templ T al mids uc in
                CInv (fst (fst r)) /\ kept s (fst (fst r)) /\ st_fix K (fst (fst r)) = st_fix K s).
      { intros templ T al mids uc Hn.
        pose proof (exec_pipeline_spec K keqb hash keqb_spec hash_inj s2 templ T al mids uc I2 S2 Hn) as H.
        pose proof (exec_pipeline_cat s2 templ T al mids uc (iv_nodebug _ _ _ _ I2) C2) as HC.
        destruct (exec_pipeline K keqb hash s2 templ T al mids uc) as [[s3 h] ev].
        cbn in H, HC |- *. destruct H as (I3 & S3 & _ & Hc & _). destruct HC as [C3 K3].
        destruct Hc as (c1 & c2 & c3 & c4 & c5 & c6 & c7 & c8).
        split; [split; [|split]; auto|split; [eapply kept_trans; eauto|rewrite c8; reflexivity]]. }
      destruct cached.
      + cbn in Hok. rewrite Hok.
        pose proof (Gen RT (Cte RT 0 [Leaf (LUid RTL u); Leaf (LUid RTR u)]) [RTL; RTR] [] false eq_refl) as G.
        destruct (exec_pipeline K keqb hash s2 RT (Cte RT 0 [Leaf (LUid RTL u); Leaf (LUid RTR u)]) [RTL; RTR] [] false) as [[s3 h] ev].
        exact G.
      + pose proof (Gen PREDICT (Cte PREDICT 999 [Leaf (LUid RTL u); Leaf (LUid RTR u)]) [RTL; RTR]
                        ["__splink__compare_two_records_blocked"; CVV; MWP] true eq_refl) as G.
        destruct (exec_pipeline K keqb hash s2 PREDICT (Cte PREDICT 999 [Leaf (LUid RTL u); Leaf (LUid RTR u)]) [RTL; RTR]
                                ["__splink__compare_two_records_blocked"; CVV; MWP] true) as [[s3 h] ev].
        exact G.
  Qed.
  (* ---------------------------------------------------------------- histories *)
  Lemma crun_inv cs : forall s, forallb (cop_safe (st_fix K s)) cs = true -> CInv s ->
    CInv (crun s cs) /\ kept s (crun s cs) /\ st_fix K (crun s cs) = st_fix K s.
  Proof.
    induction cs as [|c r IH]; cbn; intros s Hok Hi; [split; [exact Hi|split; [apply kept_refl|reflexivity]]|].
    apply andb_true_iff in Hok. destruct Hok as [H1 H2].
    destruct (cstep_inv s c H1 Hi) as (Hi1 & K1 & F1). rewrite <- F1 in H2. destruct (IH _ H2 Hi1) as (Hi2 & K2 & F2).
    split; [exact Hi2|split; [eapply kept_trans; eauto|etransitivity; [exact F2|exact F1]]].
  Qed.

  Lemma aget_app {V} (a b : list (pname K * V)) k :
    aget (a ++ b) k = match aget a k with Some v => Some v | None => aget b k end.
  Proof. induction a as [|[k' v] r IH]; cbn; auto. destruct (pname_eqb K keqb k' k); auto. Qed.

  Lemma user_db_hashed tabs n k : aget (user_db K tabs) (PH n k) = None.
  Proof.
    destruct (aget (user_db K tabs) (PH n k)) eqn:E; auto. apply (aget_In K keqb keqb_spec) in E. unfold user_db in E.
    apply in_map_iff in E. destruct E as [[m v] [E _]]. discriminate.
  Qed.
  Lemma user_db_entry tabs p e : aget (user_db K tabs) p = Some e -> e_origin e = User /\ exists n, p = PL (LPlain n).
  Proof.
    intros H. apply (aget_In K keqb keqb_spec) in H. unfold user_db in H. apply in_map_iff in H.
    destruct H as [[n v] [E _]]. inversion E. subst. cbn. eauto.
  Qed.
  Lemma input_db_entry inputs ver p e :
    aget (input_db K (map LPlain inputs) ver) p = Some e -> e_origin e = User /\ exists n, p = PL (LPlain n).
  Proof.
    intros H. apply (aget_In K keqb keqb_spec) in H. unfold input_db in H. apply in_map_iff in H.
    destruct H as [l [E Hin]]. apply in_map_iff in Hin. destruct Hin as [n [<- _]]. inversion E. subst. cbn. eauto.
  Qed.

  Lemma cinit_entry inputs ver others tfcols params uid luid fx p e :
    aget (st_db K (cinit K inputs ver others tfcols params uid luid fx)) p = Some e ->
    e_origin e = User /\ exists n, p = PL (LPlain n).
  Proof.
    unfold cinit. cbn. rewrite aget_app. destruct (aget (input_db K (map LPlain inputs) ver) p) eqn:E.
    - intros H. inversion H; subst. eapply input_db_entry; eauto.
    - apply user_db_entry.
  Qed.

  Lemma cinit_inv inputs ver others tfcols params uid luid fx :
    CInv (cinit K inputs ver others tfcols params uid luid fx).
  Proof.
    set (s := cinit K inputs ver others tfcols params uid luid fx).
    assert (NH : forall n k, amem (st_db K s) (PH n k) = false).
    { intros n k. unfold Cache.amem. destruct (aget (st_db K s) (PH n k)) eqn:E; auto.
      apply cinit_entry in E. destruct E as [_ [m X]]. discriminate. }
    split; [|split].
    - constructor; cbn; auto.
      + constructor.
      + intros n k h. discriminate.
      + intros key h. discriminate.
      + intros n k H. fold s in H. rewrite NH in H. discriminate.
      + intros b u H. apply (amem_true K keqb) in H. destruct H as [e H]. apply (cinit_entry inputs ver others tfcols params uid luid fx) in H. destruct H as [_ [m X]]. discriminate.
      + intros l Hin. apply (amem_true K keqb). rewrite aget_app.
        pose proof (input_db_leaf K keqb (map LPlain inputs) ver l) as L. rewrite L.
        assert (X : existsb (lname_eqb l) (map LPlain inputs) = true) by (apply existsb_exists; exists l; split; auto; apply lname_eqb_refl).
        rewrite X. eauto.
    - apply (no_hashed_sound K keqb hash). exact NH.
    - intros p e H. apply cinit_entry in H. destruct H as [Ho [m ->]]. rewrite Ho. cbn. split; discriminate.
  Qed.

  (* ---------------------------------------------------------------- C18 statements *)
  Theorem user_tables_untouched inputs ver others tfcols params uid luid fx cs :
    forallb (cop_safe fx) cs = true ->
    let s0 := cinit K inputs ver others tfcols params uid luid fx in
    forall l e, aget (st_db K s0) (PL l) = Some e -> aget (st_db K (crun s0 cs)) (PL l) = Some e.
  Proof.
    intros Hok s0 l e H. destruct (crun_inv cs s0 Hok (cinit_inv inputs ver others tfcols params uid luid fx)) as (_ & Kp & _).
    apply Kp. exact H.
  Qed.

  (* also every table the caller registers during the history stays as it was registered *)
  Theorem registered_tables_untouched inputs ver others tfcols params uid luid fx cs1 cs2 :
    forallb (cop_safe fx) (cs1 ++ cs2) = true ->
    let s0 := cinit K inputs ver others tfcols params uid luid fx in
    forall l e, aget (st_db K (crun s0 cs1)) (PL l) = Some e -> aget (st_db K (crun s0 (cs1 ++ cs2))) (PL l) = Some e.
  Proof.
    intros Hok s0 l e H. rewrite forallb_app in Hok. apply andb_true_iff in Hok. destruct Hok as [H1 H2].
    destruct (crun_inv cs1 s0 H1 (cinit_inv inputs ver others tfcols params uid luid fx)) as (Hi & _ & Fx).
    assert (H2' : forallb (cop_safe (st_fix K (crun s0 cs1))) cs2 = true) by (rewrite Fx; exact H2).
    destruct (crun_inv cs2 _ H2' Hi) as (_ & Kp & _).
    unfold Catalog.crun in *. rewrite fold_left_app. apply Kp. exact H.
  Qed.

  (* refused whenever an object of that name exists UP TO LETTER CASE (the engines' name resolution) *)
  Theorem register_refused_ci s existing name ver :
    amem (st_db K s) (PL (LPlain existing)) = true -> ci_eqb existing name = true ->
    cstep s (CRegisterTable name false ver) = (s, [Refused name]).
  Proof.
    intros H Hc. apply (amem_true K keqb) in H. destruct H as [e H]. cbn.
    rewrite (taken_of_existing _ _ _ _ H Hc). reflexivity.
  Qed.
  Theorem register_refused s name ver :
    amem (st_db K s) (PL (LPlain name)) = true -> cstep s (CRegisterTable name false ver) = (s, [Refused name]).
  Proof. intros H. apply (register_refused_ci s name); auto. apply ci_eqb_refl. Qed.

  Lemma drop_handle_refused' s h : h_cbs K h = false -> drop_handle K keqb s h = (s, [Refused (pbase K (h_phys K h))]).
  Proof. intros H. unfold drop_handle. rewrite H. reflexivity. Qed.

  (* the invariant behind the created_by_splink guard: in every state reached by a safe history, a frame that Splink
     allows to be dropped (created_by_splink = True) - whether cached or handed out - points at a table of Splink
     origin under a hashed name, never at a user's or caller's table *)
  Theorem only_splink_tables_are_droppable inputs ver others tfcols params uid luid fx cs :
    forallb (cop_safe fx) cs = true ->
    let s := crun (cinit K inputs ver others tfcols params uid luid fx) cs in
    forall key h, aget (st_cache K s) key = Some h -> h_cbs K h = true ->
      is_hashed K (h_phys K h) = true /\
      forall e, aget (st_db K s) (h_phys K h) = Some e -> e_origin e = Splink.
  Proof.
    intros Hok s key h Hg Hc.
    destruct (crun_inv cs (cinit K inputs ver others tfcols params uid luid fx) Hok
                       (cinit_inv inputs ver others tfcols params uid luid fx)) as ((I & _ & C) & _). fold s in I, C.
    pose proof (iv_cache_cbs _ _ _ _ I _ _ Hg Hc) as Hh. split; auto.
    intros e He. apply (C _ _ He). exact Hh.
  Qed.

  (* so dropping through ANY frame Splink cached never removes an entry that is not of Splink origin *)
  Theorem drop_frame_spares_foreign_tables inputs ver others tfcols params uid luid fx cs key :
    forallb (cop_safe fx) cs = true ->
    let s := crun (cinit K inputs ver others tfcols params uid luid fx) cs in
    forall p e, aget (st_db K s) p = Some e -> e_origin e <> Splink ->
                aget (st_db K (fst (cstep s (CDropFrame K key)))) p = Some e.
  Proof.
    intros Hok s p e He Ho.
    destruct (crun_inv cs (cinit K inputs ver others tfcols params uid luid fx) Hok
                       (cinit_inv inputs ver others tfcols params uid luid fx)) as ((I & _ & C) & _). fold s in I, C.
    cbn. destruct (aget (st_cache K s) key) eqn:E; [|exact He].
    rewrite (drop_handle_fst K keqb). destruct (h_cbs K h) eqn:Ec; [|exact He]. cbn.
    pose proof (iv_cache_cbs _ _ _ _ I _ _ E Ec) as Hh.
    rewrite (aget_aremove_other K keqb keqb_spec); auto. intros ->. apply Ho. apply (C _ _ He). exact Hh.
  Qed.

  Theorem drop_refused s name : cstep s (CDropTable name false) = (s, [Refused name]).
  Proof.
    change (cstep s (CDropTable name false)) with
      (drop_handle K keqb s {| h_templ := name; h_phys := PL (LPlain name); h_src := Leaf (LPlain name); h_cbs := false |}).
    rewrite drop_handle_refused' by reflexivity. reflexivity.
  Qed.

  (* the created_by_splink guard of SplinkDataFrame.drop_table_from_database_and_remove_from_cache *)
  Theorem drop_handle_refused s h : h_cbs K h = false -> drop_handle K keqb s h = (s, [Refused (pbase K (h_phys K h))]).
  Proof. intros H. unfold drop_handle. rewrite H. reflexivity. Qed.

  Theorem dropped_is_gone s h : h_cbs K h = true -> amem (st_db K (fst (drop_handle K keqb s h))) (h_phys K h) = false.
  Proof.
    intros H. rewrite (drop_handle_fst K keqb), H. cbn. rewrite (amem_aremove K keqb keqb_spec), (pname_eqb_refl K keqb keqb_spec). reflexivity.
  Qed.

  Definition no_splink (s : state) : Prop := forall p e, aget (st_db K s) p = Some e -> e_origin e <> Splink.

  Theorem cleanup_exact inputs ver others tfcols params uid luid fx cs :
    forallb (cop_safe fx) cs = true ->
    let s := crun (cinit K inputs ver others tfcols params uid luid fx) cs in
    forall c, c = COp DeleteTables \/ c = COp InvalidateCache ->
      let s' := fst (cstep s c) in
      no_splink s' /\
      (forall l, aget (st_db K s') (PL l) = aget (st_db K s) (PL l)) /\
      (forall n k, amem (st_db K s') (PH n k) = false).
  Proof.
    intros Hok s c Hc s'.
    destruct (crun_inv cs (cinit K inputs ver others tfcols params uid luid fx) Hok (cinit_inv inputs ver others tfcols params uid luid fx)) as ((I & Hs & C) & _). fold s in I, Hs, C.
    assert (Hsafe : cop_safe (st_fix K s) c = true) by (destruct Hc; subst; reflexivity).
    destruct (cstep_inv s c Hsafe (conj I (conj Hs C))) as ((I' & Hs' & C') & _). fold s' in I', Hs', C'.
    assert (NH : forall n k, amem (st_db K s') (PH n k) = false).
    { destruct Hc; subst c; unfold s'; cbn -[invalidate delete_tables].
      - destruct (delete_tables_spec K keqb hash keqb_spec s I) as (_ & _ & N & _). exact N.
      - destruct (invalidate_spec K keqb hash keqb_spec s I) as (_ & N). exact N. }
    split; [|split; [|exact NH]].
    - intros p e H Ho. apply (C' p e H) in Ho. destruct p as [l|n k]; [discriminate|].
      specialize (NH n k). unfold Cache.amem in NH. rewrite H in NH. discriminate.
    - intros l. destruct Hc; subst c; unfold s'; cbn -[invalidate delete_tables].
      + unfold delete_tables. apply (delete_fold_leaves K keqb hash keqb_spec). exact I.
      + apply (invalidate_leaves K keqb hash keqb_spec). exact I.
  Qed.
End CatalogProofs.
