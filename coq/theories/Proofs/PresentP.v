From Coq Require Import List Bool Arith Lia Permutation.
From Splinkv Require Import Base.TV Model.Blocking Proofs.BlockingP Model.Present.
Import ListNotations.

(* ---------------- rule order ---------------- *)
Lemma block_pair_iff {rec} (adm : rec -> rec -> bool) (rules : list (rec -> rec -> tv)) L R l r :
  rules <> [] ->
  (In (l, r) (pairs_of (block adm rules L R)) <->
   In l L /\ In r R /\ adm l r = true /\ exists rk, In rk rules /\ rk l r = T).
Proof.
  intros Hne. unfold pairs_of. rewrite in_map_iff.
  rewrite <- (first_true_some_iff rec 0 rules l r). split.
  - intros [[n [l' r']] [Heq Hin]]. cbn in Heq. inversion Heq; subst.
    unfold block in Hin. destruct rules as [|a t]; [congruence|].
    apply block_aux_spec in Hin. destruct Hin as (?&?&?&_&?). eauto 6.
  - intros (Hl&Hr&Ha&[n Hn]). exists (n, (l, r)). split; [reflexivity|].
    unfold block. destruct rules as [|a t]; [congruence|].
    apply block_aux_spec. cbn [existsb]. tauto.
Qed.

Lemma rule_reorder_pairs {rec} (adm : rec -> rec -> bool) (rules rules' : list (rec -> rec -> tv)) L R :
  Permutation rules rules' -> forall l r,
  In (l, r) (pairs_of (block adm rules L R)) <-> In (l, r) (pairs_of (block adm rules' L R)).
Proof.
  intros HP l r. destruct rules as [|a t].
  - apply Permutation_nil in HP. subst. tauto.
  - assert (Hne' : rules' <> []).
    { intros ->. apply Permutation_sym, Permutation_nil in HP. discriminate. }
    rewrite !block_pair_iff by (auto; congruence).
    split; intros (Hl&Hr&Ha&[rk [Hin Hk]]); (split; [|split; [|split]]); auto; exists rk; split; auto.
    + eapply Permutation_in; eauto.
    + eapply Permutation_in; [apply Permutation_sym|]; eauto.
Qed.

(* ---------------- row order / table order ---------------- *)
Lemma row_permutation_pairs {rec} (adm : rec -> rec -> bool) (rules : list (rec -> rec -> tv)) L R L' R' :
  Permutation L L' -> Permutation R R' -> forall n l r,
  In (n, (l, r)) (block adm rules L R) <-> In (n, (l, r)) (block adm rules L' R').
Proof.
  intros HL HR n l r. unfold block. rewrite !block_aux_spec.
  split; intros (Hl&Hr&rest); (split; [|split]); auto;
    try (eapply Permutation_in; eauto); try (eapply Permutation_in; [apply Permutation_sym|]; eauto).
Qed.

(* ---------------- relabelling ids ---------------- *)
Lemma cross_map {A B} (f : A -> B) L R :
  cross (map f L) (map f R) = map (fun p => (f (fst p), f (snd p))) (cross L R).
Proof.
  unfold cross. induction L as [|a L IH]; cbn; [reflexivity|].
  rewrite map_app, IH. f_equal. rewrite !map_map. reflexivity.
Qed.

Lemma filter_map_comm {A B} (g : A -> B) (p : B -> bool) l :
  filter p (map g l) = map g (filter (fun x => p (g x)) l).
Proof. induction l as [|a l IH]; cbn; [reflexivity|]. destruct (p (g a)); cbn; rewrite IH; reflexivity. Qed.

Lemma existsb_relabel {A B} (f : A -> B) (prevA : list (A -> A -> tv)) (prevB : list (B -> B -> tv)) l r :
  Forall2 (fun ra rb => forall l r, rb (f l) (f r) = ra l r) prevA prevB ->
  existsb (fun p : B -> B -> tv => coalesce_false (p (f l) (f r))) prevB
  = existsb (fun p : A -> A -> tv => coalesce_false (p l r)) prevA.
Proof. induction 1 as [|ra rb ta tb Hab _ IH]; cbn; [reflexivity|]. rewrite Hab, IH. reflexivity. Qed.

Lemma block_aux_relabel {A B} (f : A -> B)
      (admA : A -> A -> bool) (admB : B -> B -> bool)
      (rulesA : list (A -> A -> tv)) (rulesB : list (B -> B -> tv)) L R :
  (forall l r, admB (f l) (f r) = admA l r) ->
  Forall2 (fun ra rb => forall l r, rb (f l) (f r) = ra l r) rulesA rulesB ->
  forall (prevA : list (A -> A -> tv)) (prevB : list (B -> B -> tv)) k,
  Forall2 (fun ra rb => forall l r, rb (f l) (f r) = ra l r) prevA prevB ->
  block_aux admB prevB k rulesB (map f L) (map f R)
  = map (map_out A B f) (block_aux admA prevA k rulesA L R).
Proof.
  intros Hadm Hr. induction Hr as [|ra rb ta tb Hab Ht IH]; intros prevA prevB k Hp; cbn [block_aux].
  - reflexivity.
  - rewrite map_app. f_equal.
    + rewrite cross_map, filter_map_comm, !map_map.
      erewrite filter_ext; [reflexivity|].
      intros [l r]. unfold keep. cbn [fst snd].
      rewrite Hab, Hadm, (existsb_relabel f prevA prevB l r Hp). reflexivity.
    + apply IH. apply Forall2_app; [exact Hp|]. constructor; [exact Hab|constructor].
Qed.

Theorem block_relabel {A B} (f : A -> B)
      (admA : A -> A -> bool) (admB : B -> B -> bool)
      (rulesA : list (A -> A -> tv)) (rulesB : list (B -> B -> tv)) L R :
  (forall l r, admB (f l) (f r) = admA l r) ->
  Forall2 (fun ra rb => forall l r, rb (f l) (f r) = ra l r) rulesA rulesB ->
  block admB rulesB (map f L) (map f R) = map (map_out A B f) (block admA rulesA L R).
Proof.
  intros Hadm Hr. unfold block. destruct Hr as [|ra rb ta tb Hab Ht].
  - apply (block_aux_relabel f admA admB [fun _ _ => T] [fun _ _ => T]); auto.
  - apply (block_aux_relabel f admA admB (ra :: ta) (rb :: tb)); auto.
Qed.

(* ---------------- salting partitions ---------------- *)
Lemma beval_salt_free v v' ids e :
  salt_free e = true ->
  v_atoms v = v_atoms v' -> v_idlt v = v_idlt v' -> v_sdsne v = v_sdsne v' -> v_sdslt v = v_sdslt v' ->
  beval v ids e = beval v' ids e.
Proof.
  intros Hs Ha H1 H2 H3. induction e; cbn in *; try reflexivity; try discriminate;
    try (rewrite ?Ha, ?H1, ?H2, ?H3; reflexivity).
  - apply andb_true_iff in Hs. destruct Hs. rewrite IHe1, IHe2; auto.
  - apply andb_true_iff in Hs. destruct Hs. rewrite IHe1, IHe2; auto.
  - rewrite IHe; auto.
  - rewrite IHe; auto.
Qed.

Lemma first_true_e_salt_free v v' rules : forall k,
  forallb salt_free rules = true ->
  v_atoms v = v_atoms v' -> v_idlt v = v_idlt v' -> v_sdsne v = v_sdsne v' -> v_sdslt v = v_sdslt v' ->
  first_true_e v k rules = first_true_e v' k rules.
Proof.
  induction rules as [|e t IH]; intros k Hs Ha H1 H2 H3; cbn in *; [reflexivity|].
  apply andb_true_iff in Hs. destruct Hs as [He Ht].
  rewrite (beval_salt_free v v' [] e He Ha H1 H2 H3). destruct (isT _); [reflexivity|]. apply IH; auto.
Qed.

Lemma expected_salt_free lt v v' rules :
  forallb salt_free rules = true ->
  v_atoms v = v_atoms v' -> v_idlt v = v_idlt v' -> v_sdsne v = v_sdsne v' -> v_sdslt v = v_sdslt v' ->
  expected lt rules v = expected lt rules v'.
Proof.
  intros Hs Ha H1 H2 H3. unfold expected, adm_of. rewrite H1, H2.
  destruct rules as [|e t].
  - reflexivity.
  - rewrite (first_true_e_salt_free v v' (e :: t) 0 Hs Ha H1 H2 H3). reflexivity.
Qed.

Section Salting.
  Variable rec : Type.
  Variable atomf : nat -> rec -> rec -> tv.
  Variables partf partf' : nat -> rec -> nat.
  Variable idltf sdsnef sdsltf : rec -> rec -> bool.
  Variable natoms : nat.
  Variables ns ns' : list nat.
  Variable lt : link_type.
  Variable rules : list bexp.

  (* two salting configurations (different partition counts, different random salts) of the
     same rule list, both accepted by the skeleton checker, give the same bag of pairs *)
  Theorem salting_irrelevant sk sk' L R :
    forallb salt_free rules = true ->
    (forall n l, In n ns -> 1 <= partf n l <= n) ->
    (forall n l, In n ns' -> 1 <= partf' n l <= n) ->
    skeleton_ok lt natoms ns rules sk = true ->
    skeleton_ok lt natoms ns' rules sk' = true ->
    (lt = TwoDatasetLinkOnly -> forall l r, In l L -> In r R -> sdsltf l r = true) ->
    Permutation (block_tables rec atomf partf idltf sdsnef sdsltf natoms ns sk L R)
                (block_tables rec atomf partf' idltf sdsnef sdsltf natoms ns' sk' L R).
  Proof.
    intros Hs Hb Hb' Hok Hok' Hsds.
    eapply Permutation_trans; [apply skeleton_sound; eauto|].
    eapply Permutation_trans; [|apply Permutation_sym; apply skeleton_sound; eauto].
    unfold spec_tables.
    assert (E : forall lr,
      expected lt rules (pair_val rec atomf partf idltf sdsnef sdsltf natoms ns lr)
      = expected lt rules (pair_val rec atomf partf' idltf sdsnef sdsltf natoms ns' lr)).
    { intros lr. apply expected_salt_free; auto. }
    induction (cross L R) as [|lr t IH]; cbn; [constructor|]. rewrite E. apply Permutation_app_head. exact IH.
  Qed.
End Salting.

(* ---------------- relabelling that does NOT preserve the id order ---------------- *)
(* For rules symmetric in l and r, which orientation of a pair is produced depends on the id
   order, but whether the unordered pair is produced does not. *)
Section UnorderedRelabel.
  Variables A B : Type.
  Variable f : A -> B.
  Variable idA : A -> nat.
  Variable idB : B -> nat.

  Lemma unordered_present_iff (rules : list (A -> A -> tv)) L l r :
    rules <> [] -> In l L -> In r L -> idA l <> idA r ->
    (forall rk, In rk rules -> rk l r = rk r l) ->
    (((exists n, In (n, (l, r)) (block (adm_lt A idA) rules L L)) \/
      (exists n, In (n, (r, l)) (block (adm_lt A idA) rules L L))) <->
     exists rk, In rk rules /\ rk l r = T).
  Proof.
    intros Hne Hl Hr Hid Hsym. split.
    - intros [[n H]|[n H]]; unfold block in H; destruct rules as [|a t]; try congruence;
        apply block_aux_spec in H; destruct H as (_&_&_&_&Hf);
        assert (E : exists k, first_true 0 (a :: t) l r = Some k \/ first_true 0 (a :: t) r l = Some k) by eauto;
        clear E.
      + assert (E : exists k, first_true 0 (a :: t) l r = Some k) by eauto.
        apply first_true_some_iff in E. exact E.
      + assert (E : exists k, first_true 0 (a :: t) r l = Some k) by eauto.
        apply first_true_some_iff in E. destruct E as [rk [Hin Hk]]. exists rk. split; [exact Hin|].
        rewrite Hsym by exact Hin. exact Hk.
    - intros [rk [Hin Hk]]. apply present_if_true_both_ways; auto.
      + exists rk. split; auto.
      + exists rk. split; auto. rewrite <- Hsym by exact Hin. exact Hk.
  Qed.
End UnorderedRelabel.

Theorem relabel_unordered {A B} (f : A -> B) (idA : A -> nat) (idB : B -> nat)
        (rulesA : list (A -> A -> tv)) (rulesB : list (B -> B -> tv)) L l r :
  rulesA <> [] ->
  Forall2 (fun ra rb => forall x y, rb (f x) (f y) = ra x y) rulesA rulesB ->
  (forall rk, In rk rulesA -> forall x y, rk x y = rk y x) ->
  In l L -> In r L -> idA l <> idA r -> idB (f l) <> idB (f r) ->
  (((exists n, In (n, (l, r)) (block (adm_lt A idA) rulesA L L)) \/
    (exists n, In (n, (r, l)) (block (adm_lt A idA) rulesA L L))) <->
   ((exists n, In (n, (f l, f r)) (block (adm_lt B idB) rulesB (map f L) (map f L))) \/
    (exists n, In (n, (f r, f l)) (block (adm_lt B idB) rulesB (map f L) (map f L))))).
Proof.
  intros Hne HF Hsym Hl Hr HidA HidB.
  assert (HneB : rulesB <> []).
  { destruct HF; [congruence|discriminate]. }
  assert (HsymB : forall rk, In rk rulesB -> rk (f l) (f r) = rk (f r) (f l)).
  { clear - HF Hsym. induction HF as [|ra rb ta tb Hab _ IH]; [intros rk []|].
    intros rk [<-|Hin].
    - rewrite !Hab. apply Hsym. left; reflexivity.
    - apply IH; [|exact Hin]. intros rk' Hin'. apply Hsym. right; exact Hin'. }
  rewrite (unordered_present_iff A idA rulesA L l r Hne Hl Hr HidA (fun rk Hin => Hsym rk Hin l r)).
  rewrite (unordered_present_iff B idB rulesB (map f L) (f l) (f r) HneB (in_map f L l Hl) (in_map f L r Hr) HidB HsymB).
  clear - HF. induction HF as [|ra rb ta tb Hab _ IH].
  - split; intros [rk [[] _]].
  - split.
    + intros [rk [[<-|Hin] Hk]].
      * exists rb. split; [left; reflexivity|]. rewrite Hab. exact Hk.
      * destruct IH as [IH1 _]. destruct IH1 as [rk' [Hin' Hk']]; [eauto|]. exists rk'. split; [right; exact Hin'|exact Hk'].
    + intros [rk [[<-|Hin] Hk]].
      * exists ra. split; [left; reflexivity|]. rewrite <- Hab. exact Hk.
      * destruct IH as [_ IH2]. destruct IH2 as [rk' [Hin' Hk']]; [eauto|]. exists rk'. split; [right; exact Hin'|exact Hk'].
Qed.
