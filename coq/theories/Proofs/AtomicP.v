(* C08  Soundness of the atomicity checker of Model/Atomic.v. *)
From Coq Require Import List Bool ZArith Arith Lia.
From Splinkv Require Import Model.Atomic.
Import ListNotations.

(* ------------------------------------------------------------------ small facts *)
Lemma field_eqb_eq : forall f g, field_eqb f g = true <-> f = g.
Proof. intros f g; destruct f, g; unfold field_eqb; simpl; split; intro H; try reflexivity; discriminate H. Qed.

Lemma field_eqb_refl : forall f, field_eqb f f = true.
Proof. intro f. apply field_eqb_eq. reflexivity. Qed.

Lemma field_eqb_neq : forall f g, field_eqb f g = false <-> f <> g.
Proof.
  intros f g. split.
  - intros H E. apply field_eqb_eq in E. congruence.
  - intro H. destruct (field_eqb f g) eqn:E; [apply field_eqb_eq in E; contradiction | reflexivity].
Qed.

Lemma in_all_fields : forall f, In f all_fields.
Proof. intro f; destruct f; simpl; tauto. Qed.

Lemma slot_eqb_eq : forall x y, slot_eqb x y = true <-> x = y.
Proof.
  intros [k f] [j g]. unfold slot_eqb. simpl. rewrite andb_true_iff, Nat.eqb_eq, field_eqb_eq.
  split; [intros [-> ->]; reflexivity | intro H; inversion H; auto].
Qed.

Lemma smem_in : forall x l, smem x l = true <-> In x l.
Proof.
  intros x l. unfold smem. rewrite existsb_exists. split.
  - intros [y [Hy E]]. apply slot_eqb_eq in E. subst. exact Hy.
  - intro H. exists x. split; [exact H | apply slot_eqb_eq; reflexivity].
Qed.

Lemma upd_same : forall st f z, upd st f z f = z.
Proof. intros. unfold upd. rewrite field_eqb_refl. reflexivity. Qed.

Lemma upd_other : forall st f z g, g <> f -> upd st f z g = st g.
Proof. intros st f z g H. unfold upd. apply field_eqb_neq in H. rewrite H. reflexivity. Qed.

Lemma tabulate_eq : forall d f, tabulate d f = d f.
Proof. intros d f. destruct f; reflexivity. Qed.

(* ------------------------------------------------------------------ concretisation *)
Definition gam (v0 : vstate) (a : astate) (c : cfg) : Prop :=
  (forall f, dirty a f = false -> cur c f = v0 f) /\
  (forall k f, smem (k, f) (sorig a) = true -> saved c k = Some (v0 f)).

Lemma gam_ext : forall v0 a c c', cur c' = cur c -> saved c' = saved c -> gam v0 a c -> gam v0 a c'.
Proof. intros v0 a c c' Hc Hs [H1 H2]. split; intros; [rewrite Hc | rewrite Hs]; auto. Qed.

Lemma gam_weaken : forall v0 a b c, aleb a b = true -> gam v0 a c -> gam v0 b c.
Proof.
  intros v0 a b c H [H1 H2]. unfold aleb in H. apply andb_true_iff in H. destruct H as [Hd Hs].
  rewrite forallb_forall in Hd, Hs. split.
  - intros f Hf. apply H1. specialize (Hd f (in_all_fields f)). rewrite Hf in Hd.
    destruct (dirty a f); [discriminate Hd | reflexivity].
  - intros k f Hm. apply H2. apply Hs. apply smem_in. exact Hm.
Qed.

Lemma gam_join_l : forall v0 a b c, gam v0 a c -> gam v0 (join a b) c.
Proof.
  intros v0 a b c [H1 H2]. unfold join. split; cbn [dirty sorig].
  - intros f Hf. rewrite tabulate_eq in Hf. apply orb_false_iff in Hf. apply H1. tauto.
  - intros k f Hm. apply H2. apply smem_in in Hm. apply filter_In in Hm. apply smem_in. tauto.
Qed.

Lemma gam_join_r : forall v0 a b c, gam v0 b c -> gam v0 (join a b) c.
Proof.
  intros v0 a b c [H1 H2]. unfold join. split; cbn [dirty sorig].
  - intros f Hf. rewrite tabulate_eq in Hf. apply orb_false_iff in Hf. apply H1. tauto.
  - intros k f Hm. apply H2. apply smem_in in Hm. apply filter_In in Hm. tauto.
Qed.

Lemma gam_top : forall v0 c, gam v0 atop c.
Proof. intros. split; simpl; intros; discriminate. Qed.

Definition post (v0 : vstate) (r : astate * list astate) (c' : cfg) : Prop :=
  match failed c' with
  | None => gam v0 (fst r) c'
  | Some _ => exists x, In x (snd r) /\ gam v0 x c'
  end.

Lemma post_top : forall v0 c, post v0 (atop, [atop]) c.
Proof.
  intros. unfold post. destruct (failed c).
  - exists atop. split; [left; reflexivity | apply gam_top].
  - apply gam_top.
Qed.

Lemma run_failed : forall p c s, failed c = Some s -> run p c = c.
Proof. intros p c s H. destruct p; simpl; rewrite H; reflexivity. Qed.

Lemma iter_failed : forall fuel n body c s, failed c = Some s -> iter fuel n body c = c.
Proof. intros fuel n body c s H. destruct fuel; simpl; [reflexivity | rewrite H; reflexivity]. Qed.

Lemma run_Loop : forall n p c, failed c = None ->
  run (Loop n p) c = iter (S (length (orc c))) n (run p) c.
Proof. intros n p c H. cbn [run]. rewrite H. reflexivity. Qed.

Lemma analyse_Loop : forall n p a,
  analyse (Loop n p) a =
  let inv := stabilise (14 + length (sorig a)) (fun x => fst (analyse p x)) a in
  let (e, fs) := analyse p inv in
  if aleb e inv && aleb a inv then (inv, fs) else (atop, [atop]).
Proof. reflexivity. Qed.

(* ------------------------------------------------------------------ loops *)
Lemma iter_sound :
  forall v0 n (body : cfg -> cfg) inv e fs,
    aleb e inv = true ->
    (forall c, failed c = None -> gam v0 inv c -> post v0 (e, fs) (body c)) ->
    forall fuel c, failed c = None -> gam v0 inv c -> post v0 (inv, fs) (iter fuel n body c).
Proof.
  intros v0 n body inv e fs Hle Hbody. induction fuel as [|fuel IH]; intros c Hf Hg.
  - simpl. unfold post. rewrite Hf. exact Hg.
  - simpl. rewrite Hf. destruct (orc c) as [|[m d] o] eqn:Ho.
    + unfold post. rewrite Hf. exact Hg.
    + destruct (Nat.eqb m n).
      * destruct d.
        -- assert (Hf' : failed (set_orc c o) = None) by exact Hf.
           assert (Hg' : gam v0 inv (set_orc c o)) by (eapply gam_ext; [| | exact Hg]; reflexivity).
           specialize (Hbody _ Hf' Hg'). unfold post in Hbody.
           destruct (failed (body (set_orc c o))) eqn:Hb.
           ++ rewrite (iter_failed _ _ _ _ _ Hb). unfold post. rewrite Hb. exact Hbody.
           ++ apply IH; [exact Hb |]. eapply gam_weaken; [exact Hle | exact Hbody].
        -- unfold post. simpl. rewrite Hf. eapply gam_ext; [| | exact Hg]; reflexivity.
      * unfold post. simpl. rewrite Hf. eapply gam_ext; [| | exact Hg]; reflexivity.
Qed.

(* ------------------------------------------------------------------ main lemma *)
Lemma analyse_sound :
  forall p a c v0, failed c = None -> gam v0 a c -> post v0 (analyse p a) (run p c).
Proof.
  induction p; intros a0' c v0 Hf Hg.
  - (* Skip *) simpl. rewrite Hf. unfold post. simpl. rewrite Hf. exact Hg.
  - (* Seq *)
    simpl. rewrite Hf. specialize (IHp1 a0' c v0 Hf Hg).
    destruct (analyse p1 a0') as [a1 f1] eqn:E1. destruct (analyse p2 a1) as [a2 f2] eqn:E2.
    unfold post in IHp1. destruct (failed (run p1 c)) eqn:F1.
    + rewrite (run_failed _ _ _ F1). unfold post. rewrite F1. simpl in *.
      destruct IHp1 as [x [Hx Gx]]. exists x. split; [apply in_or_app; left; exact Hx | exact Gx].
    + simpl in IHp1. specialize (IHp2 a1 (run p1 c) v0 F1 IHp1). rewrite E2 in IHp2.
      unfold post in *. destruct (failed (run p2 (run p1 c))).
      * destruct IHp2 as [x [Hx Gx]]. exists x. split; [apply in_or_app; right; exact Hx | exact Gx].
      * exact IHp2.
  - (* Sql *)
    simpl. rewrite Hf. destruct (flt c) as [[s' n]|].
    + destruct (Nat.eqb s s').
      * destruct n.
        -- unfold post. simpl. exists a0'. split; [left; reflexivity |].
           eapply gam_ext; [| | exact Hg]; reflexivity.
        -- unfold post. simpl. rewrite Hf. eapply gam_ext; [| | exact Hg]; reflexivity.
      * unfold post. rewrite Hf. exact Hg.
    + unfold post. rewrite Hf. exact Hg.
  - (* Raise *)
    simpl. rewrite Hf. unfold post. simpl. exists a0'. split; [left; reflexivity |].
    eapply gam_ext; [| | exact Hg]; reflexivity.
  - (* Mut *)
    simpl. rewrite Hf. destruct priv.
    + simpl. unfold post. rewrite Hf. exact Hg.
    + destruct Hg as [H1 H2].
      assert (K : forall z c', cur c' = upd (cur c) f z -> saved c' = saved c -> failed c' = None ->
                  post v0 (mka (setd (dirty a0') f true) (sorig a0'), []) c').
      { intros z c' Hc Hs Hfl. unfold post. rewrite Hfl. split; simpl.
        - intros g Hd. unfold setd in Hd. destruct (field_eqb g f) eqn:E; [discriminate Hd |].
          rewrite Hc. rewrite upd_other; [apply H1; exact Hd | apply field_eqb_neq; exact E].
        - intros k g Hm. rewrite Hs. apply H2. exact Hm. }
      destruct v; simpl.
      * apply (K z); reflexivity || exact Hf.
      * apply (K (next c)); reflexivity || exact Hf.
  - (* Save *)
    simpl. rewrite Hf. unfold post. simpl. rewrite Hf. destruct Hg as [H1 H2]. split; simpl.
    + exact H1.
    + intros j g Hm. unfold updk.
      assert (R : forall l, smem (j, g) (filter (fun x => negb (Nat.eqb (fst x) k)) l) = true ->
                  Nat.eqb j k = false /\ smem (j, g) l = true).
      { intros l Hl. apply smem_in in Hl. apply filter_In in Hl. destruct Hl as [Hin Hn]. simpl in Hn.
        split; [destruct (Nat.eqb j k); [discriminate Hn | reflexivity] | apply smem_in; exact Hin]. }
      destruct (dirty a0' f) eqn:Df.
      * apply R in Hm. destruct Hm as [Hjk Hm]. rewrite Hjk. apply H2. exact Hm.
      * unfold smem in Hm. simpl in Hm. apply orb_true_iff in Hm. destruct Hm as [Hm | Hm].
        -- apply slot_eqb_eq in Hm. inversion Hm; subst. rewrite Nat.eqb_refl. rewrite (H1 _ Df). reflexivity.
        -- apply R in Hm. destruct Hm as [Hjk Hm]. rewrite Hjk. apply H2. exact Hm.
  - (* Restore *)
    simpl. rewrite Hf. destruct Hg as [H1 H2].
    assert (K : forall z c', cur c' = upd (cur c) f z -> saved c' = saved c -> failed c' = None ->
                (smem (k, f) (sorig a0') = true -> z = v0 f) ->
                post v0 (mka (setd (dirty a0') f (negb (smem (k, f) (sorig a0')))) (sorig a0'), []) c').
    { intros z c' Hc Hs Hfl Hz. unfold post. rewrite Hfl. split; simpl.
      - intros g Hd. unfold setd in Hd. rewrite Hc. destruct (field_eqb g f) eqn:E.
        + apply field_eqb_eq in E. subst g. rewrite upd_same. apply Hz.
          destruct (smem (k, f) (sorig a0')); [reflexivity | discriminate Hd].
        + rewrite upd_other; [apply H1; exact Hd | apply field_eqb_neq; exact E].
      - intros j g Hm. rewrite Hs. apply H2. exact Hm. }
    destruct (saved c k) as [z|] eqn:Sk.
    + apply (K z); try reflexivity; [exact Hf |]. intro Hm. specialize (H2 _ _ Hm). congruence.
    + apply (K (next c)); try reflexivity; [exact Hf |]. intro Hm. specialize (H2 _ _ Hm). congruence.
  - (* Try *)
    simpl. rewrite Hf. specialize (IHp1 a0' c v0 Hf Hg).
    destruct (analyse p1 a0') as [a1 fb] eqn:E1. destruct (analyse p2 a1) as [a2 ff] eqn:E2.
    unfold post in IHp1. simpl in IHp1.
    set (c1 := run p1 c) in *.
    assert (Hf1 : failed (set_failed c1 None) = None) by reflexivity.
    destruct (failed c1) eqn:F1.
    + destruct IHp1 as [x [Hx Gx]].
      assert (Gx' : gam v0 x (set_failed c1 None)) by (eapply gam_ext; [| | exact Gx]; reflexivity).
      pose proof (IHp2 x _ v0 Hf1 Gx') as P2. destruct (analyse p2 x) as [x2 fx] eqn:E3.
      unfold post in P2. simpl in P2. unfold post. simpl.
      destruct (failed (run p2 (set_failed c1 None))) eqn:F2.
      * rewrite F2. destruct P2 as [y [Hy Gy]]. exists y. split; [| exact Gy].
        apply in_or_app. right. apply in_flat_map. exists x. split; [exact Hx |]. rewrite E3. right. exact Hy.
      * simpl. exists x2. split.
        -- apply in_or_app. right. apply in_flat_map. exists x. split; [exact Hx |]. rewrite E3. left. reflexivity.
        -- eapply gam_ext; [| | exact P2]; reflexivity.
    + assert (G1' : gam v0 a1 (set_failed c1 None)) by (eapply gam_ext; [| | exact IHp1]; reflexivity).
      pose proof (IHp2 a1 _ v0 Hf1 G1') as P2. rewrite E2 in P2. unfold post in P2. simpl in P2.
      unfold post. simpl. destruct (failed (run p2 (set_failed c1 None))) eqn:F2.
      * rewrite F2. destruct P2 as [y [Hy Gy]]. exists y. split; [apply in_or_app; left; exact Hy | exact Gy].
      * simpl. eapply gam_ext; [| | exact P2]; reflexivity.
  - (* Choice *)
    simpl. rewrite Hf.
    destruct (analyse p1 a0') as [a1 f1] eqn:E1. destruct (analyse p2 a0') as [a2 f2] eqn:E2.
    assert (W1 : forall c', post v0 (a1, f1) c' -> post v0 (join a1 a2, f1 ++ f2) c').
    { intros c' P. unfold post in *. simpl in *. destruct (failed c').
      - destruct P as [x [Hx Gx]]. exists x. split; [apply in_or_app; left; exact Hx | exact Gx].
      - apply gam_join_l. exact P. }
    assert (W2 : forall c', post v0 (a2, f2) c' -> post v0 (join a1 a2, f1 ++ f2) c').
    { intros c' P. unfold post in *. simpl in *. destruct (failed c').
      - destruct P as [x [Hx Gx]]. exists x. split; [apply in_or_app; right; exact Hx | exact Gx].
      - apply gam_join_r. exact P. }
    destruct (orc c) as [|[m d] o].
    + apply W2. rewrite <- E2. apply IHp2; assumption.
    + destruct (Nat.eqb m n).
      * destruct d.
        -- apply W1. rewrite <- E1. apply IHp1; [reflexivity + exact Hf |]. eapply gam_ext; [| | exact Hg]; reflexivity.
        -- apply W2. rewrite <- E2. apply IHp2; [reflexivity + exact Hf |]. eapply gam_ext; [| | exact Hg]; reflexivity.
      * apply W2. rewrite <- E2. apply IHp2; [exact Hf |]. eapply gam_ext; [| | exact Hg]; reflexivity.
  - (* Loop *)
    rewrite (run_Loop _ _ _ Hf), analyse_Loop.
    set (inv := stabilise (14 + length (sorig a0')) (fun x => fst (analyse p x)) a0'). cbv zeta.
    destruct (analyse p inv) as [e fs] eqn:E.
    destruct (aleb e inv && aleb a0' inv) eqn:St.
    + apply andb_true_iff in St. destruct St as [S1 S2].
      apply (iter_sound v0 n (run p) inv e fs S1).
      * intros c' Hf' Hg'. rewrite <- E. apply IHp; assumption.
      * exact Hf.
      * eapply gam_weaken; [exact S2 | exact Hg].
    + apply post_top.
Qed.

(* ------------------------------------------------------------------ consequences *)
Lemma gam_init : forall v0 o k, gam v0 a0 (init v0 o k).
Proof. intros. split; simpl; intros; [reflexivity | discriminate]. Qed.

Lemma failure_exit :
  forall p o k v0, failed (run_op p o k v0) <> None ->
    exists x, In x (snd (analyse p a0)) /\ gam v0 x (run_op p o k v0).
Proof.
  intros p o k v0 Hfail. unfold run_op in *.
  pose proof (analyse_sound p a0 (init v0 o k) v0 eq_refl (gam_init v0 o k)) as P.
  unfold post in P. destruct (failed (run p (init v0 o k))); [exact P | congruence].
Qed.

(* per field: a field the checker does not list as leaking keeps its value at every failure *)
Lemma leaks_sound :
  forall p f, existsb (field_eqb f) (leaks p) = false ->
    forall o k v0, failed (run_op p o k v0) <> None -> cur (run_op p o k v0) f = v0 f.
Proof.
  intros p f Hl o k v0 Hfail. destruct (failure_exit p o k v0 Hfail) as [x [Hx [G1 _]]].
  apply G1. destruct (dirty x f) eqn:D; [| reflexivity]. exfalso.
  assert (In f (leaks p)).
  { unfold leaks. apply filter_In. split; [apply in_all_fields |].
    apply existsb_exists. exists x. split; assumption. }
  assert (existsb (field_eqb f) (leaks p) = true).
  { apply existsb_exists. exists f. split; [assumption | apply field_eqb_refl]. }
  congruence.
Qed.

Lemma atomicb_sound_pointwise :
  forall p, atomicb p = true ->
    forall o k v0, failed (run_op p o k v0) <> None -> forall f, cur (run_op p o k v0) f = v0 f.
Proof.
  intros p Ha o k v0 Hfail f. destruct (failure_exit p o k v0 Hfail) as [x [Hx [G1 _]]].
  apply G1. unfold atomicb in Ha. rewrite forallb_forall in Ha. specialize (Ha x Hx).
  unfold clean in Ha. rewrite forallb_forall in Ha. specialize (Ha f (in_all_fields f)).
  destruct (dirty x f); [discriminate Ha | reflexivity].
Qed.

Lemma atomicb_sound :
  forall p, atomicb p = true ->
    forall o k v0, failed (run_op p o k v0) <> None -> visible (run_op p o k v0) = vis_of v0.
Proof.
  intros p Ha o k v0 Hfail. unfold visible, vis_of. apply map_ext.
  intro f. apply atomicb_sound_pointwise; assumption.
Qed.

Lemma leaks_nil_atomic : forall p, leaks p = [] -> atomicb p = true.
Proof.
  intros p H. unfold atomicb. apply forallb_forall. intros x Hx. unfold clean.
  apply forallb_forall. intros f _. destruct (dirty x f) eqn:D; [| reflexivity]. exfalso.
  assert (In f (leaks p)).
  { unfold leaks. apply filter_In. split; [apply in_all_fields |]. apply existsb_exists. exists x. split; assumption. }
  rewrite H in H0. exact H0.
Qed.

(* of_list / vis_of round trip, so that later calls can be stated on the list form *)
Lemma of_list_vis : forall v f, of_list (vis_of v) f = v f.
Proof. intros v f. destruct f; reflexivity. Qed.

(* ---------------------------------------------------------------- histories of calls *)
(* A history is a list of calls, each started from the visible state the previous one left
   (locals, oracle and fault are per call).  `prune` drops the calls that fail.  If every call
   of the history is atomic, the history and its pruned version leave the same visible state:
   the linker on which the failed calls were never made. *)
Definition call := (prog * list (nat * bool) * option (nat * nat))%type.
Definition call_prog (c : call) : prog := fst (fst c).
Definition call_cfg (l : list Z) (c : call) : cfg :=
  run_op (fst (fst c)) (snd (fst c)) (snd c) (of_list l).
Definition lstep (l : list Z) (c : call) : list Z := visible (call_cfg l c).
Definition failedb (l : list Z) (c : call) : bool :=
  match failed (call_cfg l c) with Some _ => true | None => false end.
Definition hist (l : list Z) (cs : list call) : list Z := fold_left lstep cs l.
Fixpoint prune (l : list Z) (cs : list call) : list call :=
  match cs with
  | [] => []
  | c :: cs' => if failedb l c then prune l cs' else c :: prune (lstep l c) cs'
  end.

Lemma vis_of_list_vis : forall v, vis_of (of_list (vis_of v)) = vis_of v.
Proof. intro v. unfold vis_of at 1 3. apply map_ext. intro f. apply of_list_vis. Qed.

Lemma failed_atomic_lstep : forall v c,
  atomicb (call_prog c) = true -> failedb (vis_of v) c = true -> lstep (vis_of v) c = vis_of v.
Proof.
  intros v c Ha Hf. unfold lstep, call_cfg. unfold failedb, call_cfg in Hf.
  rewrite (atomicb_sound _ Ha).
  - apply vis_of_list_vis.
  - intro E. unfold call_prog in E. rewrite E in Hf. discriminate Hf.
Qed.

Lemma hist_prune : forall cs v,
  (forall c, In c cs -> atomicb (call_prog c) = true) ->
  hist (vis_of v) cs = hist (vis_of v) (prune (vis_of v) cs).
Proof.
  induction cs as [|c cs IH]; intros v Hall; [reflexivity|].
  cbn [prune]. destruct (failedb (vis_of v) c) eqn:Hf.
  - unfold hist at 1. cbn [fold_left].
    rewrite (failed_atomic_lstep v c (Hall c (or_introl eq_refl)) Hf).
    apply IH. intros c' Hc'. apply Hall. right. exact Hc'.
  - unfold hist. cbn [fold_left].
    change (lstep (vis_of v) c) with (vis_of (cur (call_cfg (vis_of v) c))).
    apply IH. intros c' Hc'. apply Hall. right. exact Hc'.
Qed.

(* no call of the pruned history fails *)
Lemma prune_no_failure : forall cs v,
  forallb (fun b => negb b)
    (snd (fold_left (fun acc c => (lstep (fst acc) c, snd acc ++ [failedb (fst acc) c]))
                    (prune (vis_of v) cs) (vis_of v, []))) = true.
Proof.
  intros cs v.
  assert (G : forall cs v acc, forallb (fun b => negb b) acc = true ->
    forallb (fun b => negb b)
      (snd (fold_left (fun acc c => (lstep (fst acc) c, snd acc ++ [failedb (fst acc) c]))
                      (prune (vis_of v) cs) (vis_of v, acc))) = true).
  { clear. induction cs as [|c cs IH]; intros v acc Hacc; [exact Hacc|].
    cbn [prune]. destruct (failedb (vis_of v) c) eqn:Hf.
    - apply IH. exact Hacc.
    - cbn [fold_left fst snd].
      change (lstep (vis_of v) c) with (vis_of (cur (call_cfg (vis_of v) c))).
      apply IH. rewrite forallb_app. rewrite Hacc, Hf. reflexivity. }
  apply G. reflexivity.
Qed.

(* ---------------------------------------------------------------- extensionality of run *)
(* `run` reads the visible state pointwise only: configurations that agree field by field (and
   on the saved slots, counter, oracle, fault, failure and desync flag) stay that way.  So a
   call started from the state a failed atomic call left behaves, component by component, like
   the same call started from the original state - no detour through the list form. *)
Definition ceq (c c' : cfg) : Prop :=
  (forall f, cur c f = cur c' f) /\ (forall k, saved c k = saved c' k) /\
  next c = next c' /\ orc c = orc c' /\ flt c = flt c' /\ failed c = failed c' /\ desync c = desync c'.

Ltac dd H := destruct H as (Hc & Hs & Hn & Ho & Hf & Hfa & Hd).

Lemma ceq_refl : forall c, ceq c c.
Proof. intro c. repeat split. Qed.

Lemma upd_ext : forall v v' f z g, (forall h, v h = v' h) -> upd v f z g = upd v' f z g.
Proof. intros. unfold upd. destruct (field_eqb g f); auto. Qed.

Lemma ceq_write_fresh : forall c c' f, ceq c c' -> ceq (write_fresh c f) (write_fresh c' f).
Proof.
  intros c c' f H. dd H. unfold write_fresh. repeat split; cbn; try congruence.
  intro g. rewrite Hn. apply upd_ext. exact Hc.
Qed.

Lemma iter_ext : forall (body : cfg -> cfg) n,
  (forall c c', ceq c c' -> ceq (body c) (body c')) ->
  forall fuel c c', ceq c c' -> ceq (iter fuel n body c) (iter fuel n body c').
Proof.
  intros body n Hb. induction fuel as [|fuel IH]; intros c c' H; [exact H|].
  cbn [iter]. pose proof H as H0. dd H. rewrite <- Hfa, <- Ho.
  destruct (failed c) eqn:Ef; [exact H0|].
  destruct (orc c) as [|[m d] o] eqn:Eo; [exact H0|].
  destruct (Nat.eqb m n).
  - destruct d.
    + apply IH. apply Hb. repeat split; cbn; auto; try congruence.
    + repeat split; cbn; auto; try congruence.
  - repeat split; cbn; auto; try congruence.
Qed.

Lemma run_ext : forall p c c', ceq c c' -> ceq (run p c) (run p c').
Proof.
  induction p; intros c c' H; pose proof H as H0; dd H.
  all: cbn [run]; rewrite <- Hfa; destruct (failed c) eqn:Ef; [exact H0|].
  - exact H0.
  - apply IHp2. apply IHp1. exact H0.
  - rewrite <- Hf. destruct (flt c) as [[s' n]|]; [|exact H0].
    destruct (Nat.eqb s s'); [|exact H0]. destruct n; repeat split; cbn; auto; try congruence.
  - repeat split; cbn; auto; try congruence.
  - destruct priv; [exact H0|]. destruct v.
    + repeat split; cbn; auto; try congruence. intro g. apply upd_ext. exact Hc.
    + apply ceq_write_fresh. exact H0.
  - repeat split; cbn; auto; try congruence. intro k0. unfold updk. rewrite Hc. destruct (Nat.eqb k0 k); auto.
  - rewrite <- Hs. destruct (saved c k).
    + repeat split; cbn; auto; try congruence. intro g. apply upd_ext. exact Hc.
    + apply ceq_write_fresh. exact H0.
  - assert (E1 : ceq (run p1 c) (run p1 c')) by (apply IHp1; exact H0).
    assert (E2 : ceq (run p2 (set_failed (run p1 c) None)) (run p2 (set_failed (run p1 c') None))).
    { apply IHp2. destruct E1 as (a1 & a2 & a3 & a4 & a5 & a6 & a7). repeat split; cbn; auto; try congruence. }
    cbn zeta. destruct E2 as (b1 & b2 & b3 & b4 & b5 & b6 & b7). rewrite <- b6.
    destruct (failed (run p2 (set_failed (run p1 c) None))) eqn:E2f.
    + repeat split; auto; try congruence.
    + destruct E1 as (a1 & a2 & a3 & a4 & a5 & a6 & a7). repeat split; cbn; auto; try congruence.
  - rewrite <- Ho. destruct (orc c) as [|[m d] o] eqn:Eo.
    + apply IHp2. exact H0.
    + destruct (Nat.eqb m n).
      * destruct d; [apply IHp1 | apply IHp2]; repeat split; cbn; auto; try congruence.
      * apply IHp2. repeat split; cbn; auto; try congruence.
  - rewrite <- Ho. apply iter_ext; [exact IHp | exact H0].
Qed.

Lemma zmax_ext : forall (v v' : vstate) l, (forall f, v f = v' f) ->
  fold_right (fun f acc => Z.max (v f) acc) 0%Z l = fold_right (fun f acc => Z.max (v' f) acc) 0%Z l.
Proof. intros v v' l H. induction l as [|a l IH]; cbn; [reflexivity|]. rewrite H, IH. reflexivity. Qed.

Lemma run_op_ext : forall p o k v v', (forall f, v f = v' f) -> ceq (run_op p o k v) (run_op p o k v').
Proof.
  intros p o k v v' H. unfold run_op. apply run_ext.
  assert (Z : zmax_fields v = zmax_fields v') by (apply zmax_ext; exact H).
  unfold init. rewrite Z. repeat split; cbn; auto.
Qed.

Lemma later_call_same_cfg : forall p, atomicb p = true ->
  forall o k v0, failed (run_op p o k v0) <> None ->
  forall p2 o2 k2, ceq (run_op p2 o2 k2 (cur (run_op p o k v0))) (run_op p2 o2 k2 v0).
Proof.
  intros p Ha o k v0 Hf p2 o2 k2. apply run_op_ext. intro f.
  apply atomicb_sound_pointwise; assumption.
Qed.

(* ---------------------------------------------------------------- histories on the state itself *)
(* the history statement without the list form: calls chained through the state function *)
Definition vcfg (v : vstate) (c : call) : cfg := run_op (fst (fst c)) (snd (fst c)) (snd c) v.
Definition vstep (v : vstate) (c : call) : vstate := cur (vcfg v c).
Definition vfailedb (v : vstate) (c : call) : bool :=
  match failed (vcfg v c) with Some _ => true | None => false end.
Definition vhist (v : vstate) (cs : list call) : vstate := fold_left vstep cs v.
Fixpoint vprune (v : vstate) (cs : list call) : list call :=
  match cs with
  | [] => []
  | c :: cs' => if vfailedb v c then vprune v cs' else c :: vprune (vstep v c) cs'
  end.

Lemma vhist_prune_gen : forall cs v v',
  (forall f, v f = v' f) ->
  (forall c, In c cs -> atomicb (call_prog c) = true) ->
  forall f, vhist v cs f = vhist v' (vprune v' cs) f.
Proof.
  induction cs as [|c cs IH]; intros v v' Hv Hall f; [exact (Hv f)|].
  assert (Hall' : forall c', In c' cs -> atomicb (call_prog c') = true)
    by (intros c' Hc'; apply Hall; right; exact Hc').
  pose proof (run_op_ext (fst (fst c)) (snd (fst c)) (snd c) v v' Hv) as E.
  destruct E as (e1 & _ & _ & _ & _ & e6 & _).
  cbn [vprune]. unfold vhist at 1. cbn [fold_left].
  destruct (vfailedb v' c) eqn:Hf.
  - apply IH; [|exact Hall'].
    intro g. unfold vstep, vcfg. rewrite <- (Hv g).
    apply atomicb_sound_pointwise; [exact (Hall c (or_introl eq_refl))|].
    unfold vfailedb, vcfg in Hf. rewrite e6. intro E0. rewrite E0 in Hf. discriminate Hf.
  - unfold vhist. cbn [fold_left]. apply IH; [|exact Hall'].
    intro g. exact (e1 g).
Qed.

Lemma vhist_prune : forall cs v,
  (forall c, In c cs -> atomicb (call_prog c) = true) ->
  forall f, vhist v cs f = vhist v (vprune v cs) f.
Proof. intros cs v Hall f. apply vhist_prune_gen; [reflexivity | exact Hall]. Qed.
