(* Lemmas about Model/EntryPoints.v *)
From Coq Require Import List Bool ZArith QArith Lia.
From Splinkv Require Import Base.TV Model.Blocking Model.Scoring Model.EntryPoints Proofs.BlockingP Proofs.ScoringP.
Import ListNotations.
Local Open Scope Q_scope.

(* the scorer reads the tf environment only through its values *)
Lemma tf_adj_ext pow tfs tfs' ls l cvv :
  (forall k, tfs k = tfs' k) -> tf_adj pow tfs ls l cvv = tf_adj pow tfs' ls l cvv.
Proof. intros H. unfold tf_adj. destruct (tf_col l) as [k|]; auto. rewrite (H k). reflexivity. Qed.

Lemma tf_of_gamma_ext pow tfs tfs' ls g :
  (forall k, tfs k = tfs' k) -> tf_of_gamma pow tfs ls g = tf_of_gamma pow tfs' ls g.
Proof.
  intros H. unfold tf_of_gamma. f_equal. apply map_ext. intros lc. apply tf_adj_ext; auto.
Qed.

Lemma cmp_eval_ext pow tfs tfs' ls oc :
  (forall k, tfs k = tfs' k) -> cmp_eval pow tfs ls oc = cmp_eval pow tfs' ls oc.
Proof.
  intros H. unfold cmp_eval. destruct (gamma ls oc) as [g|]; auto.
  rewrite (tf_of_gamma_ext pow tfs tfs' ls g H). reflexivity.
Qed.

Lemma eval_all_ext pow tfs tfs' cmps outcs :
  (forall k, tfs k = tfs' k) -> eval_all pow tfs cmps outcs = eval_all pow tfs' cmps outcs.
Proof.
  intros H. revert outcs. induction cmps as [|ls ct IH]; intros [|oc ot]; cbn; auto.
  rewrite (cmp_eval_ext pow tfs tfs' ls oc H), IH. reflexivity.
Qed.

Section EP.
  Variable rec : Type.
  Variable pow : Q -> Q -> Q.
  Variable prior : Q.
  Variable cmps : list (list level).
  Variable outc : rec -> rec -> list (nat -> tv).
  Notation score_row := (score_row rec pow cmps outc).
  Notation scored := (scored rec).

  Lemma score_row_ext tl tr tl' tr' l r :
    (forall k, tl k = tl' k) -> (forall k, tr k = tr' k) -> score_row tl tr l r = score_row tl' tr' l r.
  Proof.
    intros Hl Hr. unfold EntryPoints.score_row. f_equal. apply eval_all_ext. intros k. rewrite Hl, Hr. reflexivity.
  Qed.

  (* an output row of some entry point, scored with TF sources tl (left) and tr (right) *)
  Definition scored_with (tfl tfr : rec -> tfv) (x : scored) : Prop :=
    x = score_row (tfl (fst (fst x))) (tfr (snd (fst x))) (fst (fst x)) (snd (fst x)).

  Lemma scored_with_row tfl tfr l r : scored_with tfl tfr (score_row (tfl l) (tfr r) l r).
  Proof. reflexivity. Qed.

  (* two rows for the same pair agree as soon as their TF sources agree on the two records *)
  Lemma same_tf_same_row tfl tfr tfl' tfr' (x y : scored) :
    scored_with tfl tfr x -> scored_with tfl' tfr' y -> fst x = fst y ->
    (forall k, tfl (fst (fst x)) k = tfl' (fst (fst x)) k) ->
    (forall k, tfr (snd (fst x)) k = tfr' (snd (fst x)) k) ->
    x = y.
  Proof.
    intros Hx Hy E Hl Hr. rewrite Hx, Hy. rewrite <- E. apply score_row_ext; auto.
  Qed.

  Lemma in_ep_predict adm rules tf T L R x :
    In x (ep_predict rec pow prior cmps outc adm rules tf T L R) <->
    exists n l r, In (n, (l, r)) (block adm rules L R) /\ x = score_row (tf l) (tf r) l r /\
                  keep_row rec prior T x = true.
  Proof.
    unfold ep_predict. rewrite filter_In, in_map_iff. split.
    - intros [[[n [l r]] [E Hin]] K]. cbn in E. exists n, l, r. auto.
    - intros (n & l & r & Hin & E & K). split; auto. exists (n, (l, r)). auto.
  Qed.

  Lemma in_ep_compare tfl tfr L R x :
    In x (ep_compare rec pow cmps outc tfl tfr L R) <->
    exists l r, In l L /\ In r R /\ x = score_row (tfl l) (tfr r) l r.
  Proof.
    unfold ep_compare. rewrite in_map_iff. split.
    - intros [[l r] [E Hin]]. apply in_cross in Hin. exists l, r. cbn in E. destruct Hin. auto.
    - intros (l & r & Hl & Hr & E). exists (l, r). split; auto. apply in_cross; auto.
  Qed.

  Definition rules_or_all (rules : list (rec -> rec -> tv)) : list (rec -> rec -> tv) :=
    match rules with [] => [fun _ _ => T] | _ => rules end.

  Lemma in_block_noadm rules L R n l r :
    In (n, (l, r)) (block (fun _ _ : rec => true) rules L R) <->
    In l L /\ In r R /\ first_true 0 (rules_or_all rules) l r = Some n.
  Proof. unfold block. rewrite block_aux_spec. cbn [existsb]. unfold rules_or_all. tauto. Qed.

  Lemma in_ep_find_matches rules tfe tfn t existing new x :
    In x (ep_find_matches rec pow prior cmps outc rules tfe tfn t existing new) <->
    exists l r, In l existing /\ In r new /\
                (exists rk, In rk (rules_or_all rules) /\ rk l r = T) /\
                x = score_row (tfe l) (tfn r) l r /\ above_row rec prior t x = true.
  Proof.
    unfold ep_find_matches. rewrite filter_In, in_map_iff. split.
    - intros [[[n [l r]] [E Hin]] K]. cbn in E. apply in_block_noadm in Hin.
      destruct Hin as (Hl & Hr & Hf). exists l, r. repeat split; auto.
      apply (proj1 (first_true_some_iff rec 0 _ l r)). eauto.
    - intros (l & r & Hl & Hr & Hex & E & K). split; auto.
      apply (proj2 (first_true_some_iff rec 0 _ l r)) in Hex. destruct Hex as [n Hn].
      exists (n, (l, r)). split; auto. apply in_block_noadm; auto.
  Qed.

  Lemma in_block_single adm (rule : rec -> rec -> tv) L R n l r :
    In (n, (l, r)) (block adm [rule] L R) <-> In l L /\ In r R /\ adm l r = true /\ rule l r = T /\ n = 0%nat.
  Proof.
    unfold block. rewrite block_aux_spec. cbn [existsb first_true]. destruct (rule l r); cbn; split; intros H;
      repeat match goal with H : _ /\ _ |- _ => destruct H end; repeat split; auto; try congruence.
  Qed.

  Lemma in_ep_missing_edges adm cluster in_pred tf T C x :
    In x (ep_missing_edges rec pow prior cmps outc adm cluster in_pred tf T C) <->
    exists l r, In l C /\ In r C /\ adm l r = true /\
                (exists c, cluster l = Some c /\ cluster r = Some c) /\
                in_pred l r = false /\
                x = score_row (tf l) (tf r) l r /\ keep_row rec prior T x = true.
  Proof.
    unfold ep_missing_edges. rewrite filter_In, in_map_iff. split.
    - intros [[[n [l r]] [E Hin]] K]. cbn in E. apply filter_In in Hin. destruct Hin as [Hin Hp].
      cbn in Hp. apply negb_true_iff in Hp. apply in_block_single in Hin.
      destruct Hin as (Hl & Hr & Ha & Hc & _). exists l, r. repeat split; auto.
      unfold same_cluster in Hc. destruct (cluster l) as [a|], (cluster r) as [b|]; try discriminate.
      destruct (Z.eqb_spec a b); [subst; eauto|discriminate].
    - intros (l & r & Hl & Hr & Ha & (c & C1 & C2) & Hp & E & K). split; auto.
      exists (0%nat, (l, r)). split; auto. apply filter_In. split.
      + apply in_block_single. repeat split; auto. unfold same_cluster. rewrite C1, C2, Z.eqb_refl. reflexivity.
      + cbn. rewrite Hp. reflexivity.
  Qed.

  (* each admitted pair once *)
  Lemma NoDup_map_filter {A B} (h : A -> B) f (l : list A) : NoDup (map h l) -> NoDup (map h (filter f l)).
  Proof.
    induction l as [|a t IH]; cbn; intros H; [constructor|]. inversion H; subst.
    destruct (f a); cbn; auto. constructor; auto. intros Hin. apply H2.
    apply in_map_iff in Hin. destruct Hin as [y [E Hy]]. apply filter_In in Hy. apply in_map_iff. exists y. tauto.
  Qed.

  Lemma filter_map_comm {A B} (g : A -> B) f l : filter f (map g l) = map g (filter (fun a => f (g a)) l).
  Proof. induction l as [|a t IH]; cbn; auto. destruct (f (g a)); cbn; rewrite IH; auto. Qed.

  Lemma find_matches_pairs_once rules tfe tfn t existing new :
    NoDup existing -> NoDup new ->
    NoDup (map fst (ep_find_matches rec pow prior cmps outc rules tfe tfn t existing new)).
  Proof.
    intros He Hn. unfold ep_find_matches. rewrite filter_map_comm, map_map. cbn [fst EntryPoints.score_row].
    apply (NoDup_map_filter (fun kp => (fst (snd kp), snd (snd kp)))).
    pose proof (block_aux_pairs_nodup rec (fun _ _ => true) [] 0 (rules_or_all rules) existing new He Hn) as H.
    erewrite map_ext; [exact H|]. intros [n [l r]]. reflexivity.
  Qed.

  Lemma missing_edges_pairs_once adm cluster in_pred tf T C :
    NoDup C -> NoDup (map fst (ep_missing_edges rec pow prior cmps outc adm cluster in_pred tf T C)).
  Proof.
    intros Hc. unfold ep_missing_edges. rewrite filter_map_comm, map_map. cbn [fst EntryPoints.score_row].
    apply (NoDup_map_filter (fun kp => (fst (snd kp), snd (snd kp)))).
    apply (NoDup_map_filter (fun kp => (fst (snd kp), snd (snd kp)))).
    pose proof (block_aux_pairs_nodup rec adm [] 0 [same_cluster rec cluster] C C Hc Hc) as H.
    erewrite map_ext; [exact H|]. intros [n [l r]]. reflexivity.
  Qed.

  (* ---- TF sources ---- *)
  Variable V : Type.
  Variable veqb : V -> V -> bool.
  Variable value : nat -> rec -> option V.

  Lemma tf_of_data_unseen D k x :
    (forall d, In d D -> has_value rec V veqb value k x d = false) -> tf_of_data rec V veqb value D k (Some x) = None.
  Proof.
    intros H. unfold tf_of_data.
    assert (E : filter (has_value rec V veqb value k x) D = []).
    { induction D as [|d t IH]; cbn; auto. rewrite (H d (or_introl eq_refl)). apply IH. intros; apply H; right; auto. }
    rewrite E. reflexivity.
  Qed.

  Lemma tf_of_data_seen D k x d :
    In d D -> has_value rec V veqb value k x d = true ->
    tf_of_data rec V veqb value D k (Some x)
    = Some (inject_Z (Z.of_nat (length (filter (has_value rec V veqb value k x) D)))
            / inject_Z (Z.of_nat (length (filter (non_null rec V value k) D)))).
  Proof.
    intros Hin Hv. unfold tf_of_data.
    assert (Hf : In d (filter (has_value rec V veqb value k x) D)) by (apply filter_In; auto).
    destruct (filter (has_value rec V veqb value k x) D); [destruct Hf|reflexivity].
  Qed.

  (* an ad-hoc record gets the same tf as the linker's own copy of that value *)
  Lemma adhoc_agrees_with_data D route registered supplied r k :
    match route k, registered k with
    | DistinctFromConcat _, None => True
    | Registered _ tbl, Some tbl' => tbl = tbl'
    | Supplied _, _ => supplied r k = data_tf rec V veqb value D registered r k
    | _, _ => False
    end ->
    adhoc_tf rec V veqb value D route supplied r k = data_tf rec V veqb value D registered r k.
  Proof.
    unfold adhoc_tf, data_tf. destruct (route k), (registered k); intros H; try tauto; subst; auto.
  Qed.

  Lemma adhoc_null_value D route supplied r k :
    value k r = None -> route k <> Supplied V -> adhoc_tf rec V veqb value D route supplied r k = None.
  Proof.
    intros Hv Hr. unfold adhoc_tf. destruct (route k); try congruence; rewrite Hv; auto.
    destruct tbl; reflexivity.
  Qed.
End EP.

Section EPFull.
  Variable rec : Type.
  Variable pow : Q -> Q -> Q.
  Variable prior : Q.
  Variable cmps : list (list level).
  Variable outc : rec -> rec -> list (nat -> tv).
  Notation score_row := (score_row rec pow cmps outc).

  Lemma same_score_when_same_tf_full :
    (forall adm rules tf T L R x,
        In x (ep_predict rec pow prior cmps outc adm rules tf T L R) -> scored_with rec pow cmps outc tf tf x) /\
    (forall tfl tfr L R x,
        In x (ep_compare rec pow cmps outc tfl tfr L R) -> scored_with rec pow cmps outc tfl tfr x) /\
    (forall rules tfe tfn t E N x,
        In x (ep_find_matches rec pow prior cmps outc rules tfe tfn t E N) -> scored_with rec pow cmps outc tfe tfn x) /\
    (forall adm cluster in_pred tf T C x,
        In x (ep_missing_edges rec pow prior cmps outc adm cluster in_pred tf T C) -> scored_with rec pow cmps outc tf tf x) /\
    (forall tfl tfr tfl' tfr' (x y : scored rec),
        scored_with rec pow cmps outc tfl tfr x -> scored_with rec pow cmps outc tfl' tfr' y ->
        fst x = fst y ->
        (forall k, tfl (fst (fst x)) k = tfl' (fst (fst x)) k) ->
        (forall k, tfr (snd (fst x)) k = tfr' (snd (fst x)) k) ->
        x = y /\ row_gammas rec x = row_gammas rec y /\ row_score rec prior x = row_score rec prior y).
  Proof.
    repeat split.
    - intros adm rules tf T L R x H. apply in_ep_predict in H. destruct H as (n & l & r & _ & -> & _). apply scored_with_row.
    - intros tfl tfr L R x H. apply in_ep_compare in H. destruct H as (l & r & _ & _ & ->). apply scored_with_row.
    - intros rules tfe tfn t E N x H. apply in_ep_find_matches in H. destruct H as (l & r & _ & _ & _ & -> & _). apply scored_with_row.
    - intros adm cluster in_pred tf T C x H. apply in_ep_missing_edges in H.
      destruct H as (l & r & _ & _ & _ & _ & _ & -> & _). apply scored_with_row.
    - eapply same_tf_same_row; eauto.
    - f_equal. eapply same_tf_same_row; eauto.
    - f_equal. eapply same_tf_same_row; eauto.
  Qed.
End EPFull.

(* the emitted LEFT JOIN .. WHERE .. IS NULL is the anti-join on the oriented key pair *)
Lemma canonical_anti_join ne preds :
  left_join_where canon_on canon_wh ne preds = if existsb (key_pair_eqb ne) preds then [] else [ne].
Proof.
  unfold left_join_where.
  assert (E : forall oe, isT (jeval ne (Some oe) canon_on) = key_pair_eqb ne oe).
  { intros [a b]. destruct ne as [x y]. cbn. unfold key_pair_eqb. cbn.
    rewrite (Nat.eqb_sym a x), (Nat.eqb_sym b y). destruct (Nat.eqb x a), (Nat.eqb y b); reflexivity. }
  rewrite (filter_ext _ _ E).
  induction preds as [|o t IH]; cbn; auto.
  destruct (key_pair_eqb ne o) eqn:Ho; cbn.
  - assert (W : forall l, filter (fun oe => isT (jeval ne (Some oe) canon_wh)) l = []).
    { induction l as [|[a b] l IHl]; cbn; auto. }
    rewrite W. reflexivity.
  - exact IH.
Qed.

Lemma anti_join_is_filter pairs preds :
  flat_map (fun ne => left_join_where canon_on canon_wh ne preds) pairs
  = filter (fun ne => negb (existsb (key_pair_eqb ne) preds)) pairs.
Proof.
  induction pairs as [|ne t IH]; cbn; auto. rewrite canonical_anti_join, IH.
  destruct (existsb (key_pair_eqb ne) preds); reflexivity.
Qed.

Lemma jkey_eqb_eq a b : jkey_eqb a b = true -> a = b.
Proof. destruct a, b; cbn; congruence. Qed.
Lemma jbx_eqb_eq a : forall b, jbx_eqb a b = true -> a = b.
Proof.
  induction a as [x y|x IHx y IHy|x]; intros [x' y'|x' y'|x'] H; cbn in H; try discriminate.
  - apply andb_prop in H. destruct H as [H1 H2]. apply jkey_eqb_eq in H1, H2. congruence.
  - apply andb_prop in H. destruct H as [H1 H2]. f_equal; auto.
  - apply jkey_eqb_eq in H. congruence.
Qed.

Lemma anti_join_ok_sound on wh pairs preds :
  anti_join_ok (Some (on, wh)) true = true ->
  flat_map (fun ne => left_join_where on wh ne preds) pairs
  = filter (fun ne => negb (existsb (key_pair_eqb ne) preds)) pairs.
Proof.
  cbn. intros H. apply andb_prop in H. destruct H as [H1 H2].
  apply jbx_eqb_eq in H1, H2. subst. apply anti_join_is_filter.
Qed.

(* a cached tf table wins over the concat table, whatever else is cached *)
Lemma registered_table_wins (rec V : Type) veqb (value : nat -> rec -> option V) D route supplied r k tbl cc :
  route k = route_of (route_priority false true cc) tbl ->
  adhoc_tf rec V veqb value D route supplied r k = lookup_tbl V veqb tbl (value k r).
Proof. intros H. unfold adhoc_tf. rewrite H. reflexivity. Qed.

Lemma distinct_only_without_table (rec V : Type) veqb (value : nat -> rec -> option V) D route supplied r k tbl :
  route k = route_of (route_priority false false true) tbl ->
  adhoc_tf rec V veqb value D route supplied r k = tf_of_data rec V veqb value D k (value k r).
Proof. intros H. unfold adhoc_tf. rewrite H. reflexivity. Qed.

(* ------------------------------------------------------------------------------------ *)
(* two entry points whose extracted scoring skeletons pass pipeline_eqb compute the same rows *)
Definition out_rel (a b : pl_out) : Prop :=
  Forall2 oxq_eq (o_gammas a) (o_gammas b) /\ Forall2 oxq_eq (o_bfs a) (o_bfs b) /\ Forall2 oxq_eq (o_tfs a) (o_tfs b) /\
  oxq_eq (o_weight_arg a) (o_weight_arg b) /\ oxq_eq (o_prob a) (o_prob b).

Lemma oxq_eq_refl x : oxq_eq x x.
Proof. destruct x; cbn; auto. apply xq_eq_refl. Qed.

Lemma nth_rel (l l' : list (option xq)) i : Forall2 oxq_eq l l' -> oxq_eq (nth i l None) (nth i l' None).
Proof. intros H. revert i. induction H; intros [|i]; cbn; auto. Qed.

Section PipelineAgree.
  Variable pow : Q -> Q -> Q.
  Hypothesis pow_compat : forall a a' b b', a == a' -> b == b' -> pow a b == pow a' b'.

  Lemma all2b_map_rel (la lb : list nx) env env' conds :
    all2b nx_eqb la lb = true -> (forall c, oxq_eq (env c) (env' c)) ->
    Forall2 oxq_eq (map (neval pow env conds) la) (map (neval pow env' conds) lb).
  Proof.
    revert lb. induction la as [|a t IH]; intros [|b t'] H He; cbn in *; try discriminate; auto.
    apply andb_prop in H. destruct H as [H1 H2]. constructor; auto.
    apply (proj1 (eqb_sound pow pow_compat)); auto.
  Qed.

  Theorem pipeline_agrees a b tfs outcs :
    pipeline_eqb a b = true -> out_rel (run_pipeline pow a tfs outcs) (run_pipeline pow b tfs outcs).
  Proof.
    unfold pipeline_eqb. intros H.
    apply andb_prop in H. destruct H as [H Hp]. apply andb_prop in H. destruct H as [H Hw].
    apply andb_prop in H. destruct H as [H Ht]. apply andb_prop in H. destruct H as [Hg Hb].
    unfold run_pipeline, out_rel. cbn [o_gammas o_bfs o_tfs o_weight_arg o_prob].
    set (e0 := env_tf tfs).
    assert (G : Forall2 oxq_eq (map (fun go => neval pow e0 (snd go) (fst go)) (combine (pl_gammas a) outcs))
                               (map (fun go => neval pow e0 (snd go) (fst go)) (combine (pl_gammas b) outcs))).
    { clear - Hg pow_compat. revert Hg. generalize (pl_gammas a) (pl_gammas b) outcs.
      induction l as [|x t IH]; intros [|y t'] ocs H; cbn in H; try discriminate.
      - constructor.
      - destruct ocs as [|oc ot]; cbn; [constructor|].
        apply andb_prop in H. destruct H as [H1 H2]. constructor; [|apply IH; auto].
        apply (proj1 (eqb_sound pow pow_compat)); auto. intros c. apply oxq_eq_refl. }
    set (ga := map _ (combine (pl_gammas a) outcs)) in *. set (gb := map _ (combine (pl_gammas b) outcs)) in *.
    assert (E1 : forall c, oxq_eq (env_with_gammas e0 ga c) (env_with_gammas e0 gb c)).
    { intros [i|i|i|k|k]; cbn; first [apply nth_rel; assumption | apply oxq_eq_refl | exact I]. }
    assert (B : Forall2 oxq_eq (map (neval pow (env_with_gammas e0 ga) no_conds) (pl_bfs a))
                               (map (neval pow (env_with_gammas e0 gb) no_conds) (pl_bfs b))) by (apply all2b_map_rel; auto).
    assert (T : Forall2 oxq_eq
                  (map (fun o => match o with Some e => neval pow (env_with_gammas e0 ga) no_conds e | None => None end) (pl_tfs a))
                  (map (fun o => match o with Some e => neval pow (env_with_gammas e0 gb) no_conds e | None => None end) (pl_tfs b))).
    { clear - Ht E1 pow_compat. revert Ht. generalize (pl_tfs a) (pl_tfs b).
      induction l as [|x t IH]; intros [|y t'] H; cbn in H; try discriminate; cbn [map]; [constructor|].
      apply andb_prop in H. destruct H as [H1 H2]. constructor; [|apply IH; auto].
      destruct x, y; cbn in H1; try discriminate; cbn; auto. apply (proj1 (eqb_sound pow pow_compat)); auto. }
    set (ba := map _ (pl_bfs a)) in *. set (bb := map _ (pl_bfs b)) in *.
    set (ta := map _ (pl_tfs a)) in *. set (tb := map _ (pl_tfs b)) in *.
    assert (E2 : forall c, oxq_eq (env_with_parts (env_with_gammas e0 ga) ba ta c) (env_with_parts (env_with_gammas e0 gb) bb tb c)).
    { intros [i|i|i|k|k]; cbn; first [apply nth_rel; assumption | apply oxq_eq_refl | exact I]. }
    repeat split; auto; apply (proj1 (eqb_sound pow pow_compat)); auto.
  Qed.
End PipelineAgree.

(* ------------------------------------------------------------------------------------ *)
(* TF of an ad-hoc record as a function of the cache state, for ANY source-selection function that
   agrees with route_priority on the 8 states (the one regenerated from the emitted SQL does: gen file) *)
Lemma adhoc_tf_by_cache_state (rec V : Type) veqb (value : nat -> rec -> option V) (D : list rec)
      (src : bool -> bool -> bool -> route_kind) :
  (forall s t c, src s t c = route_priority s t c) ->
  forall (supplied_col table_cached : nat -> bool) (concat_cached : bool) (tbl : nat -> list (V * Q)) supplied r k,
    adhoc_tf rec V veqb value D
             (fun k => route_of (src (supplied_col k) (table_cached k) concat_cached) (tbl k)) supplied r k
    = if supplied_col k then supplied r k
      else if table_cached k then data_tf rec V veqb value D (fun k => Some (tbl k)) r k
      else if concat_cached then data_tf rec V veqb value D (fun _ => None) r k
      else None.
Proof.
  intros H sc tc cc tbl supplied r k. unfold adhoc_tf, data_tf. rewrite H. unfold route_priority.
  destruct (sc k), (tc k), cc; reflexivity.
Qed.
