(* Lemmas about Model/Descriptive.v. *)
From Coq Require Import List Bool ZArith QArith Qround Qfield Qabs Lia Sorting.Sorted Arith.
From Splinkv Require Import Base.GroupBy Base.CumSum Model.Descriptive.
Import ListNotations.
Local Open Scope Z_scope.

(* ------------------------------------------------------------------ orders used as group keys *)
Lemma Zleb_total a b : Z.leb a b = true \/ Z.leb b a = true.
Proof. rewrite !Z.leb_le. lia. Qed.
Lemma Zleb_trans a b c : Z.leb a b = true -> Z.leb b c = true -> Z.leb a c = true.
Proof. rewrite !Z.leb_le. lia. Qed.
Lemma eqk_Zleb a b : eqk Z.leb a b = Z.eqb a b.
Proof. unfold eqk. destruct (Z.eqb_spec a b), (Z.leb_spec a b), (Z.leb_spec b a); cbn; try reflexivity; lia. Qed.
Lemma ltk_Zleb a b : ltk Z.leb a b = true <-> a < b.
Proof. unfold ltk. rewrite andb_true_iff, negb_true_iff, Z.leb_le, Z.leb_gt. lia. Qed.

Lemma Qleb_total a b : Qle_bool a b = true \/ Qle_bool b a = true.
Proof.
  rewrite !Qle_bool_iff. destruct (Qlt_le_dec a b) as [H|H];
    [left; apply Qlt_le_weak; exact H|right; exact H].
Qed.
Lemma Qleb_trans a b c : Qle_bool a b = true -> Qle_bool b c = true -> Qle_bool a c = true.
Proof. rewrite !Qle_bool_iff. apply Qle_trans. Qed.
Lemma ltk_Qlt a b : ltk Qle_bool a b = true <-> (a < b)%Q.
Proof.
  unfold ltk. rewrite andb_true_iff, negb_true_iff, Qle_bool_iff. split.
  - intros [H1 H2]. apply Qnot_le_lt. intros H. apply Qle_bool_iff in H. congruence.
  - intros H. split; [apply Qlt_le_weak; exact H|].
    destruct (Qle_bool b a) eqn:E; [|reflexivity]. apply Qle_bool_iff in E.
    exfalso. eapply Qlt_not_le; [exact H|exact E].
Qed.

(* ------------------------------------------------------------------ sums of ratios *)
Lemma qdiv_add a b n : (qdiv (a + b) n == qdiv a n + qdiv b n)%Q.
Proof. unfold qdiv, Qdiv. rewrite inject_Z_plus. ring. Qed.
Lemma sumQ_qdiv {A} (c : A -> Z) (n : Z) (l : list A) :
  (sumQ (map (fun k => qdiv (c k) n) l) == qdiv (sumZ (map c l)) n)%Q.
Proof.
  induction l as [|x t IH]; cbn [map sumQ sumZ].
  - unfold qdiv, Qdiv. ring.
  - rewrite IH, qdiv_add. reflexivity.
Qed.
Lemma qdiv_self n : n <> 0 -> (qdiv n n == 1)%Q.
Proof.
  intros H. unfold qdiv. field. intros Hc. apply H.
  unfold Qeq in Hc. cbn in Hc. lia.
Qed.
Lemma lenZ_sum_one {A} (l : list A) : lenZ l = sum_by (fun _ => 1) l.
Proof. unfold lenZ. rewrite sum_by_one. reflexivity. Qed.
Lemma lenZ_filter {A} (p : A -> bool) l : lenZ (filter p l) = countZ p l.
Proof. reflexivity. Qed.
Lemma countZ_ext {A} (p q : A -> bool) l : (forall x, p x = q x) -> countZ p l = countZ q l.
Proof. intros H. unfold countZ. rewrite (filter_ext p q H). reflexivity. Qed.
Lemma countZ_filter {A} (p q : A -> bool) l : countZ p (filter q l) = countZ (fun x => p x && q x) l.
Proof. unfold countZ. rewrite filter_filter_and. reflexivity. Qed.
Lemma countZ_le_len {A} (p : A -> bool) l : 0 <= countZ p l <= lenZ l.
Proof.
  unfold countZ, lenZ. split; [lia|]. apply inj_le. induction l as [|x t IH]; cbn; [lia|].
  destruct (p x); cbn; lia.
Qed.
Lemma lenZ_nonzero {A} (l : list A) : l <> [] -> lenZ l <> 0.
Proof. destruct l; [congruence|]. intros _. unfold lenZ. cbn [length]. lia. Qed.

Lemma StronglySorted_map' {A B} (R : B -> B -> Prop) (f : A -> B) l :
  StronglySorted (fun a b => R (f a) (f b)) l -> StronglySorted R (map f l).
Proof.
  induction 1 as [|a l Hs IH Ha]; cbn; constructor; [exact IH|].
  rewrite Forall_forall in *. intros y Hy. apply in_map_iff in Hy. destruct Hy as (x & <- & Hx).
  apply Ha. exact Hx.
Qed.
Lemma StronglySorted_impl' {A} (R R' : A -> A -> Prop) l :
  (forall a b, R a b -> R' a b) -> StronglySorted R l -> StronglySorted R' l.
Proof.
  intros HR. induction 1 as [|a l Hs IH Ha]; constructor; [exact IH|].
  rewrite Forall_forall in *. intros y Hy. apply HR, Ha, Hy.
Qed.
Lemma StronglySorted_filter' {A} (R : A -> A -> Prop) (p : A -> bool) l :
  StronglySorted R l -> StronglySorted R (filter p l).
Proof.
  induction 1 as [|a l Hs IH Ha]; cbn; [constructor|]. destruct (p a); [|exact IH].
  constructor; [exact IH|]. rewrite Forall_forall in *. intros y Hy. apply filter_In in Hy.
  apply Ha. tauto.
Qed.

(* ------------------------------------------------------------------ term frequencies *)
Lemma members_Z (l : list Z) v : members idZ Z.leb l v = filter (Z.eqb v) l.
Proof. unfold members. apply filter_ext. intros x. apply eqk_Zleb. Qed.

Lemma tf_table_value col v f :
  In (v, f) (tf_table col) ->
  In v (non_null col) /\ f = qdiv (countZ (Z.eqb v) (non_null col)) (lenZ (non_null col)).
Proof.
  unfold tf_table. intros H. apply in_map_iff in H. destruct H as (k & Heq & Hk).
  injection Heq as <- <-. split.
  - apply group_keys_from in Hk. destruct Hk as (x & Hx & ->). exact Hx.
  - rewrite members_Z. reflexivity.
Qed.
Lemma tf_table_complete col v :
  In v (non_null col) -> exists f, In (v, f) (tf_table col).
Proof.
  intros Hv. destruct (group_keys_cover idZ Z.leb Zleb_total Zleb_trans _ _ Hv) as (k & Hk & He).
  rewrite eqk_Zleb in He. apply Z.eqb_eq in He. unfold idZ in He. subst k.
  eexists. unfold tf_table. apply in_map_iff. exists v. split; [reflexivity|exact Hk].
Qed.
Lemma tf_table_sorted col : StronglySorted (fun a b => fst a < fst b) (tf_table col).
Proof.
  unfold tf_table. apply StronglySorted_map'. cbn [fst].
  eapply StronglySorted_impl'; [|exact (group_keys_sorted idZ Z.leb Zleb_total Zleb_trans (non_null col))].
  intros a b. apply ltk_Zleb.
Qed.
Lemma tf_sums_to_one col :
  non_null col <> [] -> (sumQ (map snd (tf_table col)) == 1)%Q.
Proof.
  intros Hne. unfold tf_table. rewrite map_map. cbn [snd].
  rewrite (sumQ_qdiv (fun v => lenZ (members idZ Z.leb (non_null col) v))).
  assert (H : sumZ (map (fun v => lenZ (members idZ Z.leb (non_null col) v))
                        (group_keys idZ Z.leb (non_null col))) = lenZ (non_null col)).
  { rewrite (map_ext _ (fun v => sum_by (fun _ => 1) (members idZ Z.leb (non_null col) v)))
      by (intros; apply lenZ_sum_one).
    rewrite (sum_all_groups idZ Z.leb Zleb_total Zleb_trans). symmetry. apply lenZ_sum_one. }
  rewrite H. apply qdiv_self. apply lenZ_nonzero. exact Hne.
Qed.

Lemma lookup_tf_map (g : Z -> Q) v ks :
  lookup_tf v (map (fun k => (k, g k)) ks) = if existsb (Z.eqb v) ks then Some (g v) else None.
Proof.
  induction ks as [|k t IH]; [reflexivity|]. cbn. rewrite (Z.eqb_sym v k).
  destruct (Z.eqb_spec k v) as [->|Hne]; [reflexivity|]. exact IH.
Qed.
Lemma in_non_null col v : In (Some v) col -> In v (non_null col).
Proof. intros H. unfold non_null. apply in_flat_map. exists (Some v). split; [exact H|left; reflexivity]. Qed.
Lemma join_tf_spec col :
  join_tf col
  = map (fun x => match x with
                  | Some v => Some (qdiv (countZ (Z.eqb v) (non_null col)) (lenZ (non_null col)))
                  | None => None
                  end) col.
Proof.
  unfold join_tf. apply map_ext_in. intros [v|] Hin; [|reflexivity].
  unfold tf_table. rewrite (lookup_tf_map (fun v => qdiv (lenZ (members idZ Z.leb (non_null col) v)) (lenZ (non_null col)))).
  assert (He : existsb (Z.eqb v) (group_keys idZ Z.leb (non_null col)) = true).
  { apply existsb_exists. destruct (group_keys_cover idZ Z.leb Zleb_total Zleb_trans _ _ (in_non_null col v Hin)) as (k & Hk & He).
    rewrite eqk_Zleb in He. exists k. split; [exact Hk|]. rewrite Z.eqb_sym. exact He. }
  rewrite He, members_Z. reflexivity.
Qed.

(* ------------------------------------------------------------------ completeness *)
Lemma completeness_row_spec cells r :
  In r (completeness_rows cells) ->
  let in_ds := fun x : Z * option Z => Z.eqb (c_ds r) (fst x) in
  total_rows_inc_nulls r = countZ in_ds cells /\
  total_null_rows r = countZ (fun x => negb (is_some (snd x)) && in_ds x) cells /\
  completeness r = qdiv (countZ (fun x => is_some (snd x) && in_ds x) cells) (countZ in_ds cells) /\
  0 < total_rows_inc_nulls r /\
  (0 <= completeness r <= 1)%Q.
Proof.
  unfold completeness_rows. intros H. apply in_map_iff in H. destruct H as (d & <- & Hd). cbn zeta.
  cbn [c_ds total_rows_inc_nulls total_null_rows completeness].
  assert (Hm : members cell_ds Z.leb cells d = filter (fun x => Z.eqb d (fst x)) cells).
  { unfold members. apply filter_ext. intros x. apply eqk_Zleb. }
  rewrite Hm, lenZ_filter, countZ_filter.
  set (tot := countZ (fun x => Z.eqb d (fst x)) cells).
  set (nn := countZ (fun x => is_some (snd x) && Z.eqb d (fst x)) cells).
  assert (Hsplit : tot = nn + countZ (fun x => negb (is_some (snd x)) && Z.eqb d (fst x)) cells).
  { unfold tot, nn, countZ. clear. induction cells as [|x t IH]; [reflexivity|]. cbn [filter].
    destruct (is_some (snd x)), (Z.eqb d (fst x)); cbn [andb negb length]; lia. }
  assert (Hpos : 0 < tot).
  { apply group_keys_from in Hd. destruct Hd as (x & Hx & ->). unfold tot, countZ, cell_ds.
    assert (In x (filter (fun y => Z.eqb (fst x) (fst y)) cells))
      by (apply filter_In; split; [exact Hx|apply Z.eqb_refl]).
    destruct (filter (fun y => Z.eqb (fst x) (fst y)) cells); [contradiction|cbn [length]; lia]. }
  assert (Hnn : 0 <= nn <= tot).
  { unfold nn, tot. pose proof (countZ_le_len (fun x => is_some (snd x) && Z.eqb d (fst x)) cells).
    pose proof (countZ_le_len (fun x : Z * option Z => negb (is_some (snd x)) && Z.eqb d (fst x)) cells). lia. }
  repeat split; try lia.
  - unfold qdiv. apply Qle_shift_div_l; [rewrite <- (Zlt_Qlt 0); exact Hpos|].
    rewrite Qmult_0_l. rewrite <- (Zle_Qle 0). lia.
  - unfold qdiv. apply Qle_shift_div_r; [rewrite <- (Zlt_Qlt 0); exact Hpos|].
    rewrite Qmult_1_l. rewrite <- Zle_Qle. lia.
Qed.
Lemma completeness_rows_complete cells x :
  In x cells -> exists r, In r (completeness_rows cells) /\ c_ds r = fst x.
Proof.
  intros Hx. destruct (group_keys_cover cell_ds Z.leb Zleb_total Zleb_trans _ _ Hx) as (k & Hk & He).
  rewrite eqk_Zleb in He. apply Z.eqb_eq in He. unfold cell_ds in He. subst k.
  eexists. split; [unfold completeness_rows; apply in_map_iff; eexists; split; [reflexivity|exact Hk]|reflexivity].
Qed.
Lemma completeness_rows_sorted cells :
  StronglySorted (fun a b => c_ds a < c_ds b) (completeness_rows cells).
Proof.
  unfold completeness_rows. apply StronglySorted_map'. cbn [c_ds].
  eapply StronglySorted_impl'; [|exact (group_keys_sorted cell_ds Z.leb Zleb_total Zleb_trans cells)].
  intros a b. apply ltk_Zleb.
Qed.

(* ------------------------------------------------------------------ comparison-vector distribution *)
Definition list_eqb (a b : list Z) : bool := eqk lex_leb a b.
Lemma list_eqb_eq a b : list_eqb a b = true <-> a = b.
Proof. apply eqk_lex. Qed.

Lemma cvd_counts_add_up preds :
  sumZ (map count_rows_in_comparison_vector_group (comparison_vector_distribution preds)) = lenZ preds.
Proof.
  unfold comparison_vector_distribution. rewrite map_map. cbn [count_rows_in_comparison_vector_group].
  rewrite (map_ext _ (fun v => sum_by (fun _ => 1) (members idL lex_leb preds v)))
    by (intros; apply lenZ_sum_one).
  rewrite (sum_all_groups idL lex_leb lex_total lex_trans). symmetry. apply lenZ_sum_one.
Qed.
Lemma cvd_proportions_add_up preds :
  preds <> [] ->
  (sumQ (map proportion_of_comparisons (comparison_vector_distribution preds)) == 1)%Q.
Proof.
  intros Hne. unfold comparison_vector_distribution. rewrite map_map. cbn [proportion_of_comparisons].
  rewrite (sumQ_qdiv (fun g => lenZ (members idL lex_leb preds g))).
  pose proof (cvd_counts_add_up preds) as H. unfold comparison_vector_distribution in H.
  rewrite map_map in H. cbn [count_rows_in_comparison_vector_group] in H. rewrite H.
  apply qdiv_self, lenZ_nonzero, Hne.
Qed.
Lemma cvd_row_spec preds r :
  In r (comparison_vector_distribution preds) ->
  In (v_gammas r) preds /\
  count_rows_in_comparison_vector_group r = countZ (list_eqb (v_gammas r)) preds /\
  proportion_of_comparisons r = qdiv (countZ (list_eqb (v_gammas r)) preds) (lenZ preds) /\
  sum_gam r = sumZ (map gam_term (v_gammas r)).
Proof.
  unfold comparison_vector_distribution. intros H. apply in_map_iff in H. destruct H as (g & <- & Hg).
  cbn [v_gammas count_rows_in_comparison_vector_group proportion_of_comparisons sum_gam].
  split; [|repeat split].
  apply group_keys_from in Hg. destruct Hg as (x & Hx & ->). exact Hx.
Qed.
Lemma cvd_complete preds g :
  In g preds -> exists r, In r (comparison_vector_distribution preds) /\ v_gammas r = g.
Proof.
  intros Hg. destruct (group_keys_cover idL lex_leb lex_total lex_trans _ _ Hg) as (k & Hk & He).
  apply eqk_lex in He. unfold idL in He. subst k.
  eexists. split; [unfold comparison_vector_distribution; apply in_map_iff; eexists; split; [reflexivity|exact Hk]|reflexivity].
Qed.
Lemma cvd_groups_distinct preds :
  StronglySorted (fun a b => ltk lex_leb (v_gammas a) (v_gammas b) = true) (comparison_vector_distribution preds).
Proof.
  unfold comparison_vector_distribution. apply StronglySorted_map'. cbn [v_gammas].
  exact (group_keys_sorted idL lex_leb lex_total lex_trans preds).
Qed.

(* ------------------------------------------------------------------ histogram *)
Lemma Qdiv_ge_iff a b c : (0 < c)%Q -> ((a <= b / c)%Q <-> (a * c <= b)%Q).
Proof.
  intros Hc. split.
  - intros H. apply (Qmult_le_compat_r _ _ c) in H; [|apply Qlt_le_weak; exact Hc].
    assert (E : (b / c * c == b)%Q) by (field; intros E0; rewrite E0 in Hc; discriminate).
    rewrite E in H. exact H.
  - apply Qle_shift_div_l. exact Hc.
Qed.
Lemma Qdiv_lt_iff a b c : (0 < c)%Q -> ((b / c < a)%Q <-> (b < a * c)%Q).
Proof.
  intros Hc. split.
  - intros H. apply (Qmult_lt_compat_r _ _ c Hc) in H.
    assert (E : (b / c * c == b)%Q) by (field; intros E0; rewrite E0 in Hc; discriminate).
    rewrite E in H. exact H.
  - apply Qlt_shift_div_r. exact Hc.
Qed.
Lemma Qfloor_eq x k : Qfloor x = k <-> (inject_Z k <= x /\ x < inject_Z (k + 1))%Q.
Proof.
  split.
  - intros <-. split; [apply Qfloor_le|apply Qlt_floor].
  - intros [H1 H2].
    assert (A : k < Qfloor x + 1).
    { rewrite Zlt_Qlt. eapply Qle_lt_trans; [exact H1|apply Qlt_floor]. }
    assert (B : Qfloor x < k + 1).
    { rewrite Zlt_Qlt. eapply Qle_lt_trans; [apply Qfloor_le|exact H2]. }
    lia.
Qed.
Lemma bin_of_spec bw s k :
  (0 < bw)%Q -> (bin_of bw s = k <-> (bw * inject_Z k <= s /\ s < bw * inject_Z k + bw)%Q).
Proof.
  intros Hbw. unfold bin_of. rewrite Qfloor_eq, (Qdiv_ge_iff _ _ _ Hbw), (Qdiv_lt_iff _ _ _ Hbw).
  rewrite inject_Z_plus.
  assert (E1 : (inject_Z k * bw == bw * inject_Z k)%Q) by ring.
  assert (E2 : ((inject_Z k + inject_Z 1) * bw == bw * inject_Z k + bw)%Q) by ring.
  rewrite E1, E2. tauto.
Qed.
Definition in_bin (low high s : Q) : bool := Qle_bool low s && negb (Qle_bool high s).
Lemma in_bin_iff low high s : in_bin low high s = true <-> (low <= s /\ s < high)%Q.
Proof.
  unfold in_bin. rewrite andb_true_iff, negb_true_iff, Qle_bool_iff. split; intros [H1 H2]; split; try exact H1.
  - apply Qnot_le_lt. intros H. apply Qle_bool_iff in H. congruence.
  - destruct (Qle_bool high s) eqn:E; [|reflexivity]. apply Qle_bool_iff in E.
    exfalso. eapply Qlt_not_le; [exact H2|exact E].
Qed.
Lemma bin_of_bool bw s k :
  (0 < bw)%Q -> Z.eqb k (bin_of bw s) = in_bin (bw * inject_Z k) (bw * inject_Z k + bw) s.
Proof.
  intros Hbw. destruct (in_bin (bw * inject_Z k) (bw * inject_Z k + bw) s) eqn:E.
  - apply in_bin_iff in E. apply (bin_of_spec bw s k Hbw) in E. rewrite E. apply Z.eqb_refl.
  - destruct (Z.eqb_spec k (bin_of bw s)) as [Hk|Hk]; [|reflexivity].
    symmetry in Hk. apply (bin_of_spec bw s k Hbw) in Hk. apply in_bin_iff in Hk. congruence.
Qed.

Lemma hist_counts_add_up bw scores :
  sumZ (map count_rows (histogram bw scores)) = lenZ scores.
Proof.
  unfold histogram. rewrite map_map. cbn [count_rows].
  rewrite (map_ext _ (fun v => sum_by (fun _ => 1) (members (bin_of bw) Z.leb scores v)))
    by (intros; apply lenZ_sum_one).
  rewrite (sum_all_groups (bin_of bw) Z.leb Zleb_total Zleb_trans). symmetry. apply lenZ_sum_one.
Qed.
Lemma hist_row_spec bw scores r :
  (0 < bw)%Q -> In r (histogram bw scores) ->
  splink_score_bin_low r = (bw * inject_Z (bin_index r))%Q /\
  splink_score_bin_high r = (splink_score_bin_low r + bw)%Q /\
  binwidth r = bw /\
  count_rows r = countZ (in_bin (splink_score_bin_low r) (splink_score_bin_high r)) scores /\
  0 < count_rows r.
Proof.
  intros Hbw H. unfold histogram in H. apply in_map_iff in H. destruct H as (k & <- & Hk).
  cbn [splink_score_bin_low splink_score_bin_high binwidth count_rows bin_index].
  assert (Hm : members (bin_of bw) Z.leb scores k = filter (in_bin (bw * inject_Z k) (bw * inject_Z k + bw)) scores).
  { unfold members. apply filter_ext. intros s. rewrite eqk_Zleb. apply bin_of_bool. exact Hbw. }
  repeat split.
  - rewrite Hm. reflexivity.
  - apply group_keys_from in Hk. destruct Hk as (s & Hs & ->).
    assert (Hin : In s (members (bin_of bw) Z.leb scores (bin_of bw s))).
    { unfold members. apply filter_In. split; [exact Hs|]. rewrite eqk_Zleb. apply Z.eqb_refl. }
    unfold lenZ. destruct (members (bin_of bw) Z.leb scores (bin_of bw s)); [contradiction|cbn [length]; lia].
Qed.
Lemma hist_every_score_in_a_bin bw scores s :
  (0 < bw)%Q -> In s scores ->
  exists r, In r (histogram bw scores) /\
            (splink_score_bin_low r <= s /\ s < splink_score_bin_high r)%Q.
Proof.
  intros Hbw Hs. destruct (group_keys_cover (bin_of bw) Z.leb Zleb_total Zleb_trans _ _ Hs) as (k & Hk & He).
  rewrite eqk_Zleb in He. apply Z.eqb_eq in He. subst k.
  eexists. split; [unfold histogram; apply in_map_iff; eexists; split; [reflexivity|exact Hk]|].
  cbn [splink_score_bin_low splink_score_bin_high]. apply (bin_of_spec bw s _ Hbw). reflexivity.
Qed.
Lemma hist_bins_increasing bw scores :
  StronglySorted (fun a b => bin_index a < bin_index b) (histogram bw scores).
Proof.
  unfold histogram. apply StronglySorted_map'. cbn [bin_index].
  eapply StronglySorted_impl'; [|exact (group_keys_sorted (bin_of bw) Z.leb Zleb_total Zleb_trans scores)].
  intros a b. apply ltk_Zleb.
Qed.

Lemma choose_bin_width_in_list mn mx nb : In (choose_bin_width mn mx nb) bin_widths.
Proof.
  unfold choose_bin_width.
  set (rough := ((mx - mn) / inject_Z nb)%Q).
  assert (G : forall l best, (In (fst best) bin_widths) -> (forall x, In x l -> In x bin_widths) ->
              In (fst (fold_left (fun (best : Q * Q) (bw : Q) =>
                    let d := Qabsd bw rough in
                    if Qle_bool (snd best) d then best else (bw, d)) l best)) bin_widths).
  { induction l as [|x t IH]; intros best Hb Hl; [exact Hb|]. cbn [fold_left]. apply IH.
    - cbv zeta. destruct (Qle_bool (snd best) (Qabsd x rough)); [exact Hb|]. apply Hl. left. reflexivity.
    - intros y Hy. apply Hl. right. exact Hy. }
  apply G; [left; reflexivity|auto].
Qed.

(* ------------------------------------------------------------------ unlinkables *)
Section Unlinkables.
  Variable rows : list selfrow.
  Let N := lenZ rows.
  Definition mk_u (p : Q) : urow :=
    let m := members s_prob Qle_bool rows p in
    {| u_weight := max_weight m; u_prob := p; u_count := lenZ m; prop := qdiv (lenZ m) (lenZ rows) |}.
  Let Pl := unlinkables_proportions rows.
  Let Fl := filter (fun u => negb (Qle_bool 1 (u_prob u))) Pl.

  Lemma Pl_map : Pl = map mk_u (group_keys s_prob Qle_bool rows).
  Proof. reflexivity. Qed.
  Lemma Pl_prop u : In u Pl -> prop u = qdiv (u_count u) N.
  Proof. rewrite Pl_map. intros H. apply in_map_iff in H. destruct H as (k & <- & _). reflexivity. Qed.
  Lemma Pl_sorted : SortedR u_prob Qle_bool Pl.
  Proof.
    rewrite Pl_map. unfold SortedR. apply StronglySorted_map'. cbn [mk_u u_prob].
    exact (group_keys_sorted s_prob Qle_bool Qleb_total Qleb_trans rows).
  Qed.
  Lemma Fl_sorted : SortedR u_prob Qle_bool Fl.
  Proof. apply StronglySorted_filter'. exact Pl_sorted. Qed.

  Lemma sumQ_props l :
    (forall u, In u l -> In u Pl) -> (sumQ (map prop l) == qdiv (sum_by u_count l) N)%Q.
  Proof.
    intros Hl. rewrite (map_ext_in prop (fun u => qdiv (u_count u) N)) by (intros u Hu; apply Pl_prop, Hl, Hu).
    apply sumQ_qdiv.
  Qed.

  Lemma count_mk k : u_count (mk_u k) = sum_by (fun _ => 1) (members s_prob Qle_bool rows k).
  Proof. cbn [mk_u u_count]. apply lenZ_sum_one. Qed.

  Lemma unlinkables_row_spec r :
    In r (unlinkables_proportions_cumulative Pl) ->
    (uc_prob r < 1)%Q /\
    (exists s, In s rows /\ uc_prob r = s_prob s) /\
    (cum_prop r == qdiv (countZ (fun s => Qle_bool (s_prob s) (uc_prob r)) rows) N)%Q /\
    uc_prop r = qdiv (countZ (fun s => eqk Qle_bool (uc_prob r) (s_prob s)) rows) N.
  Proof.
    unfold unlinkables_proportions_cumulative. fold Fl. intros H. apply in_map_iff in H.
    destruct H as ([[pre x] post] & <- & Hfr). cbn [uc_prob cum_prop uc_prop].
    assert (Hsplit := frames_spec Fl pre x post Hfr).
    assert (HxF : In x Fl) by (rewrite Hsplit; apply in_or_app; right; left; reflexivity).
    assert (HxP : In x Pl) by (apply filter_In in HxF; tauto).
    assert (Hlt : (u_prob x < 1)%Q).
    { apply filter_In in HxF. destruct HxF as [_ Hn]. rewrite negb_true_iff in Hn.
      apply Qnot_le_lt. intros Hc. apply Qle_bool_iff in Hc. congruence. }
    split; [exact Hlt|]. split; [|split].
    - rewrite Pl_map in HxP. apply in_map_iff in HxP. destruct HxP as (k & <- & Hk).
      apply group_keys_from in Hk. destruct Hk as (s & Hs & ->). exists s. split; [exact Hs|reflexivity].
    - rewrite sumQ_props.
      2:{ intros u Hu. assert (In u Fl).
          { rewrite Hsplit. apply in_app_or in Hu. apply in_or_app. destruct Hu as [Hu|[<-|[]]]; [left; exact Hu|right; left; reflexivity]. }
          apply filter_In in H. tauto. }
      rewrite (frame_asc_is_filter u_prob Qle_bool Qleb_total u_count Fl pre x post Fl_sorted Hfr).
      unfold Fl at 1. rewrite filter_filter_and.
      rewrite (filter_ext_in _ (fun y => Qle_bool (u_prob y) (u_prob x))).
      2:{ intros y _. destruct (Qle_bool (u_prob y) (u_prob x)) eqn:E; [|reflexivity]. cbn [andb].
          rewrite negb_true_iff. destruct (Qle_bool 1 (u_prob y)) eqn:E1; [|reflexivity].
          apply Qle_bool_iff in E. apply Qle_bool_iff in E1. exfalso.
          eapply Qlt_not_le; [exact Hlt|]. eapply Qle_trans; eauto. }
      rewrite Pl_map.
      rewrite (grouped_table_sum s_prob Qle_bool Qleb_total Qleb_trans mk_u u_prob u_count (fun _ => 1)
                 (fun k => Qle_bool k (u_prob x)) rows (fun k => eq_refl) count_mk).
      2:{ intros a b Hab. apply (eqk_leb_l Qle_bool Qleb_trans). exact Hab. }
      rewrite sum_by_one. reflexivity.
    - rewrite Pl_map in HxP. apply in_map_iff in HxP. destruct HxP as (k & <- & _). reflexivity.
  Qed.

  Lemma unlinkables_complete s :
    In s rows -> (s_prob s < 1)%Q ->
    exists r, In r (unlinkables_proportions_cumulative Pl) /\ (uc_prob r == s_prob s)%Q.
  Proof.
    intros Hs Hlt.
    destruct (group_keys_cover s_prob Qle_bool Qleb_total Qleb_trans _ _ Hs) as (k & Hk & He).
    assert (Hq : (k == s_prob s)%Q).
    { unfold eqk in He. apply andb_true_iff in He. destruct He as [H1 H2].
      apply Qle_bool_iff in H1. apply Qle_bool_iff in H2. apply Qle_antisym; assumption. }
    assert (HP : In (mk_u k) Pl) by (rewrite Pl_map; apply in_map; exact Hk).
    assert (HF : In (mk_u k) Fl).
    { apply filter_In. split; [exact HP|]. cbn [mk_u u_prob]. rewrite negb_true_iff.
      destruct (Qle_bool 1 k) eqn:E; [|reflexivity]. apply Qle_bool_iff in E. exfalso.
      rewrite Hq in E. eapply Qlt_not_le; [exact Hlt|exact E]. }
    destruct (frames_complete Fl _ HF) as (pre & post & Hfr).
    eexists. split.
    - unfold unlinkables_proportions_cumulative. fold Fl. apply in_map_iff. exists (pre, mk_u k, post).
      split; [reflexivity|exact Hfr].
    - cbn [uc_prob mk_u u_prob]. exact Hq.
  Qed.
End Unlinkables.

(* ================================================================== invariance under Permutation of the input rows *)
From Coq Require Import Sorting.Permutation.

Lemma eqk_Z_eq a b : eqk Z.leb a b = true -> a = b.
Proof. rewrite eqk_Zleb. apply Z.eqb_eq. Qed.
Lemma eqk_lex_eq a b : eqk lex_leb a b = true -> a = b.
Proof. apply eqk_lex. Qed.
Lemma lenZ_perm {A} (l l' : list A) : Permutation l l' -> lenZ l = lenZ l'.
Proof. intros H. unfold lenZ. rewrite (Permutation_length H). reflexivity. Qed.
Lemma non_null_perm col col' : Permutation col col' -> Permutation (non_null col) (non_null col').
Proof. apply flat_map_perm. Qed.

Lemma tf_table_perm col col' : Permutation col col' -> tf_table col = tf_table col'.
Proof.
  intros H. pose proof (non_null_perm _ _ H) as Hn. unfold tf_table.
  rewrite (group_keys_perm idZ Z.leb Zleb_total Zleb_trans eqk_Z_eq _ _ Hn).
  apply map_ext. intros v. f_equal. f_equal; apply lenZ_perm; [apply members_perm|]; exact Hn.
Qed.

Lemma completeness_rows_perm cells cells' :
  Permutation cells cells' -> completeness_rows cells = completeness_rows cells'.
Proof.
  intros H. unfold completeness_rows.
  rewrite (group_keys_perm cell_ds Z.leb Zleb_total Zleb_trans eqk_Z_eq _ _ H).
  apply map_ext. intros d. pose proof (members_perm cell_ds Z.leb cells cells' d H) as Hm.
  rewrite (lenZ_perm _ _ Hm), (countZ_perm _ _ _ Hm). reflexivity.
Qed.

Lemma cvd_perm preds preds' :
  Permutation preds preds' -> comparison_vector_distribution preds = comparison_vector_distribution preds'.
Proof.
  intros H. unfold comparison_vector_distribution.
  rewrite (group_keys_perm idL lex_leb lex_total lex_trans eqk_lex_eq _ _ H).
  apply map_ext. intros g. pose proof (members_perm idL lex_leb preds preds' g H) as Hm.
  rewrite (lenZ_perm _ _ Hm), (lenZ_perm _ _ H). reflexivity.
Qed.

Lemma histogram_perm bw scores scores' :
  Permutation scores scores' -> histogram bw scores = histogram bw scores'.
Proof.
  intros H. unfold histogram.
  rewrite (group_keys_perm (bin_of bw) Z.leb Zleb_total Zleb_trans eqk_Z_eq _ _ H).
  apply map_ext. intros k. rewrite (lenZ_perm _ _ (members_perm (bin_of bw) Z.leb scores scores' k H)). reflexivity.
Qed.

Lemma Qleb_compat_r x p p' : (p == p')%Q -> Qle_bool x p = Qle_bool x p'.
Proof.
  intros E. destruct (Qle_bool x p) eqn:A, (Qle_bool x p') eqn:B; try reflexivity.
  - apply Qle_bool_iff in A. rewrite E in A. apply Qle_bool_iff in A. congruence.
  - apply Qle_bool_iff in B. rewrite <- E in B. apply Qle_bool_iff in B. congruence.
Qed.
Lemma Qleb_compat_l x p p' : (p == p')%Q -> Qle_bool p x = Qle_bool p' x.
Proof.
  intros E. destruct (Qle_bool p x) eqn:A, (Qle_bool p' x) eqn:B; try reflexivity.
  - apply Qle_bool_iff in A. rewrite E in A. apply Qle_bool_iff in A. congruence.
  - apply Qle_bool_iff in B. rewrite <- E in B. apply Qle_bool_iff in B. congruence.
Qed.

(* the unlinkables rows are keyed by a rational (equality is Qeq): every listed row has a
   counterpart with an equal probability and equal proportions *)
Lemma unlinkables_perm scores scores' r :
  Permutation scores scores' -> In r (unlinkables_data scores) ->
  exists r', In r' (unlinkables_data scores') /\
             (uc_prob r' == uc_prob r)%Q /\ (cum_prop r' == cum_prop r)%Q /\ (uc_prop r' == uc_prop r)%Q.
Proof.
  intros H Hr. unfold unlinkables_data in *.
  assert (Hp : Permutation (round_self_link scores) (round_self_link scores')) by (apply Permutation_map; exact H).
  destruct (unlinkables_row_spec _ r Hr) as (Hlt & (s & Hs & Hps) & Hcum & Hprop).
  assert (Hs' : In s (round_self_link scores')) by (eapply Permutation_in; eauto).
  assert (Hlt' : (s_prob s < 1)%Q) by (rewrite <- Hps; exact Hlt).
  destruct (unlinkables_complete _ s Hs' Hlt') as (r' & Hr' & Hq).
  exists r'. split; [exact Hr'|]. rewrite <- Hps in Hq. split; [exact Hq|].
  destruct (unlinkables_row_spec _ r' Hr') as (_ & _ & Hcum' & Hprop').
  rewrite Hcum, Hcum', Hprop, Hprop', <- (lenZ_perm _ _ Hp), <- !(countZ_perm _ _ _ Hp).
  split.
  - rewrite (countZ_ext (fun s0 => Qle_bool (s_prob s0) (uc_prob r')) (fun s0 => Qle_bool (s_prob s0) (uc_prob r))).
    + reflexivity.
    + intros x. apply Qleb_compat_r. exact Hq.
  - rewrite (countZ_ext (fun s0 => eqk Qle_bool (uc_prob r') (s_prob s0)) (fun s0 => eqk Qle_bool (uc_prob r) (s_prob s0))).
    + reflexivity.
    + intros x. unfold eqk. rewrite (Qleb_compat_l _ _ _ Hq), (Qleb_compat_r _ _ _ Hq). reflexivity.
Qed.

(* ================================================================== profile_columns *)
Definition freq (col : list (option Z)) (x : Z) : Z := countZ (Z.eqb x) (non_null col).

Lemma value_frequencies_spec col r :
  In r (value_frequencies col) ->
  In (vf_value r) (non_null col) /\ value_count r = freq col (vf_value r) /\ 0 < value_count r.
Proof.
  unfold value_frequencies. intros H. apply in_map_iff in H. destruct H as (v & <- & Hv).
  cbn [vf_value value_count]. apply group_keys_from in Hv. destruct Hv as (x & Hx & ->). unfold idZ.
  split; [exact Hx|]. rewrite members_Z. split; [reflexivity|].
  change (lenZ (filter (Z.eqb x) (non_null col))) with (countZ (Z.eqb x) (non_null col)).
  unfold countZ. assert (In x (filter (Z.eqb x) (non_null col))) by (apply filter_In; split; [exact Hx|apply Z.eqb_refl]).
  destruct (filter (Z.eqb x) (non_null col)); [contradiction|cbn [length]; lia].
Qed.
Lemma value_frequencies_complete col v :
  In v (non_null col) -> exists r, In r (value_frequencies col) /\ vf_value r = v.
Proof.
  intros Hv. destruct (group_keys_cover idZ Z.leb Zleb_total Zleb_trans _ _ Hv) as (k & Hk & He).
  apply eqk_Z_eq in He. unfold idZ in He. subst k.
  eexists. split; [unfold value_frequencies; apply in_map_iff; eexists; split; [reflexivity|exact Hk]|reflexivity].
Qed.
Lemma value_frequencies_sorted col :
  StronglySorted (fun a b => vf_value a < vf_value b) (value_frequencies col).
Proof.
  unfold value_frequencies. apply StronglySorted_map'. cbn [vf_value].
  eapply StronglySorted_impl'; [|exact (group_keys_sorted idZ Z.leb Zleb_total Zleb_trans (non_null col))].
  intros a b. apply ltk_Zleb.
Qed.
Lemma value_counts_add_up col : sum_by value_count (value_frequencies col) = total_non_null_rows col.
Proof.
  unfold value_frequencies, total_non_null_rows.
  rewrite (grouped_table_total idZ Z.leb Zleb_total Zleb_trans _ value_count (fun _ => 1)).
  - symmetry. apply lenZ_sum_one.
  - intros k. cbn [value_count]. apply lenZ_sum_one.
Qed.

Lemma value_count_is_freq col y : In y (value_frequencies col) -> value_count y = freq col (vf_value y).
Proof. intros H. apply value_frequencies_spec in H. tauto. Qed.

Lemma percentiles_spec col p :
  In p (percentiles col) ->
  (exists r, In r (value_frequencies col) /\ value_count r = pc_value_count p) /\
  value_count_cumsum p = countZ (fun x => pc_value_count p <=? freq col x) (non_null col) /\
  sum_tokens_in_value_count_group p = countZ (fun x => freq col x =? pc_value_count p) (non_null col) /\
  percentile_ex_nulls p = (1 - qdiv (value_count_cumsum p) (total_non_null_rows col))%Q /\
  percentile_inc_nulls p = (1 - qdiv (value_count_cumsum p) (total_rows_incl_nulls col))%Q.
Proof.
  unfold percentiles. intros H. apply in_map_iff in H. destruct H as ([[pre x] post] & <- & Hfr).
  cbn [pc_value_count value_count_cumsum sum_tokens_in_value_count_group percentile_ex_nulls percentile_inc_nulls].
  set (vf := value_frequencies col) in *.
  set (mk := fun c => (c, sum_by value_count (members value_count Z.leb vf c))).
  assert (HT : total_in_value_counts vf = map mk (group_keys value_count Z.leb vf)) by reflexivity.
  assert (Hsorted : SortedR fst Z.leb (total_in_value_counts vf)).
  { rewrite HT. unfold SortedR. apply StronglySorted_map'. cbn [mk fst].
    exact (group_keys_sorted value_count Z.leb Zleb_total Zleb_trans vf). }
  assert (Hx : In x (total_in_value_counts vf)).
  { rewrite (frames_spec _ _ _ _ Hfr). apply in_or_app. right. left. reflexivity. }
  rewrite HT in Hx. apply in_map_iff in Hx. destruct Hx as (c & <- & Hc). cbn [mk fst snd] in *.
  (* sums over vf selected by a predicate on the count = counts over the non-null cells *)
  assert (Hvf : forall q : Z -> bool,
             sum_by value_count (filter (fun r => q (value_count r)) vf)
             = countZ (fun v => q (freq col v)) (non_null col)).
  { intros q. unfold vf.
    rewrite (filter_ext_in (fun r => q (value_count r)) (fun r => q (freq col (vf_value r))))
      by (intros r Hr; rewrite (value_count_is_freq col r Hr); reflexivity).
    unfold value_frequencies.
    rewrite (grouped_table_sum idZ Z.leb Zleb_total Zleb_trans
               (fun v => {| vf_value := v; value_count := lenZ (members idZ Z.leb (non_null col) v) |})
               vf_value value_count (fun _ => 1) (fun v => q (freq col v)) (non_null col)).
    - rewrite sum_by_one. reflexivity.
    - reflexivity.
    - intros k. cbn [value_count]. apply lenZ_sum_one.
    - intros a b Hab. apply eqk_Z_eq in Hab. subst. reflexivity. }
  split; [|split; [|split; [|split; reflexivity]]].
  - apply group_keys_from in Hc. destruct Hc as (r & Hr & ->). exists r. split; [exact Hr|reflexivity].
  - rewrite (frame_desc_is_filter fst Z.leb Zleb_total snd _ pre (mk c) post Hsorted Hfr). cbn [mk fst].
    rewrite HT.
    rewrite (grouped_table_sum value_count Z.leb Zleb_total Zleb_trans mk fst snd value_count (fun k => c <=? k) vf).
    + apply (Hvf (fun k => c <=? k)).
    + reflexivity.
    + reflexivity.
    + intros a b Hab. apply eqk_Z_eq in Hab. subst. reflexivity.
  - unfold members. rewrite (filter_ext _ (fun r => value_count r =? c)) by (intros r; rewrite eqk_Zleb; apply Z.eqb_sym).
    apply (Hvf (fun k => k =? c)).
Qed.

(* ------------------------------------------------------------------ top n / bottom n *)
Section SortBy.
  Context {A : Type}.
  Variable before : A -> A -> bool.
  Hypothesis before_total : forall a b, before a b = true \/ before b a = true.
  Hypothesis before_trans : forall a b c, before a b = true -> before b c = true -> before a c = true.

  Lemma insert_by_perm x l : Permutation (insert_by before x l) (x :: l).
  Proof.
    induction l as [|h t IH]; cbn; [reflexivity|]. destruct (before x h); [reflexivity|].
    rewrite IH. apply perm_swap.
  Qed.
  Lemma sort_by_perm l : Permutation (sort_by before l) l.
  Proof. induction l as [|h t IH]; cbn; [reflexivity|]. rewrite insert_by_perm, IH. reflexivity. Qed.
  Lemma insert_by_sorted x l :
    StronglySorted (fun a b => before a b = true) l -> StronglySorted (fun a b => before a b = true) (insert_by before x l).
  Proof.
    induction 1 as [|h t Hs IH Hh]; cbn; [constructor; constructor|].
    destruct (before x h) eqn:E.
    - constructor; [constructor; assumption|]. constructor; [exact E|].
      rewrite Forall_forall in *. intros y Hy. eapply before_trans; [exact E|apply Hh; exact Hy].
    - constructor; [exact IH|]. rewrite Forall_forall in *. intros y Hy.
      apply (Permutation_in _ (insert_by_perm x t)) in Hy. destruct Hy as [<-|Hy].
      + destruct (before_total x h) as [H|H]; [congruence|exact H].
      + apply Hh. exact Hy.
  Qed.
  Lemma sort_by_sorted l : StronglySorted (fun a b => before a b = true) (sort_by before l).
  Proof. induction l as [|h t IH]; cbn; [constructor|]. apply insert_by_sorted. exact IH. Qed.

  Lemma sorted_split_le (a b : list A) :
    StronglySorted (fun x y => before x y = true) (a ++ b) ->
    StronglySorted (fun x y => before x y = true) a /\ forall x y, In x a -> In y b -> before x y = true.
  Proof.
    induction a as [|h t IH]; cbn; intros Hs; [split; [constructor|intros ? ? []]|].
    inversion Hs as [|? ? Hs' Hh]; subst. destruct (IH Hs') as [I1 I2]. rewrite Forall_forall in Hh. split.
    - constructor; [exact I1|]. rewrite Forall_forall. intros x Hx. apply Hh. apply in_or_app. left. exact Hx.
    - intros x y [<-|Hx] Hy; [apply Hh; apply in_or_app; right; exact Hy|apply I2; assumption].
  Qed.
  Lemma firstn_sorted_spec n l :
    let top := firstn n (sort_by before l) in
    exists rest, Permutation (top ++ rest) l /\ length top = Nat.min n (length l) /\
                 StronglySorted (fun x y => before x y = true) top /\
                 (forall x y, In x top -> In y rest -> before x y = true).
  Proof.
    cbv zeta. exists (skipn n (sort_by before l)). rewrite firstn_skipn. split; [apply sort_by_perm|]. split.
    - rewrite firstn_length, (Permutation_length (sort_by_perm l)). reflexivity.
    - pose proof (sort_by_sorted l) as Hs. rewrite <- (firstn_skipn n (sort_by before l)) in Hs.
      apply sorted_split_le. exact Hs.
  Qed.
End SortBy.

Lemma top_n_spec n col :
  exists rest, Permutation (top_n n col ++ rest) (value_frequencies col) /\
    length (top_n n col) = Nat.min n (length (value_frequencies col)) /\
    StronglySorted (fun x y => value_count y <= value_count x) (top_n n col) /\
    (forall x y, In x (top_n n col) -> In y rest -> value_count y <= value_count x).
Proof.
  destruct (firstn_sorted_spec (fun a b : vfrow => value_count b <=? value_count a)
              (fun a b => ltac:(rewrite !Z.leb_le; lia)) (fun a b c => ltac:(rewrite !Z.leb_le; lia))
              n (value_frequencies col)) as (rest & H1 & H2 & H3 & H4).
  exists rest. split; [exact H1|]. split; [exact H2|]. split.
  - eapply StronglySorted_impl'; [|exact H3]. intros a b. apply Z.leb_le.
  - intros x y Hx Hy. apply Z.leb_le. apply H4; assumption.
Qed.
Lemma bottom_n_spec n col :
  exists rest, Permutation (bottom_n n col ++ rest) (value_frequencies col) /\
    length (bottom_n n col) = Nat.min n (length (value_frequencies col)) /\
    StronglySorted (fun x y => value_count x <= value_count y) (bottom_n n col) /\
    (forall x y, In x (bottom_n n col) -> In y rest -> value_count x <= value_count y).
Proof.
  destruct (firstn_sorted_spec (fun a b : vfrow => value_count a <=? value_count b)
              (fun a b => ltac:(rewrite !Z.leb_le; lia)) (fun a b c => ltac:(rewrite !Z.leb_le; lia))
              n (value_frequencies col)) as (rest & H1 & H2 & H3 & H4).
  exists rest. split; [exact H1|]. split; [exact H2|]. split.
  - eapply StronglySorted_impl'; [|exact H3]. intros a b. apply Z.leb_le.
  - intros x y Hx Hy. apply Z.leb_le. apply H4; assumption.
Qed.

(* ================================================================== the chosen bin width is the nearest listed one *)
Lemma choose_bin_width_nearest mn mx nb w :
  In w bin_widths ->
  (Qabsd (choose_bin_width mn mx nb) ((mx - mn) / inject_Z nb) <= Qabsd w ((mx - mn) / inject_Z nb))%Q.
Proof.
  unfold choose_bin_width. set (rough := ((mx - mn) / inject_Z nb)%Q).
  set (step := fun (best : Q * Q) (bw : Q) =>
                 let d := Qabsd bw rough in if Qle_bool (snd best) d then best else (bw, d)).
  assert (G : forall l best seen,
             snd best = Qabsd (fst best) rough ->
             (forall x, In x seen -> (snd best <= Qabsd x rough)%Q) ->
             snd (fold_left step l best) = Qabsd (fst (fold_left step l best)) rough /\
             forall x, In x (seen ++ l) -> (snd (fold_left step l best) <= Qabsd x rough)%Q).
  { induction l as [|y t IH]; intros best seen Hb Hs; cbn [fold_left].
    - split; [exact Hb|]. intros x Hx. rewrite app_nil_r in Hx. apply Hs. exact Hx.
    - destruct (IH (step best y) (seen ++ [y])) as [I1 I2].
      + unfold step. cbv zeta. destruct (Qle_bool (snd best) (Qabsd y rough)); [exact Hb|reflexivity].
      + intros x Hx. unfold step. cbv zeta. destruct (Qle_bool (snd best) (Qabsd y rough)) eqn:E.
        * apply in_app_or in Hx. destruct Hx as [Hx|[<-|[]]]; [apply Hs; exact Hx|apply Qle_bool_iff; exact E].
        * cbn [snd]. assert (Hlt : (Qabsd y rough <= snd best)%Q).
          { destruct (Qleb_total (snd best) (Qabsd y rough)) as [H|H]; [congruence|apply Qle_bool_iff; exact H]. }
          apply in_app_or in Hx. destruct Hx as [Hx|[<-|[]]]; [|apply Qle_refl].
          eapply Qle_trans; [exact Hlt|apply Hs; exact Hx].
      + split; [exact I1|]. intros x Hx. apply I2. rewrite <- app_assoc. exact Hx. }
  intros Hw. destruct (G bin_widths ((1 # 100)%Q, Qabsd (1 # 100) rough) [(1 # 100)%Q] eq_refl) as [G1 G2].
  - intros x [<-|[]]. apply Qle_refl.
  - fold step in G1, G2 |- *. rewrite <- G1. apply G2. right. exact Hw.
Qed.
Lemma Qabsd_is_distance a b : (Qabsd a b == Qabs (a - b))%Q.
Proof.
  unfold Qabsd. destruct (Qle_bool a b) eqn:E.
  - apply Qle_bool_iff in E. rewrite Qabs_neg; [ring|]. apply (Qplus_le_l _ _ b). ring_simplify. exact E.
  - assert (H : (b <= a)%Q) by (destruct (Qleb_total a b) as [H|H]; [congruence|apply Qle_bool_iff; exact H]).
    rewrite Qabs_pos; [reflexivity|]. apply (Qplus_le_l _ _ b). ring_simplify. exact H.
Qed.
