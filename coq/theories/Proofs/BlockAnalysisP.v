(* Lemmas about Model/BlockAnalysis.v. *)
From Coq Require Import List Bool ZArith Lia Arith Sorting.Sorted Sorting.Permutation.
From Splinkv Require Import Base.TV Base.GroupBy Base.CumSum Model.Blocking Model.BlockAnalysis Proofs.BlockingP.
Import ListNotations.
Local Open Scope Z_scope.

(* ------------------------------------------------------------------ cartesian counts *)
Lemma length_all_pairs {A} (l : list A) :
  2 * Z.of_nat (length (all_pairs l)) = Z.of_nat (length l) * (Z.of_nat (length l) - 1).
Proof.
  induction l as [|x t IH]; [reflexivity|]. cbn [all_pairs length].
  rewrite app_length, map_length. lia.
Qed.

Lemma length_cross {A} (L R : list A) :
  Z.of_nat (length (cross L R)) = Z.of_nat (length L) * Z.of_nat (length R).
Proof.
  unfold cross. induction L as [|x t IH]; [reflexivity|]. cbn [flat_map length].
  rewrite app_length, map_length. lia.
Qed.

Definition sizes {A} (ts : list (list A)) : list Z := map (fun t => Z.of_nat (length t)) ts.

Lemma length_concat_sizes {A} (ts : list (list A)) :
  Z.of_nat (length (concat ts)) = sumZ (sizes ts).
Proof.
  induction ts as [|t rest IH]; [reflexivity|]. cbn [concat sizes map sumZ].
  rewrite app_length. unfold sizes in IH. lia.
Qed.

Lemma length_cross_pairs {A} (ts : list (list A)) :
  2 * Z.of_nat (length (cross_pairs ts))
  = sumZ (sizes ts) * sumZ (sizes ts) - sumZ (map (fun m => m * m) (sizes ts)).
Proof.
  induction ts as [|t rest IH]; [reflexivity|]. cbn [cross_pairs sizes map sumZ].
  rewrite app_length, Nat2Z.inj_add, length_cross, length_concat_sizes.
  unfold sizes in *. nia.
Qed.

Lemma half_exact a k : 2 * k = a -> a / 2 = k.
Proof. intros <-. rewrite Z.mul_comm. apply Z.div_mul. discriminate. Qed.

Lemma cartesian_dedupe_counts {A} (l : list A) :
  cartesian CDedupe (sizes [l]) = Some (Z.of_nat (length (all_pairs l))).
Proof. cbn. f_equal. apply half_exact. apply length_all_pairs. Qed.

Lemma cartesian_link_and_dedupe_counts {A} (ts : list (list A)) :
  cartesian CLinkAndDedupe (sizes ts) = Some (Z.of_nat (length (all_pairs (concat ts)))).
Proof.
  cbn. f_equal. apply half_exact. rewrite length_all_pairs, length_concat_sizes. reflexivity.
Qed.

Lemma cartesian_link_only_counts {A} (ts : list (list A)) :
  (2 <= length ts)%nat ->
  cartesian CLinkOnly (sizes ts) = Some (Z.of_nat (length (cross_pairs ts))).
Proof.
  intros H. unfold cartesian. unfold sizes at 1. rewrite map_length.
  destruct (Nat.leb_spec (length ts) 1) as [Hc|Hc]; [lia|]. f_equal. apply half_exact.
  apply length_cross_pairs.
Qed.

(* ================================================================== C14 *)

Lemma lenZ_app {A} (a b : list A) : lenZ (a ++ b) = lenZ a + lenZ b.
Proof. unfold lenZ. rewrite app_length. lia. Qed.
Lemma lenZ_map {A B} (f : A -> B) l : lenZ (map f l) = lenZ l.
Proof. unfold lenZ. rewrite map_length. reflexivity. Qed.
Lemma lenZ_sum_one' {A} (l : list A) : lenZ l = sum_by (fun _ => 1) l.
Proof. unfold lenZ. rewrite sum_by_one. reflexivity. Qed.

(* ------------------------------------------------------------------ post filter *)
Lemma post_filter_is_block {rec} (adm : rec -> rec -> bool) (rule : rec -> rec -> tv) L R :
  post_filter_count adm rule L R = lenZ (block adm [rule] L R).
Proof.
  unfold post_filter_count, block. cbn [block_aux]. rewrite app_nil_r, lenZ_map. f_equal.
  apply filter_ext. intros p. unfold keep. cbn [existsb negb]. rewrite andb_true_r. reflexivity.
Qed.

(* ------------------------------------------------------------------ pre filter *)
Definition key_match (a b : option (list Z)) : bool :=
  match a, b with Some x, Some y => eqk lex_leb x y | _, _ => false end.

Lemma sumZ_app' a b : sumZ (a ++ b) = sumZ a + sumZ b.
Proof. induction a as [|x t IH]; cbn; [reflexivity|]. rewrite IH. lia. Qed.
Lemma sumZ_flat_map {A B} (f : B -> Z) (g : A -> list B) l :
  sumZ (map f (flat_map g l)) = sumZ (map (fun x => sumZ (map f (g x))) l).
Proof.
  induction l as [|x t IH]; [reflexivity|]. cbn [flat_map map sumZ]. rewrite map_app, sumZ_app', IH. reflexivity.
Qed.
Lemma sumZ_scale c (l : list Z) : sumZ (map (fun x => c * x) l) = c * sumZ l.
Proof. induction l as [|x t IH]; cbn [map sumZ]; [lia|]. rewrite IH. lia. Qed.

Lemma members_lex (l : list (list Z)) k : members idL lex_leb l k = filter (fun x => eqk lex_leb k x) l.
Proof. reflexivity. Qed.

(* inner sum: the R-groups that join with key k *)
Lemma join_one_key (KR : list (list Z)) k cl :
  sumZ (map (fun gr : list Z * Z => sumZ (map block_size
              (if eqk lex_leb k (fst gr) then [(k, cl, snd gr)] else [])))
            (map (fun kr => (kr, lenZ (members idL lex_leb KR kr))) (group_keys idL lex_leb KR)))
  = cl * lenZ (members idL lex_leb KR k).
Proof.
  rewrite map_map. cbn [fst snd].
  rewrite (map_ext _ (fun kr => cl * (if eqk lex_leb k kr then sum_by (fun _ => 1) (members idL lex_leb KR kr) else 0))).
  2:{ intros kr. destruct (eqk lex_leb k kr); cbn [map sumZ]; unfold block_size; cbn [fst snd]; rewrite <- ?lenZ_sum_one'; lia. }
  rewrite <- (map_map (fun kr => if eqk lex_leb k kr then sum_by (fun _ => 1) (members idL lex_leb KR kr) else 0)
                      (fun x => cl * x)).
  rewrite sumZ_scale. f_equal.
  rewrite (sum_over_groups idL lex_leb lex_total lex_trans (fun x => eqk lex_leb k x) (fun _ => 1) KR).
  - rewrite <- lenZ_sum_one'. reflexivity.
  - intros a b Hab. apply eqk_lex in Hab. subst. reflexivity.
Qed.

Lemma pre_filter_as_key_sum {rec} (keyL keyR : rec -> option (list Z)) L R :
  pre_filter_count keyL keyR L R
  = sum_by (fun x => lenZ (members idL lex_leb (some_keys keyR R) x)) (some_keys keyL L).
Proof.
  unfold pre_filter_count, block_counts. rewrite sumZ_flat_map. unfold key_groups at 2.
  rewrite map_map. cbn [fst snd].
  set (KL := some_keys keyL L). set (KR := some_keys keyR R).
  rewrite (map_ext _ (fun k => sum_by (fun x => lenZ (members idL lex_leb KR x)) (members idL lex_leb KL k))).
  - apply (sum_all_groups idL lex_leb lex_total lex_trans).
  - intros k. rewrite sumZ_flat_map. unfold key_groups. fold KR. rewrite join_one_key.
    rewrite (sum_by_ext _ (fun _ => lenZ (members idL lex_leb KR k))).
    + generalize (members idL lex_leb KL k) as m. intros m. unfold lenZ at 1.
      induction m as [|y t IH]; [reflexivity|]. rewrite sum_by_cons. cbn [length]. rewrite <- IH. lia.
    + intros x Hx. unfold members in Hx. apply filter_In in Hx. destruct Hx as [_ He].
      apply eqk_lex in He. unfold idL in He. subst. reflexivity.
Qed.

Lemma count_cross_split {rec} (q : rec -> rec -> bool) (l : rec) L R :
  countZ (fun p => q (fst p) (snd p)) (cross (l :: L) R)
  = countZ (fun r => q l r) R + countZ (fun p => q (fst p) (snd p)) (cross L R).
Proof.
  unfold countZ, cross. cbn [flat_map]. rewrite filter_app, app_length.
  assert (H : length (filter (fun p : rec * rec => q (fst p) (snd p)) (map (fun r => (l, r)) R))
              = length (filter (fun r => q l r) R)).
  { induction R as [|r t IH]; [reflexivity|]. cbn. destruct (q l r); cbn; rewrite IH; reflexivity. }
  rewrite H. lia.
Qed.

Lemma count_keys_R {rec} (keyR : rec -> option (list Z)) k R :
  length (filter (fun x => eqk lex_leb k x) (some_keys keyR R))
  = length (filter (fun r => key_match (Some k) (keyR r)) R).
Proof.
  induction R as [|r t IH]; [reflexivity|]. unfold some_keys. cbn [flat_map filter].
  fold (some_keys keyR t). unfold key_match at 1. destruct (keyR r) as [k'|]; cbn [app filter].
  - destruct (eqk lex_leb k k'); cbn [length]; rewrite IH; reflexivity.
  - exact IH.
Qed.

Lemma pre_filter_is_equijoin_count {rec} (keyL keyR : rec -> option (list Z)) L R :
  pre_filter_count keyL keyR L R
  = countZ (fun p => key_match (keyL (fst p)) (keyR (snd p))) (cross L R).
Proof.
  rewrite pre_filter_as_key_sum. induction L as [|l L IH].
  - reflexivity.
  - rewrite (count_cross_split (fun a b => key_match (keyL a) (keyR b))). rewrite <- IH.
    unfold some_keys at 2. cbn [flat_map]. fold (some_keys keyL L).
    destruct (keyL l) as [k|] eqn:Ek; cbn [app].
    + rewrite sum_by_cons. f_equal. rewrite members_lex. unfold lenZ, countZ. f_equal.
      apply count_keys_R.
    + assert (H0 : forall R0 : list rec, countZ (fun r => key_match None (keyR r)) R0 = 0).
      { unfold countZ. intros R0. induction R0 as [|r t IHt]; [reflexivity|]. cbn. exact IHt. }
      rewrite H0. lia.
Qed.

Lemma pre_filter_no_keys {rec} (L R : list rec) :
  pre_filter_count_no_keys L R = lenZ (cross L R).
Proof.
  unfold pre_filter_count_no_keys, lenZ, cross. induction L as [|l t IH]; [reflexivity|].
  cbn [flat_map length]. rewrite app_length, map_length. lia.
Qed.

(* ------------------------------------------------------------------ n largest blocks *)
Definition ge_size (a b : list Z * Z * Z) : Prop := block_size b <= block_size a.

Lemma insert_desc_perm b l : Permutation (insert_desc b l) (b :: l).
Proof.
  induction l as [|h t IH]; cbn; [reflexivity|]. destruct (block_size h <=? block_size b); [reflexivity|].
  rewrite IH. apply perm_swap.
Qed.
Lemma sort_desc_perm l : Permutation (sort_desc l) l.
Proof. induction l as [|h t IH]; cbn; [reflexivity|]. rewrite insert_desc_perm, IH. reflexivity. Qed.
Lemma insert_desc_sorted b l : StronglySorted ge_size l -> StronglySorted ge_size (insert_desc b l).
Proof.
  induction 1 as [|h t Hs IH Hh]; cbn; [constructor; constructor|].
  destruct (Z.leb_spec (block_size h) (block_size b)) as [Hle|Hgt].
  - constructor; [constructor; assumption|]. constructor; [exact Hle|].
    rewrite Forall_forall in *. intros x Hx. specialize (Hh x Hx). unfold ge_size in *. lia.
  - constructor; [exact IH|]. rewrite Forall_forall in *. intros x Hx.
    apply (Permutation_in _ (insert_desc_perm b t)) in Hx. destruct Hx as [<-|Hx].
    + unfold ge_size. lia.
    + apply Hh. exact Hx.
Qed.
Lemma sort_desc_sorted l : StronglySorted ge_size (sort_desc l).
Proof. induction l as [|h t IH]; cbn; [constructor|]. apply insert_desc_sorted. exact IH. Qed.

Lemma sorted_app_le (a b : list (list Z * Z * Z)) :
  StronglySorted ge_size (a ++ b) -> forall x y, In x a -> In y b -> block_size y <= block_size x.
Proof.
  induction a as [|h t IH]; cbn; intros Hs x y Hx Hy; [destruct Hx|].
  inversion Hs as [|? ? Hs' Hh]; subst. destruct Hx as [<-|Hx].
  - rewrite Forall_forall in Hh. apply Hh. apply in_or_app. right. exact Hy.
  - eapply IH; eauto.
Qed.
Lemma sorted_app_l (a b : list (list Z * Z * Z)) :
  StronglySorted ge_size (a ++ b) -> StronglySorted ge_size a.
Proof.
  induction a as [|h t IH]; cbn; intros Hs; [constructor|]. inversion Hs as [|? ? Hs' Hh]; subst.
  constructor; [apply IH; exact Hs'|]. rewrite Forall_forall in *. intros x Hx. apply Hh.
  apply in_or_app. left. exact Hx.
Qed.

Lemma n_largest_spec {rec} n (keyL keyR : rec -> option (list Z)) L R :
  let all := block_counts keyL keyR L R in
  let top := n_largest_blocks n keyL keyR L R in
  exists rest,
    Permutation (top ++ rest) all /\
    length top = Nat.min n (length all) /\
    StronglySorted ge_size top /\
    (forall x y, In x top -> In y rest -> block_size y <= block_size x).
Proof.
  cbv zeta. unfold n_largest_blocks. set (s := sort_desc (block_counts keyL keyR L R)).
  exists (skipn n s). rewrite firstn_skipn. split; [apply sort_desc_perm|]. split.
  - rewrite firstn_length. unfold s. rewrite (Permutation_length (sort_desc_perm _)). reflexivity.
  - pose proof (sort_desc_sorted (block_counts keyL keyR L R)) as Hs. fold s in Hs.
    rewrite <- (firstn_skipn n s) in Hs. split; [eapply sorted_app_l; exact Hs|].
    apply sorted_app_le. exact Hs.
Qed.

(* every listed block is a genuine block: its key occurs on both sides and the counts are the
   numbers of records carrying that key *)
Lemma block_counts_spec {rec} (keyL keyR : rec -> option (list Z)) L R k cl cr :
  In (k, cl, cr) (block_counts keyL keyR L R) ->
  cl = lenZ (filter (fun x => eqk lex_leb k x) (some_keys keyL L)) /\
  cr = lenZ (filter (fun x => eqk lex_leb k x) (some_keys keyR R)) /\
  0 < cl /\ 0 < cr.
Proof.
  unfold block_counts. intros H. apply in_flat_map in H. destruct H as ([kl c1] & Hl & H).
  apply in_flat_map in H. destruct H as ([kr c2] & Hr & H). cbn [fst snd] in H.
  destruct (eqk lex_leb kl kr) eqn:E; [|destruct H]. destruct H as [H|[]]. injection H as <- <- <-.
  apply eqk_lex in E. subst kr.
  unfold key_groups in Hl, Hr. apply in_map_iff in Hl. destruct Hl as (k1 & Heq1 & Hk1).
  apply in_map_iff in Hr. destruct Hr as (k2 & Heq2 & Hk2). injection Heq1 as -> <-. injection Heq2 as -> <-.
  assert (Hpos : forall (l : list (list Z)) k, In k (group_keys idL lex_leb l) -> 0 < lenZ (members idL lex_leb l k)).
  { intros l k Hk. apply group_keys_from in Hk. destruct Hk as (x & Hx & ->).
    assert (In x (members idL lex_leb l (idL x))).
    { unfold members. apply filter_In. split; [exact Hx|]. apply eqk_lex. reflexivity. }
    unfold lenZ. destruct (members idL lex_leb l (idL x)); [contradiction|cbn [length]; lia]. }
  repeat split; try reflexivity; apply Hpos; assumption.
Qed.

(* ------------------------------------------------------------------ cumulative counts *)
Section Marginal.
  Variable rec : Type.
  Variable adm : rec -> rec -> bool.
  Notation rule := (rec -> rec -> tv).

  Definition owner_is (k : nat) (rules : list rule) (n : nat) (l r : rec) : bool :=
    match first_true k rules l r with Some m => Nat.eqb m n | None => false end.

  Lemma count_map_const {A} (k n : nat) (l : list A) :
    lenZ (filter (fun p : nat * A => Nat.eqb (fst p) n) (map (fun p => (k, p)) l))
    = if Nat.eqb k n then lenZ l else 0.
  Proof.
    unfold lenZ. induction l as [|x t IH]; cbn [map filter fst]; [destruct (Nat.eqb k n); reflexivity|].
    destruct (Nat.eqb k n); cbn [length]; [rewrite Nat2Z.inj_succ, IH; lia|exact IH].
  Qed.

  Lemma first_true_ge k (rules : list rule) l r m : first_true k rules l r = Some m -> (k <= m)%nat.
  Proof.
    revert k. induction rules as [|rk rest IH]; intros k; cbn [first_true]; [discriminate|].
    destruct (isT (rk l r)); [intros H; injection H as <-; lia|]. intros H. apply IH in H. lia.
  Qed.

  Lemma countZ_or {A} (a b c : A -> bool) l :
    (forall x, a x = b x || c x) -> (forall x, b x && c x = false) ->
    countZ a l = countZ b l + countZ c l.
  Proof.
    intros Hor Hex. unfold countZ. induction l as [|x t IH]; [reflexivity|]. cbn [filter].
    rewrite (Hor x). specialize (Hex x). destruct (b x), (c x); cbn [orb length] in *; try discriminate; lia.
  Qed.
  Lemma countZ_ext' {A} (a b : A -> bool) l : (forall x, a x = b x) -> countZ a l = countZ b l.
  Proof. intros H. unfold countZ. rewrite (filter_ext a b H). reflexivity. Qed.

  Lemma owner_step k (rk : rule) rest n l r :
    owner_is k (rk :: rest) n l r
    = if isT (rk l r) then Nat.eqb k n else owner_is (S k) rest n l r.
  Proof. unfold owner_is. cbn [first_true]. destruct (isT (rk l r)); reflexivity. Qed.

  Lemma owner_is_tail_ne k (rules : list rule) l r : owner_is (S k) rules k l r = false.
  Proof.
    unfold owner_is. destruct (first_true (S k) rules l r) as [m|] eqn:E; [|reflexivity].
    apply first_true_ge in E. destruct (Nat.eqb_spec m k); [lia|reflexivity].
  Qed.

  Lemma block_aux_count (prev : list rule) k (rules : list rule) L R n :
    lenZ (filter (fun p => Nat.eqb (fst p) n) (block_aux adm prev k rules L R))
    = countZ (fun p => adm (fst p) (snd p)
                       && negb (existsb (fun q : rule => coalesce_false (q (fst p) (snd p))) prev)
                       && owner_is k rules n (fst p) (snd p)) (cross L R).
  Proof.
    revert prev k. induction rules as [|rk rest IH]; intros prev k; cbn [block_aux].
    - unfold owner_is. cbn [first_true filter]. unfold countZ.
      rewrite (filter_ext _ (fun _ => false)) by (intros; rewrite andb_false_r; reflexivity).
      induction (cross L R) as [|x t IHt]; [reflexivity|exact IHt].
    - rewrite filter_app, lenZ_app, IH, count_map_const.
      destruct (Nat.eqb_spec k n) as [Hk|Hk].
      + subst n. symmetry.
        change (lenZ (filter (fun p => keep rec adm prev rk (fst p) (snd p)) (cross L R)))
          with (countZ (fun p => keep rec adm prev rk (fst p) (snd p)) (cross L R)).
        apply countZ_or.
        * intros p. rewrite owner_step, owner_is_tail_ne, andb_false_r, orb_false_r.
          unfold keep. destruct (isT (rk (fst p) (snd p))); [rewrite Nat.eqb_refl|];
            destruct (adm (fst p) (snd p)), (existsb (fun q : rule => coalesce_false (q (fst p) (snd p))) prev);
            reflexivity.
        * intros p. rewrite owner_is_tail_ne, andb_false_r, andb_false_r. reflexivity.
      + cbn [Z.add]. apply countZ_ext'. intros p. rewrite owner_step, existsb_app. cbn [existsb].
        rewrite orb_false_r. unfold coalesce_false at 2.
        destruct (isT (rk (fst p) (snd p))).
        * rewrite orb_true_r. cbn [negb]. destruct (Nat.eqb_spec k n); [contradiction|].
          rewrite !andb_false_r. reflexivity.
        * rewrite orb_false_r. reflexivity.
  Qed.

  Lemma row_count_spec (rules : list rule) L R n :
    rules <> [] ->
    lenZ (filter (fun p => Nat.eqb (fst p) n) (block adm rules L R))
    = countZ (fun p => adm (fst p) (snd p) && owner_is 0 rules n (fst p) (snd p)) (cross L R).
  Proof.
    intros Hne. unfold block. destruct rules as [|a t]; [congruence|].
    rewrite block_aux_count. apply countZ_ext'. intros p. cbn [existsb negb]. rewrite andb_true_r. reflexivity.
  Qed.
End Marginal.

Lemma nth_map_seq {B} (f : nat -> B) m n d : (n < m)%nat -> nth n (map f (seq 0 m)) d = f n.
Proof.
  intros H. rewrite (nth_indep _ d (f 0%nat)) by (rewrite map_length, seq_length; exact H).
  rewrite map_nth, seq_nth by exact H. reflexivity.
Qed.
Lemma row_counts_nth {rec} (adm : rec -> rec -> bool) (rules : list (rec -> rec -> tv)) L R n :
  rules <> [] -> (n < length rules)%nat ->
  nth n (row_counts (length rules) (block adm rules L R)) 0
  = countZ (fun p => adm (fst p) (snd p) && owner_is rec 0 rules n (fst p) (snd p)) (cross L R).
Proof.
  intros Hne Hn. unfold row_counts. rewrite nth_map_seq by exact Hn. apply row_count_spec. exact Hne.
Qed.

Lemma owner_is_iff {rec} (rules : list (rec -> rec -> tv)) n l r :
  owner_is rec 0 rules n l r = true <-> first_true 0 rules l r = Some n.
Proof.
  unfold owner_is. destruct (first_true 0 rules l r) as [m|]; [|split; discriminate].
  rewrite Nat.eqb_eq. split; [intros ->; reflexivity|intros H; injection H as ->; reflexivity].
Qed.

Lemma sumZ_firstn_S (l : list Z) : forall i, (i < length l)%nat ->
  sumZ (firstn (S i) l) = sumZ (firstn i l) + nth i l 0.
Proof.
  induction l as [|x t IH]; intros i Hi; [cbn in Hi; lia|]. destruct i as [|i].
  - cbn. lia.
  - change (firstn (S (S i)) (x :: t)) with (x :: firstn (S i) t).
    change (firstn (S i) (x :: t)) with (x :: firstn i t).
    change (nth (S i) (x :: t) 0) with (nth i t 0).
    change (sumZ (x :: firstn (S i) t)) with (x + sumZ (firstn (S i) t)).
    change (sumZ (x :: firstn i t)) with (x + sumZ (firstn i t)).
    rewrite IH by (cbn in Hi; lia). lia.
Qed.
Lemma run_sum_nth (l : list Z) : forall acc j, (j < length l)%nat ->
  nth j (run_sum (fun x : Z => x) acc l) 0 = acc + sumZ (firstn (S j) l).
Proof.
  induction l as [|x t IH]; intros acc j Hj; [cbn in Hj; lia|]. destruct j as [|j].
  - cbn. lia.
  - change (run_sum (fun x : Z => x) acc (x :: t)) with ((acc + x) :: run_sum (fun x : Z => x) (acc + x) t).
    change (nth (S j) ((acc + x) :: run_sum (fun x : Z => x) (acc + x) t) 0)
      with (nth j (run_sum (fun x : Z => x) (acc + x) t) 0).
    rewrite IH by (cbn in Hj; lia).
    change (firstn (S (S j)) (x :: t)) with (x :: firstn (S j) t).
    change (sumZ (x :: firstn (S j) t)) with (x + sumZ (firstn (S j) t)). lia.
Qed.
Lemma run_sum_length (l : list Z) : forall acc, length (run_sum (fun x : Z => x) acc l) = length l.
Proof. induction l as [|x t IH]; intros acc; [reflexivity|]. cbn. rewrite IH. reflexivity. Qed.

(* running sums of the table *)
Lemma cumulative_table_spec cart counts i d :
  (i < length counts)%nat ->
  let r := nth i (cumulative_table cart counts) d in
  row_count r = nth i counts 0 /\
  cumulative_rows r = sumZ (firstn (S i) counts) /\
  start r = sumZ (firstn i counts) /\
  cartesian_count r = cart.
Proof.
  intros Hi. cbv zeta. unfold cumulative_table.
  set (mk := fun rc : Z * Z => {| row_count := fst rc; cumulative_rows := snd rc; start := snd rc - fst rc; cartesian_count := cart |}).
  rewrite (nth_indep _ d (mk (0, 0))) by (rewrite map_length, combine_length; unfold cum_asc; rewrite run_sum_length; lia).
  rewrite (map_nth mk), combine_nth by (unfold cum_asc; rewrite run_sum_length; reflexivity).
  unfold cum_asc. rewrite run_sum_nth by exact Hi. cbn [mk row_count cumulative_rows start cartesian_count fst snd].
  pose proof (sumZ_firstn_S counts i Hi). repeat split; lia.
Qed.

(* ------------------------------------------------------------------ readable meanings *)
Lemma key_match_iff :
  forall a b, key_match a b = true <-> exists k, a = Some k /\ b = Some k.
Proof.
  intros [x|] [y|]; cbn; split; try discriminate; try (intros (k & H1 & H2); discriminate).
  - intros H. apply eqk_lex in H. subst. eauto.
  - intros (k & H1 & H2). injection H1 as ->. injection H2 as ->. apply eqk_lex. reflexivity.
Qed.

Lemma owner_is_first_true_rule :
  forall (rec : Type) (rules : list (rec -> rec -> tv)) n l r,
    owner_is rec 0 rules n l r = true <->
    (exists rk, nth_error rules n = Some rk /\ rk l r = T) /\
    (forall j rj, (j < n)%nat -> nth_error rules j = Some rj -> rj l r <> T).
Proof.
  intros rec rules n l r. rewrite owner_is_iff. split.
  - intros H. apply first_true_least in H. rewrite Nat.sub_0_r in H. tauto.
  - intros [(rk & Hn & Ht) Hmin].
    destruct (first_true 0 rules l r) as [m|] eqn:E.
    + pose proof (first_true_least _ _ _ _ _ _ E) as (_ & (rm & Hm & Htm) & Hlt). rewrite Nat.sub_0_r in *.
      destruct (Nat.lt_trichotomy m n) as [Hc|[->|Hc]]; [|reflexivity|].
      * exfalso. eapply Hmin; eauto.
      * exfalso. eapply Hlt; eauto.
    + exfalso. assert (Hex : exists rk, In rk rules /\ rk l r = T).
      { exists rk. split; [eapply nth_error_In; eauto|exact Ht]. }
      apply (first_true_some_iff _ 0) in Hex. destruct Hex as [m Hm]. congruence.
Qed.

(* ================================================================== invariance (C13) *)
Lemma flat_map_perm_pw {A B} (g g' : A -> list B) l :
  (forall x, Permutation (g x) (g' x)) -> Permutation (flat_map g l) (flat_map g' l).
Proof. intros H. induction l as [|x t IH]; cbn; [constructor|]. apply Permutation_app; [apply H|exact IH]. Qed.

Lemma cross_perm {A} (L L' R R' : list A) :
  Permutation L L' -> Permutation R R' -> Permutation (cross L R) (cross L' R').
Proof.
  intros HL HR. unfold cross. eapply perm_trans.
  - apply flat_map_perm. exact HL.
  - apply flat_map_perm_pw. intros x. apply Permutation_map. exact HR.
Qed.

Lemma post_filter_count_perm {rec} (adm : rec -> rec -> bool) rule L L' R R' :
  Permutation L L' -> Permutation R R' -> post_filter_count adm rule L R = post_filter_count adm rule L' R'.
Proof.
  intros HL HR. unfold post_filter_count, lenZ.
  rewrite (Permutation_length (filter_perm _ _ _ (cross_perm _ _ _ _ HL HR))). reflexivity.
Qed.
Lemma pre_filter_count_perm {rec} (keyL keyR : rec -> option (list Z)) L L' R R' :
  Permutation L L' -> Permutation R R' -> pre_filter_count keyL keyR L R = pre_filter_count keyL keyR L' R'.
Proof.
  intros HL HR. rewrite !pre_filter_is_equijoin_count. apply countZ_perm. apply cross_perm; assumption.
Qed.
Lemma row_counts_perm {rec} (adm : rec -> rec -> bool) (rules : list (rec -> rec -> tv)) L L' R R' n :
  rules <> [] -> (n < length rules)%nat -> Permutation L L' -> Permutation R R' ->
  nth n (row_counts (length rules) (block adm rules L R)) 0
  = nth n (row_counts (length rules) (block adm rules L' R')) 0.
Proof.
  intros Hne Hn HL HR. rewrite !row_counts_nth by assumption. apply countZ_perm. apply cross_perm; assumption.
Qed.

Lemma some_keys_perm {rec} (key : rec -> option (list Z)) T T' :
  Permutation T T' -> Permutation (some_keys key T) (some_keys key T').
Proof. apply flat_map_perm. Qed.
Lemma eqk_lex_eq' a b : eqk lex_leb a b = true -> a = b.
Proof. apply eqk_lex. Qed.
Lemma key_groups_perm {rec} (key : rec -> option (list Z)) T T' :
  Permutation T T' -> key_groups key T = key_groups key T'.
Proof.
  intros H. pose proof (some_keys_perm key _ _ H) as Hk. unfold key_groups.
  rewrite (group_keys_perm idL lex_leb lex_total lex_trans eqk_lex_eq' _ _ Hk).
  apply map_ext. intros k. f_equal. unfold lenZ.
  rewrite (Permutation_length (members_perm idL lex_leb _ _ k Hk)). reflexivity.
Qed.
Lemma block_counts_perm {rec} (keyL keyR : rec -> option (list Z)) L L' R R' :
  Permutation L L' -> Permutation R R' -> block_counts keyL keyR L R = block_counts keyL keyR L' R'.
Proof. intros HL HR. unfold block_counts. rewrite (key_groups_perm keyL _ _ HL), (key_groups_perm keyR _ _ HR). reflexivity. Qed.
Lemma n_largest_perm {rec} n (keyL keyR : rec -> option (list Z)) L L' R R' :
  Permutation L L' -> Permutation R R' -> n_largest_blocks n keyL keyR L R = n_largest_blocks n keyL keyR L' R'.
Proof. intros HL HR. unfold n_largest_blocks. rewrite (block_counts_perm keyL keyR _ _ _ _ HL HR). reflexivity. Qed.
Lemma cartesian_perm lt ns ns' : Permutation ns ns' -> cartesian lt ns = cartesian lt ns' \/ lt = CDedupe.
Proof.
  intros H. destruct lt; [right; reflexivity|left|left]; unfold cartesian.
  - rewrite (Permutation_length H), (sumZ_perm _ _ H), (sumZ_perm _ _ (Permutation_map (fun m => m * m) H)). reflexivity.
  - rewrite (sumZ_perm _ _ H). reflexivity.
Qed.

(* relabelling of the records by any map phi along which admissibility, rule outcomes and keys
   are transported (for ids: an order-preserving injective renaming) *)
Lemma cross_map {A B} (phi : A -> B) L R :
  cross (map phi L) (map phi R) = map (fun p => (phi (fst p), phi (snd p))) (cross L R).
Proof.
  unfold cross. induction L as [|l t IH]; [reflexivity|]. cbn [map flat_map]. rewrite map_app, IH. f_equal.
  rewrite !map_map. reflexivity.
Qed.
Lemma countZ_map {A B} (q : B -> bool) (g : A -> B) l : countZ q (map g l) = countZ (fun x => q (g x)) l.
Proof. unfold countZ. rewrite filter_map_swap, map_length. reflexivity. Qed.

Lemma post_filter_count_relabel {rec rec'} (phi : rec -> rec') adm adm' rule rule' L R :
  (forall a b, adm' (phi a) (phi b) = adm a b) -> (forall a b, rule' (phi a) (phi b) = rule a b) ->
  post_filter_count adm' rule' (map phi L) (map phi R) = post_filter_count adm rule L R.
Proof.
  intros Ha Hr. unfold post_filter_count. rewrite cross_map.
  change (lenZ (filter ?p ?l)) with (countZ p l). rewrite countZ_map. cbn [fst snd].
  unfold countZ. f_equal. f_equal. apply filter_ext. intros p. rewrite Ha, Hr. reflexivity.
Qed.
Lemma pre_filter_count_relabel {rec rec'} (phi : rec -> rec') keyL keyR keyL' keyR' L R :
  (forall a, keyL' (phi a) = keyL a) -> (forall a, keyR' (phi a) = keyR a) ->
  pre_filter_count keyL' keyR' (map phi L) (map phi R) = pre_filter_count keyL keyR L R.
Proof.
  intros HL HR. rewrite !pre_filter_is_equijoin_count, cross_map, countZ_map. cbn [fst snd].
  unfold countZ. f_equal. f_equal. apply filter_ext. intros p. rewrite HL, HR. reflexivity.
Qed.
Lemma first_true_relabel {rec rec'} (phi : rec -> rec') (rules : list (rec -> rec -> tv)) (rules' : list (rec' -> rec' -> tv)) :
  Forall2 (fun r r' => forall a b, r' (phi a) (phi b) = r a b) rules rules' ->
  forall k a b, first_true k rules' (phi a) (phi b) = first_true k rules a b.
Proof.
  induction 1 as [|r r' t t' Hr Ht IH]; intros k a b; cbn [first_true]; [reflexivity|].
  rewrite Hr, IH. reflexivity.
Qed.
Lemma row_counts_relabel {rec rec'} (phi : rec -> rec') adm adm' rules rules' L R n :
  rules <> [] -> (n < length rules)%nat ->
  (forall a b, adm' (phi a) (phi b) = adm a b) ->
  Forall2 (fun r r' => forall a b, r' (phi a) (phi b) = r a b) rules rules' ->
  nth n (row_counts (length rules') (block adm' rules' (map phi L) (map phi R))) 0
  = nth n (row_counts (length rules) (block adm rules L R)) 0.
Proof.
  intros Hne Hn Ha HF.
  assert (Hlen : length rules = length rules') by (clear -HF; induction HF; cbn; congruence).
  assert (Hne' : rules' <> []) by (destruct rules'; [destruct rules; [congruence|discriminate]|discriminate]).
  rewrite !row_counts_nth by (try assumption; rewrite <- Hlen; exact Hn).
  rewrite cross_map, countZ_map. cbn [fst snd]. unfold countZ. f_equal. f_equal. apply filter_ext. intros p.
  rewrite Ha. unfold owner_is. rewrite (first_true_relabel phi rules rules' HF). reflexivity.
Qed.

(* ------------------------------------------------------------------ top-level cumulative table *)
Lemma row_counts_length {A} n (blocked : list (nat * A)) : length (row_counts n blocked) = n.
Proof. unfold row_counts. rewrite map_length, seq_length. reflexivity. Qed.

Lemma cumulative_comparisons_data_spec {rec} lt sizes (adm : rec -> rec -> bool) rules L R tab i d :
  cumulative_comparisons_data lt sizes adm rules L R = Some tab ->
  rules <> [] -> (i < length rules)%nat ->
  exists cart, cartesian lt sizes = Some cart /\
    let counts := row_counts (length rules) (block adm rules L R) in
    let r := nth i tab d in
    row_count r = countZ (fun p => adm (fst p) (snd p) && owner_is rec 0 rules i (fst p) (snd p)) (cross L R) /\
    cumulative_rows r = sumZ (firstn (S i) counts) /\
    start r = sumZ (firstn i counts) /\
    cartesian_count r = cart /\
    length tab = length rules.
Proof.
  unfold cumulative_comparisons_data. destruct (cartesian lt sizes) as [cart|]; [|discriminate].
  intros H Hne Hi. injection H as <-. exists cart. split; [reflexivity|]. cbv zeta.
  unfold cumulative_comparisons.
  assert (Hlen : (i < length (row_counts (length rules) (block adm rules L R)))%nat) by (rewrite row_counts_length; exact Hi).
  destruct (cumulative_table_spec cart _ i d Hlen) as (H1 & H2 & H3 & H4).
  repeat split; try assumption.
  - rewrite H1. apply row_counts_nth; assumption.
  - unfold cumulative_table. rewrite map_length, combine_length. unfold cum_asc. rewrite run_sum_length, row_counts_length.
    apply Nat.min_id.
Qed.
