(* Lemmas about Model/BlockAnalysis.v. *)
From Coq Require Import List Bool ZArith Lia Arith.
From Splinkv Require Import Base.GroupBy Model.BlockAnalysis.
Import ListNotations.
Local Open Scope Z_scope.

(* ------------------------------------------------------------------ cartesian counts *)
Lemma length_all_pairs {A} (l : list A) :
  2 * Z.of_nat (length (all_pairs l)) = Z.of_nat (length l) * (Z.of_nat (length l) - 1).
Proof.
  induction l as [|x t IH]; [reflexivity|]. cbn [all_pairs length].
  rewrite app_length, map_length. lia.
Qed.

Lemma length_cross {A} (L R : list A) :
  Z.of_nat (length (cross L R)) = Z.of_nat (length L) * Z.of_nat (length R).
Proof.
  unfold cross. induction L as [|x t IH]; [reflexivity|]. cbn [flat_map length].
  rewrite app_length, map_length. lia.
Qed.

Definition sizes {A} (ts : list (list A)) : list Z := map (fun t => Z.of_nat (length t)) ts.

Lemma length_concat_sizes {A} (ts : list (list A)) :
  Z.of_nat (length (concat ts)) = sumZ (sizes ts).
Proof.
  induction ts as [|t rest IH]; [reflexivity|]. cbn [concat sizes map sumZ].
  rewrite app_length. unfold sizes in IH. lia.
Qed.

Lemma length_cross_pairs {A} (ts : list (list A)) :
  2 * Z.of_nat (length (cross_pairs ts))
  = sumZ (sizes ts) * sumZ (sizes ts) - sumZ (map (fun m => m * m) (sizes ts)).
Proof.
  induction ts as [|t rest IH]; [reflexivity|]. cbn [cross_pairs sizes map sumZ].
  rewrite app_length, Nat2Z.inj_add, length_cross, length_concat_sizes.
  unfold sizes in *. nia.
Qed.

Lemma half_exact a k : 2 * k = a -> a / 2 = k.
Proof. intros <-. rewrite Z.mul_comm. apply Z.div_mul. discriminate. Qed.

Lemma cartesian_dedupe_counts {A} (l : list A) :
  cartesian CDedupe (sizes [l]) = Some (Z.of_nat (length (all_pairs l))).
Proof. cbn. f_equal. apply half_exact. apply length_all_pairs. Qed.

Lemma cartesian_link_and_dedupe_counts {A} (ts : list (list A)) :
  cartesian CLinkAndDedupe (sizes ts) = Some (Z.of_nat (length (all_pairs (concat ts)))).
Proof.
  cbn. f_equal. apply half_exact. rewrite length_all_pairs, length_concat_sizes. reflexivity.
Qed.

Lemma cartesian_link_only_counts {A} (ts : list (list A)) :
  (2 <= length ts)%nat ->
  cartesian CLinkOnly (sizes ts) = Some (Z.of_nat (length (cross_pairs ts))).
Proof.
  intros H. unfold cartesian. unfold sizes at 1. rewrite map_length.
  destruct (Nat.leb_spec (length ts) 1) as [Hc|Hc]; [lia|]. f_equal. apply half_exact.
  apply length_cross_pairs.
Qed.
