From Coq Require Import List Bool Arith Lia Permutation.
From Splinkv Require Import Base.TV Model.Blocking.
Import ListNotations.

(* ------------------------------------------------------------------------------------ *)
(* generic list lemmas *)
Lemma in_cross {A} (L R : list A) l r : In (l, r) (cross L R) <-> In l L /\ In r R.
Proof.
  unfold cross. rewrite in_flat_map. split.
  - intros [x [Hx Hin]]. apply in_map_iff in Hin. destruct Hin as [y [Heq Hy]].
    inversion Heq; subst; auto.
  - intros [Hl Hr]. exists l. split; auto. apply in_map_iff. exists r; auto.
Qed.

Lemma NoDup_app_intro {A} (l1 l2 : list A) :
  NoDup l1 -> NoDup l2 -> (forall x, In x l1 -> In x l2 -> False) -> NoDup (l1 ++ l2).
Proof.
  intros H1 H2 Hd. induction H1 as [|a l1 Ha H1 IH]; cbn; [exact H2|].
  constructor.
  - rewrite in_app_iff. intros [Hin|Hin]; [exact (Ha Hin)|]. apply (Hd a); cbn; auto.
  - apply IH. intros x Hx1 Hx2. apply (Hd x); cbn; auto.
Qed.

Lemma NoDup_cross {A} (L R : list A) : NoDup L -> NoDup R -> NoDup (cross L R).
Proof.
  intros HL HR. unfold cross. induction HL as [|a L Ha HL IH]; cbn; [constructor|].
  apply NoDup_app_intro.
  - apply FinFun.Injective_map_NoDup; [|exact HR]. intros x y Hxy. congruence.
  - exact IH.
  - intros [x y] H1 H2. apply in_map_iff in H1. destruct H1 as [z [Hz _]]. inversion Hz; subst.
    change (In (x, y) (cross L R)) in H2. apply in_cross in H2. tauto.
Qed.

Lemma NoDup_filter {A} (f : A -> bool) l : NoDup l -> NoDup (filter f l).
Proof.
  induction 1 as [|a l Ha H IH]; cbn; [constructor|].
  destruct (f a); [constructor|]; auto. rewrite filter_In. tauto.
Qed.

(* ------------------------------------------------------------------------------------ *)
(* Part 1: canonical composition, any number of rules *)
Section CanonicalP.
  Variable rec : Type.
  Variable adm : rec -> rec -> bool.
  Notation rule := (rec -> rec -> tv).

  Lemma block_aux_spec (prev : list rule) k (rules : list rule) L R n l r :
    In (n, (l, r)) (block_aux adm prev k rules L R) <->
    In l L /\ In r R /\ adm l r = true /\
    existsb (fun p : rule => coalesce_false (p l r)) prev = false /\
    first_true k rules l r = Some n.
  Proof.
    revert prev k. induction rules as [|rk rest IH]; intros prev k; cbn [block_aux first_true].
    - split; [intros []| intros (_&_&_&_&H); discriminate].
    - rewrite in_app_iff, in_map_iff. split.
      + intros [[p [Heq Hin]] | Hin].
        * inversion Heq; subst. apply filter_In in Hin. destruct Hin as [Hc Hk].
          apply in_cross in Hc. unfold keep in Hk. cbn [fst snd] in Hk.
          apply andb_true_iff in Hk. destruct Hk as [Hk Hn].
          apply andb_true_iff in Hk. destruct Hk as [Ht Ha].
          apply negb_true_iff in Hn. rewrite Ht. tauto.
        * apply IH in Hin. destruct Hin as (Hl&Hr&Ha&Hex&Hf).
          rewrite existsb_app in Hex. apply orb_false_iff in Hex. destruct Hex as [Hex Hrk].
          cbn in Hrk. rewrite orb_false_r in Hrk. unfold coalesce_false in Hrk. rewrite Hrk. tauto.
      + intros (Hl&Hr&Ha&Hex&Hf). destruct (isT (rk l r)) eqn:Ht.
        * inversion Hf; subst. left. exists (l, r). split; auto. apply filter_In. split.
          -- apply in_cross; auto.
          -- unfold keep; cbn [fst snd]. rewrite Ht, Ha. cbn. apply negb_true_iff. exact Hex.
        * right. apply IH. split; [exact Hl|]. split; [exact Hr|]. split; [exact Ha|].
          split; [|exact Hf].
          rewrite existsb_app. apply orb_false_iff. split; [exact Hex|].
          cbn. unfold coalesce_false. rewrite Ht. reflexivity.
  Qed.

  Lemma block_aux_pairs_nodup (prev : list rule) k (rules : list rule) L R :
    NoDup L -> NoDup R -> NoDup (map snd (block_aux adm prev k rules L R)).
  Proof.
    intros HL HR. revert prev k. induction rules as [|rk rest IH]; intros prev k; cbn [block_aux].
    - constructor.
    - rewrite map_app. apply NoDup_app_intro.
      + rewrite map_map. cbn. rewrite map_id. apply NoDup_filter. apply NoDup_cross; assumption.
      + apply IH.
      + intros [l r] H1 H2.
        rewrite map_map in H1. cbn in H1. rewrite map_id in H1. apply filter_In in H1.
        destruct H1 as [_ Hk]. unfold keep in Hk. cbn [fst snd] in Hk.
        apply andb_true_iff in Hk. destruct Hk as [Hk _].
        apply andb_true_iff in Hk. destruct Hk as [Ht _].
        apply in_map_iff in H2. destruct H2 as [[n [l' r']] [Heq Hin]]. cbn in Heq.
        inversion Heq; subst. apply block_aux_spec in Hin. destruct Hin as (_&_&_&Hex&_).
        rewrite existsb_app in Hex. apply orb_false_iff in Hex. destruct Hex as [_ Hrk].
        cbn in Hrk. rewrite orb_false_r in Hrk. unfold coalesce_false in Hrk. congruence.
  Qed.

  Lemma first_true_some_iff k (rules : list rule) l r :
    (exists n, first_true k rules l r = Some n) <-> exists rk, In rk rules /\ rk l r = T.
  Proof.
    revert k. induction rules as [|rk rest IH]; intros k; cbn [first_true].
    - split; [intros [n H]; discriminate | intros [x [[] _]]].
    - destruct (isT (rk l r)) eqn:Ht.
      + split; [intros _|intros _; eauto]. exists rk. split; [left; reflexivity|].
        destruct (rk l r); cbn in Ht; congruence.
      + rewrite IH. split.
        * intros [x [Hin Hx]]. exists x. split; [right; exact Hin|exact Hx].
        * intros [x [[->|Hin] Hx]]; [rewrite Hx in Ht; discriminate|eauto].
  Qed.

  Lemma first_true_least k (rules : list rule) l r n :
    first_true k rules l r = Some n ->
    k <= n /\ (exists rk, nth_error rules (n - k) = Some rk /\ rk l r = T) /\
    forall j rj, j < n - k -> nth_error rules j = Some rj -> rj l r <> T.
  Proof.
    revert k. induction rules as [|rk rest IH]; intros k; cbn [first_true]; [discriminate|].
    destruct (isT (rk l r)) eqn:Ht.
    - intros Hn. inversion Hn; subst. split; [lia|]. rewrite Nat.sub_diag. split.
      + exists rk. split; [reflexivity|]. destruct (rk l r); cbn in Ht; congruence.
      + intros j rj Hj. lia.
    - intros Hn. apply IH in Hn. destruct Hn as (Hle & [rk' [Hnth Hrk']] & Hmin).
      split; [lia|]. replace (n - k) with (S (n - S k)) by lia. split.
      + exists rk'. split; [exact Hnth|exact Hrk'].
      + intros j rj Hj Hnj. destruct j as [|j]; cbn in Hnj.
        * inversion Hnj; subst. intros E. rewrite E in Ht. discriminate.
        * apply (Hmin j rj); [lia|exact Hnj].
  Qed.
End CanonicalP.

(* ------------------------------------------------------------------------------------ *)
(* Part 2: skeleton soundness lifted from valuations to tables *)
Lemma all_lists_complete {A} (dom : list A) n (l : list A) :
  length l = n -> (forall x, In x l -> In x dom) -> In l (all_lists dom n).
Proof.
  revert l. induction n as [|n IH]; intros l Hlen Hdom; destruct l as [|a l]; cbn in *; try lia.
  - auto.
  - apply in_flat_map. exists a. split; [apply Hdom; auto|].
    apply in_map. apply IH; [lia|]. intros x Hx. apply Hdom. auto.
Qed.

Lemma all_parts_complete (ns : list nat) (f : nat -> nat) :
  (forall n, In n ns -> 1 <= f n <= n) -> In (map (fun n => (n, f n)) ns) (all_parts ns).
Proof.
  induction ns as [|n ns IH]; intros H; cbn; [auto|].
  apply in_flat_map. exists (f n). split.
  - apply in_seq. specialize (H n (or_introl eq_refl)). lia.
  - apply in_map. apply IH. intros m Hm. apply H. right. exact Hm.
Qed.

Lemma flat_map_app_perm {A B} (g h : A -> list B) l :
  Permutation (flat_map (fun a => g a ++ h a) l) (flat_map g l ++ flat_map h l).
Proof.
  induction l as [|a l IH]; cbn; [constructor|].
  rewrite <- !app_assoc. apply Permutation_app_head.
  eapply Permutation_trans; [apply Permutation_app_head; exact IH|].
  apply Permutation_app_swap_app.
Qed.

Lemma flat_map_swap {A B C} (f : A -> B -> list C) la lb :
  Permutation (flat_map (fun a => flat_map (f a) lb) la)
              (flat_map (fun b => flat_map (fun a => f a b) la) lb).
Proof.
  induction la as [|a la IH]; cbn.
  - induction lb; cbn; auto.
  - eapply Permutation_trans; [apply Permutation_app_head; exact IH|].
    apply Permutation_sym. apply flat_map_app_perm.
Qed.

Lemma flat_map_map_comm {A B C} (g : B -> C) (f : A -> list B) l :
  flat_map (fun a => map g (f a)) l = map g (flat_map f l).
Proof. induction l as [|a l IH]; cbn; [reflexivity|]. rewrite map_app, IH. reflexivity. Qed.

Lemma list_nat_eqb_eq a b : list_nat_eqb a b = true -> a = b.
Proof. unfold list_nat_eqb. destruct (list_eq_dec Nat.eq_dec a b); [auto|discriminate]. Qed.

Section TablesP.
  Variable rec : Type.
  Variable atomf : nat -> rec -> rec -> tv.
  Variable partf : nat -> rec -> nat.
  Variable idltf sdsnef sdsltf : rec -> rec -> bool.
  Variable natoms : nat.
  Variable ns : list nat.
  Variable lt : link_type.
  Variable rules : list bexp.

  Notation pv := (pair_val rec atomf partf idltf sdsnef sdsltf natoms ns).

  Definition spec_tables (L R : list rec) : list (nat * (rec * rec)) :=
    flat_map (fun lr => map (fun k => (k, lr)) (expected lt rules (pv lr))) (cross L R).

  Hypothesis part_bound : forall n l, In n ns -> 1 <= partf n l <= n.

  Lemma pair_val_enumerated lr :
    (lt = TwoDatasetLinkOnly -> sdsltf (fst lr) (snd lr) = true) ->
    In (pv lr) (all_vals lt natoms ns).
  Proof.
    intros Hsds. unfold all_vals, pair_val.
    apply in_flat_map. exists (map (fun i => atomf i (fst lr) (snd lr)) (seq 0 natoms)). split.
    { apply all_lists_complete; [rewrite map_length, seq_length; reflexivity|].
      intros x _. apply all_tv_complete. }
    apply in_flat_map. exists (map (fun n => (n, partf n (fst lr))) ns). split.
    { apply (all_parts_complete ns (fun n => partf n (fst lr))). intros n Hn. apply part_bound; exact Hn. }
    apply in_flat_map. exists (idltf (fst lr) (snd lr)). split; [destruct (idltf _ _); cbn; auto|].
    apply in_flat_map. exists (sdsnef (fst lr) (snd lr)). split; [destruct (sdsnef _ _); cbn; auto|].
    apply in_map_iff. exists (sdsltf (fst lr) (snd lr)). split; [reflexivity|].
    destruct lt; try (destruct (sdsltf _ _); cbn; auto).
    rewrite Hsds by reflexivity. cbn. auto.
  Qed.

  Theorem skeleton_sound sk L R :
    skeleton_ok lt natoms ns rules sk = true ->
    (lt = TwoDatasetLinkOnly -> forall l r, In l L -> In r R -> sdsltf l r = true) ->
    Permutation (block_tables rec atomf partf idltf sdsnef sdsltf natoms ns sk L R)
                (spec_tables L R).
  Proof.
    intros Hok Hsds. unfold block_tables, spec_tables.
    eapply Permutation_trans; [apply flat_map_swap|].
    assert (E : forall lr, In lr (cross L R) ->
      flat_map (fun s => map (fun k => (k, lr)) (emit_sel (pv lr) (ids_vals (pv lr) [] (ids_defs sk)) s)) (sels sk)
      = map (fun k => (k, lr)) (expected lt rules (pv lr))).
    { intros [l r] Hin. apply in_cross in Hin. rewrite flat_map_map_comm. f_equal.
      unfold skeleton_ok in Hok. apply andb_true_iff in Hok. destruct Hok as [_ Hok].
      rewrite forallb_forall in Hok.
      specialize (Hok (pv (l, r))). apply list_nat_eqb_eq. apply Hok.
      apply pair_val_enumerated. intros Hlt. cbn. apply Hsds; tauto. }
    induction (cross L R) as [|lr t IH]; cbn; [constructor|].
    rewrite E by (left; reflexivity). apply Permutation_app_head. apply IH.
    intros x Hx. apply E. right. exact Hx.
  Qed.

  (* consequences of the specification side: each candidate pair at most once, with the
     least true rule as match key, and only admissible pairs *)
  Lemma expected_at_most_one v : length (expected lt rules v) <= 1.
  Proof. unfold expected. destruct (adm_of lt v); [|cbn; lia]. destruct (first_true_e _ _ _); cbn; lia. Qed.

  Lemma expected_adm v k : In k (expected lt rules v) -> adm_of lt v = true.
  Proof. unfold expected. destruct (adm_of lt v); [reflexivity|intros []]. Qed.
End TablesP.

Lemma first_true_e_least v rules : forall k n,
  first_true_e v k rules = Some n ->
  k <= n /\ (exists e, nth_error rules (n - k) = Some e /\ beval v [] e = T) /\
  forall j e, j < n - k -> nth_error rules j = Some e -> beval v [] e <> T.
Proof.
  induction rules as [|e rest IH]; intros k n; cbn [first_true_e]; [discriminate|].
  destruct (isT (beval v [] e)) eqn:Ht.
  - intros Hn. inversion Hn; subst. split; [lia|]. rewrite Nat.sub_diag. split.
    + exists e. split; [reflexivity|]. destruct (beval v [] e); cbn in Ht; congruence.
    + intros j rj Hj. lia.
  - intros Hn. apply IH in Hn. destruct Hn as (Hle & [e' [Hnth He']] & Hmin).
    split; [lia|]. replace (n - k) with (S (n - S k)) by lia. split.
    + exists e'. split; [exact Hnth|exact He'].
    + intros j rj Hj Hnj. destruct j as [|j]; cbn in Hnj.
      * inversion Hnj; subst. intros E. rewrite E in Ht. discriminate.
      * apply (Hmin j rj); [lia|exact Hnj].
Qed.

Lemma first_true_e_none v rules : forall k,
  first_true_e v k rules = None -> forall e, In e rules -> beval v [] e <> T.
Proof.
  induction rules as [|e rest IH]; intros k; cbn [first_true_e]; [intros _ e []|].
  destruct (isT (beval v [] e)) eqn:Ht; [discriminate|].
  intros Hn e' [<-|Hin]; [intros E; rewrite E in Ht; discriminate|]. eapply IH; eauto.
Qed.

(* ------------------------------------------------------------------------------------ *)
(* Two-dataset link: predict() splits the concatenated table into the rows of the least and of
   the greatest source dataset and joins them with WHERE 1=1.  With exactly two datasets, and
   composite ids ordered by dataset first, that is the link_only job on the whole table. *)
Section TwoDataset.
  Variable rec : Type.
  Variable ds : rec -> nat.                 (* source dataset, by rank of its name *)
  Variable idlt : rec -> rec -> bool.       (* composite id l < composite id r *)
  Variables a b : nat.
  Hypothesis a_lt_b : a < b.
  Variable All : list rec.
  Hypothesis two_datasets : forall x, In x All -> ds x = a \/ ds x = b.
  Hypothesis id_order_by_dataset :
    forall l r, In l All -> In r All -> ds l < ds r -> idlt l r = true.
  Hypothesis idlt_asym : forall l r, idlt l r = true -> idlt r l = false.

  Definition adm_link_only (l r : rec) : bool := idlt l r && negb (Nat.eqb (ds l) (ds r)).
  Definition adm_all (_ _ : rec) : bool := true.
  Definition part (d : nat) : list rec := filter (fun x => Nat.eqb (ds x) d) All.

  Theorem two_dataset_split_equiv (rules : list (rec -> rec -> tv)) n l r :
    In (n, (l, r)) (block adm_link_only rules All All) <->
    In (n, (l, r)) (block adm_all rules (part a) (part b)).
  Proof.
    unfold block. rewrite !block_aux_spec. unfold part. rewrite !filter_In, !Nat.eqb_eq.
    unfold adm_link_only, adm_all. split.
    - intros (Hl & Hr & Ha & Hex & Hf). apply andb_true_iff in Ha. destruct Ha as [Hid Hne].
      apply negb_true_iff, Nat.eqb_neq in Hne.
      destruct (two_datasets l Hl) as [El|El], (two_datasets r Hr) as [Er|Er]; try congruence.
      + tauto.
      + exfalso. assert (Hrl : idlt r l = true) by (apply id_order_by_dataset; auto; lia).
        rewrite (idlt_asym _ _ Hid) in Hrl. discriminate.
    - intros ((Hl & El) & (Hr & Er) & _ & Hex & Hf).
      repeat split; auto. apply andb_true_iff. split.
      + apply id_order_by_dataset; auto. lia.
      + apply negb_true_iff, Nat.eqb_neq. lia.
  Qed.
End TwoDataset.

(* ------------------------------------------------------------------------------------ *)
(* Unordered pairs: with admissibility = strict order on an injective id, every unordered pair
   of distinct records appears in at most one orientation; for rules symmetric in l and r it
   appears (in exactly one orientation) iff some rule is TRUE; for asymmetric rules the
   two-sided bound of the property text holds. *)
Section Unordered.
  Variable rec : Type.
  Variable id : rec -> nat.
  Definition adm_lt (l r : rec) : bool := Nat.ltb (id l) (id r).

  Lemma one_orientation_only (rules : list (rec -> rec -> tv)) L n m l r :
    In (n, (l, r)) (block adm_lt rules L L) -> In (m, (r, l)) (block adm_lt rules L L) -> False.
  Proof.
    unfold block. rewrite !block_aux_spec. unfold adm_lt.
    intros (_&_&H1&_) (_&_&H2&_). apply Nat.ltb_lt in H1, H2. lia.
  Qed.

  Lemma present_if_true_both_ways (rules : list (rec -> rec -> tv)) L l r :
    rules <> [] -> In l L -> In r L -> id l <> id r ->
    (exists rk, In rk rules /\ rk l r = T) -> (exists rk, In rk rules /\ rk r l = T) ->
    (exists n, In (n, (l, r)) (block adm_lt rules L L)) \/ (exists n, In (n, (r, l)) (block adm_lt rules L L)).
  Proof.
    intros Hne Hl Hr Hid H1 H2.
    apply (first_true_some_iff rec 0 rules l r) in H1. apply (first_true_some_iff rec 0 rules r l) in H2.
    destruct H1 as [n Hn], H2 as [m Hm]. unfold block. destruct rules as [|a t]; [congruence|].
    destruct (Nat.ltb (id l) (id r)) eqn:E.
    - left. exists n. apply block_aux_spec. cbn [existsb]. unfold adm_lt. tauto.
    - right. exists m. apply block_aux_spec. cbn [existsb]. unfold adm_lt.
      apply Nat.ltb_ge in E. assert (id r < id l) by lia. apply Nat.ltb_lt in H. tauto.
  Qed.

  Lemma absent_if_true_neither_way (rules : list (rec -> rec -> tv)) L l r n :
    rules <> [] ->
    (forall rk, In rk rules -> rk l r <> T) ->
    ~ In (n, (l, r)) (block adm_lt rules L L).
  Proof.
    intros Hne H1 Hin. unfold block in Hin. destruct rules as [|a t]; [congruence|].
    apply block_aux_spec in Hin. destruct Hin as (_&_&_&_&Hf).
    assert (E : exists k, first_true 0 (a :: t) l r = Some k) by eauto.
    apply first_true_some_iff in E. destruct E as [rk [Hin Hk]]. exact (H1 rk Hin Hk).
  Qed.
End Unordered.

(* ------------------------------------------------------------------------------------ *)
(* What the code does for the rule list [plain r0; exploding r1] (known finding
   KF-C01-exploding-preceded): the exclusion of r0 inside the marginal id table of r1 is evaluated
   on the EXPLODED variants, not on the parent records. *)
Section ExplodingPreceded.
  Variable rec : Type.
  Variable adm : rec -> rec -> bool.
  Variable explode : rec -> list rec.            (* exploded variants of a record *)
  Variables r0 r1 : rec -> rec -> tv.

  Definition ids_r1 (L : list rec) : list (rec * rec) :=
    filter (fun p => adm (fst p) (snd p) &&
              existsb (fun lv => existsb (fun rv =>
                 isT (r1 lv rv) && negb (coalesce_false (r0 lv rv))) (explode (snd p))) (explode (fst p)))
           (cross L L).
  Definition block_plain_then_exploding (L : list rec) : list (nat * (rec * rec)) :=
    map (fun p => (0, p)) (filter (fun p => isT (r0 (fst p) (snd p)) && adm (fst p) (snd p)) (cross L L))
    ++ map (fun p => (1, p)) (ids_r1 L).
  (* specification: rule 1 is TRUE for a pair when it is TRUE on some pair of variants *)
  Definition r1_spec (l r : rec) : tv :=
    of_bool (existsb (fun lv => existsb (fun rv => isT (r1 lv rv)) (explode r)) (explode l)).
End ExplodingPreceded.
