(* Lemmas about Model/Scoring.v.  Part 1: the scoring functions.  Part 2: evaluating the
   generic SQL generators gives the scoring functions. *)
From Coq Require Import List Bool ZArith QArith Qminmax Qabs Lia Lqa Arith.
From Splinkv Require Import Base.TV Model.Scoring.
Import ListNotations.
Open Scope Q_scope.

(* ------------------------------------------------------------------------------------ *)
(* CASE WHEN: first firing level *)
Lemma fired_some outc ls i :
  fired outc ls = Some i ->
  exists l, nth_error ls i = Some l /\ fires outc l = true /\
            forall j l', (j < i)%nat -> nth_error ls j = Some l' -> fires outc l' = false.
Proof.
  revert i. induction ls as [|a t IH]; intros i H; cbn in H; [discriminate|].
  destruct (fires outc a) eqn:Ha.
  - injection H as <-. exists a. repeat split; auto. intros j l' Hj. lia.
  - destruct (fired outc t) as [k|] eqn:Hk; cbn in H; [|discriminate]. injection H as <-.
    destruct (IH k eq_refl) as (l & Hn & Hf & Hb). exists l. repeat split; auto.
    intros [|j] l' Hj Hn'; cbn in Hn'; [congruence|]. apply (Hb j); auto. lia.
Qed.

Lemma fired_none outc ls : fired outc ls = None -> forall l, In l ls -> fires outc l = false.
Proof.
  induction ls as [|a t IH]; intros H l Hin; [destruct Hin|]. cbn in H.
  destruct (fires outc a) eqn:Ha; [discriminate|].
  destruct (fired outc t) eqn:Hk; cbn in H; [discriminate|].
  destruct Hin as [<-|Hin]; auto.
Qed.

Lemma fired_lt outc ls i : fired outc ls = Some i -> (i < length ls)%nat.
Proof.
  intros H. destruct (fired_some _ _ _ H) as (l & Hn & _). apply nth_error_Some. congruence.
Qed.

(* ------------------------------------------------------------------------------------ *)
(* numbering *)
Lemma cvv_from_length c ls : length (cvv_from c ls) = length ls.
Proof. revert c. induction ls as [|a t IH]; intros c; cbn; auto. destruct (is_null a); cbn; rewrite IH; auto. Qed.

Lemma assign_cvv_length ls : length (assign_cvv ls) = length ls.
Proof. apply cvv_from_length. Qed.

Definition nn_before (i : nat) (ls : list level) : nat := n_nonnull (firstn i ls).

Lemma n_nonnull_cons a t : n_nonnull (a :: t) = ((if is_null a then 0 else 1) + n_nonnull t)%nat.
Proof. unfold n_nonnull. cbn. destruct (is_null a); cbn; auto. Qed.

Lemma cvv_from_nth c ls i l :
  nth_error ls i = Some l ->
  nth i (cvv_from c ls) 0%Z = if is_null l then (-1)%Z else (c - Z.of_nat (nn_before i ls))%Z.
Proof.
  revert c i. induction ls as [|a t IH]; intros c i H; [destruct i; discriminate|].
  destruct i as [|i]; cbn in H.
  - injection H as ->. cbn. destruct (is_null l); cbn; auto. unfold nn_before. cbn. lia.
  - cbn [cvv_from]. unfold nn_before. cbn [firstn]. rewrite n_nonnull_cons.
    destruct (is_null a) eqn:Ha; cbn [nth]; rewrite (IH _ _ H); destruct (is_null l); auto;
      unfold nn_before; lia.
Qed.

Lemma nn_before_le i ls l : nth_error ls i = Some l -> is_null l = false -> (nn_before i ls < n_nonnull ls)%nat.
Proof.
  revert i. induction ls as [|a t IH]; intros i H Hn; [destruct i; discriminate|].
  destruct i as [|i]; cbn in H.
  - injection H as ->. unfold nn_before. cbn [firstn]. rewrite n_nonnull_cons, Hn. unfold n_nonnull. cbn. lia.
  - unfold nn_before. cbn [firstn]. rewrite !n_nonnull_cons. specialize (IH _ H Hn). unfold nn_before in IH. lia.
Qed.

(* comparison_vector_value of the level at position i *)
Lemma cvv_of_spec ls i l :
  nth_error ls i = Some l ->
  cvv_of ls i = if is_null l then (-1)%Z
                else (Z.of_nat (n_nonnull ls) - 1 - Z.of_nat (nn_before i ls))%Z.
Proof. intros H. unfold cvv_of, assign_cvv. apply cvv_from_nth; auto. Qed.

Lemma cvv_of_range ls i l :
  nth_error ls i = Some l -> is_null l = false ->
  (0 <= cvv_of ls i <= Z.of_nat (n_nonnull ls) - 1)%Z.
Proof.
  intros H Hn. rewrite (cvv_of_spec _ _ _ H), Hn. pose proof (nn_before_le _ _ _ H Hn). lia.
Qed.

Lemma nn_before_mono i j ls l :
  (i < j)%nat -> nth_error ls i = Some l -> is_null l = false -> (nn_before i ls < nn_before j ls)%nat.
Proof.
  revert i j. induction ls as [|a t IH]; intros i j Hij H Hn; [destruct i; discriminate|].
  destruct j as [|j]; [lia|]. destruct i as [|i]; cbn in H.
  - injection H as ->. unfold nn_before. cbn [firstn]. rewrite n_nonnull_cons, Hn. unfold n_nonnull at 1. cbn. lia.
  - unfold nn_before. cbn [firstn]. rewrite !n_nonnull_cons.
    assert (Hij' : (i < j)%nat) by lia. specialize (IH _ _ Hij' H Hn). unfold nn_before in IH. lia.
Qed.

(* two positions with the same value are the same position or both null levels *)
Lemma cvv_of_inj ls i j li lj :
  nth_error ls i = Some li -> nth_error ls j = Some lj -> cvv_of ls i = cvv_of ls j ->
  i = j \/ (is_null li = true /\ is_null lj = true).
Proof.
  intros Hi Hj E. pose proof (cvv_of_spec _ _ _ Hi) as Si. pose proof (cvv_of_spec _ _ _ Hj) as Sj.
  destruct (is_null li) eqn:Ni, (is_null lj) eqn:Nj; auto.
  - pose proof (cvv_of_range _ _ _ Hj Nj). lia.
  - pose proof (cvv_of_range _ _ _ Hi Ni). lia.
  - left. destruct (Nat.lt_trichotomy i j) as [L|[L|L]]; auto.
    + pose proof (nn_before_mono _ _ _ _ L Hi Ni). lia.
    + pose proof (nn_before_mono _ _ _ _ L Hj Nj). lia.
Qed.

(* ------------------------------------------------------------------------------------ *)
(* lookup by gamma value *)
Lemma lookup_cvv_first {A} g cvvs (vals : list A) :
  length cvvs = length vals ->
  match lookup_cvv g cvvs vals with
  | Some x => exists j, nth_error cvvs j = Some g /\ nth_error vals j = Some x /\
                        forall k v, (k < j)%nat -> nth_error cvvs k = Some v -> v <> g
  | None => ~ In g cvvs
  end.
Proof.
  revert vals. induction cvvs as [|v vt IH]; intros [|x xt] HL; cbn in *; try discriminate; auto.
  destruct (Z.eqb_spec g v) as [->|Hne].
  - exists 0%nat. repeat split; auto. intros k v' Hk. lia.
  - specialize (IH xt ltac:(lia)). destruct (lookup_cvv g vt xt) as [y|].
    + destruct IH as (j & H1 & H2 & H3). exists (S j). repeat split; auto.
      intros [|k] v' Hk Hv; cbn in Hv; [congruence|]. apply (H3 k); auto. lia.
    + intros [E|Hin]; [congruence|auto].
Qed.

(* values attached to levels: F level cvv, constant on null levels *)
Lemma lookup_level_value {A} (F : level -> Z -> A) ls i l :
  nth_error ls i = Some l ->
  (forall l1 l2, is_null l1 = true -> is_null l2 = true -> F l1 (-1)%Z = F l2 (-1)%Z) ->
  lookup_cvv (cvv_of ls i) (assign_cvv ls)
             (map (fun lc => F (fst lc) (snd lc)) (combine ls (assign_cvv ls)))
  = Some (F l (cvv_of ls i)).
Proof.
  intros Hi Hnull.
  pose proof (lookup_cvv_first (cvv_of ls i) (assign_cvv ls)
                (map (fun lc => F (fst lc) (snd lc)) (combine ls (assign_cvv ls)))) as H.
  rewrite map_length, combine_length, assign_cvv_length, Nat.min_id in H. specialize (H eq_refl).
  assert (Hnth : forall k, nth_error (assign_cvv ls) k = option_map (fun _ => cvv_of ls k) (nth_error ls k)).
  { intros k. destruct (nth_error ls k) eqn:E; cbn.
    - unfold cvv_of. apply nth_error_nth'. rewrite assign_cvv_length. apply nth_error_Some. congruence.
    - apply nth_error_None. rewrite assign_cvv_length. apply nth_error_None; auto. }
  destruct (lookup_cvv _ _ _) as [x|].
  - destruct H as (j & H1 & H2 & H3). rewrite Hnth in H1.
    destruct (nth_error ls j) as [lj|] eqn:Ej; cbn in H1; [|discriminate]. injection H1 as H1.
    assert (Hx : x = F lj (cvv_of ls j)).
    { rewrite nth_error_map in H2.
      assert (Hc : nth_error (combine ls (assign_cvv ls)) j = Some (lj, cvv_of ls j)).
      { clear - Ej Hnth. specialize (Hnth j). rewrite Ej in Hnth. cbn in Hnth.
        revert Ej Hnth. generalize (assign_cvv ls) (cvv_of ls j). revert j.
        induction ls as [|a t IH]; intros [|j] cv z E1 E2; destruct cv; cbn in *; try discriminate; try congruence.
        apply IH; auto. }
      rewrite Hc in H2. cbn in H2. congruence. }
    subst x. destruct (cvv_of_inj _ _ _ _ _ Ej Hi H1) as [->|[N1 N2]].
    + congruence.
    + rewrite H1. rewrite (cvv_of_spec _ _ _ Hi), N2. f_equal. apply Hnull; auto.
  - exfalso. apply H. apply nth_error_In with (n := i). rewrite Hnth, Hi. reflexivity.
Qed.

Lemma map_fst_combine {A B C} (f : A -> C) (l : list A) (l' : list B) :
  length l = length l' -> map (fun p => f (fst p)) (combine l l') = map f l.
Proof. revert l'. induction l as [|a t IH]; intros [|b t'] H; cbn in *; try discriminate; auto. f_equal. apply IH. lia. Qed.

Lemma bf_null l : is_null l = true -> bf l = Fin 1.
Proof. unfold bf. intros ->. reflexivity. Qed.

Lemma bf_of_gamma_fired ls i l :
  nth_error ls i = Some l -> bf_of_gamma ls (cvv_of ls i) = Some (bf l).
Proof.
  intros Hi. unfold bf_of_gamma.
  rewrite <- (map_fst_combine bf ls (assign_cvv ls)) by (rewrite assign_cvv_length; auto).
  apply (lookup_level_value (fun l _ => bf l)); auto. intros l1 l2 H1 H2. rewrite !bf_null; auto.
Qed.

Lemma tf_adj_null pow tfs ls l : tf_adj pow tfs ls l (-1)%Z = 1.
Proof. reflexivity. Qed.

Lemma tf_of_gamma_fired pow tfs ls i l :
  nth_error ls i = Some l -> tf_of_gamma pow tfs ls (cvv_of ls i) = Some (tf_adj pow tfs ls l (cvv_of ls i)).
Proof.
  intros Hi. unfold tf_of_gamma. apply (lookup_level_value (fun l c => tf_adj pow tfs ls l c)); auto.
Qed.
