(* Lemmas about Model/Scoring.v.  Part 1: the scoring functions.  Part 2: evaluating the
   generic SQL generators gives the scoring functions. *)
From Coq Require Import List Bool ZArith QArith Qminmax Qabs Lia Lqa Arith Permutation.
From Splinkv Require Import Base.TV Model.Scoring.
Import ListNotations.
Local Open Scope Q_scope.

(* ------------------------------------------------------------------------------------ *)
(* CASE WHEN: first firing level *)
Lemma fired_some outc ls i :
  fired outc ls = Some i ->
  exists l, nth_error ls i = Some l /\ fires outc l = true /\
            forall j l', (j < i)%nat -> nth_error ls j = Some l' -> fires outc l' = false.
Proof.
  revert i. induction ls as [|a t IH]; intros i H; cbn in H; [discriminate|].
  destruct (fires outc a) eqn:Ha.
  - injection H as <-. exists a. repeat split; auto. intros j l' Hj. lia.
  - destruct (fired outc t) as [k|] eqn:Hk; cbn in H; [|discriminate]. injection H as <-.
    destruct (IH k eq_refl) as (l & Hn & Hf & Hb). exists l. repeat split; auto.
    intros [|j] l' Hj Hn'; cbn in Hn'; [congruence|]. apply (Hb j); auto. lia.
Qed.

Lemma fired_none outc ls : fired outc ls = None -> forall l, In l ls -> fires outc l = false.
Proof.
  induction ls as [|a t IH]; intros H l Hin; [destruct Hin|]. cbn in H.
  destruct (fires outc a) eqn:Ha; [discriminate|].
  destruct (fired outc t) eqn:Hk; cbn in H; [discriminate|].
  destruct Hin as [<-|Hin]; auto.
Qed.

Lemma fired_lt outc ls i : fired outc ls = Some i -> (i < length ls)%nat.
Proof.
  intros H. destruct (fired_some _ _ _ H) as (l & Hn & _). apply nth_error_Some. congruence.
Qed.

(* ------------------------------------------------------------------------------------ *)
(* numbering *)
Lemma cvv_from_length c ls : length (cvv_from c ls) = length ls.
Proof. revert c. induction ls as [|a t IH]; intros c; cbn; auto. destruct (is_null a); cbn; rewrite IH; auto. Qed.

Lemma assign_cvv_length ls : length (assign_cvv ls) = length ls.
Proof. apply cvv_from_length. Qed.

Definition nn_before (i : nat) (ls : list level) : nat := n_nonnull (firstn i ls).

Lemma n_nonnull_cons a t : n_nonnull (a :: t) = ((if is_null a then 0 else 1) + n_nonnull t)%nat.
Proof. unfold n_nonnull. cbn. destruct (is_null a); cbn; auto. Qed.

Lemma cvv_from_nth c ls i l :
  nth_error ls i = Some l ->
  nth i (cvv_from c ls) 0%Z = if is_null l then (-1)%Z else (c - Z.of_nat (nn_before i ls))%Z.
Proof.
  revert c i. induction ls as [|a t IH]; intros c i H; [destruct i; discriminate|].
  destruct i as [|i]; cbn in H.
  - injection H as ->. cbn. destruct (is_null l); cbn; auto. unfold nn_before. cbn. lia.
  - cbn [cvv_from]. unfold nn_before. cbn [firstn]. rewrite n_nonnull_cons.
    destruct (is_null a) eqn:Ha; cbn [nth]; rewrite (IH _ _ H); destruct (is_null l); auto;
      unfold nn_before; lia.
Qed.

Lemma nn_before_le i ls l : nth_error ls i = Some l -> is_null l = false -> (nn_before i ls < n_nonnull ls)%nat.
Proof.
  revert i. induction ls as [|a t IH]; intros i H Hn; [destruct i; discriminate|].
  destruct i as [|i]; cbn in H.
  - injection H as ->. unfold nn_before. cbn [firstn]. rewrite n_nonnull_cons, Hn. unfold n_nonnull. cbn. lia.
  - unfold nn_before. cbn [firstn]. rewrite !n_nonnull_cons. specialize (IH _ H Hn). unfold nn_before in IH. lia.
Qed.

(* comparison_vector_value of the level at position i *)
Lemma cvv_of_spec ls i l :
  nth_error ls i = Some l ->
  cvv_of ls i = if is_null l then (-1)%Z
                else (Z.of_nat (n_nonnull ls) - 1 - Z.of_nat (nn_before i ls))%Z.
Proof. intros H. unfold cvv_of, assign_cvv. apply cvv_from_nth; auto. Qed.

Lemma cvv_of_range ls i l :
  nth_error ls i = Some l -> is_null l = false ->
  (0 <= cvv_of ls i <= Z.of_nat (n_nonnull ls) - 1)%Z.
Proof.
  intros H Hn. rewrite (cvv_of_spec _ _ _ H), Hn. pose proof (nn_before_le _ _ _ H Hn). lia.
Qed.

Lemma nn_before_mono i j ls l :
  (i < j)%nat -> nth_error ls i = Some l -> is_null l = false -> (nn_before i ls < nn_before j ls)%nat.
Proof.
  revert i j. induction ls as [|a t IH]; intros i j Hij H Hn; [destruct i; discriminate|].
  destruct j as [|j]; [lia|]. destruct i as [|i]; cbn in H.
  - injection H as ->. unfold nn_before. cbn [firstn]. rewrite n_nonnull_cons, Hn. unfold n_nonnull at 1. cbn. lia.
  - unfold nn_before. cbn [firstn]. rewrite !n_nonnull_cons.
    assert (Hij' : (i < j)%nat) by lia. specialize (IH _ _ Hij' H Hn). unfold nn_before in IH. lia.
Qed.

(* two positions with the same value are the same position or both null levels *)
Lemma cvv_of_inj ls i j li lj :
  nth_error ls i = Some li -> nth_error ls j = Some lj -> cvv_of ls i = cvv_of ls j ->
  i = j \/ (is_null li = true /\ is_null lj = true).
Proof.
  intros Hi Hj E. pose proof (cvv_of_spec _ _ _ Hi) as Si. pose proof (cvv_of_spec _ _ _ Hj) as Sj.
  destruct (is_null li) eqn:Ni, (is_null lj) eqn:Nj; auto.
  - pose proof (cvv_of_range _ _ _ Hj Nj). lia.
  - pose proof (cvv_of_range _ _ _ Hi Ni). lia.
  - left. destruct (Nat.lt_trichotomy i j) as [L|[L|L]]; auto.
    + pose proof (nn_before_mono _ _ _ _ L Hi Ni). lia.
    + pose proof (nn_before_mono _ _ _ _ L Hj Nj). lia.
Qed.

(* ------------------------------------------------------------------------------------ *)
(* lookup by gamma value *)
Lemma lookup_cvv_first {A} g cvvs (vals : list A) :
  length cvvs = length vals ->
  match lookup_cvv g cvvs vals with
  | Some x => exists j, nth_error cvvs j = Some g /\ nth_error vals j = Some x /\
                        forall k v, (k < j)%nat -> nth_error cvvs k = Some v -> v <> g
  | None => ~ In g cvvs
  end.
Proof.
  revert vals. induction cvvs as [|v vt IH]; intros [|x xt] HL; cbn in *; try discriminate; auto.
  destruct (Z.eqb_spec g v) as [->|Hne].
  - exists 0%nat. repeat split; auto. intros k v' Hk. lia.
  - specialize (IH xt ltac:(lia)). destruct (lookup_cvv g vt xt) as [y|].
    + destruct IH as (j & H1 & H2 & H3). exists (S j). repeat split; auto.
      intros [|k] v' Hk Hv; cbn in Hv; [congruence|]. apply (H3 k); auto. lia.
    + intros [E|Hin]; [congruence|auto].
Qed.

(* values attached to levels: F level cvv, constant on null levels *)
Lemma lookup_level_value {A} (F : level -> Z -> A) ls i l :
  nth_error ls i = Some l ->
  (forall l1 l2, is_null l1 = true -> is_null l2 = true -> F l1 (-1)%Z = F l2 (-1)%Z) ->
  lookup_cvv (cvv_of ls i) (assign_cvv ls)
             (map (fun lc => F (fst lc) (snd lc)) (combine ls (assign_cvv ls)))
  = Some (F l (cvv_of ls i)).
Proof.
  intros Hi Hnull.
  pose proof (lookup_cvv_first (cvv_of ls i) (assign_cvv ls)
                (map (fun lc => F (fst lc) (snd lc)) (combine ls (assign_cvv ls)))) as H.
  rewrite map_length, combine_length, assign_cvv_length, Nat.min_id in H. specialize (H eq_refl).
  assert (Hnth : forall k, nth_error (assign_cvv ls) k = option_map (fun _ => cvv_of ls k) (nth_error ls k)).
  { intros k. destruct (nth_error ls k) eqn:E; cbn.
    - unfold cvv_of. apply nth_error_nth'. rewrite assign_cvv_length. apply nth_error_Some. congruence.
    - apply nth_error_None. rewrite assign_cvv_length. apply nth_error_None; auto. }
  destruct (lookup_cvv _ _ _) as [x|].
  - destruct H as (j & H1 & H2 & H3). rewrite Hnth in H1.
    destruct (nth_error ls j) as [lj|] eqn:Ej; cbn in H1; [|discriminate]. injection H1 as H1.
    assert (Hx : x = F lj (cvv_of ls j)).
    { rewrite nth_error_map in H2.
      assert (Hc : nth_error (combine ls (assign_cvv ls)) j = Some (lj, cvv_of ls j)).
      { clear - Ej Hnth. specialize (Hnth j). rewrite Ej in Hnth. cbn in Hnth.
        revert Ej Hnth. generalize (assign_cvv ls) (cvv_of ls j). revert j.
        induction ls as [|a t IH]; intros [|j] cv z E1 E2; destruct cv; cbn in *; try discriminate; try congruence.
        apply IH; auto. }
      rewrite Hc in H2. cbn in H2. congruence. }
    subst x. destruct (cvv_of_inj _ _ _ _ _ Ej Hi H1) as [->|[N1 N2]].
    + congruence.
    + rewrite H1. rewrite (cvv_of_spec _ _ _ Hi), N2. f_equal. apply Hnull; auto.
  - exfalso. apply H. apply nth_error_In with (n := i). rewrite Hnth, Hi. reflexivity.
Qed.

Lemma map_fst_combine {A B C} (f : A -> C) (l : list A) (l' : list B) :
  length l = length l' -> map (fun p => f (fst p)) (combine l l') = map f l.
Proof. revert l'. induction l as [|a t IH]; intros [|b t'] H; cbn in *; try discriminate; auto. f_equal. apply IH. lia. Qed.

Lemma bf_null l : is_null l = true -> bf l = Fin 1.
Proof. unfold bf. intros ->. reflexivity. Qed.

Lemma bf_of_gamma_fired ls i l :
  nth_error ls i = Some l -> bf_of_gamma ls (cvv_of ls i) = Some (bf l).
Proof.
  intros Hi. unfold bf_of_gamma.
  rewrite <- (map_fst_combine bf ls (assign_cvv ls)) by (rewrite assign_cvv_length; auto).
  apply (lookup_level_value (fun l _ => bf l)); auto. intros l1 l2 H1 H2. rewrite !bf_null; auto.
Qed.

Lemma tf_adj_null pow tfs ls l : tf_adj pow tfs ls l (-1)%Z = 1.
Proof. reflexivity. Qed.

Lemma tf_of_gamma_fired pow tfs ls i l :
  nth_error ls i = Some l -> tf_of_gamma pow tfs ls (cvv_of ls i) = Some (tf_adj pow tfs ls l (cvv_of ls i)).
Proof.
  intros Hi. unfold tf_of_gamma. apply (lookup_level_value (fun l c => tf_adj pow tfs ls l c)); auto.
Qed.

(* ------------------------------------------------------------------------------------ *)
(* gamma: first listed level whose condition holds; numbering; bf lookup *)
Lemma gamma_first_true ls outc :
  match gamma ls outc with
  | Some g =>
      exists i l, nth_error ls i = Some l /\ fires outc l = true /\
        (forall j l', (j < i)%nat -> nth_error ls j = Some l' -> fires outc l' = false) /\
        g = (if is_null l then (-1)%Z else (Z.of_nat (n_nonnull ls) - 1 - Z.of_nat (nn_before i ls))%Z) /\
        bf_of_gamma ls g = Some (bf l) /\
        (forall pow tfs, tf_of_gamma pow tfs ls g = Some (tf_adj pow tfs ls l g))
  | None => forall l, In l ls -> fires outc l = false
  end.
Proof.
  unfold gamma. destruct (fired outc ls) as [i|] eqn:Hf; cbn.
  - destruct (fired_some _ _ _ Hf) as (l & Hn & Hfi & Hb). exists i, l. repeat split; auto.
    + apply cvv_of_spec; auto.
    + apply bf_of_gamma_fired; auto.
    + intros. apply tf_of_gamma_fired; auto.
  - apply fired_none; auto.
Qed.

(* with an ELSE level present some level always fires *)
Lemma gamma_total ls outc : existsb is_else ls = true -> gamma ls outc <> None.
Proof.
  intros H. apply existsb_exists in H. destruct H as (l & Hin & He).
  pose proof (gamma_first_true ls outc) as G. destruct (gamma ls outc); [discriminate|].
  specialize (G l Hin). unfold fires in G. rewrite He in G. discriminate.
Qed.

(* ------------------------------------------------------------------------------------ *)
(* divisor CASE = max *)
Lemma Qle_bool_false a b : Qle_bool a b = false -> b < a.
Proof. intros H. apply Qnot_le_lt. intros C. apply Qle_bool_iff in C. congruence. Qed.

Lemma divisor_A_max tfl tfr l' r' :
  coalesce2 tfl tfr = Some l' -> coalesce2 tfr tfl = Some r' ->
  exists d, divisor_A tfl tfr = Some d /\ d == Qmax l' r'.
Proof.
  intros Hl Hr. unfold divisor_A. rewrite Hl, Hr. cbn.
  destruct (Qle_bool r' l') eqn:E; cbn.
  - exists l'. split; auto. apply Qle_bool_iff in E. symmetry. apply Q.max_l; auto.
  - exists r'. split; auto. apply Qle_bool_false in E. symmetry. apply Q.max_r. apply Qlt_le_weak; auto.
Qed.

Lemma divisor_B_max min_u tfl tfr l' r' :
  coalesce2 tfl tfr = Some l' -> coalesce2 tfr tfl = Some r' ->
  exists d, divisor_B min_u tfl tfr = Some d /\ d == Qmax (Qmax l' r') min_u.
Proof.
  intros Hl Hr. unfold divisor_B. rewrite Hl, Hr. cbn.
  destruct (Qle_bool r' l') eqn:E1; cbn.
  - apply Qle_bool_iff in E1. assert (M : Qmax l' r' == l') by (apply Q.max_l; auto).
    destruct (Qle_bool l' min_u) eqn:E2; cbn.
    + apply Qle_bool_iff in E2. destruct (Qle_bool r' min_u) eqn:E3; cbn.
      * exists min_u. split; auto. rewrite M. symmetry. apply Q.max_r; auto.
      * apply Qle_bool_false in E3. exfalso. apply (Qlt_irrefl min_u).
        eapply Qlt_le_trans; [exact E3|]. eapply Qle_trans; eauto.
    + apply Qle_bool_false in E2. exists l'. split; auto. rewrite M. symmetry. apply Q.max_l. apply Qlt_le_weak; auto.
  - apply Qle_bool_false in E1. assert (M : Qmax l' r' == r') by (apply Q.max_r; apply Qlt_le_weak; auto).
    destruct (Qle_bool r' min_u) eqn:E3; cbn.
    + apply Qle_bool_iff in E3. exists min_u. split; auto. rewrite M. symmetry. apply Q.max_r; auto.
    + apply Qle_bool_false in E3. exists r'. split; auto. rewrite M. symmetry. apply Q.max_l. apply Qlt_le_weak; auto.
Qed.

Lemma coalesce2_cases tfl tfr :
  (tfl = None /\ tfr = None /\ coalesce2 tfl tfr = None /\ coalesce2 tfr tfl = None) \/
  (exists l' r', coalesce2 tfl tfr = Some l' /\ coalesce2 tfr tfl = Some r' /\
     match tfl, tfr with
     | Some a, Some b => l' = a /\ r' = b
     | Some a, None => l' = a /\ r' = a
     | None, Some b => l' = b /\ r' = b
     | None, None => False
     end).
Proof. destruct tfl as [a|], tfr as [b|]; cbn; [right; exists a, b|right; exists a, a|right; exists b, b|left]; auto. Qed.

Lemma tf_divisor_max min_u tfl tfr l' r' :
  coalesce2 tfl tfr = Some l' -> coalesce2 tfr tfl = Some r' ->
  0 <= l' -> 0 <= r' -> 0 <= min_u ->
  exists d, tf_divisor min_u tfl tfr = Some d /\ d == Qmax (Qmax l' r') min_u.
Proof.
  intros Hl Hr Pl Pr Pm. unfold tf_divisor. destruct (Qeq_bool min_u 0) eqn:E.
  - apply Qeq_bool_iff in E. destruct (divisor_A_max _ _ _ _ Hl Hr) as (d & Hd & Hm).
    exists d. split; auto. rewrite Hm, E. symmetry. apply Q.max_l.
    eapply Qle_trans; [exact Pl|]. apply Q.le_max_l.
  - apply divisor_B_max; auto.
Qed.

Lemma tf_divisor_some min_u tfl tfr x :
  coalesce2 tfl tfr = Some x -> exists d, tf_divisor min_u tfl tfr = Some d.
Proof.
  intros H. destruct (coalesce2_cases tfl tfr) as [(_&_&C&_)|(l'&r'&Hl&Hr&_)]; [congruence|].
  unfold tf_divisor. destruct (Qeq_bool min_u 0).
  - destruct (divisor_A_max _ _ _ _ Hl Hr) as (d&Hd&_). eauto.
  - destruct (divisor_B_max min_u _ _ _ _ Hl Hr) as (d&Hd&_). eauto.
Qed.

(* the documented factor (u_exact / max(tf_l, tf_r, minimum_u))^weight *)
Lemma tf_adj_formula pow tfs ls l cvv k tfl tfr l' r' u :
  tf_active l cvv = true -> tf_col l = Some k -> tfs k = (tfl, tfr) ->
  coalesce2 tfl tfr = Some l' -> coalesce2 tfr tfl = Some r' ->
  0 <= l' -> 0 <= r' -> 0 <= tf_min_u l ->
  0 < Qmax (Qmax l' r') (tf_min_u l) ->            (* no division by zero *)
  u_exact ls l = Some u ->                          (* a supplier exists: otherwise the code raises ValueError *)
  exists d, d == Qmax (Qmax l' r') (tf_min_u l) /\ 0 < d /\
            tf_adj pow tfs ls l cvv = pow (u / d) (tf_w l).
Proof.
  intros Ha Hk Ht Hl Hr Pl Pr Pm Pd Hu. unfold tf_active in Ha. rewrite Hk in Ha.
  apply andb_prop in Ha. destruct Ha as [Ha He]. apply andb_prop in Ha. destruct Ha as [Ha Hw].
  apply andb_prop in Ha. destruct Ha as [Hc _].
  destruct (tf_divisor_max _ _ _ _ _ Hl Hr Pl Pr Pm) as (d & Hd & Hm). exists d. split; auto.
  split; [rewrite Hm; exact Pd|].
  unfold tf_adj, u_exact_or. rewrite Hk, Ht, Hl, Hd, Hu.
  destruct (Z.eqb cvv (-1)); [discriminate|]. destruct (Qeq_bool (tf_w l) 0); [discriminate|].
  destruct (is_else l); [discriminate|]. reflexivity.
Qed.

Lemma tf_adj_no_tf_values pow tfs ls l cvv k :
  tf_col l = Some k -> tfs k = (None, None) -> tf_adj pow tfs ls l cvv = 1.
Proof.
  intros Hk Ht. unfold tf_adj. rewrite Hk, Ht. cbn.
  destruct (Z.eqb cvv (-1)); auto. destruct (Qeq_bool (tf_w l) 0); auto. destruct (is_else l); auto.
Qed.

Lemma tf_adj_weight_zero pow tfs ls l cvv : tf_w l == 0 -> tf_adj pow tfs ls l cvv = 1.
Proof.
  intros H. apply Qeq_bool_iff in H. unfold tf_adj. rewrite H.
  destruct (Z.eqb cvv (-1)); auto. destruct (tf_col l); auto.
Qed.

Lemma gen_tf_level_weight_zero ls l cvv : tf_w l == 0 -> gen_tf_level ls l cvv = NLit 1.
Proof.
  intros H. apply Qeq_bool_iff in H. unfold gen_tf_level. rewrite H.
  destruct (Z.eqb cvv (-1)); auto. destruct (tf_col l); auto.
Qed.

(* ------------------------------------------------------------------------------------ *)
(* products of extended rationals *)
Lemma xq_eq_refl a : xq_eq a a.
Proof. destruct a; cbn; auto. reflexivity. Qed.
Lemma xq_eq_sym a b : xq_eq a b -> xq_eq b a.
Proof. destruct a, b; cbn; auto. intros H; symmetry; auto. Qed.
Lemma xq_eq_trans a b c : xq_eq a b -> xq_eq b c -> xq_eq a c.
Proof. destruct a, b, c; cbn; auto; try tauto. intros H1 H2. rewrite H1; auto. Qed.
Lemma xmul_compat a a' b b' : xq_eq a a' -> xq_eq b b' -> xq_eq (xmul a b) (xmul a' b').
Proof. destruct a, a', b, b'; cbn; auto; try tauto. intros H1 H2. rewrite H1, H2. reflexivity. Qed.
Lemma xmul_assoc a b c : xq_eq (xmul (xmul a b) c) (xmul a (xmul b c)).
Proof. destruct a, b, c; cbn; auto. ring. Qed.
Lemma xmul_comm a b : xq_eq (xmul a b) (xmul b a).
Proof. destruct a, b; cbn; auto. ring. Qed.
Lemma xmul_1_r a : xq_eq (xmul a (Fin 1)) a.
Proof. destruct a; cbn; auto. ring. Qed.

Definition xprod (t : list xq) : xq := fold_right xmul (Fin 1) t.

Lemma fold_left_xmul t a : xq_eq (fold_left xmul t a) (xmul a (xprod t)).
Proof.
  revert a. induction t as [|x t IH]; intros a; cbn.
  - apply xq_eq_sym, xmul_1_r.
  - eapply xq_eq_trans; [apply IH|]. apply xmul_assoc.
Qed.

Lemma product_is_prior_times_parts p terms :
  xq_eq (product p terms) (xmul (prior_odds p) (xprod terms)).
Proof. apply fold_left_xmul. Qed.

Lemma xprod_perm t t' : Permutation t t' -> xq_eq (xprod t) (xprod t').
Proof.
  induction 1; cbn.
  - reflexivity.
  - apply xmul_compat; auto. apply xq_eq_refl.
  - eapply xq_eq_trans; [apply xq_eq_sym, xmul_assoc|].
    eapply xq_eq_trans; [|apply xmul_assoc]. apply xmul_compat; [apply xmul_comm|apply xq_eq_refl].
  - eapply xq_eq_trans; eauto.
Qed.

Lemma fold_left_xmul_inf t : fold_left xmul t Inf = Inf.
Proof. induction t as [|x t IH]; cbn; auto. Qed.

Lemma fold_left_xmul_any_inf t a : existsb x_is_inf t = true -> fold_left xmul t a = Inf.
Proof.
  revert a. induction t as [|x t IH]; intros a H; cbn in *; [discriminate|].
  destruct x as [q|]; cbn in H.
  - apply IH; auto.
  - destruct a; cbn; apply fold_left_xmul_inf.
Qed.

Lemma fold_left_xmul_fin t q : existsb x_is_inf t = false -> exists s, fold_left xmul t (Fin q) = Fin s.
Proof.
  revert q. induction t as [|x t IH]; intros q H; cbn in *; [eauto|].
  destruct x as [y|]; cbn in H; [|discriminate]. cbn. apply IH; auto.
Qed.

Lemma prior_odds_fin p : Qeq_bool p 1 = false -> prior_odds p = Fin (p / (1 - p)).
Proof. unfold prior_odds. intros ->. reflexivity. Qed.

(* CASE WHEN any term is infinite THEN 1 ELSE s/(1+s)  is  prob_of_score(score) *)
Lemma match_probability_closed_form p terms :
  match_probability_of p terms = prob_of_score (product p terms).
Proof.
  unfold match_probability_of, product. destruct (Qeq_bool p 1) eqn:Ep.
  - unfold prior_odds. rewrite Ep, fold_left_xmul_inf. reflexivity.
  - destruct (existsb x_is_inf terms) eqn:Ei.
    + rewrite fold_left_xmul_any_inf; auto.
    + reflexivity.
Qed.

Lemma inf_gives_one p terms :
  existsb x_is_inf terms = true -> product p terms = Inf /\ match_probability_of p terms = 1.
Proof.
  intros H. split.
  - apply fold_left_xmul_any_inf; auto.
  - unfold match_probability_of. rewrite H. destruct (Qeq_bool p 1); auto.
Qed.

Lemma no_inf_gives_ratio p terms :
  Qeq_bool p 1 = false -> existsb x_is_inf terms = false ->
  exists s, product p terms = Fin s /\ match_probability_of p terms = s / (1 + s).
Proof.
  intros Hp Hi. unfold product. rewrite (prior_odds_fin _ Hp).
  destruct (fold_left_xmul_fin terms (p / (1 - p)) Hi) as (s & Hs). exists s. split; auto.
  unfold match_probability_of, product. rewrite Hp, Hi, (prior_odds_fin _ Hp), Hs. reflexivity.
Qed.

(* positivity of the product *)
Lemma fold_left_xmul_pos t q : 0 < q -> pos_factors t = true ->
  match fold_left xmul t (Fin q) with Fin s => 0 < s | Inf => True end.
Proof.
  revert q. induction t as [|x t IH]; intros q Hq H; cbn in *; auto.
  apply andb_prop in H. destruct H as [Hx Ht]. destruct x as [y|]; cbn.
  - apply IH; auto. cbn in Hx. apply negb_true_iff in Hx. apply Qle_bool_false in Hx.
    apply Qmult_lt_0_compat; auto.
  - rewrite fold_left_xmul_inf. exact I.
Qed.

(* ------------------------------------------------------------------------------------ *)
(* thresholds, over Q *)
Lemma prob_threshold_Q p s :
  0 < p -> p < 1 -> 0 <= s -> (p <= s / (1 + s) <-> p / (1 - p) <= s).
Proof.
  intros P0 P1 S0. assert (H1s : 0 < 1 + s) by lra. assert (H1p : 0 < 1 - p) by lra.
  split; intros H.
  - apply Qle_shift_div_r; auto.
    assert (E : p * (1 + s) <= s).
    { apply Qmult_le_compat_r with (z := 1 + s) in H; [|lra].
      assert (X : s / (1 + s) * (1 + s) == s) by (field; lra). rewrite X in H. exact H. }
    lra.
  - apply Qle_shift_div_l; auto.
    assert (E : p <= s * (1 - p)).
    { apply Qmult_le_compat_r with (z := 1 - p) in H; [|lra].
      assert (X : p / (1 - p) * (1 - p) == p) by (field; lra). rewrite X in H. exact H. }
    lra.
Qed.

Lemma keep_threshold_exact p x :
  0 < p -> p < 1 -> xpos x = true -> keep (p / (1 - p)) x = keep_prob p x.
Proof.
  intros P0 P1 Hx. destruct x as [s|]; cbn.
  - cbn in Hx. apply negb_true_iff in Hx. apply Qle_bool_false in Hx.
    unfold keep_prob. cbn. apply eq_true_iff_eq. rewrite !Qle_bool_iff.
    symmetry. apply prob_threshold_Q; auto. lra.
  - unfold keep_prob. cbn. symmetry. apply Qle_bool_iff. lra.
Qed.

(* ------------------------------------------------------------------------------------ *)
(* Part 2: evaluating the generated SQL skeletons gives the model functions *)
Section GenSound.
  Variable pow : Q -> Q -> Q.
  Variable env : colref -> option xq.
  Variable conds : nat -> tv.
  Notation neval := (neval pow env conds).
  Notation beval := (beval pow env conds).

  Definition zval (z : Z) : xq := Fin (inject_Z z).

  Lemma ne_col c : neval (NCol c) = env c. Proof. reflexivity. Qed.
  Lemma ne_lit q : neval (NLit q) = Some (Fin q). Proof. reflexivity. Qed.
  Lemma ne_inf : neval NInf = Some Inf. Proof. reflexivity. Qed.
  Lemma ne_null : neval NNull = None. Proof. reflexivity. Qed.
  Lemma ne_coal a b : neval (NCoalesce a b) = match neval a with Some x => Some x | None => neval b end. Proof. reflexivity. Qed.
  Lemma ne_mul a b : neval (NMul a b) = lift2 xmul (neval a) (neval b). Proof. reflexivity. Qed.
  Lemma ne_div a b : neval (NDiv a b) = lift2 xdiv (neval a) (neval b). Proof. reflexivity. Qed.
  Lemma ne_add a b : neval (NAdd a b) = lift2 xadd (neval a) (neval b). Proof. reflexivity. Qed.
  Lemma ne_pow a b : neval (NPow a b) = lift2 (xpow pow) (neval a) (neval b). Proof. reflexivity. Qed.
  Lemma ne_if c t e : neval (NIf c t e) = if isT (beval c) then neval t else neval e. Proof. reflexivity. Qed.
  Lemma be_cond i : beval (BCond i) = conds i. Proof. reflexivity. Qed.
  Lemma be_eq a b : beval (BEq a b) = cmp3 xq_eqb (neval a) (neval b). Proof. reflexivity. Qed.
  Lemma be_ge a b : beval (BGe a b) = cmp3 (fun x y => xq_leb y x) (neval a) (neval b). Proof. reflexivity. Qed.
  Lemma be_gt a b : beval (BGt a b) = cmp3 (fun x y => xq_ltb y x) (neval a) (neval b). Proof. reflexivity. Qed.
  Lemma be_and a b : beval (BAnd a b) = and3 (beval a) (beval b). Proof. reflexivity. Qed.
  Lemma be_or a b : beval (BOr a b) = or3 (beval a) (beval b). Proof. reflexivity. Qed.
  Lemma be_notnull a : beval (BNotNull a) = match neval a with Some _ => T | None => F end. Proof. reflexivity. Qed.
  Ltac ev1 := rewrite ?ne_col, ?ne_lit, ?ne_inf, ?ne_null, ?ne_coal, ?ne_mul, ?ne_div, ?ne_add, ?ne_pow, ?ne_if,
                     ?be_cond, ?be_eq, ?be_ge, ?be_gt, ?be_and, ?be_or, ?be_notnull.
  Ltac ev := repeat (progress ev1).

  Lemma gen_gamma_case_eval ls cvvs :
    length cvvs = length ls ->
    neval (gen_gamma_case ls cvvs) = option_map (fun i => zval (nth i cvvs 0%Z)) (fired conds ls).
  Proof.
    revert cvvs. induction ls as [|l t IH]; intros [|v vt] HL; cbn [length] in HL; try discriminate; auto.
    cbn [gen_gamma_case fired]. unfold fires. destruct (is_else l) eqn:He; cbn [orb].
    - reflexivity.
    - ev. destruct (isT (conds (lcond l))) eqn:Hc; [reflexivity|].
      rewrite IH by lia. destruct (fired conds t); reflexivity.
  Qed.

  Lemma gen_gamma_sound ls :
    neval (gen_gamma_case ls (assign_cvv ls)) = option_map zval (gamma ls conds).
  Proof.
    rewrite gen_gamma_case_eval by apply assign_cvv_length. unfold gamma, cvv_of.
    destruct (fired conds ls); reflexivity.
  Qed.

  Lemma zval_eqb a b : xq_eqb (zval a) (zval b) = Z.eqb a b.
  Proof.
    unfold zval, xq_eqb, Qeq_bool, inject_Z. cbn. rewrite !Z.mul_1_r.
    unfold Zeq_bool. destruct (Z.eqb_spec a b) as [->|H].
    - rewrite Z.compare_refl. reflexivity.
    - destruct (Z.compare_spec a b); auto; congruence.
  Qed.

  Lemma gen_lookup_case_eval gx g cvvs vals :
    neval gx = Some (zval g) ->
    neval (gen_lookup_case gx cvvs vals)
    = match lookup_cvv g cvvs vals with Some x => neval x | None => None end.
  Proof.
    intros Hg. revert vals. induction cvvs as [|v vt IH]; intros [|x xt]; cbn [gen_lookup_case lookup_cvv]; auto.
    ev. rewrite Hg. unfold zlit. ev. fold (zval v). cbn [cmp3]. rewrite zval_eqb.
    destruct (Z.eqb g v); cbn [of_bool isT]; auto.
  Qed.

  Lemma lookup_cvv_map {A B} (f : A -> B) g cvvs vals :
    lookup_cvv g cvvs (map f vals) = option_map f (lookup_cvv g cvvs vals).
  Proof.
    revert vals. induction cvvs as [|v vt IH]; intros [|x xt]; cbn; auto.
    destruct (Z.eqb g v); cbn; auto.
  Qed.

  Lemma neval_xq_lit x : neval (xq_lit x) = Some x.
  Proof. destruct x; reflexivity. Qed.

  Lemma gen_bf_sound c ls g :
    env (CGamma c) = Some (zval g) -> neval (gen_bf_case c ls) = bf_of_gamma ls g.
  Proof.
    intros Hg. unfold gen_bf_case, bf_of_gamma.
    rewrite (gen_lookup_case_eval _ g) by exact Hg.
    rewrite <- (map_map bf xq_lit), lookup_cvv_map.
    destruct (lookup_cvv g (assign_cvv ls) (map bf ls)); cbn [option_map]; auto. apply neval_xq_lit.
  Qed.

  (* TF columns of the environment are the pair's tf values *)
  Variable tfs : nat -> option Q * option Q.
  Hypothesis env_tf_l : forall k, env (CTfL k) = option_map Fin (fst (tfs k)).
  Hypothesis env_tf_r : forall k, env (CTfR k) = option_map Fin (snd (tfs k)).

  Lemma neval_coalesce_lr k :
    neval (NCoalesce (NCol (CTfL k)) (NCol (CTfR k))) = option_map Fin (coalesce2 (fst (tfs k)) (snd (tfs k))).
  Proof. ev. rewrite env_tf_l, env_tf_r. destruct (fst (tfs k)), (snd (tfs k)); reflexivity. Qed.
  Lemma neval_coalesce_rl k :
    neval (NCoalesce (NCol (CTfR k)) (NCol (CTfL k))) = option_map Fin (coalesce2 (snd (tfs k)) (fst (tfs k))).
  Proof. ev. rewrite env_tf_l, env_tf_r. destruct (fst (tfs k)), (snd (tfs k)); reflexivity. Qed.

  Lemma gen_divisor_sound k min_u :
    neval (gen_divisor k min_u) = option_map Fin (tf_divisor min_u (fst (tfs k)) (snd (tfs k))).
  Proof.
    unfold gen_divisor, tf_divisor, divisor_A, divisor_B.
    destruct (Qeq_bool min_u 0).
    - rewrite ne_if, be_ge, !neval_coalesce_lr, !neval_coalesce_rl.
      destruct (coalesce2 (fst (tfs k)) (snd (tfs k))) as [a|],
               (coalesce2 (snd (tfs k)) (fst (tfs k))) as [b|]; cbn; auto;
      unfold xq_ltb, xq_leb; repeat match goal with |- context [Qle_bool ?x ?y] => destruct (Qle_bool x y) end; reflexivity.
    - rewrite !ne_if, be_and, be_ge, !be_gt, !ne_lit, !neval_coalesce_lr, !neval_coalesce_rl.
      destruct (coalesce2 (fst (tfs k)) (snd (tfs k))) as [a|],
               (coalesce2 (snd (tfs k)) (fst (tfs k))) as [b|]; cbn; auto;
      unfold xq_ltb, xq_leb; repeat match goal with |- context [Qle_bool ?x ?y] => destruct (Qle_bool x y) end; reflexivity.
  Qed.

  Lemma gen_tf_level_sound ls l cvv :
    neval (gen_tf_level ls l cvv) = Some (Fin (tf_adj pow tfs ls l cvv)).
  Proof.
    unfold gen_tf_level, tf_adj. destruct (Z.eqb cvv (-1)); auto.
    destruct (tf_col l) as [k|]; auto. destruct (Qeq_bool (tf_w l) 0); auto.
    destruct (is_else l); auto.
    rewrite ne_if, be_notnull, ne_pow, ne_div, !ne_lit, neval_coalesce_lr, gen_divisor_sound.
    destruct (tfs k) as [tfl tfr] eqn:Et. cbn [fst snd].
    destruct (coalesce2 tfl tfr) as [x|] eqn:Ec; cbn [option_map isT]; auto.
    destruct (tf_divisor_some (tf_min_u l) _ _ _ Ec) as (d & Hd). rewrite Hd. reflexivity.
  Qed.

  Lemma gen_tf_sound c ls g :
    env (CGamma c) = Some (zval g) ->
    neval (gen_tf_case c ls) = option_map Fin (tf_of_gamma pow tfs ls g).
  Proof.
    intros Hg. unfold gen_tf_case, tf_of_gamma.
    rewrite (gen_lookup_case_eval _ g) by exact Hg.
    generalize (combine ls (assign_cvv ls)) as cs. generalize (assign_cvv ls) as cvvs.
    induction cvvs as [|v vt IH]; intros [|x xt]; cbn [lookup_cvv map option_map]; auto.
    destruct (Z.eqb g v); cbn [option_map]; auto. apply gen_tf_level_sound.
  Qed.

  (* the final combination *)
  Lemma gen_product_eval cols vals acc a :
    neval acc = Some a -> map env cols = map Some vals ->
    neval (fold_left (fun e c => NMul e (NCol c)) cols acc) = Some (fold_left xmul vals a).
  Proof.
    revert vals acc a. induction cols as [|c t IH]; intros [|v vt] acc a Ha Hm; cbn [map fold_left] in *; try discriminate; auto.
    injection Hm as Hc Ht. apply IH; auto. ev. rewrite Ha, Hc. reflexivity.
  Qed.

  Lemma gen_bf_expr_sound p cols vals :
    map env cols = map Some vals -> neval (gen_bf_expr p cols) = Some (product p vals).
  Proof.
    intros Hm. unfold gen_bf_expr, product, prior_odds. destruct (Qeq_bool p 1) eqn:Ep.
    - rewrite fold_left_xmul_inf. reflexivity.
    - apply gen_product_eval; auto.
  Qed.

  Lemma gen_any_inf_eval cols vals acc b :
    beval acc = of_bool b -> map env cols = map Some vals ->
    beval (fold_left (fun e c => BOr e (BEq (NCol c) NInf)) cols acc) = of_bool (b || existsb x_is_inf vals).
  Proof.
    revert vals acc b. induction cols as [|c t IH]; intros [|v vt] acc b Ha Hm; cbn [map fold_left existsb] in *; try discriminate.
    - rewrite orb_false_r; auto.
    - injection Hm as Hc Ht. rewrite orb_assoc. apply IH; auto. ev. rewrite Ha, Hc.
      destruct b, v; reflexivity.
  Qed.

  Lemma gen_match_prob_sound p cols vals :
    cols <> [] -> map env cols = map Some vals ->
    exists e, gen_match_prob p cols = Some e /\ neval e = Some (Fin (match_probability_of p vals)).
  Proof.
    intros Hne Hm. unfold gen_match_prob, match_probability_of. destruct (Qeq_bool p 1) eqn:Ep.
    - eexists; split; eauto.
    - destruct cols as [|c t]; [congruence|]. destruct vals as [|v vt]; [discriminate|].
      assert (Hm' := Hm). cbn [map] in Hm. injection Hm as Hc Ht. cbn [gen_any_inf]. eexists; split; [reflexivity|].
      rewrite ne_if, (gen_any_inf_eval t vt _ (x_is_inf v)); auto.
      2:{ ev. rewrite Hc. destruct v; reflexivity. }
      cbn [existsb]. destruct (x_is_inf v || existsb x_is_inf vt) eqn:Ei; cbn [of_bool isT]; auto.
      assert (Hp : neval (gen_product p (c :: t)) = Some (product p (v :: vt))).
      { unfold gen_product, product. rewrite (prior_odds_fin _ Ep). apply gen_product_eval; auto. }
      rewrite ne_div, ne_add, ne_lit, Hp. destruct (no_inf_gives_ratio p (v :: vt) Ep Ei) as (s & Hs & _).
      rewrite Hs. reflexivity.
  Qed.
End GenSound.

(* ------------------------------------------------------------------------------------ *)
(* the staged pipeline: an environment whose gamma_/bf_/bf_tf_adj_ columns are the values of
   the generated CASE expressions yields the model's score and probability *)
Definition noconds : nat -> tv := fun _ => U.

Section Pipeline.
  Variable pow : Q -> Q -> Q.
  Variable tfs : nat -> option Q * option Q.
  Variable env : colref -> option xq.
  Hypothesis env_tf_l : forall k, env (CTfL k) = option_map Fin (fst (tfs k)).
  Hypothesis env_tf_r : forall k, env (CTfR k) = option_map Fin (snd (tfs k)).

  Lemma stage_terms c0 cmps outcs cs :
    (forall i ls oc, nth_error cmps i = Some ls -> nth_error outcs i = Some oc ->
        env (CGamma (c0 + i)) = neval pow env oc (gen_gamma_case ls (assign_cvv ls))) ->
    (forall i ls, nth_error cmps i = Some ls ->
        env (CBf (c0 + i)) = neval pow env noconds (gen_bf_case (c0 + i) ls)) ->
    (forall i ls, nth_error cmps i = Some ls -> has_tf ls = true ->
        env (CTfAdj (c0 + i)) = neval pow env noconds (gen_tf_case (c0 + i) ls)) ->
    eval_all pow tfs cmps outcs = Some cs ->
    map env (term_cols_from c0 cmps) = map Some (all_terms cs).
  Proof.
    revert c0 outcs cs. induction cmps as [|ls ct IH]; intros c0 outcs cs Hg Hb Ht He.
    - cbn in He. injection He as <-. reflexivity.
    - destruct outcs as [|oc ot]; [discriminate|]. cbn [eval_all] in He.
      destruct (cmp_eval pow tfs ls oc) as [col|] eqn:Ec; [|discriminate].
      destruct (eval_all pow tfs ct ot) as [r|] eqn:Er; [|discriminate]. injection He as <-.
      assert (IH' : map env (term_cols_from (S c0) ct) = map Some (all_terms r)).
      { apply (IH (S c0) ot r); auto.
        - intros i ls' oc' H1 H2. replace (S c0 + i)%nat with (c0 + S i)%nat by lia. apply (Hg (S i)); auto.
        - intros i ls' H1. replace (S c0 + i)%nat with (c0 + S i)%nat by lia. apply (Hb (S i)); auto.
        - intros i ls' H1 H2. replace (S c0 + i)%nat with (c0 + S i)%nat by lia. apply (Ht (S i)); auto. }
      specialize (Hg 0%nat ls oc eq_refl eq_refl). specialize (Hb 0%nat ls eq_refl).
      specialize (Ht 0%nat ls eq_refl). rewrite Nat.add_0_r in *.
      unfold cmp_eval in Ec. destruct (gamma ls oc) as [g|] eqn:Eg; [|discriminate].
      rewrite gen_gamma_sound, Eg in Hg. cbn [option_map] in Hg.
      destruct (bf_of_gamma ls g) as [b|] eqn:Eb; [|discriminate].
      rewrite (gen_bf_sound pow env noconds _ _ g Hg), Eb in Hb.
      cbn [term_cols_from all_terms flat_map]. change (flat_map (cols_to_multiply) r) with (all_terms r).
      destruct (has_tf ls) eqn:Htf.
      + destruct (tf_of_gamma pow tfs ls g) as [t|] eqn:Et; [|discriminate]. injection Ec as <-.
        rewrite (gen_tf_sound pow env noconds tfs env_tf_l env_tf_r _ _ g Hg), Et in Ht.
        cbn. rewrite Hb, (Ht eq_refl), IH'. reflexivity.
      + injection Ec as <-. cbn. rewrite Hb, IH'. reflexivity.
  Qed.

  Theorem pipeline_sound p cmps outcs cs :
    (forall i ls oc, nth_error cmps i = Some ls -> nth_error outcs i = Some oc ->
        env (CGamma i) = neval pow env oc (gen_gamma_case ls (assign_cvv ls))) ->
    (forall i ls, nth_error cmps i = Some ls ->
        env (CBf i) = neval pow env noconds (gen_bf_case i ls)) ->
    (forall i ls, nth_error cmps i = Some ls -> has_tf ls = true ->
        env (CTfAdj i) = neval pow env noconds (gen_tf_case i ls)) ->
    eval_all pow tfs cmps outcs = Some cs ->
    neval pow env noconds (gen_bf_expr p (term_cols cmps)) = Some (score_of_cols p cs) /\
    (cmps <> [] ->
     exists e, gen_match_prob p (term_cols cmps) = Some e /\
               neval pow env noconds e = Some (Fin (match_probability_of p (all_terms cs)))).
  Proof.
    intros Hg Hb Ht He.
    assert (Hm : map env (term_cols cmps) = map Some (all_terms cs)) by (apply (stage_terms 0 cmps outcs cs); auto).
    split.
    - apply gen_bf_expr_sound; auto.
    - intros Hne. apply gen_match_prob_sound; auto.
      destruct cmps; [congruence|]. unfold term_cols. cbn. discriminate.
  Qed.
End Pipeline.


(* ------------------------------------------------------------------------------------ *)
(* statements that need log2 / 2^w: over R (standard real-number axioms) *)
From Coq Require Import Reals Lra Qreals.
Local Open Scope R_scope.

Definition log2R (x : R) : R := ln x / ln 2.
Definition pow2R (w : R) : R := Rpower 2 w.

Lemma ln2_pos : 0 < ln 2.
Proof. rewrite <- ln_1. apply ln_increasing; lra. Qed.

Lemma pow2_log2 s : 0 < s -> pow2R (log2R s) = s.
Proof.
  intros Hs. unfold pow2R, log2R, Rpower. pose proof ln2_pos.
  replace (ln s / ln 2 * ln 2) with (ln s) by (field; lra). apply exp_ln; auto.
Qed.

Lemma log2_pow2 w : log2R (pow2R w) = w.
Proof. unfold pow2R, log2R, Rpower. pose proof ln2_pos. rewrite ln_exp. field. lra. Qed.

Lemma pow2_pos w : 0 < pow2R w.
Proof. unfold pow2R, Rpower. apply exp_pos. Qed.

Lemma log2_le s t : 0 < s -> 0 < t -> (log2R s <= log2R t <-> s <= t).
Proof.
  intros Hs Ht. unfold log2R. pose proof ln2_pos as L. split; intros H.
  - assert (ln s <= ln t).
    { apply Rmult_le_reg_r with (r := / ln 2); [apply Rinv_0_lt_compat; auto|exact H]. }
    destruct H0 as [H0|H0]; [left; apply ln_lt_inv; auto|right; apply ln_inv; auto].
  - apply Rmult_le_compat_r; [left; apply Rinv_0_lt_compat; auto|].
    destruct H as [H|H]; [left; apply ln_increasing; auto|right; subst; auto].
Qed.

(* match_probability = 2^w / (1 + 2^w) for w = log2 s *)
Lemma prob_from_weight_R s : 0 < s -> s / (1 + s) = pow2R (log2R s) / (1 + pow2R (log2R s)).
Proof. intros Hs. rewrite pow2_log2; auto. Qed.

(* weight threshold: log2 s >= w  <->  s >= 2^w *)
Lemma weight_threshold_R s w : 0 < s -> (w <= log2R s <-> pow2R w <= s).
Proof.
  intros Hs. rewrite <- (log2_pow2 w) at 1. apply log2_le; auto. apply pow2_pos.
Qed.

Lemma ratio_threshold_R p s : 0 < p -> p < 1 -> 0 < s -> (p <= s / (1 + s) <-> p / (1 - p) <= s).
Proof.
  intros P0 P1 S0. split; intros H.
  - apply Rmult_le_reg_r with (r := 1 - p); [lra|]. unfold Rdiv. rewrite Rmult_assoc, Rinv_l by lra.
    apply Rmult_le_compat_r with (r := 1 + s) in H; [|lra].
    unfold Rdiv in H. rewrite Rmult_assoc, Rinv_l in H by lra. lra.
  - apply Rmult_le_reg_r with (r := 1 + s); [lra|]. unfold Rdiv at 1. rewrite Rmult_assoc, Rinv_l by lra.
    apply Rmult_le_compat_r with (r := 1 - p) in H; [|lra].
    unfold Rdiv in H. rewrite Rmult_assoc, Rinv_l in H by lra. lra.
Qed.

(* probability threshold p is applied as the weight threshold log2(p/(1-p)) *)
Lemma prob_threshold_R p s :
  0 < p -> p < 1 -> 0 < s -> (log2R (p / (1 - p)) <= log2R s <-> p <= s / (1 + s)).
Proof.
  intros P0 P1 S0. rewrite log2_le; auto.
  - symmetry. apply ratio_threshold_R; auto.
  - apply Rdiv_lt_0_compat; lra.
Qed.

(* the Q-level `keep` is the real-number test  w <= log2 s  when T = 2^w *)
Lemma keep_is_weight_test (T s : Q) (w : R) :
  (0 < s)%Q -> Q2R T = pow2R w -> (keep T (Fin s) = true <-> w <= log2R (Q2R s)).
Proof.
  intros Hs HT. unfold keep, xq_leb. rewrite Qle_bool_iff.
  assert (0 < Q2R s) by (replace 0 with (Q2R 0) by (unfold Q2R; cbn; lra); apply Qlt_Rlt; auto).
  rewrite weight_threshold_R; auto. rewrite <- HT. split; [apply Qle_Rle|apply Rle_Qle].
Qed.

(* waterfall: the log2 of the records add up to the match weight *)
Fixpoint sum_log2 (l : list R) : R := match l with [] => 0 | x :: t => log2R x + sum_log2 t end.
Fixpoint prodR (l : list R) : R := match l with [] => 1 | x :: t => x * prodR t end.

Lemma log2_mult a b : 0 < a -> 0 < b -> log2R (a * b) = log2R a + log2R b.
Proof. intros. unfold log2R. rewrite ln_mult; auto. pose proof ln2_pos. field. lra. Qed.

Lemma prodR_pos l : Forall (fun x => 0 < x) l -> 0 < prodR l.
Proof. induction 1; cbn; [lra|]. apply Rmult_lt_0_compat; auto. Qed.

Lemma waterfall_adds_up l : Forall (fun x => 0 < x) l -> sum_log2 l = log2R (prodR l).
Proof.
  induction 1 as [|x t Hx Ht IH]; cbn.
  - unfold log2R. rewrite ln_1. lra.
  - rewrite log2_mult; auto. + rewrite IH; auto. + apply prodR_pos; auto.
Qed.

Local Open Scope Q_scope.
(* ------------------------------------------------------------------------------------ *)
(* nx_eqb / bx_eqb (literals compared with ==) accept only skeletons with the same value *)
Scheme nx_mut := Induction for nx Sort Prop
  with bx_mut := Induction for bx Sort Prop.
Combined Scheme nx_bx_ind from nx_mut, bx_mut.

Definition oxq_eq (a b : option xq) : Prop :=
  match a, b with Some x, Some y => xq_eq x y | None, None => True | _, _ => False end.

Lemma colref_eqb_eq a b : colref_eqb a b = true -> a = b.
Proof. destruct a, b; cbn; try discriminate; intros H; apply Nat.eqb_eq in H; congruence. Qed.

Lemma Qle_bool_compat a a' b b' : a == a' -> b == b' -> Qle_bool a b = Qle_bool a' b'.
Proof. intros H1 H2. apply eq_true_iff_eq. rewrite !Qle_bool_iff, H1, H2. reflexivity. Qed.
Lemma Qeq_bool_compat a a' b b' : a == a' -> b == b' -> Qeq_bool a b = Qeq_bool a' b'.
Proof. intros H1 H2. apply eq_true_iff_eq. rewrite !Qeq_bool_iff, H1, H2. reflexivity. Qed.

Lemma xq_eqb_compat a a' b b' : xq_eq a a' -> xq_eq b b' -> xq_eqb a b = xq_eqb a' b'.
Proof. destruct a, a', b, b'; cbn; try tauto. apply Qeq_bool_compat. Qed.
Lemma xq_leb_compat a a' b b' : xq_eq a a' -> xq_eq b b' -> xq_leb a b = xq_leb a' b'.
Proof. destruct a, a', b, b'; cbn; try tauto. apply Qle_bool_compat. Qed.
Lemma xadd_compat a a' b b' : xq_eq a a' -> xq_eq b b' -> xq_eq (xadd a b) (xadd a' b').
Proof. destruct a, a', b, b'; cbn; auto; try tauto. intros H1 H2. rewrite H1, H2. reflexivity. Qed.
Lemma xdiv_compat a a' b b' : xq_eq a a' -> xq_eq b b' -> xq_eq (xdiv a b) (xdiv a' b').
Proof. destruct a, a', b, b'; cbn; auto; try tauto; try reflexivity; intros H1 H2; try rewrite H1; try rewrite H2; reflexivity. Qed.

Section EqbSound.
  Variable pow : Q -> Q -> Q.
  Hypothesis pow_compat : forall a a' b b', a == a' -> b == b' -> pow a b == pow a' b'.

  Lemma xpow_compat a a' b b' : xq_eq a a' -> xq_eq b b' -> xq_eq (xpow pow a b) (xpow pow a' b').
  Proof. destruct a, a', b, b'; cbn; auto; try tauto. Qed.

  Lemma lift2_compat f (Hf : forall a a' b b', xq_eq a a' -> xq_eq b b' -> xq_eq (f a b) (f a' b')) x x' y y' :
    oxq_eq x x' -> oxq_eq y y' -> oxq_eq (lift2 f x y) (lift2 f x' y').
  Proof. destruct x, x', y, y'; cbn; auto; try tauto. Qed.

  Lemma cmp3_compat f (Hf : forall a a' b b', xq_eq a a' -> xq_eq b b' -> f a b = f a' b') x x' y y' :
    oxq_eq x x' -> oxq_eq y y' -> cmp3 f x y = cmp3 f x' y'.
  Proof. destruct x, x', y, y'; cbn; auto; try tauto. intros H1 H2. rewrite (Hf _ _ _ _ H1 H2). reflexivity. Qed.

  Ltac ev2 := repeat (progress (rewrite ?ne_col, ?ne_lit, ?ne_inf, ?ne_null, ?ne_coal, ?ne_mul, ?ne_div, ?ne_add, ?ne_pow, ?ne_if,
                     ?be_cond, ?be_eq, ?be_ge, ?be_gt, ?be_and, ?be_or, ?be_notnull)).
  Theorem eqb_sound :
    (forall a b, nx_eqb a b = true ->
       forall env env' conds, (forall c, oxq_eq (env c) (env' c)) ->
       oxq_eq (neval pow env conds a) (neval pow env' conds b)) /\
    (forall a b, bx_eqb a b = true ->
       forall env env' conds, (forall c, oxq_eq (env c) (env' c)) ->
       beval pow env conds a = beval pow env' conds b).
  Proof.
    apply nx_bx_ind.
    - intros c [] H; try discriminate. apply colref_eqb_eq in H. subst. intros; ev2; cbn; auto.
    - intros q [] H; try discriminate. apply Qeq_bool_iff in H. intros; ev2; cbn; auto.
    - intros [] H; try discriminate. intros; ev2; cbn; auto.
    - intros [] H; try discriminate. intros; ev2; cbn; auto.
    - intros a IHa b IHb [] H; try discriminate. apply andb_prop in H. destruct H as [H1 H2].
      intros env env' conds He. ev2. specialize (IHa _ H1 _ _ conds He). specialize (IHb _ H2 _ _ conds He).
      destruct (neval pow env conds a), (neval pow env' conds a0); cbn in IHa; auto; tauto.
    - intros a IHa b IHb [] H; try discriminate. apply andb_prop in H. destruct H as [H1 H2].
      intros env env' conds He. ev2. apply lift2_compat; auto. apply xmul_compat.
    - intros a IHa b IHb [] H; try discriminate. apply andb_prop in H. destruct H as [H1 H2].
      intros env env' conds He. ev2. apply lift2_compat; auto. apply xdiv_compat.
    - intros a IHa b IHb [] H; try discriminate. apply andb_prop in H. destruct H as [H1 H2].
      intros env env' conds He. ev2. apply lift2_compat; auto. apply xadd_compat.
    - intros a IHa b IHb [] H; try discriminate. apply andb_prop in H. destruct H as [H1 H2].
      intros env env' conds He. ev2. apply lift2_compat; auto. apply xpow_compat.
    - intros c IHc t IHt e IHe [] H; try discriminate. apply andb_prop in H. destruct H as [H H3].
      apply andb_prop in H. destruct H as [H1 H2].
      intros env env' conds He. ev2. rewrite (IHc _ H1 _ _ conds He).
      destruct (isT (beval pow env' conds c0)); auto.
    - intros i [] H; try discriminate. apply Nat.eqb_eq in H. subst. intros; ev2; cbn; auto.
    - intros a IHa b IHb [] H; try discriminate. apply andb_prop in H. destruct H as [H1 H2].
      intros env env' conds He. ev2. apply cmp3_compat; auto. apply xq_eqb_compat.
    - intros a IHa b IHb [] H; try discriminate. apply andb_prop in H. destruct H as [H1 H2].
      intros env env' conds He. ev2. apply cmp3_compat; auto. intros; apply xq_leb_compat; auto.
    - intros a IHa b IHb [] H; try discriminate. apply andb_prop in H. destruct H as [H1 H2].
      intros env env' conds He. ev2. apply cmp3_compat; auto.
      intros. unfold xq_ltb. f_equal. apply xq_leb_compat; auto.
    - intros a IHa b IHb [] H; try discriminate. apply andb_prop in H. destruct H as [H1 H2].
      intros env env' conds He. ev2. rewrite (IHa _ H1 _ _ conds He), (IHb _ H2 _ _ conds He). reflexivity.
    - intros a IHa b IHb [] H; try discriminate. apply andb_prop in H. destruct H as [H1 H2].
      intros env env' conds He. ev2. rewrite (IHa _ H1 _ _ conds He), (IHb _ H2 _ _ conds He). reflexivity.
    - intros a IHa [| | | | | |a'] H; try discriminate. intros env env' conds He. ev2.
      specialize (IHa _ H _ _ conds He).
      destruct (neval pow env conds a), (neval pow env' conds a'); cbn in IHa; auto; tauto.
  Qed.
End EqbSound.

Local Open Scope Q_scope.

(* ------------------------------------------------------------------------------------ *)
(* full statements used verbatim by Properties/C02.v *)
Lemma divisor_is_max_full :
  forall (tfl tfr : option Q) (min_u : Q),
    (tfl = None /\ tfr = None /\ coalesce2 tfl tfr = None) \/
    (exists l' r', coalesce2 tfl tfr = Some l' /\ coalesce2 tfr tfl = Some r' /\
       (exists d, divisor_A tfl tfr = Some d /\ d == Qmax l' r') /\
       (exists d, divisor_B min_u tfl tfr = Some d /\ d == Qmax (Qmax l' r') min_u) /\
       (0 <= l' -> 0 <= r' -> 0 <= min_u ->
        exists d, tf_divisor min_u tfl tfr = Some d /\ d == Qmax (Qmax l' r') min_u)).
Proof.
  intros tfl tfr min_u. destruct (coalesce2_cases tfl tfr) as [(A&B&C&_)|(l'&r'&Hl&Hr&_)]; [left; auto|].
  right. exists l', r'. repeat split; auto.
  - apply divisor_A_max; auto.
  - apply divisor_B_max; auto.
  - intros. apply tf_divisor_max; auto.
Qed.

Lemma product_of_parts_full :
  forall pow tfs p cmps outcs cs,
    eval_all pow tfs cmps outcs = Some cs ->
    score pow tfs p cmps outcs = Some (score_of_cols p cs) /\
    xq_eq (score_of_cols p cs) (xmul (prior_odds p) (xprod (all_terms cs))) /\
    (forall terms', Permutation (all_terms cs) terms' ->
       xq_eq (score_of_cols p cs) (xmul (prior_odds p) (xprod terms'))).
Proof.
  intros pow tfs p cmps outcs cs H. unfold score. rewrite H. repeat split.
  - apply product_is_prior_times_parts.
  - intros t' Hp. eapply xq_eq_trans; [apply product_is_prior_times_parts|].
    apply xmul_compat; [apply xq_eq_refl|apply xprod_perm; auto].
Qed.

Lemma columns_are_level_values_full :
  forall pow tfs ls outc c,
    cmp_eval pow tfs ls outc = Some c ->
    exists i l, fired outc ls = Some i /\ nth_error ls i = Some l /\
      c_gamma c = cvv_of ls i /\ c_bf c = bf l /\
      c_tf c = if has_tf ls then Some (tf_adj pow tfs ls l (cvv_of ls i)) else None.
Proof.
  intros pow tfs ls outc c H. unfold cmp_eval, gamma in H.
  destruct (fired outc ls) as [i|] eqn:Hf; cbn in H; [|discriminate].
  destruct (fired_some _ _ _ Hf) as (l & Hn & _). exists i, l.
  rewrite (bf_of_gamma_fired _ _ _ Hn) in H.
  rewrite (tf_of_gamma_fired pow tfs _ _ _ Hn) in H.
  destruct (has_tf ls); injection H as <-; cbn; auto.
Qed.

Lemma skeleton_equality_sound_full :
  forall pow, (forall a a' b b', a == a' -> b == b' -> pow a b == pow a' b') ->
  forall a b, nx_eqb a b = true ->
  forall env conds, oxq_eq (neval pow env conds a) (neval pow env conds b).
Proof.
  intros pow Hp a b H env conds. apply (proj1 (eqb_sound pow Hp)); auto.
  intros c. destruct (env c) as [x|]; cbn; auto. apply xq_eq_refl.
Qed.


(* ------------------------------------------------------------------------------------ *)
(* which level supplies the u of a TF adjustment *)
Lemma find_first {A} (f : A -> bool) l x :
  find f l = Some x <->
  exists i, nth_error l i = Some x /\ f x = true /\ forall j y, (j < i)%nat -> nth_error l j = Some y -> f y = false.
Proof.
  induction l as [|a t IH]; cbn.
  - split; [discriminate|]. intros (i & H & _). destruct i; discriminate.
  - destruct (f a) eqn:Fa.
    + split.
      * intros E. injection E as <-. exists 0%nat. repeat split; auto. intros j y Hj. lia.
      * intros (i & Hn & Hf & Hb). destruct i as [|i]; [cbn in Hn; congruence|].
        specialize (Hb 0%nat a ltac:(lia) eq_refl). congruence.
    + rewrite IH. split.
      * intros (i & Hn & Hf & Hb). exists (S i). repeat split; auto.
        intros [|j] y Hj Hy; cbn in Hy; [congruence|]. apply (Hb j); auto. lia.
      * intros (i & Hn & Hf & Hb). destruct i as [|i]; [cbn in Hn; congruence|].
        exists i. repeat split; auto. intros j y Hj Hy. apply (Hb (S j)); auto. lia.
Qed.

Lemma is_exact_on_iff c l : is_exact_on c l = true <-> exact_cols l = [c].
Proof.
  unfold is_exact_on. destruct (exact_cols l) as [|c' [|c'' t]]; split; intros H; try discriminate.
  - apply Nat.eqb_eq in H. subst. reflexivity.
  - injection H as ->. apply Nat.eqb_refl.
Qed.

(* u_exact: own u with detection disabled; otherwise the u of the first listed level that is an exact
   match on exactly the TF column - never a level that matches several columns *)
Lemma u_exact_supplier ls l c u :
  disable_exact_detect l = false -> tf_col l = Some c ->
  (u_exact ls l = Some u <->
   exists i s, nth_error ls i = Some s /\ exact_cols s = [c] /\ lu s = u /\
               forall j y, (j < i)%nat -> nth_error ls j = Some y -> exact_cols y <> [c]).
Proof.
  intros Hd Hc. unfold u_exact. rewrite Hd, Hc. split.
  - destruct (find (is_exact_on c) ls) as [s|] eqn:Hf; cbn; [|discriminate]. intros E. injection E as <-.
    apply find_first in Hf. destruct Hf as (i & Hn & He & Hb). exists i, s. repeat split; auto.
    + apply is_exact_on_iff; auto.
    + intros j y Hj Hy E. apply is_exact_on_iff in E. rewrite (Hb j y Hj Hy) in E. discriminate.
  - intros (i & s & Hn & He & Hu & Hb).
    assert (Hf : find (is_exact_on c) ls = Some s).
    { apply find_first. exists i. repeat split; auto.
      - apply is_exact_on_iff; auto.
      - intros j y Hj Hy. destruct (is_exact_on c y) eqn:E; auto. apply is_exact_on_iff in E. exfalso. eapply Hb; eauto. }
    rewrite Hf. cbn. congruence.
Qed.

Lemma u_exact_disabled ls l : disable_exact_detect l = true -> u_exact ls l = Some (lu l).
Proof. unfold u_exact. intros ->. reflexivity. Qed.

Lemma multi_column_level_never_supplies c s : (2 <= length (exact_cols s))%nat -> is_exact_on c s = false.
Proof. unfold is_exact_on. destruct (exact_cols s) as [|a [|b t]]; cbn; intros H; try lia; reflexivity. Qed.

(* the documented factor with the supplier made explicit *)
Lemma tf_adj_formula_supplier pow tfs ls l cvv k tfl tfr l' r' i s :
  tf_active l cvv = true -> tf_col l = Some k -> tfs k = (tfl, tfr) ->
  coalesce2 tfl tfr = Some l' -> coalesce2 tfr tfl = Some r' ->
  0 <= l' -> 0 <= r' -> 0 <= tf_min_u l ->
  0 < Qmax (Qmax l' r') (tf_min_u l) ->
  disable_exact_detect l = false ->
  nth_error ls i = Some s -> exact_cols s = [k] ->
  (forall j y, (j < i)%nat -> nth_error ls j = Some y -> exact_cols y <> [k]) ->
  exists d, d == Qmax (Qmax l' r') (tf_min_u l) /\ 0 < d /\
            tf_adj pow tfs ls l cvv = pow (lu s / d) (tf_w l).
Proof.
  intros Ha Hk Ht Hl Hr Pl Pr Pm Pd Hd Hn He Hb.
  assert (Hu : u_exact ls l = Some (lu s)) by (apply (u_exact_supplier ls l k (lu s) Hd Hk); exists i, s; auto).
  exact (tf_adj_formula pow tfs ls l cvv k tfl tfr l' r' (lu s) Ha Hk Ht Hl Hr Pl Pr Pm Pd Hu).
Qed.

(* ------------------------------------------------------------------------------------ *)
(* waterfall: the bars the chart code builds (prior bar, then per comparison the Bayes-factor bar and, when the
   comparison has TF adjustments, the TF bar) and their log2 adding up to log2 of the score *)
Fixpoint fin_vals (l : list xq) : option (list Q) :=
  match l with
  | [] => Some []
  | Fin q :: t => option_map (cons q) (fin_vals t)
  | Inf :: _ => None
  end.

Lemma fold_left_xmul_fin_vals ts qs a :
  fin_vals ts = Some qs -> fold_left xmul ts (Fin a) = Fin (fold_left Qmult qs a).
Proof.
  revert qs a. induction ts as [|x t IH]; intros qs a H; cbn in H.
  - injection H as <-. reflexivity.
  - destruct x as [q|]; [|discriminate]. destruct (fin_vals t) as [r|] eqn:E; [|discriminate].
    injection H as <-. cbn. apply IH; auto.
Qed.

Lemma Q2R_fold_mult qs a : Q2R (fold_left Qmult qs a) = (Q2R a * prodR (map Q2R qs))%R.
Proof.
  revert a. induction qs as [|q t IH]; intros a; cbn.
  - ring.
  - rewrite IH, Q2R_mult. ring.
Qed.

Lemma Forall_Q2R_pos qs : Forall (fun q => 0 < q) qs -> Forall (fun x => (0 < x)%R) (map Q2R qs).
Proof.
  induction 1; cbn; constructor; auto.
  replace 0%R with (Q2R 0) by (unfold Q2R; cbn; lra). apply Qlt_Rlt; auto.
Qed.

(* the chart's bars add up: sum of log2(bar) over prior + per-comparison bars = log2 of the final bar = match weight *)
Lemma waterfall_sums_to_score p cs qs :
  fin_vals (waterfall_records p cs) = Some qs -> Forall (fun q => 0 < q) qs ->
  exists s, waterfall_final p cs = Fin s /\ 0 < s /\ sum_log2 (map Q2R qs) = log2R (Q2R s).
Proof.
  unfold waterfall_records, waterfall_final, score_of_cols, product. intros H Hpos.
  cbn [fin_vals] in H. destruct (prior_odds p) as [a|]; [|discriminate].
  destruct (fin_vals (all_terms cs)) as [qs'|] eqn:E; [|discriminate]. injection H as <-.
  exists (fold_left Qmult qs' a). rewrite (fold_left_xmul_fin_vals _ _ _ E).
  pose proof (Forall_Q2R_pos _ Hpos) as HR. cbn [map] in HR.
  assert (Hs : Q2R (fold_left Qmult qs' a) = prodR (map Q2R (a :: qs'))) by (rewrite Q2R_fold_mult; reflexivity).
  split; [reflexivity|]. split.
  - apply Rlt_Qlt. replace (Q2R 0) with 0%R by (unfold Q2R; cbn; lra). rewrite Hs. apply prodR_pos; auto.
  - rewrite Hs. apply waterfall_adds_up; auto.
Qed.
