(* The skeleton comparison of Model/CCSkel.v decides equality of skeletons. *)
From Coq Require Import String List Bool.
From Splinkv Require Import Model.CCSkel.
Import ListNotations.

Section sx_ind'.
  Variable P : sx -> Prop.
  Hypothesis H : forall s k, Forall P k -> P (N s k).
  Fixpoint sx_ind' (a : sx) : P a :=
    match a with
    | N s k => H s k ((fix go (k : list sx) : Forall P k :=
                         match k with
                         | [] => Forall_nil _
                         | p :: k' => Forall_cons p (sx_ind' p) (go k')
                         end) k)
    end.
End sx_ind'.

Lemma sx_eqb_eq a : forall b, sx_eqb a b = true -> a = b.
Proof.
  induction a as [s k IH] using sx_ind'. intros [t l] H. cbn [sx_eqb] in H.
  apply andb_true_iff in H. destruct H as [H1 H2]. apply String.eqb_eq in H1. subst t. f_equal.
  revert l H2. induction IH as [|p k Hp _ IHk]; intros [|q l] H; cbn in H; try discriminate; auto.
  apply andb_true_iff in H. destruct H as [Hq Hl]. f_equal; auto.
Qed.

Lemma sx_eqb_refl a : sx_eqb a a = true.
Proof.
  induction a as [s k IH] using sx_ind'. cbn [sx_eqb]. rewrite String.eqb_refl. cbn.
  induction IH as [|p k Hp _ IHk]; cbn; [reflexivity|]. now rewrite Hp, IHk.
Qed.

Theorem skel_ok_iff name s :
  skel_ok (name, s) = true <-> lookup_sk name expected = Some s.
Proof.
  unfold skel_ok. cbn [fst snd]. destruct (lookup_sk name expected) as [e|].
  - split; [intros H; f_equal; now apply sx_eqb_eq|intros [= ->]; apply sx_eqb_refl].
  - split; discriminate.
Qed.
