(* Proofs for Model/Creators.v: a program accepted by the effect-summary checker is
   history independent. *)
From Coq Require Import List Bool String Arith Lia.
From Splinkv Require Import Model.Creators.
Import ListNotations.
Open Scope string_scope.
Open Scope list_scope.

(* ------------------------------------------------------------------ induction over nested statements *)
Section stmt_ind2.
  Variable P : stmt -> Prop.
  Hypothesis HSet : forall a e, P (SSet a e).
  Hypothesis HMut : forall a e, P (SMutate a e).
  Hypothesis HIf : forall c body orelse, Forall P body -> Forall P orelse -> P (SIf c body orelse).
  Fixpoint stmt_ind2 (s : stmt) : P s :=
    match s with
    | SSet a e => HSet a e
    | SMutate a e => HMut a e
    | SIf c body orelse =>
        let go := (fix go (l : list stmt) : Forall P l :=
                       match l with
                       | [] => Forall_nil P
                       | x :: r => Forall_cons x (stmt_ind2 x) (go r)
                       end) in
        HIf c body orelse (go body) (go orelse)
    end.
End stmt_ind2.

(* the anonymous inner fixpoints are the top-level list functions *)
Lemma exec_if : forall truth c body orelse st d,
  exec_stmt truth (SIf c body orelse) st d =
  exec truth (if truth (ev c st d) then body else orelse) st d.
Proof.
  intros. simpl. generalize (if truth (ev c st d) then body else orelse). intro l.
  revert st. induction l as [|x r IH]; intro st; simpl; [reflexivity|]. apply IH.
Qed.

Lemma chk_if : forall W c body orelse D,
  chk_stmt W (SIf c body orelse) D =
  if reads_ok W D c then
    match chk W body D, chk W orelse D with
    | Some D1, Some D2 => Some (filter (fun a => mem a D2) D1)
    | _, _ => None
    end
  else None.
Proof.
  intros. simpl. destruct (reads_ok W D c); [|reflexivity].
  assert (H : forall l D0,
    (fix go (l : list stmt) (D1 : list string) : option (list string) :=
       match l with
       | [] => Some D1
       | x :: r => match chk_stmt W x D1 with Some D' => go r D' | None => None end
       end) l D0 = chk W l D0).
  { induction l as [|x r IH]; intro D0; simpl; [reflexivity|].
    destruct (chk_stmt W x D0); [apply IH|reflexivity]. }
  rewrite !H. reflexivity.
Qed.

Lemma writes_if : forall c body orelse, writes_stmt (SIf c body orelse) = writes body ++ writes orelse.
Proof.
  intros. simpl.
  assert (H : forall l, (fix go (l : list stmt) : list string :=
                           match l with [] => [] | x :: r => writes_stmt x ++ go r end) l = writes l).
  { induction l as [|x r IH]; simpl; [reflexivity|]. rewrite IH. reflexivity. }
  rewrite !H. reflexivity.
Qed.

(* ------------------------------------------------------------------ agreement of states *)
Definition okP (W D : list string) (a : string) : Prop := mem a W = false \/ mem a D = true.
Definition agree (P : string -> Prop) (s1 s2 : state) : Prop := forall a, P a -> s1 a = s2 a.

Lemma mem_cons : forall a b D, mem a (b :: D) = String.eqb a b || mem a D.
Proof. reflexivity. Qed.

Lemma okP_mono : forall W D b a, okP W D a -> okP W (b :: D) a.
Proof.
  intros W D b a [H|H]; [left; exact H|right]. rewrite mem_cons, H. apply orb_true_r.
Qed.

Lemma ev_agree : forall W D e s1 s2 d,
  reads_ok W D e = true -> agree (okP W D) s1 s2 -> ev e s1 d = ev e s2 d.
Proof.
  intros W D e s1 s2 d. unfold reads_ok. induction e; simpl; intros Hr Ha; try reflexivity.
  - apply Ha. rewrite andb_true_r in Hr. apply orb_true_iff in Hr. destruct Hr as [H|H].
    + left. apply negb_true_iff in H. exact H.
    + right. exact H.
  - rewrite IHe; auto.
  - rewrite forallb_app in Hr. apply andb_true_iff in Hr. destruct Hr as [H1 H2].
    rewrite IHe1, IHe2; auto.
Qed.

Lemma agree_upd : forall W D a v s1 s2,
  agree (okP W D) s1 s2 -> agree (okP W (a :: D)) (upd s1 a v) (upd s2 a v).
Proof.
  intros W D a v s1 s2 H b Hb. unfold upd. destruct (String.eqb b a) eqn:E; [reflexivity|].
  apply H. destruct Hb as [Hb|Hb]; [left; exact Hb|right]. rewrite mem_cons, E in Hb. exact Hb.
Qed.

(* D only grows, and agreement on (stable or defined) attributes is preserved *)
Definition stmt_sound (truth : tm -> bool) (W : list string) (d : tm) (s : stmt) : Prop :=
  forall D D' s1 s2, chk_stmt W s D = Some D' -> agree (okP W D) s1 s2 ->
    agree (okP W D') (exec_stmt truth s s1 d) (exec_stmt truth s s2 d) /\
    (forall a, okP W D a -> okP W D' a).

Lemma list_sound : forall truth W d body, Forall (stmt_sound truth W d) body ->
  forall D D' s1 s2, chk W body D = Some D' -> agree (okP W D) s1 s2 ->
    agree (okP W D') (exec truth body s1 d) (exec truth body s2 d) /\
    (forall a, okP W D a -> okP W D' a).
Proof.
  intros truth W d body HF. induction HF as [|x r Hx HF IH]; simpl; intros D D' s1 s2 Hc Ha.
  - inversion Hc; subst. split; [exact Ha|auto].
  - destruct (chk_stmt W x D) as [D1|] eqn:E; [|discriminate].
    destruct (Hx D D1 s1 s2 E Ha) as [Ha1 Hm1].
    destruct (IH D1 D' _ _ Hc Ha1) as [Ha2 Hm2]. split; [exact Ha2|auto].
Qed.

Lemma stmt_sound_all : forall truth W d s, stmt_sound truth W d s.
Proof.
  intros truth W d. apply stmt_ind2; unfold stmt_sound.
  - intros a e D D' s1 s2 Hc Ha. simpl in Hc. destruct (reads_ok W D e) eqn:Er; [|discriminate].
    inversion Hc; subst. simpl. rewrite (ev_agree W D e s1 s2 d Er Ha). split.
    + apply agree_upd. exact Ha.
    + intros. apply okP_mono. assumption.
  - intros a e D D' s1 s2 Hc. discriminate.
  - intros c body orelse HF1 HF2 D D' s1 s2 Hc Ha. rewrite chk_if in Hc.
    destruct (reads_ok W D c) eqn:Er; [|discriminate].
    destruct (chk W body D) as [D1|] eqn:Eb; [|discriminate].
    destruct (chk W orelse D) as [D2|] eqn:Eo; [|discriminate]. inversion Hc; subst.
    rewrite !exec_if. rewrite (ev_agree W D c s1 s2 d Er Ha).
    destruct (list_sound truth W d body HF1 D D1 s1 s2 Eb Ha) as [Ha1 Hm1].
    destruct (list_sound truth W d orelse HF2 D D2 s1 s2 Eo Ha) as [Ha2 Hm2].
    assert (Hsub : forall a, okP W (filter (fun a0 => mem a0 D2) D1) a -> okP W D1 a /\ okP W D2 a).
    { intros a [H|H]; [split; left; exact H|].
      unfold mem in H. apply existsb_exists in H. destruct H as [x [Hin Hx]].
      apply String.eqb_eq in Hx. subst x. apply filter_In in Hin. destruct Hin as [Hin Hm].
      split; right; [|exact Hm]. unfold mem. apply existsb_exists. exists a. split; [exact Hin|apply String.eqb_refl]. }
    split.
    + intros a Hok. destruct (Hsub a Hok) as [H1 H2].
      destruct (truth (ev c s2 d)); [apply Ha1; exact H1|apply Ha2; exact H2].
    + intros a Hok. destruct (Hm1 a Hok) as [H|H]; [left; exact H|].
      destruct (Hm2 a Hok) as [H'|H']; [left; exact H'|]. right.
      unfold mem in *. apply existsb_exists in H. destruct H as [x [Hin Hx]]. apply String.eqb_eq in Hx. subst x.
      apply existsb_exists. exists a. split; [|apply String.eqb_refl]. apply filter_In. split; [exact Hin|exact H'].
Qed.

Lemma prog_sound : forall truth W d p D D' s1 s2,
  chk W p D = Some D' -> agree (okP W D) s1 s2 ->
  agree (okP W D') (exec truth p s1 d) (exec truth p s2 d).
Proof.
  intros truth W d p D D' s1 s2 Hc Ha.
  refine (proj1 (list_sound truth W d p _ D D' s1 s2 Hc Ha)).
  apply Forall_forall. intros. apply stmt_sound_all.
Qed.

(* ------------------------------------------------------------------ frame: unwritten attributes stay *)
Lemma mem_app : forall a l1 l2, mem a (l1 ++ l2) = mem a l1 || mem a l2.
Proof. intros. unfold mem. apply existsb_app. Qed.

Definition stmt_frame (truth : tm -> bool) (d : tm) (s : stmt) : Prop :=
  forall st a, mem a (writes_stmt s) = false -> exec_stmt truth s st d a = st a.

Lemma list_frame : forall truth d body, Forall (stmt_frame truth d) body ->
  forall st a, mem a (writes body) = false -> exec truth body st d a = st a.
Proof.
  intros truth d body HF. induction HF as [|x r Hx HF IH]; simpl; intros st a Hm; [reflexivity|].
  rewrite mem_app in Hm. apply orb_false_iff in Hm. destruct Hm as [H1 H2].
  rewrite IH by exact H2. apply Hx. exact H1.
Qed.

Lemma stmt_frame_all : forall truth d s, stmt_frame truth d s.
Proof.
  intros truth d. apply stmt_ind2; unfold stmt_frame.
  - intros a e st b Hm. simpl in *. rewrite orb_false_r in Hm. unfold upd. rewrite Hm. reflexivity.
  - intros a e st b Hm. simpl in *. rewrite orb_false_r in Hm. unfold upd. rewrite Hm. reflexivity.
  - intros c body orelse HF1 HF2 st a Hm. rewrite exec_if. rewrite writes_if in Hm.
    rewrite mem_app in Hm. apply orb_false_iff in Hm. destruct Hm as [H1 H2].
    destruct (truth (ev c st d)); apply list_frame; assumption.
Qed.

Lemma prog_frame : forall truth d p st a, mem a (writes p) = false -> exec truth p st d a = st a.
Proof.
  intros. apply list_frame; [|assumption]. apply Forall_forall. intros. apply stmt_frame_all.
Qed.

(* ------------------------------------------------------------------ history independence *)
Definition stable (p : list stmt) (a : string) : Prop := mem a (writes p) = false.

Lemma agree_stable_okP : forall p s1 s2, agree (stable p) s1 s2 -> agree (okP (writes p) []) s1 s2.
Proof. intros p s1 s2 H a [Ha|Ha]; [apply H; exact Ha|discriminate]. Qed.

Theorem pure_call_equal : forall truth p out s1 s2 d,
  pure p out = true -> agree (stable p) s1 s2 ->
  snd (call truth p out s1 d) = snd (call truth p out s2 d).
Proof.
  intros truth p out s1 s2 d Hp Ha. unfold pure in Hp. unfold call. simpl.
  destruct (chk (writes p) p []) as [D|] eqn:Ec; [|discriminate].
  apply (ev_agree (writes p) D); [exact Hp|].
  eapply prog_sound; [exact Ec|]. apply agree_stable_okP. exact Ha.
Qed.

Theorem pure_history : forall truth p out,
  pure p out = true ->
  forall hist st st0, agree (stable p) st st0 ->
    fst (run truth p out st hist) = map (fun d => snd (call truth p out st0 d)) hist /\
    agree (stable p) (snd (run truth p out st hist)) st0.
Proof.
  intros truth p out Hp. induction hist as [|d h IH]; intros st st0 Ha; simpl.
  - split; [reflexivity|exact Ha].
  - assert (Ha' : agree (stable p) (exec truth p st d) st0).
    { intros a Hs. rewrite prog_frame by exact Hs. apply Ha. exact Hs. }
    destruct (IH (exec truth p st d) st0 Ha') as [H1 H2].
    destruct (run truth p out (exec truth p st d) h) as [os stf] eqn:Er. simpl in *.
    split; [|exact H2]. f_equal; [|exact H1].
    exact (pure_call_equal truth p out st st0 d Hp Ha).
Qed.

(* ------------------------------------------------------------------ self-dependent writes *)
Lemma tm_size_neq : forall t f, t <> TFn f t.
Proof.
  intros t f H. assert (Hs : tm_size t = tm_size (TFn f t)) by (rewrite <- H; reflexivity).
  simpl in Hs. lia.
Qed.

Theorem selfdependent_two_calls_differ : forall truth f a st0 d1 d2,
  let p := [SSet a (AFn f (AAttr a))] in
  exists o1 o2, fst (run truth p (AAttr a) st0 [d1; d2]) = [o1; o2] /\ o1 <> o2.
Proof.
  intros truth f a st0 d1 d2 p. simpl. unfold upd. rewrite !String.eqb_refl.
  eexists. eexists. split; [reflexivity|]. intro H. inversion H as [H1]. exact (tm_size_neq _ _ H1).
Qed.

Lemma selfdependent_summary : forall f a,
  pure [SSet a (AFn f (AAttr a))] (AAttr a) = false /\
  summary [SSet a (AFn f (AAttr a))] = [(a, SelfDependent)].
Proof.
  intros f a. unfold pure, summary. simpl. unfold reads_ok, mem. simpl.
  rewrite !String.eqb_refl. simpl. split; reflexivity.
Qed.

(* a mutation (append / += / unknown call) is never accepted *)
Lemma mutate_rejected : forall a e rest out, pure (SMutate a e :: rest) out = false.
Proof. intros. unfold pure. simpl. reflexivity. Qed.

(* ------------------------------------------------------------------ summary and checker agree *)
Definition is_sfa (x : string * wclass) : bool := wclass_eqb (snd x) SetFromArg.

Fixpoint summary_list (W : list string) (l : list stmt) (D : list string)
  : list (string * wclass) * list string :=
  match l with
  | [] => ([], D)
  | x :: r => let (s1, D1) := summary_stmt W x D in
              let (s2, D2) := summary_list W r D1 in (s1 ++ s2, D2)
  end.

Lemma summary_if : forall W c body orelse D,
  summary_stmt W (SIf c body orelse) D =
  ((if reads_ok W D c then [] else [("<condition>", Unknown)])
     ++ fst (summary_list W body D) ++ fst (summary_list W orelse D),
   filter (fun a => mem a (snd (summary_list W orelse D))) (snd (summary_list W body D))).
Proof.
  intros. simpl.
  assert (H : forall l D0,
    (fix go (l : list stmt) (D1 : list string) : list (string * wclass) * list string :=
       match l with
       | [] => ([], D1)
       | x :: r => let (s1, D2) := summary_stmt W x D1 in
                   let (s2, D3) := go r D2 in (s1 ++ s2, D3)
       end) l D0 = summary_list W l D0).
  { induction l as [|x r IH]; intro D0; simpl; [reflexivity|].
    destruct (summary_stmt W x D0) as [s1 D2]. rewrite IH. reflexivity. }
  rewrite !H. reflexivity.
Qed.

Lemma summary_from_list : forall W p D, summary_from W p D = fst (summary_list W p D).
Proof.
  intros W p. induction p as [|x r IH]; intro D; simpl; [reflexivity|].
  destruct (summary_stmt W x D) as [s1 D1]. rewrite IH.
  destruct (summary_list W r D1). reflexivity.
Qed.

Definition stmt_summ (W : list string) (s : stmt) : Prop :=
  forall D, forallb is_sfa (fst (summary_stmt W s D)) = true ->
            chk_stmt W s D = Some (snd (summary_stmt W s D)).

Lemma list_summ : forall W body, Forall (stmt_summ W) body ->
  forall D, forallb is_sfa (fst (summary_list W body D)) = true ->
            chk W body D = Some (snd (summary_list W body D)).
Proof.
  intros W body HF. induction HF as [|x r Hx HF IH]; simpl; intros D H; [reflexivity|].
  specialize (Hx D). destruct (summary_stmt W x D) as [s1 D1] eqn:E1. simpl in *.
  specialize (IH D1). destruct (summary_list W r D1) as [s2 D2] eqn:E2. simpl in *.
  rewrite forallb_app in H. apply andb_true_iff in H. destruct H as [H1 H2].
  rewrite (Hx H1). apply IH. exact H2.
Qed.

Lemma stmt_summ_all : forall W s, stmt_summ W s.
Proof.
  intro W. apply stmt_ind2; unfold stmt_summ.
  - intros a e D H. simpl in *. destruct (reads_ok W D e); [reflexivity|].
    destruct (mem a (reads e) && negb (mem a D)); simpl in H; discriminate.
  - intros a e D H. simpl in H. discriminate.
  - intros c body orelse HF1 HF2 D H. rewrite summary_if in H. simpl in H. rewrite chk_if, summary_if. simpl.
    rewrite !forallb_app in H. apply andb_true_iff in H. destruct H as [H1 H2].
    apply andb_true_iff in H2. destruct H2 as [H2 H3].
    destruct (reads_ok W D c); [|simpl in H1; discriminate].
    rewrite (list_summ W body HF1 D H2), (list_summ W orelse HF2 D H3). reflexivity.
Qed.

(* every write classified SetFromArg (and the output reads only stable or defined attributes)
   is exactly what the checker `pure` accepts *)
Theorem summary_ok_pure : forall p out,
  forallb is_sfa (summary p) = true ->
  reads_ok (writes p) (snd (summary_list (writes p) p [])) out = true ->
  pure p out = true.
Proof.
  intros p out Hs Ho. unfold pure, summary in *. rewrite summary_from_list in Hs.
  rewrite (list_summ (writes p) p); [exact Ho| |exact Hs].
  apply Forall_forall. intros. apply stmt_summ_all.
Qed.

(* ------------------------------------------------------------------ user-visible state *)
Lemma not_slot_not_written : forall p a,
  writes_only_dialect_slots p = true -> is_dialect_slot a = false -> mem a (writes p) = false.
Proof.
  intros p a Hw Ha. unfold writes_only_dialect_slots in Hw. rewrite forallb_forall in Hw.
  destruct (mem a (writes p)) eqn:E; [|reflexivity]. unfold mem in E. apply existsb_exists in E.
  destruct E as [x [Hin Hx]]. apply String.eqb_eq in Hx. subst x. rewrite (Hw a Hin) in Ha. discriminate.
Qed.

Theorem user_visible_unchanged : forall truth p out,
  writes_only_dialect_slots p = true ->
  forall st0 hist a, is_dialect_slot a = false -> snd (run truth p out st0 hist) a = st0 a.
Proof.
  intros truth p out Hw st0 hist. revert st0. induction hist as [|d h IH]; intros st0 a Ha; simpl; [reflexivity|].
  destruct (run truth p out (exec truth p st0 d) h) as [os stf] eqn:Er. simpl.
  specialize (IH (exec truth p st0 d) a Ha). rewrite Er in IH. simpl in IH. rewrite IH.
  apply prog_frame. apply not_slot_not_written; assumption.
Qed.
