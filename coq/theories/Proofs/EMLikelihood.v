(* One EM step of the Gallina model of Splink's training (Model/EM.v) never lowers the
   observed-data log-likelihood (no term-frequency adjustments, no per-level fix flags,
   arbitrary session flags fix_m / fix_u / fix_lam: a generalised EM step).

   Layout: definitions; Gibbs / two-point Jensen over the reals; generic sumQ / sumR lemmas;
   rational-level lemmas (posterior in closed form, what the M-step writes, the slack of
   every block is non-negative); real-level lemmas (per-row bound); the main theorem
   likelihood_monotone; preservation of the hypotheses; monotonicity along em_history. *)
From Coq Require Import List ZArith QArith Qreduction Qabs Reals Qreals Lra Lia Psatz.
From Splinkv Require Import Model.EM.
Import ListNotations.
Open Scope Q_scope.

(* ------------------------------------------------------------------------------------ *)
(* Definitions                                                                           *)
(* ------------------------------------------------------------------------------------ *)

(* no-TF mixture density of one gamma vector, in Q *)
Definition lvl_m (c : cmp) (g : Z) : Q :=
  if Z.eqb g (-1) then 1 else match find_level c g with Some l => rd (lv_m l) | None => 1 end.
Definition lvl_u (c : cmp) (g : Z) : Q :=
  if Z.eqb g (-1) then 1 else match find_level c g with Some l => rd (lv_u l) | None => 1 end.
Fixpoint prodM (cs : list cmp) (g : list Z) : Q :=
  match cs with [] => 1 | c :: t => lvl_m c (hd (-1)%Z g) * prodM t (tl g) end.
Fixpoint prodU (cs : list cmp) (g : list Z) : Q :=
  match cs with [] => 1 | c :: t => lvl_u c (hd (-1)%Z g) * prodU t (tl g) end.
Definition mixQ (p : params) (g : list Z) : Q :=
  lam p * prodM (cmps p) g + (1 - lam p) * prodU (cmps p) g.
Definition sumR {A : Type} (f : A -> R) (l : list A) : R :=
  fold_right (fun x a => (f x + a)%R) 0%R l.
Definition loglik (p : params) (data : list drow) : R :=
  sumR (fun r => (Q2R (dw r) * ln (Q2R (mixQ p (dg r))))%R) data.

(* hypotheses of the theorem *)
Definition all_levels (P : level -> Prop) (p : params) : Prop :=
  forall c l, In c (cmps p) -> In l c -> P l.
Definition no_tf (p : params) : Prop := all_levels (fun l => lv_tfu l = None) p.
Definition no_level_fix (p : params) : Prop :=
  all_levels (fun l => lv_fixm l = false /\ lv_fixu l = false) p.
Definition levels_pos (p : params) : Prop :=
  all_levels (fun l => 0 < rd (lv_m l) /\ 0 < rd (lv_u l)) p.
Definition cmps_wf (p : params) : Prop :=
  forall c, In c (cmps p) -> NoDup (map lv_val c) /\ ~ In (-1)%Z (map lv_val c).
(* each entry of the gamma vector is -1 or the value of a level of its comparison; entries
   beyond the end of a (too short) vector read as -1, exactly as in the model *)
Definition row_ok (cs : list cmp) (g : list Z) : Prop :=
  forall i c, nth_error cs i = Some c ->
    nth i g (-1)%Z = (-1)%Z \/ In (nth i g (-1)%Z) (map lv_val c).
Definition data_ok (p : params) (data : list drow) : Prop :=
  data <> [] /\ forall r, In r data -> 0 < dw r /\ row_ok (cmps p) (dg r).
Definition lam_ok (p : params) : Prop := 0 < lam p /\ lam p < 1.
Definition mass_m (i : nat) (sc : list srow) (c : cmp) : Q :=
  sumQ (fun l => if observed i (lv_val l) sc then rd (lv_m l) else 0) c.
Definition mass_u (i : nat) (sc : list srow) (c : cmp) : Q :=
  sumQ (fun l => if observed i (lv_val l) sc then rd (lv_u l) else 0) c.
Definition subnormal (p : params) (data : list drow) : Prop :=
  forall i c, nth_error (cmps p) i = Some c ->
    mass_m i (estep p data) c <= 1 /\ mass_u i (estep p data) c <= 1.

(* ------------------------------------------------------------------------------------ *)
(* Gibbs' inequality and two-point Jensen for ln (from docs/spikes/em_Gibbs.v)           *)
(* ------------------------------------------------------------------------------------ *)
Section Gibbs.
Open Scope R_scope.

Lemma ln_le_minus1 y : 0 < y -> ln y <= y - 1.
Proof.
  intros Hy. pose proof (exp_ineq1_le (ln y)) as H. rewrite exp_ln in H by assumption. lra.
Qed.

(* weighted sum over a list of (p,q) pairs *)
Fixpoint sump (l : list (R*R)) : R := match l with [] => 0 | (p,_) :: t => p + sump t end.
Fixpoint sumq (l : list (R*R)) : R := match l with [] => 0 | (_,q) :: t => q + sumq t end.
Fixpoint kl (l : list (R*R)) : R := match l with [] => 0 | (p,q) :: t => p * ln (q / p) + kl t end.

Lemma gibbs_aux l : Forall (fun pq => 0 < fst pq /\ 0 < snd pq) l -> kl l <= sumq l - sump l.
Proof.
  induction 1 as [|[p q] t [Hp Hq] _ IH]; cbn [kl sumq sump fst snd] in *; [lra|].
  assert (0 < q / p) by (apply Rdiv_lt_0_compat; assumption).
  pose proof (ln_le_minus1 (q/p) H) as L.
  assert (p * ln (q/p) <= p * (q/p - 1)) by (apply Rmult_le_compat_l; lra).
  replace (p * (q/p - 1)) with (q - p) in H0 by (field; lra). lra.
Qed.

Theorem gibbs l : Forall (fun pq => 0 < fst pq /\ 0 < snd pq) l -> sump l = sumq l -> kl l <= 0.
Proof. intros H E. pose proof (gibbs_aux l H). lra. Qed.

Lemma ln_div_pos a b : 0 < a -> 0 < b -> ln (a / b) = ln a - ln b.
Proof.
  intros Ha Hb. unfold Rdiv.
  rewrite ln_mult by (try assumption; apply Rinv_0_lt_compat; assumption).
  rewrite ln_Rinv by assumption. lra.
Qed.

(* two-point Jensen for ln, derived from gibbs: ln (p x + (1-p) y) >= p ln x + (1-p) ln y *)
Lemma jensen2 p x y : 0 < p < 1 -> 0 < x -> 0 < y -> p * ln x + (1-p) * ln y <= ln (p*x + (1-p)*y).
Proof.
  intros [Hp0 Hp1] Hx Hy.
  set (s := p*x + (1-p)*y).
  assert (Hs : 0 < s) by (unfold s; nra).
  (* apply gibbs to [(p, p*x/s); (1-p, (1-p)*y/s)] *)
  assert (G := gibbs [(p, p*x/s); (1-p, (1-p)*y/s)]).
  cbn [kl sump sumq] in G.
  assert (Hq1 : 0 < p*x/s) by (apply Rdiv_lt_0_compat; nra).
  assert (Hq2 : 0 < (1-p)*y/s) by (apply Rdiv_lt_0_compat; nra).
  assert (F : Forall (fun pq : R*R => 0 < fst pq /\ 0 < snd pq) [(p, p*x/s); (1-p, (1-p)*y/s)]).
  { repeat constructor; cbn; lra. }
  assert (E : p + ((1-p) + 0) = p*x/s + ((1-p)*y/s + 0)).
  { unfold s. field. unfold s in Hs. lra. }
  specialize (G F E).
  replace (p*x/s/p) with (x/s) in G by (field; lra).
  replace ((1-p)*y/s/(1-p)) with (y/s) in G by (field; lra).
  assert (D : forall a b, 0 < a -> 0 < b -> ln (a / b) = ln a - ln b).
  { intros a b Ha Hb. unfold Rdiv. rewrite ln_mult by (try assumption; apply Rinv_0_lt_compat; assumption). rewrite ln_Rinv by assumption. lra. }
  rewrite !D in G by lra. fold s. nra.
Qed.

(* ln x' - ln x >= 1 - x / x' *)
Lemma ln_diff_lower x x' : 0 < x -> 0 < x' -> 1 - x / x' <= ln x' - ln x.
Proof.
  intros Hx Hx'.
  assert (H : 0 < x / x') by (apply Rdiv_lt_0_compat; assumption).
  pose proof (ln_le_minus1 _ H) as L. rewrite ln_div_pos in L by assumption. lra.
Qed.

(* the per-row bound in its real-number form *)
Lemma mix_step a b a' b' sa sb :
  0 < a -> 0 < b -> 0 < a' -> 0 < b' ->
  sa <= ln a' - ln a -> sb <= ln b' - ln b ->
  a / (a + b) * sa + (1 - a / (a + b)) * sb <= ln (a' + b') - ln (a + b).
Proof.
  intros Ha Hb Ha' Hb' Hsa Hsb.
  set (t := a / (a + b)).
  assert (Hab : 0 < a + b) by lra.
  assert (Ht0 : 0 < t) by (unfold t; apply Rdiv_lt_0_compat; assumption).
  assert (Ht1 : 1 - t = b / (a + b)) by (unfold t; field; lra).
  assert (Ht1' : 0 < 1 - t) by (rewrite Ht1; apply Rdiv_lt_0_compat; assumption).
  assert (Hx : 0 < a' / a) by (apply Rdiv_lt_0_compat; assumption).
  assert (Hy : 0 < b' / b) by (apply Rdiv_lt_0_compat; assumption).
  assert (Ht2 : 0 < t < 1) by lra.
  pose proof (jensen2 t (a'/a) (b'/b) Ht2 Hx Hy) as J.
  replace (t * (a'/a) + (1 - t) * (b'/b)) with ((a' + b') / (a + b)) in J
    by (rewrite Ht1; unfold t; field; lra).
  rewrite !ln_div_pos in J by lra.
  assert (t * sa <= t * (ln a' - ln a)) by (apply Rmult_le_compat_l; lra).
  assert ((1 - t) * sb <= (1 - t) * (ln b' - ln b)) by (apply Rmult_le_compat_l; lra).
  lra.
Qed.

End Gibbs.

(* ------------------------------------------------------------------------------------ *)
(* Generic sumQ / sumR lemmas                                                            *)
(* ------------------------------------------------------------------------------------ *)
Lemma sumQ_nil {A : Type} (f : A -> Q) : sumQ f [] = 0.
Proof. reflexivity. Qed.
(* the model keeps the running total in lowest terms: qadd a b = Qred (a + b) *)
Lemma sumQ_cons {A : Type} (f : A -> Q) x t : sumQ f (x :: t) == f x + sumQ f t.
Proof. unfold sumQ. cbn [fold_right]. unfold qadd. apply Qred_correct. Qed.
Lemma sumQ_cons_eq {A : Type} (f : A -> Q) x t : sumQ f (x :: t) = qadd (f x) (sumQ f t).
Proof. reflexivity. Qed.
Arguments sumQ : simpl never.
Lemma sumR_nil {A : Type} (f : A -> R) : sumR f [] = 0%R.
Proof. reflexivity. Qed.
Lemma sumR_cons {A : Type} (f : A -> R) x t : sumR f (x :: t) = (f x + sumR f t)%R.
Proof. reflexivity. Qed.
Ltac sq := rewrite ?sumQ_cons, ?sumQ_nil, ?sumR_cons, ?sumR_nil.

Section Sums.
Context {A : Type}.

Lemma sumQ_ext (f g : A -> Q) l : (forall x, In x l -> f x == g x) -> sumQ f l == sumQ g l.
Proof.
  induction l as [|x t IH]; intros H; sq; [reflexivity|].
  rewrite (H x (or_introl eq_refl)), IH; [reflexivity|]. intros y Hy. apply H. right. exact Hy.
Qed.

Lemma sumQ_plus (f g : A -> Q) l : sumQ (fun x => f x + g x) l == sumQ f l + sumQ g l.
Proof. induction l as [|x t IH]; sq; [reflexivity|]. rewrite IH. ring. Qed.

Lemma sumQ_minus (f g : A -> Q) l : sumQ (fun x => f x - g x) l == sumQ f l - sumQ g l.
Proof. induction l as [|x t IH]; sq; [reflexivity|]. rewrite IH. ring. Qed.

Lemma sumQ_scale_l (k : Q) (f : A -> Q) l : sumQ (fun x => k * f x) l == k * sumQ f l.
Proof. induction l as [|x t IH]; sq; [ring|]. rewrite IH. ring. Qed.

Lemma sumQ_scale_r (k : Q) (f : A -> Q) l : sumQ (fun x => f x * k) l == sumQ f l * k.
Proof. induction l as [|x t IH]; sq; [ring|]. rewrite IH. ring. Qed.

Lemma sumQ_zero (f : A -> Q) l : (forall x, In x l -> f x == 0) -> sumQ f l == 0.
Proof.
  induction l as [|x t IH]; intros H; sq; [reflexivity|].
  rewrite (H x (or_introl eq_refl)), IH; [ring|]. intros y Hy. apply H. right. exact Hy.
Qed.

Lemma sumQ_nonneg (f : A -> Q) l : (forall x, In x l -> 0 <= f x) -> 0 <= sumQ f l.
Proof.
  induction l as [|x t IH]; intros H; sq; [lra|].
  pose proof (H x (or_introl eq_refl)). assert (0 <= sumQ f t) by (apply IH; intros; apply H; right; assumption). lra.
Qed.

Lemma sumQ_pos (f : A -> Q) l : l <> [] -> (forall x, In x l -> 0 < f x) -> 0 < sumQ f l.
Proof.
  intros Hne H. destruct l as [|x t]; [congruence|]. sq.
  pose proof (H x (or_introl eq_refl)).
  assert (0 <= sumQ f t) by (apply sumQ_nonneg; intros; apply Qlt_le_weak, H; right; assumption). lra.
Qed.

Lemma sumQ_filter_zero (f : A -> Q) (q : A -> bool) l :
  (forall x, In x l -> q x = false -> f x == 0) -> sumQ f (filter q l) == sumQ f l.
Proof.
  induction l as [|x t IH]; intros H; cbn [filter]; [reflexivity|].
  assert (IH' : sumQ f (filter q t) == sumQ f t) by (apply IH; intros; apply H; [right|]; assumption).
  destruct (q x) eqn:E; sq; rewrite IH'; [reflexivity|].
  rewrite (H x (or_introl eq_refl) E). ring.
Qed.

Lemma sumQ_map {B : Type} (h : B -> A) (f : A -> Q) l : sumQ f (map h l) = sumQ (fun x => f (h x)) l.
Proof. induction l as [|x t IH]; cbn [map]; [reflexivity|]. rewrite !sumQ_cons_eq, IH. reflexivity. Qed.

Lemma sumR_le (f g : A -> R) l : (forall x, In x l -> (f x <= g x)%R) -> (sumR f l <= sumR g l)%R.
Proof.
  induction l as [|x t IH]; intros H; sq; [lra|].
  pose proof (H x (or_introl eq_refl)).
  assert (sumR f t <= sumR g t)%R by (apply IH; intros; apply H; right; assumption). lra.
Qed.

Lemma sumR_minus (f g : A -> R) l : (sumR (fun x => f x - g x) l = sumR f l - sumR g l)%R.
Proof. induction l as [|x t IH]; sq; [lra|]. rewrite IH. lra. Qed.

Lemma Q2R_0 : Q2R 0 = 0%R.
Proof. unfold Q2R; cbn. lra. Qed.

Lemma Q2R_sumQ (f : A -> Q) l : Q2R (sumQ f l) = sumR (fun x => Q2R (f x)) l.
Proof.
  induction l as [|x t IH]; [rewrite sumQ_nil, sumR_nil; apply Q2R_0|].
  rewrite (Qeq_eqR _ _ (sumQ_cons f x t)), sumR_cons, Q2R_plus, IH. reflexivity.
Qed.

End Sums.

(* GROUP BY: summing the groups of the keys in ks = summing the rows whose key is in ks *)
Lemma sumQ_ite_key (k : Z) (x : Q) ks :
  NoDup ks ->
  sumQ (fun v => if Z.eqb k v then x else 0) ks == if existsb (Z.eqb k) ks then x else 0.
Proof.
  induction 1 as [|v t Hv _ IH]; sq; cbn [existsb]; [reflexivity|].
  destruct (Z.eqb k v) eqn:E; cbn [orb].
  - apply Z.eqb_eq in E. subst v.
    rewrite sumQ_zero; [ring|]. intros y Hy. destruct (Z.eqb k y) eqn:E'; [|reflexivity].
    apply Z.eqb_eq in E'. subst y. contradiction.
  - rewrite IH. ring.
Qed.

Lemma group_by {A : Type} (key : A -> Z) (f : A -> Q) ks l :
  NoDup ks ->
  sumQ (fun v => sumQ f (filter (fun r => Z.eqb (key r) v) l)) ks
  == sumQ f (filter (fun r => existsb (Z.eqb (key r)) ks) l).
Proof.
  intros Hnd. induction l as [|r t IH]; cbn [filter].
  - sq. apply sumQ_zero. intros; sq; reflexivity.
  - transitivity (sumQ (fun v => (if Z.eqb (key r) v then f r else 0)
                                + sumQ f (filter (fun r => Z.eqb (key r) v) t)) ks).
    { apply sumQ_ext. intros v _. destruct (Z.eqb (key r) v); sq; ring. }
    rewrite sumQ_plus, IH, sumQ_ite_key by assumption.
    destruct (existsb (Z.eqb (key r)) ks); sq; ring.
Qed.

(* ------------------------------------------------------------------------------------ *)
(* Rational level: levels, tables, what the M-step writes                                *)
(* ------------------------------------------------------------------------------------ *)

Lemma bool_eq_iff (a b : bool) : (a = true <-> b = true) -> a = b.
Proof. destruct a, b; intuition congruence. Qed.

Lemma existsb_eqb_In (k : Z) ks : existsb (Z.eqb k) ks = true <-> In k ks.
Proof.
  rewrite existsb_exists. split.
  - intros [x [Hx E]]. apply Z.eqb_eq in E. subst x. exact Hx.
  - intros H. exists k. split; [exact H|apply Z.eqb_refl].
Qed.

Lemma filter_map_comm {A B : Type} (h : A -> B) (q : B -> bool) l :
  filter q (map h l) = map h (filter (fun x => q (h x)) l).
Proof. induction l as [|x t IH]; cbn; [reflexivity|]. destruct (q (h x)); cbn; rewrite IH; reflexivity. Qed.

Lemma hd_skipn {A : Type} (d : A) k g : hd d (skipn k g) = nth k g d.
Proof. revert g. induction k as [|k IH]; intros [|x g]; cbn; auto. Qed.

Lemma tl_skipn {A : Type} k (g : list A) : tl (skipn k g) = skipn (S k) g.
Proof. revert g. induction k as [|k IH]; intros [|x g]; cbn; auto. apply IH. Qed.

(* levels *)
Lemma find_level_map fl t c v :
  find_level (map (upd_level fl t) c) v = option_map (upd_level fl t) (find_level c v).
Proof.
  unfold find_level. induction c as [|l c IH]; cbn; [reflexivity|].
  destruct (Z.eqb (lv_val l) v); [reflexivity|apply IH].
Qed.

Lemma find_level_of_val c v :
  In v (map lv_val c) -> exists l, find_level c v = Some l /\ In l c /\ lv_val l = v.
Proof.
  intros H. unfold find_level. destruct (find (fun l => Z.eqb (lv_val l) v) c) as [l|] eqn:E.
  - apply find_some in E. destruct E as [Hin Heq]. apply Z.eqb_eq in Heq. eauto.
  - exfalso. apply in_map_iff in H as [l [Hl Hin]].
    pose proof (find_none _ _ E l Hin) as N. cbn in N. rewrite Hl, Z.eqb_refl in N. discriminate.
Qed.

Lemma find_level_In c l : NoDup (map lv_val c) -> In l c -> find_level c (lv_val l) = Some l.
Proof.
  induction c as [|x c IH]; cbn; intros Hnd Hin; [contradiction|].
  inversion Hnd as [|? ? Hx Hnd']; subst. unfold find_level; cbn. destruct Hin as [->|Hin].
  - rewrite Z.eqb_refl. reflexivity.
  - destruct (Z.eqb (lv_val x) (lv_val l)) eqn:E.
    + apply Z.eqb_eq in E. exfalso. apply Hx. rewrite E. apply in_map. exact Hin.
    + apply IH; assumption.
Qed.

Lemma lvl_m_pos c v : (forall l, In l c -> 0 < rd (lv_m l)) -> 0 < lvl_m c v.
Proof.
  intros H. unfold lvl_m. destruct (Z.eqb v (-1)); [lra|].
  destruct (find_level c v) eqn:E; [|lra]. apply H. unfold find_level in E. apply find_some in E. tauto.
Qed.
Lemma lvl_u_pos c v : (forall l, In l c -> 0 < rd (lv_u l)) -> 0 < lvl_u c v.
Proof.
  intros H. unfold lvl_u. destruct (Z.eqb v (-1)); [lra|].
  destruct (find_level c v) eqn:E; [|lra]. apply H. unfold find_level in E. apply find_some in E. tauto.
Qed.

Lemma lvl_m_val c l :
  NoDup (map lv_val c) -> ~ In (-1)%Z (map lv_val c) -> In l c -> lvl_m c (lv_val l) = rd (lv_m l).
Proof.
  intros Hnd Hn Hin. unfold lvl_m. rewrite find_level_In by assumption.
  destruct (Z.eqb (lv_val l) (-1)) eqn:E; [|reflexivity].
  apply Z.eqb_eq in E. exfalso. apply Hn. rewrite <- E. apply in_map. exact Hin.
Qed.
Lemma lvl_u_val c l :
  NoDup (map lv_val c) -> ~ In (-1)%Z (map lv_val c) -> In l c -> lvl_u c (lv_val l) = rd (lv_u l).
Proof.
  intros Hnd Hn Hin. unfold lvl_u. rewrite find_level_In by assumption.
  destruct (Z.eqb (lv_val l) (-1)) eqn:E; [|reflexivity].
  apply Z.eqb_eq in E. exfalso. apply Hn. rewrite <- E. apply in_map. exact Hin.
Qed.

Lemma lvl_m_upd fl t c v :
  lvl_m (map (upd_level fl t) c) v =
  if Z.eqb v (-1) then 1 else match find_level c v with Some l => rd (new_m fl t l) | None => 1 end.
Proof. unfold lvl_m. rewrite find_level_map. destruct (find_level c v); reflexivity. Qed.
Lemma lvl_u_upd fl t c v :
  lvl_u (map (upd_level fl t) c) v =
  if Z.eqb v (-1) then 1 else match find_level c v with Some l => rd (new_u fl t l) | None => 1 end.
Proof. unfold lvl_u. rewrite find_level_map. destruct (find_level c v); reflexivity. Qed.

(* scored rows as the E-step produces them *)
Definition sc_ok (sc : list srow) : Prop := forall r, In r sc -> 0 < sw r /\ 0 < sp r /\ sp r < 1.

Lemma mterm_pos sc r : sc_ok sc -> In r sc -> 0 < mterm r.
Proof. intros H Hr. destruct (H r Hr) as (? & ? & ?). unfold mterm. nra. Qed.
Lemma uterm_pos sc r : sc_ok sc -> In r sc -> 0 < uterm r.
Proof. intros H Hr. destruct (H r Hr) as (? & ? & ?). unfold uterm. nra. Qed.

Lemma observed_true i v sc : observed i v sc = true <-> exists r, In r sc /\ gi i r = v.
Proof.
  unfold observed. rewrite existsb_exists. split; intros [r [Hr E]]; exists r; split; auto;
    apply Z.eqb_eq; exact E.
Qed.

Lemma observed_keys i v sc : observed i v sc = true <-> In v (keys i sc).
Proof.
  rewrite observed_true. unfold keys. rewrite nodup_In, in_map_iff.
  split; intros [r [H1 H2]]; exists r; tauto.
Qed.

Lemma rows_at_nil i v sc : observed i v sc = false -> rows_at i v sc = [].
Proof.
  unfold observed, rows_at. induction sc as [|r t IH]; cbn; [reflexivity|].
  destruct (Z.eqb (gi i r) v); cbn; [discriminate|exact IH].
Qed.

Lemma rows_at_nonempty i v sc : observed i v sc = true -> rows_at i v sc <> [].
Proof.
  intros H. apply observed_true in H as [r [Hr E]].
  assert (In r (rows_at i v sc)) by (apply filter_In; split; [exact Hr|apply Z.eqb_eq; exact E]).
  intros N. rewrite N in H. contradiction.
Qed.

Definition tbl_nonnull (i : nat) (sc : list srow) : list counts_row :=
  filter (fun x => negb (Z.eqb (cr_v x) (-1))) (counts_tbl i sc).

Lemma tbl_sum (proj : counts_row -> Q) (term : srow -> Q) i sc :
  (forall v, proj (v, sumQ mterm (rows_at i v sc), sumQ uterm (rows_at i v sc)) = sumQ term (rows_at i v sc)) ->
  sumQ proj (tbl_nonnull i sc) == sumQ term (nonnull i sc).
Proof.
  intros Hp. unfold tbl_nonnull, counts_tbl. rewrite filter_map_comm, sumQ_map. cbn [cr_v fst snd].
  rewrite (sumQ_ext _ (fun v => sumQ term (rows_at i v sc))) by (intros v _; rewrite Hp; reflexivity).
  unfold rows_at. rewrite group_by.
  2:{ apply NoDup_filter. apply NoDup_nodup. }
  unfold nonnull.
  rewrite (filter_ext_in _ (fun r => negb (Z.eqb (gi i r) (-1))) sc); [reflexivity|].
  intros r Hr. apply bool_eq_iff. rewrite existsb_eqb_In, filter_In. unfold keys. rewrite nodup_In.
  split; [tauto|]. intros H. split; [|exact H]. apply in_map. exact Hr.
Qed.

Lemma tbl_sum_m i sc : sumQ cr_m (tbl_nonnull i sc) == sumQ mterm (nonnull i sc).
Proof. apply tbl_sum. reflexivity. Qed.
Lemma tbl_sum_u i sc : sumQ cr_u (tbl_nonnull i sc) == sumQ uterm (nonnull i sc).
Proof. apply tbl_sum. reflexivity. Qed.

Lemma find_tbl (mk : Z -> counts_row) (h : counts_row -> counts_row) ks v :
  (forall v, cr_v (mk v) = v) -> (forall x, cr_v (h x) = cr_v x) -> In v ks -> v <> (-1)%Z ->
  find (fun x => Z.eqb (cr_v x) v)
       (map h (filter (fun x => negb (Z.eqb (cr_v x) (-1))) (map mk ks))) = Some (h (mk v)).
Proof.
  intros Hmk Hh Hin Hv. induction ks as [|k ks IH]; [contradiction|]. cbn [map filter].
  rewrite Hmk. destruct (Z.eqb k (-1)) eqn:E1; cbn [negb].
  - apply Z.eqb_eq in E1. destruct Hin as [->|Hin]; [contradiction|]. apply IH. exact Hin.
  - cbn [map find]. rewrite Hh, Hmk. destruct (Z.eqb k v) eqn:E2.
    + apply Z.eqb_eq in E2. subst k. reflexivity.
    + apply Z.eqb_neq in E2. destruct Hin as [->|Hin]; [contradiction|]. apply IH. exact Hin.
Qed.

Lemma lookup_props i sc v :
  observed i v sc = true -> v <> (-1)%Z ->
  lookup v (props_tbl i sc) =
  Some (v, sumQ mterm (rows_at i v sc) / sumQ cr_m (tbl_nonnull i sc),
           sumQ uterm (rows_at i v sc) / sumQ cr_u (tbl_nonnull i sc)).
Proof.
  intros Ho Hv. apply observed_keys in Ho.
  unfold lookup, props_tbl, tbl_nonnull, counts_tbl. cbv zeta.
  rewrite (find_tbl (fun v => (v, sumQ mterm (rows_at i v sc), sumQ uterm (rows_at i v sc)))); auto.
Qed.

Lemma props_tbl_In i sc x :
  In x (props_tbl i sc) ->
  exists v, observed i v sc = true /\ v <> (-1)%Z /\
    x = (v, sumQ mterm (rows_at i v sc) / sumQ cr_m (tbl_nonnull i sc),
            sumQ uterm (rows_at i v sc) / sumQ cr_u (tbl_nonnull i sc)).
Proof.
  unfold props_tbl. cbv zeta. fold (tbl_nonnull i sc). intros H.
  apply in_map_iff in H as [y [Hy Hin]]. unfold tbl_nonnull in Hin at 1.
  apply filter_In in Hin as [Hin Hne]. unfold counts_tbl in Hin.
  apply in_map_iff in Hin as [v [Hv Hk]]. subst y. cbn [cr_v cr_m cr_u fst snd] in *.
  exists v. split; [apply observed_keys; exact Hk|]. split.
  - apply negb_true_iff, Z.eqb_neq in Hne. exact Hne.
  - symmetry. exact Hy.
Qed.

Lemma nonnull_pos_m i v sc : sc_ok sc -> observed i v sc = true -> v <> (-1)%Z ->
  0 < sumQ mterm (rows_at i v sc) /\ 0 < sumQ mterm (nonnull i sc).
Proof.
  intros Hsc Ho Hv. split.
  - apply sumQ_pos; [apply rows_at_nonempty; exact Ho|].
    intros r Hr. apply filter_In in Hr. eapply mterm_pos; [exact Hsc|tauto].
  - apply observed_true in Ho as [r [Hr E]]. apply sumQ_pos.
    + assert (In r (nonnull i sc)).
      { apply filter_In. split; [exact Hr|]. apply negb_true_iff, Z.eqb_neq. congruence. }
      intros N. rewrite N in H. contradiction.
    + intros r' Hr'. apply filter_In in Hr'. eapply mterm_pos; [exact Hsc|tauto].
Qed.
Lemma nonnull_pos_u i v sc : sc_ok sc -> observed i v sc = true -> v <> (-1)%Z ->
  0 < sumQ uterm (rows_at i v sc) /\ 0 < sumQ uterm (nonnull i sc).
Proof.
  intros Hsc Ho Hv. split.
  - apply sumQ_pos; [apply rows_at_nonempty; exact Ho|].
    intros r Hr. apply filter_In in Hr. eapply uterm_pos; [exact Hsc|tauto].
  - apply observed_true in Ho as [r [Hr E]]. apply sumQ_pos.
    + assert (In r (nonnull i sc)).
      { apply filter_In. split; [exact Hr|]. apply negb_true_iff, Z.eqb_neq. congruence. }
      intros N. rewrite N in H. contradiction.
    + intros r' Hr'. apply filter_In in Hr'. eapply uterm_pos; [exact Hsc|tauto].
Qed.

Lemma Qdiv_pos a b : 0 < a -> 0 < b -> 0 < a / b.
Proof. intros Ha Hb. apply Qlt_shift_div_l; [exact Hb|]. lra. Qed.

Lemma props_tbl_pos i sc x : sc_ok sc -> In x (props_tbl i sc) -> 0 < cr_m x /\ 0 < cr_u x.
Proof.
  intros Hsc Hx. apply props_tbl_In in Hx as (v & Ho & Hv & ->). cbn [cr_m cr_u fst snd].
  destruct (nonnull_pos_m i v sc Hsc Ho Hv). destruct (nonnull_pos_u i v sc Hsc Ho Hv).
  split; apply Qdiv_pos; auto; [rewrite tbl_sum_m|rewrite tbl_sum_u]; assumption.
Qed.

(* closed form of the value written for an observed level *)
Lemma new_m_observed fl i sc l :
  fix_m fl = false -> lv_fixm l = false -> observed i (lv_val l) sc = true -> lv_val l <> (-1)%Z ->
  rd (new_m fl (props_tbl i sc) l) == sumQ mterm (rows_at i (lv_val l) sc) / sumQ mterm (nonnull i sc).
Proof.
  intros H1 H2 Ho Hv. unfold new_m. rewrite H1, H2, lookup_props by assumption.
  cbn [orb rd cr_m fst snd]. rewrite Qred_correct, tbl_sum_m. reflexivity.
Qed.
Lemma new_u_observed fl i sc l :
  fix_u fl = false -> lv_fixu l = false -> observed i (lv_val l) sc = true -> lv_val l <> (-1)%Z ->
  rd (new_u fl (props_tbl i sc) l) == sumQ uterm (rows_at i (lv_val l) sc) / sumQ uterm (nonnull i sc).
Proof.
  intros H1 H2 Ho Hv. unfold new_u. rewrite H1, H2, lookup_props by assumption.
  cbn [orb rd cr_u fst snd]. rewrite Qred_correct, tbl_sum_u. reflexivity.
Qed.

(* an unobserved, unfixed level is marked NotObserved *)
Lemma lookup_unobserved i sc v : observed i v sc = false -> lookup v (props_tbl i sc) = None.
Proof.
  intros Ho. unfold lookup. destruct (find _ _) as [x|] eqn:E; [|reflexivity].
  apply find_some in E as [Hin Hv]. apply Z.eqb_eq in Hv.
  apply props_tbl_In in Hin as (v' & Ho' & _ & ->). cbn in Hv. congruence.
Qed.

(* every value the M-step writes is positive *)
Lemma new_m_pos fl i sc l : sc_ok sc -> 0 < rd (lv_m l) -> 0 < rd (new_m fl (props_tbl i sc) l).
Proof.
  intros Hsc Hl. unfold new_m. destruct (fix_m fl || lv_fixm l)%bool; [exact Hl|].
  destruct (lookup _ _) as [x|] eqn:E; cbn [rd]; [|reflexivity].
  unfold lookup in E. apply find_some in E as [Hin _]. rewrite Qred_correct.
  apply (props_tbl_pos i sc x Hsc Hin).
Qed.
Lemma new_u_pos fl i sc l : sc_ok sc -> 0 < rd (lv_u l) -> 0 < rd (new_u fl (props_tbl i sc) l).
Proof.
  intros Hsc Hl. unfold new_u. destruct (fix_u fl || lv_fixu l)%bool; [exact Hl|].
  destruct (lookup _ _) as [x|] eqn:E; cbn [rd]; [|reflexivity].
  unfold lookup in E. apply find_some in E as [Hin _]. rewrite Qred_correct.
  apply (props_tbl_pos i sc x Hsc Hin).
Qed.

(* ------------------------------------------------------------------------------------ *)
(* Rational level: the slack of one block is non-negative                                *)
(* ------------------------------------------------------------------------------------ *)
Lemma filter_vals_nonnull k sc vals :
  ~ In (-1)%Z vals -> (forall r, In r sc -> gi k r = (-1)%Z \/ In (gi k r) vals) ->
  filter (fun r => existsb (Z.eqb (gi k r)) vals) sc = nonnull k sc.
Proof.
  intros Hnull Hrows. unfold nonnull. apply filter_ext_in. intros r Hr. apply bool_eq_iff.
  rewrite existsb_eqb_In, negb_true_iff, Z.eqb_neq. split.
  - intros Hin E. rewrite E in Hin. contradiction.
  - intros Hne. destruct (Hrows r Hr); [contradiction|assumption].
Qed.

(* the groups of the level values partition the non-null rows *)
Lemma group_vals k sc (term : srow -> Q) vals :
  NoDup vals -> ~ In (-1)%Z vals -> (forall r, In r sc -> gi k r = (-1)%Z \/ In (gi k r) vals) ->
  sumQ (fun v => sumQ term (rows_at k v sc)) vals == sumQ term (nonnull k sc).
Proof.
  intros Hnd Hnull Hrows. rewrite <- (filter_vals_nonnull k sc vals Hnull Hrows).
  unfold rows_at. apply group_by. exact Hnd.
Qed.

Section Block.
Variables (k : nat) (sc : list srow) (term : srow -> Q) (vals : list Z) (old new : Z -> Q).
Let cv (v : Z) : Q := sumQ term (rows_at k v sc).
Let C : Q := sumQ term (nonnull k sc).
Hypothesis Hnd : NoDup vals.
Hypothesis Hnull : ~ In (-1)%Z vals.
Hypothesis Hrows : forall r, In r sc -> gi k r = (-1)%Z \/ In (gi k r) vals.
Hypothesis Hterm : forall r, In r sc -> 0 <= term r.
Hypothesis Hnull1 : 1 - old (-1)%Z / new (-1)%Z == 0.
Hypothesis Hnew : forall v, In v vals -> observed k v sc = true ->
                   0 < cv v /\ 0 < C /\ new v == cv v / C.
Hypothesis Hmass : sumQ (fun v => if observed k v sc then old v else 0) vals <= 1.

Lemma block_nonneg : 0 <= sumQ (fun r => term r * (1 - old (gi k r) / new (gi k r))) sc.
Proof.
  set (T := fun r => term r * (1 - old (gi k r) / new (gi k r))).
  pose proof (filter_vals_nonnull k sc vals Hnull Hrows) as EqF.
  assert (S1 : sumQ T sc == sumQ T (nonnull k sc)).
  { symmetry. apply sumQ_filter_zero. intros r Hr Hq. apply negb_false_iff, Z.eqb_eq in Hq.
    unfold T. rewrite Hq, Hnull1. ring. }
  rewrite S1, <- EqF, <- (group_by (gi k) T vals sc Hnd).
  assert (S2 : forall v, In v vals ->
            sumQ T (filter (fun r => Z.eqb (gi k r) v) sc)
            == cv v - C * (if observed k v sc then old v else 0)).
  { intros v Hv. fold (rows_at k v sc).
    transitivity (sumQ (fun r => term r * (1 - old v / new v)) (rows_at k v sc)).
    { apply sumQ_ext. intros r Hr. apply filter_In in Hr as [_ Hr]. apply Z.eqb_eq in Hr.
      unfold T. rewrite Hr. reflexivity. }
    rewrite sumQ_scale_r. fold (cv v).
    destruct (observed k v sc) eqn:O.
    - destruct (Hnew v Hv O) as (H1 & H2 & H3). rewrite H3. field. split; lra.
    - unfold cv. rewrite (rows_at_nil _ _ _ O). sq. ring. }
  rewrite (sumQ_ext _ _ _ S2), sumQ_minus, sumQ_scale_l.
  assert (S3 : sumQ cv vals == C) by (apply group_vals; assumption).
  rewrite S3.
  assert (0 <= C).
  { apply sumQ_nonneg. intros r Hr. apply Hterm. apply filter_In in Hr. tauto. }
  nra.
Qed.
End Block.

(* per-comparison hypotheses, relative to the scored rows sc and the index k *)
Definition cmp_ok (sc : list srow) (k : nat) (c : cmp) : Prop :=
  NoDup (map lv_val c) /\ ~ In (-1)%Z (map lv_val c) /\
  (forall l, In l c -> lv_fixm l = false /\ lv_fixu l = false /\ 0 < rd (lv_m l) /\ 0 < rd (lv_u l)) /\
  (forall r, In r sc -> gi k r = (-1)%Z \/ In (gi k r) (map lv_val c)) /\
  mass_m k sc c <= 1 /\ mass_u k sc c <= 1.

Definition updF (fl : flags) (sc : list srow) (i : nat) (c : cmp) : cmp :=
  map (upd_level fl (props_tbl i sc)) c.

Lemma updF_m_pos fl sc k c v : sc_ok sc -> cmp_ok sc k c -> 0 < lvl_m (updF fl sc k c) v.
Proof.
  intros Hsc (_ & _ & Hl & _). apply lvl_m_pos. intros l' Hl'. unfold updF in Hl'.
  apply in_map_iff in Hl' as [l [<- Hin]]. cbn [lv_m upd_level]. apply new_m_pos; [exact Hsc|].
  apply (Hl l Hin).
Qed.
Lemma updF_u_pos fl sc k c v : sc_ok sc -> cmp_ok sc k c -> 0 < lvl_u (updF fl sc k c) v.
Proof.
  intros Hsc (_ & _ & Hl & _). apply lvl_u_pos. intros l' Hl'. unfold updF in Hl'.
  apply in_map_iff in Hl' as [l [<- Hin]]. cbn [lv_u upd_level]. apply new_u_pos; [exact Hsc|].
  apply (Hl l Hin).
Qed.

Lemma block_m fl sc k c : sc_ok sc -> cmp_ok sc k c ->
  0 <= sumQ (fun r => mterm r * (1 - lvl_m c (gi k r) / lvl_m (updF fl sc k c) (gi k r))) sc.
Proof.
  intros Hsc Hc. pose proof Hc as (Hnd & Hn & Hl & Hrows & Hm & _).
  destruct (fix_m fl) eqn:Fx.
  - (* session-level fix: nothing changes, every term is 0 *)
    rewrite sumQ_zero; [lra|]. intros r _.
    assert (E : lvl_m (updF fl sc k c) (gi k r) = lvl_m c (gi k r)).
    { unfold updF. rewrite lvl_m_upd. unfold lvl_m, new_m. rewrite Fx. cbn [orb]. reflexivity. }
    rewrite E. assert (0 < lvl_m c (gi k r)) by (apply lvl_m_pos; intros l Hin; apply (Hl l Hin)).
    field. lra.
  - apply (block_nonneg k sc mterm (map lv_val c)); auto.
    + intros r Hr. apply Qlt_le_weak. eapply mterm_pos; eassumption.
    + unfold updF. rewrite lvl_m_upd. cbn. reflexivity.
    + intros v Hv Ho. destruct (find_level_of_val c v Hv) as (l & Hf & Hin & Hlv).
      assert (Hv1 : v <> (-1)%Z) by (intros ->; contradiction).
      destruct (nonnull_pos_m k v sc Hsc Ho Hv1) as [P1 P2]. split; [exact P1|]. split; [exact P2|].
      unfold updF. rewrite lvl_m_upd, Hf. apply Z.eqb_neq in Hv1. rewrite Hv1. subst v.
      apply new_m_observed; auto; [apply (Hl l Hin)|apply Z.eqb_neq; exact Hv1].
    + unfold mass_m in Hm. rewrite sumQ_map.
      rewrite (sumQ_ext _ (fun l => if observed k (lv_val l) sc then rd (lv_m l) else 0)); [exact Hm|].
      intros l Hin. rewrite lvl_m_val by assumption. reflexivity.
Qed.

Lemma block_u fl sc k c : sc_ok sc -> cmp_ok sc k c ->
  0 <= sumQ (fun r => uterm r * (1 - lvl_u c (gi k r) / lvl_u (updF fl sc k c) (gi k r))) sc.
Proof.
  intros Hsc Hc. pose proof Hc as (Hnd & Hn & Hl & Hrows & _ & Hm).
  destruct (fix_u fl) eqn:Fx.
  - rewrite sumQ_zero; [lra|]. intros r _.
    assert (E : lvl_u (updF fl sc k c) (gi k r) = lvl_u c (gi k r)).
    { unfold updF. rewrite lvl_u_upd. unfold lvl_u, new_u. rewrite Fx. cbn [orb]. reflexivity. }
    rewrite E. assert (0 < lvl_u c (gi k r)) by (apply lvl_u_pos; intros l Hin; apply (Hl l Hin)).
    field. lra.
  - apply (block_nonneg k sc uterm (map lv_val c)); auto.
    + intros r Hr. apply Qlt_le_weak. eapply uterm_pos; eassumption.
    + unfold updF. rewrite lvl_u_upd. cbn. reflexivity.
    + intros v Hv Ho. destruct (find_level_of_val c v Hv) as (l & Hf & Hin & Hlv).
      assert (Hv1 : v <> (-1)%Z) by (intros ->; contradiction).
      destruct (nonnull_pos_u k v sc Hsc Ho Hv1) as [P1 P2]. split; [exact P1|]. split; [exact P2|].
      unfold updF. rewrite lvl_u_upd, Hf. apply Z.eqb_neq in Hv1. rewrite Hv1. subst v.
      apply new_u_observed; auto; [apply (Hl l Hin)|apply Z.eqb_neq; exact Hv1].
    + unfold mass_u in Hm. rewrite sumQ_map.
      rewrite (sumQ_ext _ (fun l => if observed k (lv_val l) sc then rd (lv_u l) else 0)); [exact Hm|].
      intros l Hin. rewrite lvl_u_val by assumption. reflexivity.
Qed.

(* ------------------------------------------------------------------------------------ *)
(* Rational level: products by index, the slack of a row, the total slack                *)
(* ------------------------------------------------------------------------------------ *)

Fixpoint ForallI {A : Type} (P : nat -> A -> Prop) (k : nat) (l : list A) : Prop :=
  match l with [] => True | x :: t => P k x /\ ForallI P (S k) t end.

Lemma ForallI_intro {A : Type} (P : nat -> A -> Prop) l : forall k,
  (forall i x, nth_error l i = Some x -> P (k + i)%nat x) -> ForallI P k l.
Proof.
  induction l as [|x t IH]; intros k H; cbn; [exact I|]. split.
  - specialize (H 0%nat x eq_refl). rewrite Nat.add_0_r in H. exact H.
  - apply IH. intros i y Hy. specialize (H (S i) y Hy). rewrite Nat.add_succ_r in H. exact H.
Qed.

Fixpoint prodMn (k : nat) (cs : list cmp) (g : list Z) : Q :=
  match cs with [] => 1 | c :: t => lvl_m c (nth k g (-1)%Z) * prodMn (S k) t g end.
Fixpoint prodUn (k : nat) (cs : list cmp) (g : list Z) : Q :=
  match cs with [] => 1 | c :: t => lvl_u c (nth k g (-1)%Z) * prodUn (S k) t g end.

Lemma prodM_skipn cs : forall k g, prodM cs (skipn k g) = prodMn k cs g.
Proof. induction cs as [|c t IH]; intros k g; cbn; [reflexivity|]. rewrite hd_skipn, tl_skipn, IH. reflexivity. Qed.
Lemma prodU_skipn cs : forall k g, prodU cs (skipn k g) = prodUn k cs g.
Proof. induction cs as [|c t IH]; intros k g; cbn; [reflexivity|]. rewrite hd_skipn, tl_skipn, IH. reflexivity. Qed.
Lemma prodM_n cs g : prodM cs g = prodMn 0 cs g.
Proof. apply (prodM_skipn cs 0 g). Qed.
Lemma prodU_n cs g : prodU cs g = prodUn 0 cs g.
Proof. apply (prodU_skipn cs 0 g). Qed.

Fixpoint slackMn (F : nat -> cmp -> cmp) (k : nat) (cs : list cmp) (g : list Z) : Q :=
  match cs with
  | [] => 0
  | c :: t => (1 - lvl_m c (nth k g (-1)%Z) / lvl_m (F k c) (nth k g (-1)%Z)) + slackMn F (S k) t g
  end.
Fixpoint slackUn (F : nat -> cmp -> cmp) (k : nat) (cs : list cmp) (g : list Z) : Q :=
  match cs with
  | [] => 0
  | c :: t => (1 - lvl_u c (nth k g (-1)%Z) / lvl_u (F k c) (nth k g (-1)%Z)) + slackUn F (S k) t g
  end.

Lemma blocks_m fl sc : sc_ok sc -> forall cs k, ForallI (cmp_ok sc) k cs ->
  0 <= sumQ (fun r => mterm r * slackMn (updF fl sc) k cs (sg r)) sc.
Proof.
  intros Hsc. induction cs as [|c t IH]; intros k H; cbn [slackMn].
  - rewrite sumQ_zero; [lra|]. intros; ring.
  - destruct H as [Hc Ht].
    rewrite (sumQ_ext _ (fun r => mterm r * (1 - lvl_m c (gi k r) / lvl_m (updF fl sc k c) (gi k r))
                                  + mterm r * slackMn (updF fl sc) (S k) t (sg r)))
      by (intros r _; unfold gi; ring).
    rewrite sumQ_plus. pose proof (block_m fl sc k c Hsc Hc). pose proof (IH (S k) Ht). lra.
Qed.
Lemma blocks_u fl sc : sc_ok sc -> forall cs k, ForallI (cmp_ok sc) k cs ->
  0 <= sumQ (fun r => uterm r * slackUn (updF fl sc) k cs (sg r)) sc.
Proof.
  intros Hsc. induction cs as [|c t IH]; intros k H; cbn [slackUn].
  - rewrite sumQ_zero; [lra|]. intros; ring.
  - destruct H as [Hc Ht].
    rewrite (sumQ_ext _ (fun r => uterm r * (1 - lvl_u c (gi k r) / lvl_u (updF fl sc k c) (gi k r))
                                  + uterm r * slackUn (updF fl sc) (S k) t (sg r)))
      by (intros r _; unfold gi; ring).
    rewrite sumQ_plus. pose proof (block_u fl sc k c Hsc Hc). pose proof (IH (S k) Ht). lra.
Qed.

(* lambda *)
Definition lam_next (fl : flags) (lam0 : Q) (sc : list srow) : Q :=
  if fix_lam fl then lam0 else Qred (lambda_new sc).

Lemma sum_terms sc : sumQ sw sc == sumQ mterm sc + sumQ uterm sc.
Proof. rewrite <- sumQ_plus. apply sumQ_ext. intros r _. unfold mterm, uterm. ring. Qed.

Lemma sums_pos sc : sc_ok sc -> sc <> [] -> 0 < sumQ mterm sc /\ 0 < sumQ uterm sc.
Proof.
  intros Hsc Hne. split; apply sumQ_pos; auto; intros r Hr; [eapply mterm_pos|eapply uterm_pos]; eassumption.
Qed.

Lemma lam_next_ok fl lam0 sc : sc_ok sc -> sc <> [] -> 0 < lam0 /\ lam0 < 1 ->
  0 < lam_next fl lam0 sc /\ lam_next fl lam0 sc < 1.
Proof.
  intros Hsc Hne Hl. unfold lam_next. destruct (fix_lam fl); [exact Hl|].
  rewrite Qred_correct. unfold lambda_new. rewrite sum_terms.
  destruct (sums_pos sc Hsc Hne) as [Hm Hu]. split.
  - apply Qdiv_pos; lra.
  - apply Qlt_shift_div_r; lra.
Qed.

Lemma lambda_block fl lam0 sc : sc_ok sc -> sc <> [] -> 0 < lam0 /\ lam0 < 1 ->
  sumQ (fun r => mterm r * (1 - lam0 / lam_next fl lam0 sc)
               + uterm r * (1 - (1 - lam0) / (1 - lam_next fl lam0 sc))) sc == 0.
Proof.
  intros Hsc Hne [Hl0 Hl1]. rewrite sumQ_plus, !sumQ_scale_r.
  destruct (sums_pos sc Hsc Hne) as [Hm Hu].
  unfold lam_next. destruct (fix_lam fl).
  - field. split; lra.
  - rewrite Qred_correct. unfold lambda_new. rewrite sum_terms.
    set (S := sumQ mterm sc) in *. set (U := sumQ uterm sc) in *. field.
    repeat split; lra.
Qed.

Definition slack_row (fl : flags) (p : params) (sc : list srow) (post : Q) (g : list Z) : Q :=
  post * ((1 - lam p / lam_next fl (lam p) sc) + slackMn (updF fl sc) 0 (cmps p) g)
  + (1 - post) * ((1 - (1 - lam p) / (1 - lam_next fl (lam p) sc)) + slackUn (updF fl sc) 0 (cmps p) g).

Lemma slack_total_nonneg fl p sc :
  sc_ok sc -> sc <> [] -> lam_ok p -> ForallI (cmp_ok sc) 0 (cmps p) ->
  0 <= sumQ (fun r => sw r * slack_row fl p sc (sp r) (sg r)) sc.
Proof.
  intros Hsc Hne Hl Hcs.
  rewrite (sumQ_ext _ (fun r =>
     (mterm r * (1 - lam p / lam_next fl (lam p) sc)
      + uterm r * (1 - (1 - lam p) / (1 - lam_next fl (lam p) sc)))
     + (mterm r * slackMn (updF fl sc) 0 (cmps p) (sg r)
        + uterm r * slackUn (updF fl sc) 0 (cmps p) (sg r))))
    by (intros r _; unfold slack_row, mterm, uterm; ring).
  rewrite sumQ_plus, lambda_block, sumQ_plus by assumption.
  pose proof (blocks_m fl sc Hsc _ _ Hcs). pose proof (blocks_u fl sc Hsc _ _ Hcs). lra.
Qed.

(* ------------------------------------------------------------------------------------ *)
(* Rational level: the posterior in closed form                                          *)
(* ------------------------------------------------------------------------------------ *)

Lemma bf_cmp_notf c g tf :
  (forall l, In l c -> lv_tfu l = None) -> bf_cmp c g tf == lvl_m c g / lvl_u c g.
Proof.
  intros H. unfold bf_cmp, lvl_m, lvl_u. destruct (Z.eqb g (-1)); [reflexivity|].
  destruct (find_level c g) as [l|] eqn:E; [|reflexivity].
  unfold find_level in E. apply find_some in E as [Hin _]. unfold bf_level. rewrite (H l Hin). ring.
Qed.

Lemma bf_prod_notf cs : (forall c l, In c cs -> In l c -> lv_tfu l = None) ->
  forall g tf, bf_prod cs g tf == prodM cs g / prodU cs g.
Proof.
  induction cs as [|c t IH]; intros H g tf; cbn [bf_prod prodM prodU]; [reflexivity|].
  rewrite bf_cmp_notf by (intros l Hl; apply (H c l); [left; reflexivity|exact Hl]).
  rewrite IH by (intros c' l Hc Hl; apply (H c' l); [right; exact Hc|exact Hl]).
  unfold Qdiv. rewrite Qinv_mult_distr. ring.
Qed.

Lemma prodM_pos cs : (forall c l, In c cs -> In l c -> 0 < rd (lv_m l)) -> forall g, 0 < prodM cs g.
Proof.
  induction cs as [|c t IH]; intros H g; cbn [prodM]; [lra|].
  assert (0 < lvl_m c (hd (-1)%Z g)) by (apply lvl_m_pos; intros l Hl; apply (H c l); [left; reflexivity|exact Hl]).
  assert (0 < prodM t (tl g)) by (apply IH; intros c' l Hc Hl; apply (H c' l); [right; exact Hc|exact Hl]).
  nra.
Qed.
Lemma prodU_pos cs : (forall c l, In c cs -> In l c -> 0 < rd (lv_u l)) -> forall g, 0 < prodU cs g.
Proof.
  induction cs as [|c t IH]; intros H g; cbn [prodU]; [lra|].
  assert (0 < lvl_u c (hd (-1)%Z g)) by (apply lvl_u_pos; intros l Hl; apply (H c l); [left; reflexivity|exact Hl]).
  assert (0 < prodU t (tl g)) by (apply IH; intros c' l Hc Hl; apply (H c' l); [right; exact Hc|exact Hl]).
  nra.
Qed.

Lemma posterior_closed p g tf : no_tf p -> levels_pos p -> lam_ok p ->
  posterior p g tf == lam p * prodM (cmps p) g / mixQ p g.
Proof.
  intros Htf Hpos [Hl0 Hl1]. unfold posterior.
  destruct (Qeq_bool (lam p) 1) eqn:E.
  - apply Qeq_bool_iff in E. lra.
  - cbv zeta. rewrite (bf_prod_notf (cmps p) Htf). unfold mixQ.
    assert (0 < prodM (cmps p) g) by (apply prodM_pos; intros c l Hc Hl; apply (Hpos c l Hc Hl)).
    assert (0 < prodU (cmps p) g) by (apply prodU_pos; intros c l Hc Hl; apply (Hpos c l Hc Hl)).
    set (M := prodM (cmps p) g) in *. set (U := prodU (cmps p) g) in *.
    assert (0 < lam p * M) by nra. assert (0 < (1 - lam p) * U) by nra.
    field. repeat split; try lra; nra.
Qed.

Lemma posterior_range p g tf : no_tf p -> levels_pos p -> lam_ok p ->
  0 < posterior p g tf /\ posterior p g tf < 1.
Proof.
  intros Htf Hpos Hl. rewrite posterior_closed by assumption. destruct Hl as [Hl0 Hl1]. unfold mixQ.
  assert (0 < prodM (cmps p) g) by (apply prodM_pos; intros c l Hc Hl; apply (Hpos c l Hc Hl)).
  assert (0 < prodU (cmps p) g) by (apply prodU_pos; intros c l Hc Hl; apply (Hpos c l Hc Hl)).
  set (M := prodM (cmps p) g) in *. set (U := prodU (cmps p) g) in *.
  assert (0 < lam p * M) by nra. assert (0 < (1 - lam p) * U) by nra.
  split; [apply Qdiv_pos; lra|apply Qlt_shift_div_r; lra].
Qed.

(* ------------------------------------------------------------------------------------ *)
(* Real level: the per-row bound                                                         *)
(* ------------------------------------------------------------------------------------ *)

Lemma Q2R_one : Q2R 1 = 1%R.
Proof. unfold Q2R; cbn. lra. Qed.

Lemma Q2R_pos x : 0 < x -> (0 < Q2R x)%R.
Proof. intros H. apply Qlt_Rlt in H. rewrite Q2R_0 in H. exact H. Qed.

Lemma Q2R_slack1 x x' : 0 < x -> 0 < x' -> (Q2R (1 - x / x') <= ln (Q2R x') - ln (Q2R x))%R.
Proof.
  intros Hx Hx'. rewrite Q2R_minus, Q2R_div, Q2R_one by lra.
  apply ln_diff_lower; apply Q2R_pos; assumption.
Qed.

Lemma ForallI_impl {A : Type} (P P' : nat -> A -> Prop) l :
  (forall k x, P k x -> P' k x) -> forall k, ForallI P k l -> ForallI P' k l.
Proof. intros H. induction l as [|x t IH]; intros k; cbn; [auto|]. intros [H1 H2]. split; auto. Qed.

Lemma prod_slack_m F cs : forall k g,
  ForallI (fun k c => forall v, 0 < lvl_m c v /\ 0 < lvl_m (F k c) v) k cs ->
  0 < prodMn k cs g /\ 0 < prodMn k (mapi_from F k cs) g /\
  (Q2R (slackMn F k cs g) <= ln (Q2R (prodMn k (mapi_from F k cs) g)) - ln (Q2R (prodMn k cs g)))%R.
Proof.
  induction cs as [|c t IH]; intros k g H; cbn [mapi_from prodMn slackMn].
  - split; [lra|]. split; [lra|]. rewrite Q2R_0, Q2R_one, ln_1. lra.
  - destruct H as [Hc Ht]. destruct (IH (S k) g Ht) as (P1 & P2 & P3).
    destruct (Hc (nth k g (-1)%Z)) as [Q1 Q2].
    split; [nra|]. split; [nra|].
    rewrite Q2R_plus, !Q2R_mult.
    rewrite !ln_mult by (apply Q2R_pos; assumption).
    pose proof (Q2R_slack1 _ _ Q1 Q2). lra.
Qed.
Lemma prod_slack_u F cs : forall k g,
  ForallI (fun k c => forall v, 0 < lvl_u c v /\ 0 < lvl_u (F k c) v) k cs ->
  0 < prodUn k cs g /\ 0 < prodUn k (mapi_from F k cs) g /\
  (Q2R (slackUn F k cs g) <= ln (Q2R (prodUn k (mapi_from F k cs) g)) - ln (Q2R (prodUn k cs g)))%R.
Proof.
  induction cs as [|c t IH]; intros k g H; cbn [mapi_from prodUn slackUn].
  - split; [lra|]. split; [lra|]. rewrite Q2R_0, Q2R_one, ln_1. lra.
  - destruct H as [Hc Ht]. destruct (IH (S k) g Ht) as (P1 & P2 & P3).
    destruct (Hc (nth k g (-1)%Z)) as [Q1 Q2].
    split; [nra|]. split; [nra|].
    rewrite Q2R_plus, !Q2R_mult.
    rewrite !ln_mult by (apply Q2R_pos; assumption).
    pose proof (Q2R_slack1 _ _ Q1 Q2). lra.
Qed.

Lemma row_bound_gen (l l' M M' U U' sM sU post : Q) :
  0 < l -> l < 1 -> 0 < l' -> l' < 1 -> 0 < M -> 0 < M' -> 0 < U -> 0 < U' ->
  (Q2R sM <= ln (Q2R M') - ln (Q2R M))%R -> (Q2R sU <= ln (Q2R U') - ln (Q2R U))%R ->
  post == l * M / (l * M + (1 - l) * U) ->
  (Q2R (post * ((1 - l / l') + sM) + (1 - post) * ((1 - (1 - l) / (1 - l')) + sU))
   <= ln (Q2R (l' * M' + (1 - l') * U')) - ln (Q2R (l * M + (1 - l) * U)))%R.
Proof.
  intros Hl0 Hl1 Hl0' Hl1' HM HM' HU HU' HsM HsU Hpost.
  set (X := (1 - l / l') + sM). set (Y := (1 - (1 - l) / (1 - l')) + sU).
  assert (Ha : 0 < l * M) by nra. assert (Hb : 0 < (1 - l) * U) by nra.
  assert (Ha' : 0 < l' * M') by nra. assert (Hb' : 0 < (1 - l') * U') by nra.
  assert (Ep : Q2R post = (Q2R (l * M) / (Q2R (l * M) + Q2R ((1 - l) * U)))%R).
  { rewrite (Qeq_eqR _ _ Hpost), Q2R_div, Q2R_plus; [reflexivity|lra]. }
  assert (E : Q2R (post * X + (1 - post) * Y) = (Q2R post * Q2R X + (1 - Q2R post) * Q2R Y)%R).
  { rewrite Q2R_plus, !Q2R_mult, Q2R_minus, Q2R_one. reflexivity. }
  rewrite E, Ep, !Q2R_plus.
  apply mix_step; try (apply Q2R_pos; assumption).
  - unfold X. rewrite Q2R_plus, !Q2R_mult. rewrite !ln_mult by (apply Q2R_pos; assumption).
    pose proof (Q2R_slack1 l l' Hl0 Hl0'). lra.
  - unfold Y. rewrite Q2R_plus, !Q2R_mult.
    assert (0 < 1 - l) by lra. assert (0 < 1 - l') by lra.
    rewrite !ln_mult by (apply Q2R_pos; assumption).
    pose proof (Q2R_slack1 (1 - l) (1 - l') H H0). lra.
Qed.

Lemma mstep_lam fl p sc : lam (mstep fl p sc) = lam_next fl (lam p) sc.
Proof. reflexivity. Qed.
Lemma mstep_cmps fl p sc : cmps (mstep fl p sc) = mapi_from (updF fl sc) 0 (cmps p).
Proof. reflexivity. Qed.

Lemma row_bound fl p sc post g :
  sc_ok sc -> sc <> [] -> lam_ok p -> ForallI (cmp_ok sc) 0 (cmps p) ->
  post == lam p * prodM (cmps p) g / mixQ p g ->
  0 < mixQ p g /\ 0 < mixQ (mstep fl p sc) g /\
  (Q2R (slack_row fl p sc post g) <= ln (Q2R (mixQ (mstep fl p sc) g)) - ln (Q2R (mixQ p g)))%R.
Proof.
  intros Hsc Hne Hl Hcs Hpost.
  assert (HM : ForallI (fun k c => forall v, 0 < lvl_m c v /\ 0 < lvl_m (updF fl sc k c) v) 0 (cmps p)).
  { revert Hcs. apply ForallI_impl. intros k c Hc v. split; [|apply updF_m_pos; assumption].
    destruct Hc as (_ & _ & H & _). apply lvl_m_pos. intros l' Hin. apply (H l' Hin). }
  assert (HU : ForallI (fun k c => forall v, 0 < lvl_u c v /\ 0 < lvl_u (updF fl sc k c) v) 0 (cmps p)).
  { revert Hcs. apply ForallI_impl. intros k c Hc v. split; [|apply updF_u_pos; assumption].
    destruct Hc as (_ & _ & H & _). apply lvl_u_pos. intros l' Hin. apply (H l' Hin). }
  destruct (prod_slack_m _ _ 0%nat g HM) as (M1 & M2 & M3).
  destruct (prod_slack_u _ _ 0%nat g HU) as (U1 & U2 & U3).
  destruct (lam_next_ok fl (lam p) sc Hsc Hne Hl) as [L1 L2]. destruct Hl as [L3 L4].
  unfold mixQ in *. rewrite mstep_lam, mstep_cmps. rewrite !prodM_n, !prodU_n in *.
  split; [nra|]. split; [nra|].
  unfold slack_row. apply row_bound_gen; assumption.
Qed.

(* ------------------------------------------------------------------------------------ *)
(* Main theorem                                                                          *)
(* ------------------------------------------------------------------------------------ *)

Lemma estep_sc_ok p data : no_tf p -> levels_pos p -> lam_ok p ->
  (forall r, In r data -> 0 < dw r) -> sc_ok (estep p data).
Proof.
  intros Htf Hpos Hl Hw s Hs. unfold estep in Hs. apply in_map_iff in Hs as [r [<- Hr]].
  cbn [sw sp fst snd]. split; [apply Hw; exact Hr|]. apply posterior_range; assumption.
Qed.

Lemma estep_nonempty p data : data <> [] -> estep p data <> [].
Proof. destruct data; [congruence|]. cbn. discriminate. Qed.

Lemma estep_cmps_ok p data :
  no_level_fix p -> cmps_wf p -> levels_pos p ->
  (forall r, In r data -> row_ok (cmps p) (dg r)) -> subnormal p data ->
  ForallI (cmp_ok (estep p data)) 0 (cmps p).
Proof.
  intros Hfix Hwf Hpos Hrows Hsub. apply ForallI_intro. intros i c Hi. cbn [Nat.add].
  pose proof (nth_error_In _ _ Hi) as Hc. destruct (Hwf c Hc) as [Hnd Hn].
  split; [exact Hnd|]. split; [exact Hn|]. split.
  { intros l Hin. destruct (Hfix c l Hc Hin). destruct (Hpos c l Hc Hin). tauto. }
  split; [|exact (Hsub i c Hi)].
  intros s Hs. unfold estep in Hs. apply in_map_iff in Hs as [r [<- Hr]].
  unfold gi. cbn [sg fst]. apply (Hrows r Hr i c Hi).
Qed.

Theorem likelihood_monotone (fl : flags) (p : params) (data : list drow) :
  no_tf p -> no_level_fix p -> cmps_wf p -> levels_pos p -> lam_ok p ->
  data_ok p data -> subnormal p data ->
  (loglik p data <= loglik (em_step fl p data) data)%R.
Proof.
  intros Htf Hfix Hwf Hpos Hl [Hne Hd] Hsub.
  set (sc := estep p data).
  assert (Hsc : sc_ok sc) by (apply estep_sc_ok; auto; intros r Hr; apply (Hd r Hr)).
  assert (Hne' : sc <> []) by (apply estep_nonempty; exact Hne).
  assert (Hcs : ForallI (cmp_ok sc) 0 (cmps p))
    by (apply estep_cmps_ok; auto; intros r Hr; apply (Hd r Hr)).
  pose proof (slack_total_nonneg fl p sc Hsc Hne' Hl Hcs) as Hslack.
  unfold sc at 2 in Hslack. unfold estep in Hslack. rewrite sumQ_map in Hslack.
  cbn [sw sp sg fst snd] in Hslack.
  apply Qle_Rle in Hslack. rewrite Q2R_0, Q2R_sumQ in Hslack.
  unfold em_step. fold sc. unfold loglik.
  match goal with |- (?a <= ?b)%R => cut (0 <= b - a)%R; [lra|] end.
  rewrite <- sumR_minus.
  eapply Rle_trans; [exact Hslack|]. apply sumR_le. intros r Hr.
  destruct (row_bound fl p sc (posterior p (dg r) (dtf r)) (dg r) Hsc Hne' Hl Hcs
              (posterior_closed p (dg r) (dtf r) Htf Hpos Hl)) as (_ & _ & B).
  rewrite Q2R_mult, <- Rmult_minus_distr_l.
  apply Rmult_le_compat_l; [|exact B].
  apply Rlt_le, Q2R_pos. apply (Hd r Hr).
Qed.

(* ------------------------------------------------------------------------------------ *)
(* The hypotheses are preserved by em_step                                               *)
(* ------------------------------------------------------------------------------------ *)

Lemma nth_error_mapi {A B : Type} (F : nat -> A -> B) l : forall k i,
  nth_error (mapi_from F k l) i = option_map (F (k + i)%nat) (nth_error l i).
Proof.
  induction l as [|x t IH]; intros k [|i]; cbn; auto.
  - rewrite Nat.add_0_r. reflexivity.
  - rewrite IH, Nat.add_succ_r. reflexivity.
Qed.

Lemma mstep_nth fl p sc i c' :
  nth_error (cmps (mstep fl p sc)) i = Some c' ->
  exists c, nth_error (cmps p) i = Some c /\ c' = updF fl sc i c.
Proof.
  rewrite mstep_cmps, nth_error_mapi. cbn [Nat.add].
  destruct (nth_error (cmps p) i) as [c|]; cbn; [|discriminate].
  intros E. inversion E. eauto.
Qed.

Lemma mstep_In fl p sc c' :
  In c' (cmps (mstep fl p sc)) ->
  exists i c, nth_error (cmps p) i = Some c /\ In c (cmps p) /\ c' = updF fl sc i c.
Proof.
  intros H. apply In_nth_error in H as [i Hi]. apply mstep_nth in Hi as (c & Hc & E).
  exists i, c. split; [exact Hc|]. split; [eapply nth_error_In; exact Hc|exact E].
Qed.

Lemma updF_vals fl sc i c : map lv_val (updF fl sc i c) = map lv_val c.
Proof. unfold updF. rewrite map_map. reflexivity. Qed.

Lemma observed_estep i v p p' data : observed i v (estep p data) = observed i v (estep p' data).
Proof.
  unfold observed, estep. induction data as [|r t IH]; cbn; [reflexivity|]. rewrite IH. reflexivity.
Qed.

Lemma Qdiv_self_le1 (x : Q) : x / x <= 1.
Proof.
  destruct (Qeq_dec x 0) as [E|E].
  - unfold Qdiv. rewrite E. lra.
  - unfold Qdiv. rewrite Qmult_inv_r by exact E. lra.
Qed.

(* after an M-step the observed levels of a comparison carry mass C / C: at most 1, and exactly 1
   as soon as one row is non-null in that comparison (and the session does not fix the side) *)
Lemma mass_m_upd fl sc i c : sc_ok sc -> cmp_ok sc i c ->
  mass_m i sc (updF fl sc i c) <= 1 /\
  (fix_m fl = false -> nonnull i sc <> [] -> mass_m i sc (updF fl sc i c) == 1).
Proof.
  intros Hsc (Hnd & Hn & Hl & Hrows & Hm & _).
  unfold mass_m, updF. rewrite sumQ_map. cbn [lv_val lv_m upd_level].
  destruct (fix_m fl) eqn:Fx.
  - unfold new_m. rewrite Fx. cbn [orb]. split; [exact Hm|discriminate].
  - set (C := sumQ mterm (nonnull i sc)).
    assert (E : sumQ (fun l => if observed i (lv_val l) sc
                               then rd (new_m fl (props_tbl i sc) l) else 0) c == C / C).
    { transitivity (sumQ (fun l => sumQ mterm (rows_at i (lv_val l) sc) / C) c).
      - apply sumQ_ext. intros l Hin. destruct (observed i (lv_val l) sc) eqn:O.
        + apply new_m_observed; auto; [apply (Hl l Hin)|].
          intros E. apply Hn. rewrite <- E. apply in_map. exact Hin.
        + rewrite (rows_at_nil _ _ _ O). sq. unfold Qdiv. ring.
      - unfold Qdiv. rewrite sumQ_scale_r.
        rewrite <- (sumQ_map lv_val (fun v => sumQ mterm (rows_at i v sc)) c).
        rewrite group_vals by assumption. reflexivity. }
    rewrite E. split; [apply Qdiv_self_le1|]. intros _ Hne.
    assert (0 < C).
    { apply sumQ_pos; [exact Hne|]. intros r Hr. apply filter_In in Hr. eapply mterm_pos; [exact Hsc|tauto]. }
    field. lra.
Qed.
Lemma mass_u_upd fl sc i c : sc_ok sc -> cmp_ok sc i c ->
  mass_u i sc (updF fl sc i c) <= 1 /\
  (fix_u fl = false -> nonnull i sc <> [] -> mass_u i sc (updF fl sc i c) == 1).
Proof.
  intros Hsc (Hnd & Hn & Hl & Hrows & _ & Hm).
  unfold mass_u, updF. rewrite sumQ_map. cbn [lv_val lv_u upd_level].
  destruct (fix_u fl) eqn:Fx.
  - unfold new_u. rewrite Fx. cbn [orb]. split; [exact Hm|discriminate].
  - set (C := sumQ uterm (nonnull i sc)).
    assert (E : sumQ (fun l => if observed i (lv_val l) sc
                               then rd (new_u fl (props_tbl i sc) l) else 0) c == C / C).
    { transitivity (sumQ (fun l => sumQ uterm (rows_at i (lv_val l) sc) / C) c).
      - apply sumQ_ext. intros l Hin. destruct (observed i (lv_val l) sc) eqn:O.
        + apply new_u_observed; auto; [apply (Hl l Hin)|].
          intros E. apply Hn. rewrite <- E. apply in_map. exact Hin.
        + rewrite (rows_at_nil _ _ _ O). sq. unfold Qdiv. ring.
      - unfold Qdiv. rewrite sumQ_scale_r.
        rewrite <- (sumQ_map lv_val (fun v => sumQ uterm (rows_at i v sc)) c).
        rewrite group_vals by assumption. reflexivity. }
    rewrite E. split; [apply Qdiv_self_le1|]. intros _ Hne.
    assert (0 < C).
    { apply sumQ_pos; [exact Hne|]. intros r Hr. apply filter_In in Hr. eapply uterm_pos; [exact Hsc|tauto]. }
    field. lra.
Qed.

(* all the hypotheses of likelihood_monotone, bundled *)
Definition em_inv (p : params) (data : list drow) : Prop :=
  no_tf p /\ no_level_fix p /\ cmps_wf p /\ levels_pos p /\ lam_ok p /\
  data_ok p data /\ subnormal p data.

Lemma mass_estep_m i p p' data c : mass_m i (estep p' data) c = mass_m i (estep p data) c.
Proof.
  unfold mass_m. induction c as [|l t IH]; [reflexivity|].
  rewrite !sumQ_cons_eq, IH, (observed_estep i (lv_val l) p' p data). reflexivity.
Qed.
Lemma mass_estep_u i p p' data c : mass_u i (estep p' data) c = mass_u i (estep p data) c.
Proof.
  unfold mass_u. induction c as [|l t IH]; [reflexivity|].
  rewrite !sumQ_cons_eq, IH, (observed_estep i (lv_val l) p' p data). reflexivity.
Qed.

Theorem em_step_preserves (fl : flags) (p : params) (data : list drow) :
  em_inv p data -> em_inv (em_step fl p data) data.
Proof.
  intros (Htf & Hfix & Hwf & Hpos & Hl & [Hne Hd] & Hsub).
  unfold em_step. set (sc := estep p data).
  assert (Hsc : sc_ok sc) by (apply estep_sc_ok; auto; intros r Hr; apply (Hd r Hr)).
  assert (Hne' : sc <> []) by (apply estep_nonempty; exact Hne).
  assert (Hcs : forall i c, nth_error (cmps p) i = Some c -> cmp_ok sc i c).
  { intros i c Hi. pose proof (nth_error_In _ _ Hi) as Hc. destruct (Hwf c Hc) as [Hnd Hn].
    split; [exact Hnd|]. split; [exact Hn|]. split.
    { intros l Hin. destruct (Hfix c l Hc Hin). destruct (Hpos c l Hc Hin). tauto. }
    split; [|exact (Hsub i c Hi)].
    intros s Hs. unfold sc, estep in Hs. apply in_map_iff in Hs as [r [<- Hr]].
    unfold gi. cbn [sg fst]. apply (Hd r Hr). exact Hi. }
  split; [|split; [|split; [|split; [|split; [|split]]]]].
  - intros c' l' Hc' Hl'. apply mstep_In in Hc' as (i & c & _ & Hc & ->).
    unfold updF in Hl'. apply in_map_iff in Hl' as [l [<- Hin]]. cbn. apply (Htf c l Hc Hin).
  - intros c' l' Hc' Hl'. apply mstep_In in Hc' as (i & c & _ & Hc & ->).
    unfold updF in Hl'. apply in_map_iff in Hl' as [l [<- Hin]]. cbn. apply (Hfix c l Hc Hin).
  - intros c' Hc'. apply mstep_In in Hc' as (i & c & _ & Hc & ->).
    rewrite updF_vals. apply (Hwf c Hc).
  - intros c' l' Hc' Hl'. apply mstep_In in Hc' as (i & c & _ & Hc & ->).
    unfold updF in Hl'. apply in_map_iff in Hl' as [l [<- Hin]]. cbn [lv_m lv_u upd_level].
    destruct (Hpos c l Hc Hin). split; [apply new_m_pos|apply new_u_pos]; assumption.
  - unfold lam_ok. rewrite mstep_lam. apply lam_next_ok; assumption.
  - split; [exact Hne|]. intros r Hr. split; [apply (Hd r Hr)|].
    intros i c' Hi. apply mstep_nth in Hi as (c & Hc & ->). rewrite updF_vals.
    apply (Hd r Hr). exact Hc.
  - intros i c' Hi. apply mstep_nth in Hi as (c & Hc & ->).
    rewrite (mass_estep_m i p), (mass_estep_u i p). fold sc.
    split; [apply mass_m_upd|apply mass_u_upd]; auto.
Qed.

(* after the step the observed mass is exactly 1 on every side that is not fixed *)
Theorem em_step_normalised (fl : flags) (p : params) (data : list drow) :
  em_inv p data ->
  forall i c', nth_error (cmps (em_step fl p data)) i = Some c' ->
    nonnull i (estep p data) <> [] ->
    (fix_m fl = false -> mass_m i (estep (em_step fl p data) data) c' == 1) /\
    (fix_u fl = false -> mass_u i (estep (em_step fl p data) data) c' == 1).
Proof.
  intros (Htf & Hfix & Hwf & Hpos & Hl & [Hne Hd] & Hsub) i c' Hi Hnn.
  unfold em_step in *. set (sc := estep p data) in *.
  assert (Hsc : sc_ok sc) by (apply estep_sc_ok; auto; intros r Hr; apply (Hd r Hr)).
  apply mstep_nth in Hi as (c & Hi & ->).
  assert (Hc : cmp_ok sc i c).
  { pose proof (nth_error_In _ _ Hi) as Hc. destruct (Hwf c Hc) as [Hnd Hn].
    split; [exact Hnd|]. split; [exact Hn|]. split.
    { intros l Hin. destruct (Hfix c l Hc Hin). destruct (Hpos c l Hc Hin). tauto. }
    split; [|exact (Hsub i c Hi)].
    intros s Hs. unfold sc, estep in Hs. apply in_map_iff in Hs as [r [<- Hr]].
    unfold gi. cbn [sg fst]. apply (Hd r Hr). exact Hi. }
  rewrite (mass_estep_m i p), (mass_estep_u i p). fold sc. split; intros Fx.
  - apply mass_m_upd; auto.
  - apply mass_u_upd; auto.
Qed.

(* ------------------------------------------------------------------------------------ *)
(* Monotonicity along the whole training history                                         *)
(* ------------------------------------------------------------------------------------ *)

Fixpoint mono_chain (data : list drow) (h : list params) : Prop :=
  match h with
  | a :: (b :: _) as t => (loglik a data <= loglik b data)%R /\ mono_chain data t
  | _ => True
  end.

Lemma last_default_irrelevant {A : Type} (l : list A) d d' : l <> [] -> last l d = last l d'.
Proof.
  induction l as [|x t IH]; intros H; [congruence|]. destruct t as [|y t]; [reflexivity|].
  change (last (y :: t) d = last (y :: t) d'). apply IH. discriminate.
Qed.

Lemma em_history_head fl conv fuel p data : exists t, em_history fl conv fuel p data = p :: t.
Proof. destruct fuel; cbn; [eauto|]. destruct (Qlt_bool _ _); eauto. Qed.

Theorem em_history_monotone (fl : flags) (conv : Q) (fuel : nat) (p : params) (data : list drow) :
  em_inv p data ->
  mono_chain data (em_history fl conv fuel p data) /\
  Forall (fun q => em_inv q data) (em_history fl conv fuel p data) /\
  (loglik p data <= loglik (last (em_history fl conv fuel p data) p) data)%R.
Proof.
  revert p. induction fuel as [|k IH]; intros p Hinv.
  - cbn. split; [exact I|]. split; [constructor; [exact Hinv|constructor]|lra].
  - pose proof (em_step_preserves fl p data Hinv) as Hinv'.
    assert (Hstep : (loglik p data <= loglik (em_step fl p data) data)%R).
    { destruct Hinv as (? & ? & ? & ? & ? & ? & ?). apply likelihood_monotone; assumption. }
    cbn [em_history]. cbv zeta. destruct (Qlt_bool _ _).
    + cbn. split; [tauto|]. split; [constructor; [exact Hinv|constructor; [exact Hinv'|constructor]]|exact Hstep].
    + destruct (IH _ Hinv') as (C1 & C2 & C3).
      destruct (em_history_head fl conv k (em_step fl p data) data) as [t Et].
      rewrite Et in *. split; [cbn; tauto|]. split; [constructor; assumption|].
      change (last (p :: em_step fl p data :: t) p) with (last (em_step fl p data :: t) p).
      rewrite (last_default_irrelevant (em_step fl p data :: t) p (em_step fl p data)) by discriminate.
      lra.
Qed.

(* the hypothesis on rows in the shape "same length, entry by entry" *)
Lemma row_ok_of_Forall2 cs g :
  Forall2 (fun c v => v = (-1)%Z \/ In v (map lv_val c)) cs g -> row_ok cs g.
Proof.
  induction 1 as [|c v cs g Hcv _ IH]; intros i c' Hi.
  - destruct i; discriminate.
  - destruct i as [|i]; cbn in *.
    + inversion Hi; subst. exact Hcv.
    + apply IH. exact Hi.
Qed.

(* likelihood_monotone with every hypothesis spelled out (nothing hidden in a definition) *)
Theorem likelihood_monotone_explicit (fl : flags) (p : params) (data : list drow) :
  (forall c l, In c (cmps p) -> In l c ->
     lv_tfu l = None /\ lv_fixm l = false /\ lv_fixu l = false /\
     0 < rd (lv_m l) /\ 0 < rd (lv_u l)) ->
  (forall c, In c (cmps p) -> NoDup (map lv_val c) /\ ~ In (-1)%Z (map lv_val c)) ->
  0 < lam p /\ lam p < 1 ->
  data <> [] ->
  (forall r, In r data ->
     0 < dw r /\ Forall2 (fun c v => v = (-1)%Z \/ In v (map lv_val c)) (cmps p) (dg r)) ->
  (forall i c, nth_error (cmps p) i = Some c ->
     sumQ (fun l => if observed i (lv_val l) (estep p data) then rd (lv_m l) else 0) c <= 1 /\
     sumQ (fun l => if observed i (lv_val l) (estep p data) then rd (lv_u l) else 0) c <= 1) ->
  (loglik p data <= loglik (em_step fl p data) data)%R.
Proof.
  intros Hlv Hwf Hl Hne Hd Hsub. apply likelihood_monotone.
  - intros c l Hc Hin. apply (Hlv c l Hc Hin).
  - intros c l Hc Hin. destruct (Hlv c l Hc Hin) as (_ & ? & ? & _). tauto.
  - exact Hwf.
  - intros c l Hc Hin. destruct (Hlv c l Hc Hin) as (_ & _ & _ & ? & ?). tauto.
  - exact Hl.
  - split; [exact Hne|]. intros r Hr. destruct (Hd r Hr) as [Hw Hf].
    split; [exact Hw|apply row_ok_of_Forall2; exact Hf].
  - exact Hsub.
Qed.

(* the hypotheses are satisfiable: a two-level comparison, three agreement patterns *)
Definition ex_p : params :=
  {| lam := 1 # 10;
     cmps := [[ {| lv_val := 0; lv_m := Val (3 # 10); lv_u := Val (9 # 10);
                   lv_fixm := false; lv_fixu := false; lv_tfu := None |};
                {| lv_val := 1; lv_m := Val (7 # 10); lv_u := Val (1 # 10);
                   lv_fixm := false; lv_fixu := false; lv_tfu := None |} ]] |}.
Definition ex_data : list drow := [([1%Z], 1, []); ([0%Z], 3, []); ([(-1)%Z], 1, [])].

Lemma ex_inv : em_inv ex_p ex_data.
Proof.
  split; [|split; [|split; [|split; [|split; [|split]]]]].
  - intros c l [<-|[]] [<-|[<-|[]]]; reflexivity.
  - intros c l [<-|[]] [<-|[<-|[]]]; split; reflexivity.
  - intros c [<-|[]]. split.
    + repeat constructor; cbn; intuition discriminate.
    + cbn. intuition discriminate.
  - intros c l [<-|[]] [<-|[<-|[]]]; split; reflexivity.
  - split; reflexivity.
  - split; [discriminate|].
    intros r [<-|[<-|[<-|[]]]]; (split; [reflexivity|]); intros i c Hi;
      (destruct i as [|i]; [|destruct i; discriminate]); inversion Hi; subst; cbn; auto.
  - intros i c Hi. destruct i as [|i]; [|destruct i; discriminate]. inversion Hi; subst.
    split; vm_compute; discriminate.
Qed.

Lemma ex_monotone fl conv fuel :
  (loglik ex_p ex_data <= loglik (last (em_history fl conv fuel ex_p ex_data) ex_p) ex_data)%R.
Proof. apply em_history_monotone. exact ex_inv. Qed.

Print Assumptions likelihood_monotone.
Print Assumptions em_history_monotone.

(* ------------------------------------------------------------------------------------ *)
(* One unfixed step establishes sub-normalisation: monotone from iterate 1 for any start   *)
(* ------------------------------------------------------------------------------------ *)

(* cmp_ok without the bound on the observed mass *)
Definition cmp_ok0 (sc : list srow) (k : nat) (c : cmp) : Prop :=
  NoDup (map lv_val c) /\ ~ In (-1)%Z (map lv_val c) /\
  (forall l, In l c -> lv_fixm l = false /\ lv_fixu l = false /\ 0 < rd (lv_m l) /\ 0 < rd (lv_u l)) /\
  (forall r, In r sc -> gi k r = (-1)%Z \/ In (gi k r) (map lv_val c)).

Lemma mass_m_upd0 fl sc i c : sc_ok sc -> cmp_ok0 sc i c -> fix_m fl = false ->
  mass_m i sc (updF fl sc i c) <= 1.
Proof.
  intros Hsc (Hnd & Hn & Hl & Hrows) Fx.
  unfold mass_m, updF. rewrite sumQ_map. cbn [lv_val lv_m upd_level].
  set (C := sumQ mterm (nonnull i sc)).
  assert (E : sumQ (fun l => if observed i (lv_val l) sc
                             then rd (new_m fl (props_tbl i sc) l) else 0) c == C / C).
  { transitivity (sumQ (fun l => sumQ mterm (rows_at i (lv_val l) sc) / C) c).
    - apply sumQ_ext. intros l Hin. destruct (observed i (lv_val l) sc) eqn:O.
      + apply new_m_observed; auto; [apply (Hl l Hin)|].
        intros E. apply Hn. rewrite <- E. apply in_map. exact Hin.
      + rewrite (rows_at_nil _ _ _ O). sq. unfold Qdiv. ring.
    - unfold Qdiv. rewrite sumQ_scale_r.
      rewrite <- (sumQ_map lv_val (fun v => sumQ mterm (rows_at i v sc)) c).
      rewrite group_vals by assumption. reflexivity. }
  rewrite E. apply Qdiv_self_le1.
Qed.
Lemma mass_u_upd0 fl sc i c : sc_ok sc -> cmp_ok0 sc i c -> fix_u fl = false ->
  mass_u i sc (updF fl sc i c) <= 1.
Proof.
  intros Hsc (Hnd & Hn & Hl & Hrows) Fx.
  unfold mass_u, updF. rewrite sumQ_map. cbn [lv_val lv_u upd_level].
  set (C := sumQ uterm (nonnull i sc)).
  assert (E : sumQ (fun l => if observed i (lv_val l) sc
                             then rd (new_u fl (props_tbl i sc) l) else 0) c == C / C).
  { transitivity (sumQ (fun l => sumQ uterm (rows_at i (lv_val l) sc) / C) c).
    - apply sumQ_ext. intros l Hin. destruct (observed i (lv_val l) sc) eqn:O.
      + apply new_u_observed; auto; [apply (Hl l Hin)|].
        intros E. apply Hn. rewrite <- E. apply in_map. exact Hin.
      + rewrite (rows_at_nil _ _ _ O). sq. unfold Qdiv. ring.
    - unfold Qdiv. rewrite sumQ_scale_r.
      rewrite <- (sumQ_map lv_val (fun v => sumQ uterm (rows_at i v sc)) c).
      rewrite group_vals by assumption. reflexivity. }
  rewrite E. apply Qdiv_self_le1.
Qed.

(* every hypothesis of likelihood_monotone except sub-normalisation *)
Definition em_pre (p : params) (data : list drow) : Prop :=
  no_tf p /\ no_level_fix p /\ cmps_wf p /\ levels_pos p /\ lam_ok p /\ data_ok p data.

Theorem one_step_subnormal (fl : flags) (p : params) (data : list drow) :
  em_pre p data -> fix_m fl = false -> fix_u fl = false -> em_inv (em_step fl p data) data.
Proof.
  intros (Htf & Hfix & Hwf & Hpos & Hl & [Hne Hd]) Fm Fu.
  unfold em_step. set (sc := estep p data).
  assert (Hsc : sc_ok sc) by (apply estep_sc_ok; auto; intros r Hr; apply (Hd r Hr)).
  assert (Hne' : sc <> []) by (apply estep_nonempty; exact Hne).
  assert (Hcs : forall i c, nth_error (cmps p) i = Some c -> cmp_ok0 sc i c).
  { intros i c Hi. pose proof (nth_error_In _ _ Hi) as Hc. destruct (Hwf c Hc) as [Hnd Hn].
    split; [exact Hnd|]. split; [exact Hn|]. split.
    { intros l Hin. destruct (Hfix c l Hc Hin). destruct (Hpos c l Hc Hin). tauto. }
    intros s Hs. unfold sc, estep in Hs. apply in_map_iff in Hs as [r [<- Hr]].
    unfold gi. cbn [sg fst]. apply (Hd r Hr). exact Hi. }
  split; [|split; [|split; [|split; [|split; [|split]]]]].
  - intros c' l' Hc' Hl'. apply mstep_In in Hc' as (i & c & _ & Hc & ->).
    unfold updF in Hl'. apply in_map_iff in Hl' as [l [<- Hin]]. cbn. apply (Htf c l Hc Hin).
  - intros c' l' Hc' Hl'. apply mstep_In in Hc' as (i & c & _ & Hc & ->).
    unfold updF in Hl'. apply in_map_iff in Hl' as [l [<- Hin]]. cbn. apply (Hfix c l Hc Hin).
  - intros c' Hc'. apply mstep_In in Hc' as (i & c & _ & Hc & ->).
    rewrite updF_vals. apply (Hwf c Hc).
  - intros c' l' Hc' Hl'. apply mstep_In in Hc' as (i & c & _ & Hc & ->).
    unfold updF in Hl'. apply in_map_iff in Hl' as [l [<- Hin]]. cbn [lv_m lv_u upd_level].
    destruct (Hpos c l Hc Hin). split; [apply new_m_pos|apply new_u_pos]; assumption.
  - unfold lam_ok. rewrite mstep_lam. apply lam_next_ok; assumption.
  - split; [exact Hne|]. intros r Hr. split; [apply (Hd r Hr)|].
    intros i c' Hi. apply mstep_nth in Hi as (c & Hc & ->). rewrite updF_vals.
    apply (Hd r Hr). exact Hc.
  - intros i c' Hi. apply mstep_nth in Hi as (c & Hc & ->).
    rewrite (mass_estep_m i p), (mass_estep_u i p). fold sc.
    split; [apply mass_m_upd0|apply mass_u_upd0]; auto.
Qed.

(* for ANY positive, well-formed start the likelihood is monotone from the first iterate on *)
Theorem monotone_from_iterate_1 (fl : flags) (conv : Q) (fuel : nat) (p : params) (data : list drow) :
  em_pre p data -> fix_m fl = false -> fix_u fl = false ->
  mono_chain data (em_history fl conv fuel (em_step fl p data) data).
Proof.
  intros Hpre Fm Fu. apply em_history_monotone. apply one_step_subnormal; assumption.
Qed.
