(* Re-presentation invariance of the graph-metrics model (for C13): row order, edge orientation,
   injective relabelling of record ids and cluster ids. *)
From Coq Require Import List Bool ZArith QArith Lia Permutation.
From Splinkv Require Import Model.GraphMetrics Proofs.GraphMetricsP.
Import ListNotations.
Open Scope Z_scope.

Definition pflip (e : pedge) : pedge := (pe_r e, pe_l e, pe_p e).
Definition pcanon (e : pedge) : pedge := if pe_l e <=? pe_r e then e else pflip e.
(* P' lists the same prediction rows as P, in any order, each in either orientation *)
Definition perm_flip (P P' : list pedge) : Prop := Permutation (map pcanon P) (map pcanon P').

Lemma pcanon_flip : forall e, pcanon (pflip e) = pcanon e.
Proof.
  intros [[l r] p]. unfold pcanon, pflip, pe_l, pe_r, pe_p. cbn [fst snd].
  destruct (l <=? r) eqn:E1, (r <=? l) eqn:E2; try reflexivity.
  - apply Z.leb_le in E1, E2. assert (l = r) by lia. subst. reflexivity.
  - apply Z.leb_gt in E1, E2. lia.
Qed.

Lemma perm_flip_of_perm : forall P P', Permutation P P' -> perm_flip P P'.
Proof. intros. unfold perm_flip. apply Permutation_map. assumption. Qed.

Lemma perm_flip_of_flips : forall (fl : pedge -> bool) P,
  perm_flip P (map (fun e => if fl e then pflip e else e) P).
Proof.
  intros. unfold perm_flip. rewrite map_map.
  rewrite (map_ext (fun e => pcanon (if fl e then pflip e else e)) pcanon); [apply Permutation_refl|].
  intros e. destruct (fl e); [apply pcanon_flip|reflexivity].
Qed.

(* ------------------------------------------------------------------ incidence *)
Definition inc1 (e : pedge) (v : Z) : Z := (if pe_l e =? v then 1 else 0) + (if pe_r e =? v then 1 else 0).

Lemma incidence_sum : forall TE v, incidence TE v = sumZ (map (fun e => inc1 e v) TE).
Proof.
  induction TE as [|e t IH]; intros v; [reflexivity|]. rewrite incidence_cons, IH. unfold inc1, sumZ. cbn [map fold_right]. lia.
Qed.

Lemma inc1_canon : forall e v, inc1 (pcanon e) v = inc1 e v.
Proof. intros e v. unfold pcanon. destruct (pe_l e <=? pe_r e); [reflexivity|]. unfold inc1, pflip, pe_l, pe_r. cbn [fst snd]. lia. Qed.

Lemma sumZ_perm : forall l l', Permutation l l' -> sumZ l = sumZ l'.
Proof. intros l l' H. unfold sumZ. induction H; cbn [fold_right] in *; lia. Qed.

Lemma incidence_perm_flip : forall TE TE' v, perm_flip TE TE' -> incidence TE v = incidence TE' v.
Proof.
  intros TE TE' v H. rewrite !incidence_sum.
  rewrite <- (map_ext _ _ (fun e => inc1_canon e v)). rewrite <- (map_ext _ _ (fun e => inc1_canon e v)) at 1.
  rewrite <- !(map_map pcanon (fun e => inc1 e v)). apply sumZ_perm. apply Permutation_map. exact H.
Qed.

Lemma truncated_canon : forall thr P, map pcanon (truncated_edges thr P) = truncated_edges thr (map pcanon P).
Proof.
  intros thr. induction P as [|e t IH]; [reflexivity|]. cbn [truncated_edges filter map].
  assert (Hp : pe_p (pcanon e) = pe_p e) by (unfold pcanon; destruct (pe_l e <=? pe_r e); reflexivity).
  rewrite Hp. destruct (Qle_bool thr (pe_p e)); cbn [map]; unfold truncated_edges in IH; rewrite IH; reflexivity.
Qed.

Lemma filter_perm : forall (A : Type) (f : A -> bool) l l', Permutation l l' -> Permutation (filter f l) (filter f l').
Proof.
  intros A f l l' H. induction H; cbn [filter].
  - constructor.
  - destruct (f x); [constructor|]; assumption.
  - destruct (f x), (f y); try constructor; try apply Permutation_refl. 
  - eapply Permutation_trans; eassumption.
Qed.

Lemma truncated_perm_flip : forall thr P P', perm_flip P P' -> perm_flip (truncated_edges thr P) (truncated_edges thr P').
Proof.
  intros thr P P' H. unfold perm_flip. rewrite !truncated_canon. apply filter_perm. exact H.
Qed.

(* ------------------------------------------------------------------ nodes table *)
Lemma size_in_perm : forall C C' c, Permutation C C' -> size_in C c = size_in C' c.
Proof.
  intros C C' c H. unfold size_in. f_equal. apply Permutation_length. apply filter_perm. exact H.
Qed.

Lemma nodes_perm_invariant : forall C C' thr P P',
  NoDup (map fst C) -> Permutation C C' -> perm_flip P P' ->
  Permutation (graph_metrics_nodes C (truncated_edges thr P)) (graph_metrics_nodes C' (truncated_edges thr P')).
Proof.
  intros C C' thr P P' Hnd HC HP.
  assert (Hnd' : NoDup (map fst C')) by (eapply Permutation_NoDup; [apply Permutation_map; exact HC|exact Hnd]).
  rewrite !graph_metrics_nodes_spec by assumption.
  pose proof (truncated_perm_flip thr P P' HP) as HT.
  rewrite (map_ext_in _ (fun c => (fst c, snd c, incidence (truncated_edges thr P') (fst c),
            node_centrality (incidence (truncated_edges thr P') (fst c)) (size_in C' (snd c))))).
  - apply Permutation_map. exact HC.
  - intros c _. rewrite (incidence_perm_flip _ _ (fst c) HT), (size_in_perm C C' (snd c) HC). reflexivity.
Qed.

(* ------------------------------------------------------------------ clusters table *)
Lemma maxZ_perm : forall l l', Permutation l l' -> maxZ l = maxZ l'.
Proof.
  intros l l' H. destruct l as [|x t].
  - apply Permutation_nil in H. subst. reflexivity.
  - assert (Hne : x :: t <> []) by discriminate.
    assert (Hne' : l' <> []) by (intro E; subst; apply Permutation_sym, Permutation_nil in H; discriminate).
    pose proof (maxZ_in _ Hne) as H1. pose proof (maxZ_in _ Hne') as H2.
    apply (Permutation_in _ H) in H1. apply (Permutation_in _ (Permutation_sym H)) in H2.
    pose proof (maxZ_ge _ _ H1). pose proof (maxZ_ge _ _ H2). lia.
Qed.

Lemma members_perm : forall C C' c, Permutation C C' -> Permutation (cluster_members C c) (cluster_members C' c).
Proof. intros. unfold cluster_members. apply Permutation_map. apply filter_perm. assumption. Qed.

Lemma clusters_perm_invariant : forall C C' thr P P',
  NoDup (map fst C) -> Permutation C C' -> perm_flip P P' ->
  forall r, In r (graph_metrics_clusters (graph_metrics_nodes C (truncated_edges thr P))) <->
            In r (graph_metrics_clusters (graph_metrics_nodes C' (truncated_edges thr P'))).
Proof.
  intros C C' thr P P' Hnd HC HP r.
  assert (Hnd' : NoDup (map fst C')) by (eapply Permutation_NoDup; [apply Permutation_map; exact HC|exact Hnd]).
  pose proof (truncated_perm_flip thr P P' HP) as HT.
  rewrite !clusters_in by assumption.
  assert (Hrow : forall c,
    let degs := map (incidence (truncated_edges thr P)) (cluster_members C c) in
    let degs' := map (incidence (truncated_edges thr P')) (cluster_members C' c) in
    Permutation degs degs').
  { intros c. cbn zeta. rewrite (map_ext _ _ (fun v => incidence_perm_flip _ _ v HT)).
    apply Permutation_map. apply members_perm. exact HC. }
  split; intros [c [Hc Hr]]; exists c.
  - split; [eapply Permutation_in; [apply Permutation_map; exact HC|exact Hc]|]. cbn zeta in *.
    rewrite <- (Permutation_length (Hrow c)), <- (sumZ_perm _ _ (Hrow c)), <- (maxZ_perm _ _ (Hrow c)). exact Hr.
  - split; [eapply Permutation_in; [apply Permutation_map; apply Permutation_sym; exact HC|exact Hc]|]. cbn zeta in *.
    rewrite (Permutation_length (Hrow c)), (sumZ_perm _ _ (Hrow c)), (maxZ_perm _ _ (Hrow c)). exact Hr.
Qed.

(* ------------------------------------------------------------------ connectivity / bridges *)
Lemma conn_mono : forall E F, (forall v w, uedge E v w -> uedge F v w) -> forall v w, conn E v w -> conn F v w.
Proof.
  intros E F H v w Hc. induction Hc as [v|v x w Hvx _ IH]; [apply conn_refl|]. apply conn_step with x; auto.
Qed.

(* bridges only depend on the undirected edge relation of the remaining rows: row order and
   orientation are irrelevant *)
Lemma conn_same_uedges : forall E F, (forall v w, uedge E v w <-> uedge F v w) -> forall v w, conn E v w <-> conn F v w.
Proof. intros E F H v w. split; apply conn_mono; intros a b; apply H. Qed.

Section Relabel.
  Variable f : Z -> Z.
  Hypothesis Hinj : forall a b, f a = f b -> a = b.
  Definition fE (e : Z * Z) : Z * Z := (f (fst e), f (snd e)).
  Definition fP (e : pedge) : pedge := (f (pe_l e), f (pe_r e), pe_p e).

  Lemma uedge_relabel : forall E v w, uedge (map fE E) (f v) (f w) <-> uedge E v w.
  Proof.
    intros E v w. unfold uedge. rewrite !in_map_iff. split.
    - intros [[[a b] [Heq Hin]]|[[a b] [Heq Hin]]]; unfold fE in Heq; cbn [fst snd] in Heq; inversion Heq as [[H1 H2]];
        apply Hinj in H1; apply Hinj in H2; subst; [left|right]; assumption.
    - intros [H|H]; [left; exists (v, w)|right; exists (w, v)]; auto.
  Qed.

  Lemma conn_relabel_to : forall E v w, conn E v w -> conn (map fE E) (f v) (f w).
  Proof.
    intros E v w H. induction H as [v|v x w Hvx _ IH]; [apply conn_refl|].
    apply conn_step with (f x); [apply uedge_relabel; assumption|assumption].
  Qed.

  Lemma conn_relabel_from : forall E x y, conn (map fE E) x y -> forall v, x = f v -> exists w, y = f w /\ conn E v w.
  Proof.
    intros E x y H. induction H as [x|x z y Hxz _ IH]; intros v Hv.
    - exists v. split; [assumption|apply conn_refl].
    - subst x. assert (Hz : exists u, z = f u /\ uedge E v u).
      { destruct Hxz as [H|H]; apply in_map_iff in H; destruct H as [[a b] [Heq Hin]]; unfold fE in Heq; cbn [fst snd] in Heq;
          inversion Heq as [[H1 H2]].
        - apply Hinj in H1. subst a. exists b. split; [reflexivity|left; assumption].
        - apply Hinj in H2. subst b. exists a. split; [reflexivity|right; assumption]. }
      destruct Hz as [u [-> Hvu]]. destruct (IH u eq_refl) as [w [-> Hw]]. exists w. split; [reflexivity|].
      apply conn_step with u; assumption.
  Qed.

  Lemma conn_relabel : forall E v w, conn (map fE E) (f v) (f w) <-> conn E v w.
  Proof.
    intros E v w. split; [|apply conn_relabel_to].
    intros H. destruct (conn_relabel_from E _ _ H v eq_refl) as [w' [Hw Hc]]. apply Hinj in Hw. subst. assumption.
  Qed.

  Lemma remove_nth_map : forall (A B : Type) (g : A -> B) i l, remove_nth i (map g l) = map g (remove_nth i l).
  Proof. intros A B g i l. revert i. induction l as [|x t IH]; intros [|i]; cbn; try reflexivity. rewrite IH. reflexivity. Qed.

  Lemma ends_relabel : forall TE, ends (map fP TE) = map fE (ends TE).
  Proof. intros. unfold ends. rewrite !map_map. reflexivity. Qed.

  (* is_bridge is invariant under any injective relabelling of the record ids: this is what makes
     the row_number() relabelling for igraph (and the mapping back) harmless *)
  Lemma is_bridge_relabel : forall TE i, is_bridge_b (map fP TE) i = is_bridge_b TE i.
  Proof.
    intros TE i. unfold is_bridge_b. rewrite ends_relabel, nth_error_map, remove_nth_map.
    destruct (nth_error (ends TE) i) as [[l r]|]; [|reflexivity]. cbn [option_map fE fst snd]. f_equal.
    destruct (reach_b (map fE (remove_nth i (ends TE))) (f l) (f r)) eqn:E1, (reach_b (remove_nth i (ends TE)) l r) eqn:E2; try reflexivity.
    - apply (proj1 (reach_b_correct _ _ _)) in E1. apply (proj1 (conn_relabel _ _ _)) in E1.
      apply (proj2 (reach_b_correct _ _ _)) in E1. congruence.
    - apply (proj1 (reach_b_correct _ _ _)) in E2. apply conn_relabel_to in E2.
      apply (proj2 (reach_b_correct _ _ _)) in E2. congruence.
  Qed.

  Lemma edges_table_relabel : forall TE,
    graph_metrics_edges (map fP TE) = map (fun r : Z * Z * bool => (f (fst (fst r)), f (snd (fst r)), snd r)) (graph_metrics_edges TE).
  Proof.
    intros TE. unfold graph_metrics_edges. rewrite map_length, map_map.
    assert (H : forall k (L : list pedge),
      map (fun ie : nat * pedge => (pe_l (snd ie), pe_r (snd ie), is_bridge_b (map fP TE) (fst ie))) (combine (seq k (length L)) (map fP L))
      = map (fun x : nat * pedge => (f (pe_l (snd x)), f (pe_r (snd x)), is_bridge_b TE (fst x))) (combine (seq k (length L)) L)).
    { intros k L. revert k. induction L as [|e t IH]; intros k; [reflexivity|]. cbn [length seq map combine fst snd].
      rewrite IH, is_bridge_relabel. reflexivity. }
    apply H.
  Qed.

  Lemma incidence_relabel : forall TE v, incidence (map fP TE) (f v) = incidence TE v.
  Proof.
    intros TE v. rewrite !incidence_sum, map_map. f_equal. apply map_ext. intros e. unfold inc1, fP, pe_l, pe_r. cbn [fst snd].
    assert (H : forall a, (f a =? f v) = (a =? v)).
    { intros a. destruct (a =? v) eqn:E; [apply Z.eqb_eq in E; subst; apply Z.eqb_refl|].
      apply Z.eqb_neq. intro H. apply Hinj in H. apply Z.eqb_neq in E. contradiction. }
    rewrite !H. reflexivity.
  Qed.

  Lemma truncated_relabel : forall thr P, truncated_edges thr (map fP P) = map fP (truncated_edges thr P).
  Proof.
    intros thr. induction P as [|e t IH]; [reflexivity|]. cbn [map truncated_edges filter].
    change (pe_p (fP e)) with (pe_p e). destruct (Qle_bool thr (pe_p e)); cbn [map]; unfold truncated_edges in IH; rewrite IH; reflexivity.
  Qed.

  (* cluster ids relabelled by any injective g *)
  Variable g : Z -> Z.
  Hypothesis Ginj : forall a b, g a = g b -> a = b.
  Definition fC (c : crow) : crow := (f (fst c), g (snd c)).

  Lemma size_in_relabel : forall C c, size_in (map fC C) (g c) = size_in C c.
  Proof.
    intros C c. unfold size_in. f_equal. induction C as [|x t IH]; [reflexivity|]. cbn [map filter]. unfold fC at 1. cbn [snd].
    assert (H : (g (snd x) =? g c) = (snd x =? c)).
    { destruct (snd x =? c) eqn:E; [apply Z.eqb_eq in E; rewrite E; apply Z.eqb_refl|].
      apply Z.eqb_neq. intro H. apply Ginj in H. apply Z.eqb_neq in E. contradiction. }
    rewrite H. destruct (snd x =? c); cbn [length]; rewrite IH; reflexivity.
  Qed.

  Lemma nodes_relabel : forall C thr P, NoDup (map fst C) ->
    graph_metrics_nodes (map fC C) (truncated_edges thr (map fP P))
    = map (fun r => (f (nm_uid r), g (nm_cid r), nm_deg r, nm_cen r)) (graph_metrics_nodes C (truncated_edges thr P)).
  Proof.
    intros C thr P Hnd.
    assert (Hnd' : NoDup (map fst (map fC C))).
    { replace (map fst (map fC C)) with (map f (map fst C)) by (rewrite !map_map; reflexivity).
      apply FinFun.Injective_map_NoDup; [intros a b; apply Hinj|assumption]. }
    rewrite !graph_metrics_nodes_spec by assumption. rewrite truncated_relabel, !map_map.
    apply map_ext. intros c. unfold fC, nm_uid, nm_cid, nm_deg, nm_cen. cbn [fst snd].
    rewrite incidence_relabel, size_in_relabel. reflexivity.
  Qed.

  Lemma members_relabel : forall C c, cluster_members (map fC C) (g c) = map f (cluster_members C c).
  Proof.
    intros C c. unfold cluster_members. induction C as [|x t IH]; [reflexivity|]. cbn [map filter]. unfold fC at 1. cbn [snd].
    assert (H : (g (snd x) =? g c) = (snd x =? c)).
    { destruct (snd x =? c) eqn:E; [apply Z.eqb_eq in E; rewrite E; apply Z.eqb_refl|].
      apply Z.eqb_neq. intro H. apply Ginj in H. apply Z.eqb_neq in E. contradiction. }
    rewrite H. destruct (snd x =? c); cbn [map fst]; rewrite IH; reflexivity.
  Qed.

  (* the clusters table: same size, edge count, density and centralisation under the new ids *)
  Lemma clusters_relabel : forall C thr P r, NoDup (map fst C) ->
    In r (graph_metrics_clusters (graph_metrics_nodes C (truncated_edges thr P))) ->
    In {| cl_cid := g (cl_cid r); cl_n_nodes := cl_n_nodes r; cl_n_edges := cl_n_edges r;
          cl_density := cl_density r; cl_centralisation := cl_centralisation r |}
       (graph_metrics_clusters (graph_metrics_nodes (map fC C) (truncated_edges thr (map fP P)))).
  Proof.
    intros C thr P r Hnd Hin.
    assert (Hnd' : NoDup (map fst (map fC C))).
    { replace (map fst (map fC C)) with (map f (map fst C)) by (rewrite !map_map; reflexivity).
      apply FinFun.Injective_map_NoDup; [intros a b; apply Hinj|assumption]. }
    apply clusters_in in Hin; [|assumption]. destruct Hin as [c [Hc ->]]. cbn [cl_cid cl_n_nodes cl_n_edges cl_density cl_centralisation].
    apply clusters_in; [assumption|]. exists (g c). split.
    - replace (map snd (map fC C)) with (map g (map snd C)) by (rewrite !map_map; reflexivity). apply in_map. assumption.
    - cbn zeta. rewrite members_relabel, truncated_relabel, map_map.
      rewrite (map_ext (fun x => incidence (map fP (truncated_edges thr P)) (f x)) (incidence (truncated_edges thr P)))
        by (intros; apply incidence_relabel).
      reflexivity.
  Qed.
End Relabel.

(* converse of clusters_relabel: every clusters row of the relabelled input is the image of a row *)
Lemma clusters_relabel_conv : forall f, (forall a b, f a = f b -> a = b) -> forall g, (forall a b, g a = g b -> a = b) ->
  forall C thr P r', NoDup (map fst C) ->
  In r' (graph_metrics_clusters (graph_metrics_nodes (map (fC f g) C) (truncated_edges thr (map (fP f) P)))) ->
  exists r, In r (graph_metrics_clusters (graph_metrics_nodes C (truncated_edges thr P))) /\
    r' = {| cl_cid := g (cl_cid r); cl_n_nodes := cl_n_nodes r; cl_n_edges := cl_n_edges r;
            cl_density := cl_density r; cl_centralisation := cl_centralisation r |}.
Proof.
  intros f Hinj g Ginj C thr P r' Hnd Hin.
  assert (Hnd' : NoDup (map fst (map (fC f g) C))).
  { replace (map fst (map (fC f g) C)) with (map f (map fst C)) by (rewrite !map_map; reflexivity).
    apply FinFun.Injective_map_NoDup; [intros a b; apply Hinj|assumption]. }
  apply clusters_in in Hin; [|assumption]. destruct Hin as [c' [Hc' ->]].
  replace (map snd (map (fC f g) C)) with (map g (map snd C)) in Hc' by (rewrite !map_map; reflexivity).
  apply in_map_iff in Hc'. destruct Hc' as [c [<- Hc]].
  eexists. split.
  - apply clusters_in; [assumption|]. exists c. split; [assumption|reflexivity].
  - cbn zeta. cbn [cl_cid cl_n_nodes cl_n_edges cl_density cl_centralisation].
    rewrite (members_relabel f g Ginj), (truncated_relabel f), map_map.
    rewrite (map_ext (fun x => incidence (map (fP f) (truncated_edges thr P)) (f x)) (incidence (truncated_edges thr P)))
      by (intros; apply (incidence_relabel f Hinj)).
    reflexivity.
Qed.

(* ------------------------------------------------------------------ the edges table under row order / orientation *)
Definition canon2 (e : Z * Z) : Z * Z := (Z.min (fst e) (snd e), Z.max (fst e) (snd e)).
Definition cntc (E : list (Z * Z)) (p : Z * Z) : nat := count_occ pairZ_dec (map canon2 E) p.
Definition canon_row (r : Z * Z * bool) : Z * Z * bool := (canon2 (fst r), snd r).

Lemma canon2_swap : forall v w, canon2 (w, v) = canon2 (v, w).
Proof. intros. unfold canon2. cbn [fst snd]. rewrite Z.min_comm, Z.max_comm. reflexivity. Qed.

Lemma canon2_eq : forall a b v w, canon2 (a, b) = canon2 (v, w) <-> (a = v /\ b = w) \/ (a = w /\ b = v).
Proof.
  intros. unfold canon2. cbn [fst snd]. split.
  - intros H. inversion H. lia.
  - intros [[-> ->]|[-> ->]]; [reflexivity|]. rewrite Z.min_comm, Z.max_comm. reflexivity.
Qed.

Lemma uedge_cnt : forall E v w, uedge E v w <-> (1 <= cntc E (canon2 (v, w)))%nat.
Proof.
  intros E v w. unfold cntc. assert (Hgt : forall n, (1 <= n)%nat <-> (n > 0)%nat) by (intros; lia).
  rewrite Hgt, <- (count_occ_In pairZ_dec). unfold uedge. rewrite in_map_iff. split.
  - intros [H|H]; [exists (v, w)|exists (w, v)]; (split; [|assumption]); [reflexivity|apply canon2_swap].
  - intros [[a b] [Heq Hin]]. apply canon2_eq in Heq. destruct Heq as [[-> ->]|[-> ->]]; [left|right]; assumption.
Qed.

Lemma cntc_cons : forall x E p, cntc (x :: E) p = ((if pairZ_dec (canon2 x) p then 1 else 0) + cntc E p)%nat.
Proof. intros. unfold cntc. cbn [map count_occ]. destruct (pairZ_dec (canon2 x) p); reflexivity. Qed.

Lemma nth_cnt : forall E i e, nth_error E i = Some e -> (1 <= cntc E (canon2 e))%nat.
Proof.
  induction E as [|x E IH]; intros [|i] e H; cbn in H; try discriminate; rewrite cntc_cons.
  - inversion H; subst. destruct (pairZ_dec (canon2 e) (canon2 e)); [lia|congruence].
  - specialize (IH i e H). lia.
Qed.

(* the undirected edge relation that remains after removing one occurrence *)
Lemma uedge_remove_nth : forall E i e v w, nth_error E i = Some e ->
  (uedge (remove_nth i E) v w <->
   ((if pairZ_dec (canon2 e) (canon2 (v, w)) then 2 else 1) <= cntc E (canon2 (v, w)))%nat).
Proof.
  induction E as [|x E IH]; intros [|i] e v w H; cbn [nth_error] in H; try discriminate.
  - inversion H; subst x. cbn [remove_nth]. rewrite uedge_cnt, cntc_cons.
    destruct (pairZ_dec (canon2 e) (canon2 (v, w))); lia.
  - cbn [remove_nth]. rewrite uedge_cnt, !cntc_cons. specialize (IH i e v w H). rewrite uedge_cnt in IH.
    pose proof (nth_cnt E i e H) as Hc.
    destruct (pairZ_dec (canon2 e) (canon2 (v, w))) as [E1|E1], (pairZ_dec (canon2 x) (canon2 (v, w))) as [E2|E2];
      try rewrite <- E1 in *; lia.
Qed.

Lemma conn_sym : forall E v w, conn E v w -> conn E w v.
Proof.
  intros E v w H. induction H as [v|v x w Hvx _ IH]; [apply conn_refl|].
  apply conn_snoc with x; [assumption|]. destruct Hvx; [right|left]; assumption.
Qed.

(* removing either of two occurrences of the same undirected pair, from two lists with the same
   undirected multiset, leaves the same connectivity *)
Lemma remove_occurrence_invariant : forall E E' i j e e' p,
  (forall q, cntc E q = cntc E' q) ->
  nth_error E i = Some e -> nth_error E' j = Some e' -> canon2 e = p -> canon2 e' = p ->
  forall a b, conn (remove_nth i E) a b <-> conn (remove_nth j E') a b.
Proof.
  intros E E' i j e e' p Hc Hi Hj He He'. apply conn_same_uedges. intros v w.
  rewrite (uedge_remove_nth E i _ v w Hi), (uedge_remove_nth E' j _ v w Hj), Hc, He, He'. reflexivity.
Qed.

Lemma cntc_perm : forall E E', Permutation (map canon2 E) (map canon2 E') -> forall p, cntc E p = cntc E' p.
Proof. intros E E' H p. unfold cntc. apply Permutation_count_occ. exact H. Qed.

(* position-independent description of the bridge flag of an undirected pair *)
Fixpoint first_idx (p : Z * Z) (E : list (Z * Z)) : nat :=
  match E with [] => O | x :: t => if pairZ_dec (canon2 x) p then O else S (first_idx p t) end.
Definition flag_of (E : list (Z * Z)) (p : Z * Z) : bool :=
  negb (reach_b (remove_nth (first_idx p E) E) (fst p) (snd p)).

Lemma first_idx_spec : forall p E, In p (map canon2 E) -> exists e, nth_error E (first_idx p E) = Some e /\ canon2 e = p.
Proof.
  induction E as [|x t IH]; intros H; [contradiction|]. cbn [first_idx].
  destruct (pairZ_dec (canon2 x) p) as [Heq|Hne]; [exists x; auto|].
  destruct H as [H|H]; [contradiction|]. apply IH. assumption.
Qed.

Lemma bool_eq_of_iff : forall a b : bool, (a = true <-> b = true) -> a = b.
Proof. intros [|] [|] H; try reflexivity; [symmetry; apply H; reflexivity|apply H; reflexivity]. Qed.

Lemma flag_of_ext : forall E E', Permutation (map canon2 E) (map canon2 E') ->
  forall p, In p (map canon2 E) -> flag_of E p = flag_of E' p.
Proof.
  intros E E' Hp p Hin. unfold flag_of.
  destruct (first_idx_spec p E Hin) as [e [Hi Hc]].
  destruct (first_idx_spec p E' (Permutation_in _ Hp Hin)) as [e' [Hj Hc']].
  f_equal. apply bool_eq_of_iff. rewrite !reach_b_correct.
  apply (remove_occurrence_invariant E E' _ _ e e' p (cntc_perm E E' Hp) Hi Hj Hc Hc').
Qed.

(* the flag of row i is the flag of its undirected pair *)
Lemma is_bridge_flag_of : forall TE i l r, nth_error (ends TE) i = Some (l, r) ->
  is_bridge_b TE i = flag_of (ends TE) (canon2 (l, r)).
Proof.
  intros TE i l r Hi. unfold is_bridge_b, flag_of. rewrite Hi. f_equal.
  assert (Hin : In (canon2 (l, r)) (map canon2 (ends TE))) by (apply in_map; eapply nth_error_In; eassumption).
  destruct (first_idx_spec _ _ Hin) as [e [Hj Hc]].
  apply bool_eq_of_iff. rewrite !reach_b_correct.
  rewrite (remove_occurrence_invariant (ends TE) (ends TE) i _ (l, r) e (canon2 (l, r)) (fun _ => eq_refl) Hi Hj eq_refl Hc).
  set (R := remove_nth (first_idx (canon2 (l, r)) (ends TE)) (ends TE)).
  unfold canon2. cbn [fst snd].
  destruct (Z.le_ge_cases l r) as [H|H].
  - rewrite Z.min_l, Z.max_r by lia. reflexivity.
  - rewrite Z.min_r, Z.max_l by lia. split; apply conn_sym.
Qed.

Lemma edges_table_flag_of : forall TE,
  map canon_row (graph_metrics_edges TE) = map (fun e => (canon2 e, flag_of (ends TE) (canon2 e))) (ends TE).
Proof.
  intros TE. unfold graph_metrics_edges. rewrite map_map.
  assert (H : forall k (L : list pedge), (forall i e, nth_error L i = Some e -> nth_error (ends TE) (k + i) = Some (pe_l e, pe_r e)) ->
    map (fun x : nat * pedge => canon_row (pe_l (snd x), pe_r (snd x), is_bridge_b TE (fst x))) (combine (seq k (length L)) L)
    = map (fun e => (canon2 e, flag_of (ends TE) (canon2 e))) (ends L)).
  { intros k L. revert k. induction L as [|e t IH]; intros k Hn; [reflexivity|]. cbn [length seq combine map ends fst snd].
    f_equal.
    - unfold canon_row. cbn [fst snd]. f_equal. apply is_bridge_flag_of. rewrite <- (Nat.add_0_r k). apply (Hn O e). reflexivity.
    - apply IH. intros i e0 H0. replace (S k + i)%nat with (k + S i)%nat by lia. apply (Hn (S i) e0). exact H0. }
  apply (H O TE). intros i e Hi. cbn [Nat.add]. unfold ends. rewrite nth_error_map, Hi. reflexivity.
Qed.

Lemma canon2_ends_pcanon : forall e, canon2 (pe_l (pcanon e), pe_r (pcanon e)) = canon2 (pe_l e, pe_r e).
Proof.
  intros e. unfold pcanon. destruct (pe_l e <=? pe_r e); [reflexivity|]. unfold pflip, pe_l, pe_r. cbn [fst snd]. apply canon2_swap.
Qed.

(* the edge-metric rows (endpoints canonicalised) are the same multiset under any row order and
   orientation of the thresholded prediction rows *)
Lemma edges_table_perm_flip : forall TE TE', perm_flip TE TE' ->
  Permutation (map canon_row (graph_metrics_edges TE)) (map canon_row (graph_metrics_edges TE')).
Proof.
  intros TE TE' H. rewrite !edges_table_flag_of.
  assert (Hc : Permutation (map canon2 (ends TE)) (map canon2 (ends TE'))).
  { unfold ends. rewrite !map_map.
    rewrite <- (map_ext _ _ canon2_ends_pcanon). rewrite <- (map_ext _ _ canon2_ends_pcanon) at 1.
    rewrite <- !(map_map pcanon (fun e => canon2 (pe_l e, pe_r e))). apply Permutation_map. exact H. }
  rewrite <- !(map_map canon2 (fun p => (p, flag_of _ p))).
  rewrite (map_ext_in (fun p => (p, flag_of (ends TE) p)) (fun p => (p, flag_of (ends TE') p)))
    by (intros p Hp; rewrite (flag_of_ext _ _ Hc p Hp); reflexivity).
  apply Permutation_map. exact Hc.
Qed.
