(* C08  A failing call leaves the model and later results untouched.
   Only statements here; proofs live in Proofs/AtomicP.v.  The programs `p` are the effect
   traces of Model/Atomic.v; those of the real operations are regenerated from /repo on every
   run and `atomicb` / `leaks` are evaluated on them by the kernel VM (harness/c08.py). *)
From Coq Require Import List Bool ZArith Arith.
From Splinkv Require Import Model.Atomic Proofs.AtomicP.
Import ListNotations.

(* Every oracle (path through the ifs and loops), every fault point (site, occurrence) or
   user-level raise, every initial state: if the checker accepts the trace, a failing run ends
   in exactly the visible state it started from. *)
Theorem C08_atomicb_sound :
  forall p, atomicb p = true ->
    forall (o : list (nat * bool)) (k : option (nat * nat)) (v0 : vstate),
      failed (run_op p o k v0) <> None ->
      visible (run_op p o k v0) = vis_of v0.
Proof. exact atomicb_sound. Qed.
Print Assumptions C08_atomicb_sound.

(* Field by field, also for traces the checker rejects: whatever `leaks` does not list is
   untouched at every failure. *)
Theorem C08_leaks_sound :
  forall p f, existsb (field_eqb f) (leaks p) = false ->
    forall o k v0, failed (run_op p o k v0) <> None -> cur (run_op p o k v0) f = v0 f.
Proof. exact leaks_sound. Qed.
Print Assumptions C08_leaks_sound.

Theorem C08_no_leaks_is_atomic : forall p, leaks p = [] -> atomicb p = true.
Proof. exact leaks_nil_atomic. Qed.
Print Assumptions C08_no_leaks_is_atomic.

(* What the model says about later calls, and no more: a later call is started from the visible
   state only (locals, oracle and fault are per call), so after a failed atomic call it starts
   from exactly the configuration it would have started from had the failed call never been
   made.  The visible state comprises the 13 fields of Model/Atomic.v, among them FCache (the
   named cache entries an operation registers itself) and FOther (linker_uid ...); the database
   content and the hash-keyed derived tables of the cache are NOT part of it, and the model has
   no notion of a call's result.  That "every later result equals that of a linker on which the
   failed call was never made" is therefore established by the correspondence run only
   (harness/c08_x.py: predict(), one more inference operation and a cache-sensitive sequence
   after every injected failure, against a reference linker), not by this corollary. *)
Theorem C08_later_call_starts_from_same_visible_state :
  forall p, atomicb p = true ->
    forall o k v0, failed (run_op p o k v0) <> None ->
    forall p2 o2 k2,
      run_op p2 o2 k2 (of_list (visible (run_op p o k v0))) = run_op p2 o2 k2 (of_list (vis_of v0)).
Proof. intros p Ha o k v0 Hf p2 o2 k2. rewrite (atomicb_sound p Ha o k v0 Hf). reflexivity. Qed.
Print Assumptions C08_later_call_starts_from_same_visible_state.

Definition zero : vstate := fun _ => 0%Z.

(* The same on the state itself (no list normalisation): the later call, started from the state
   function the failed call left, agrees with the call started from the original state on every
   component of the configuration `ceq` lists - every field, every saved slot, the fresh-value
   counter, the remaining oracle and fault, the failure site and the desync flag. *)
Theorem C08_later_call_same_configuration :
  forall p, atomicb p = true ->
    forall o k v0, failed (run_op p o k v0) <> None ->
    forall p2 o2 k2, ceq (run_op p2 o2 k2 (cur (run_op p o k v0))) (run_op p2 o2 k2 v0).
Proof. exact later_call_same_cfg. Qed.
Print Assumptions C08_later_call_same_configuration.

(* a call reads its start state pointwise only *)
Theorem C08_call_reads_state_pointwise :
  forall p o k v v', (forall f, v f = v' f) -> ceq (run_op p o k v) (run_op p o k v').
Proof. exact run_op_ext. Qed.
Print Assumptions C08_call_reads_state_pointwise.

(* Histories.  A history is any list of calls (program, oracle, fault), each started from the
   visible state its predecessor left; `prune` removes exactly the calls that fail.  If the
   programs are atomic, the whole history ends in the visible state of the history from which
   the failed calls are absent - failed and successful calls interleaved in any order, any
   number of them - and no call of that pruned history fails.  (Visible state only, as above:
   results of later calls are compared by the correspondence run.) *)
Theorem C08_history_equals_history_without_failed_calls :
  forall (cs : list call) (v0 : vstate),
    (forall c, In c cs -> atomicb (call_prog c) = true) ->
    hist (vis_of v0) cs = hist (vis_of v0) (prune (vis_of v0) cs).
Proof. exact hist_prune. Qed.
Print Assumptions C08_history_equals_history_without_failed_calls.

Theorem C08_pruned_history_has_no_failed_call :
  forall (cs : list call) (v0 : vstate),
    forallb (fun b => negb b)
      (snd (fold_left (fun acc c => (lstep (fst acc) c, snd acc ++ [failedb (fst acc) c]))
                      (prune (vis_of v0) cs) (vis_of v0, []))) = true.
Proof. exact prune_no_failure. Qed.
Print Assumptions C08_pruned_history_has_no_failed_call.

(* non-vacuity: a history of the repaired shapes in which the 1st and 3rd call fail and the 2nd
   succeeds; pruning keeps exactly the 2nd *)
Example C08_history_nonvacuous :
  let cs := [(compare_two_fixed, [], Some (2, 0)); (find_matches_fixed, [(0, true)], None);
             (em_fixed, [(0, false); (2, true); (1, false)], Some (4, 0))] in
  forallb (fun c => atomicb (call_prog c)) cs = true /\
  map (fun c => call_prog c) (prune (vis_of zero) cs) = [find_matches_fixed] /\
  hist (vis_of zero) cs = hist (vis_of zero) (prune (vis_of zero) cs).
Proof. vm_compute. repeat split; reflexivity. Qed.

(* The history statement on the state function itself (each call starts from `cur` of its
   predecessor's final configuration, no list normalisation), field by field. *)
Theorem C08_state_history_equals_history_without_failed_calls :
  forall (cs : list call) (v0 : vstate),
    (forall c, In c cs -> atomicb (call_prog c) = true) ->
    forall f, vhist v0 cs f = vhist v0 (vprune v0 cs) f.
Proof. exact vhist_prune. Qed.
Print Assumptions C08_state_history_equals_history_without_failed_calls.

Example C08_state_history_nonvacuous :
  let cs := [(compare_two_fixed, [], Some (2, 0)); (find_matches_fixed, [(0, true)], None);
             (em_fixed, [(0, false); (2, true); (1, false)], Some (4, 0))] in
  map (fun c => call_prog c) (vprune zero cs) = [find_matches_fixed] /\
  map (vhist zero cs) all_fields = map (vhist zero (vprune zero cs)) all_fields.
Proof. vm_compute. split; reflexivity. Qed.

(* ---- the code as pinned (before the repairs 6d14b1b4, fe1fba29, 82a01923) violated the statement:
   concrete failing runs of the traces the translator extracts from that tree.  The witnesses were
   replayed on the real code by the fault-injection harness (fault points 6.. of the EM call,
   7..13 of find_matches_to_new_records, 1..8 of compare_two_records). *)

Theorem C08_em_refuted :
  exists o k v0, failed (run_op em_pinned o k v0) <> None /\ visible (run_op em_pinned o k v0) <> vis_of v0.
Proof. exists [(0, false); (2, true); (1, false)], (Some (4, 0)), zero. vm_compute. split; discriminate. Qed.
Print Assumptions C08_em_refuted.

(* also by the user-level failure "training rule yields no pairs" (no backend fault at all) *)
Theorem C08_em_no_pairs_refuted :
  exists o v0, failed (run_op em_pinned o None v0) = Some 7 /\ visible (run_op em_pinned o None v0) <> vis_of v0.
Proof. exists [(0, false); (2, true); (1, false); (3, true)], zero. vm_compute. split; [reflexivity | discriminate]. Qed.
Print Assumptions C08_em_no_pairs_refuted.

Theorem C08_find_matches_refuted :
  exists o k v0, failed (run_op find_matches_pinned o k v0) <> None /\
                 visible (run_op find_matches_pinned o k v0) <> vis_of v0.
Proof. exists [(0, true)], (Some (3, 0)), zero. vm_compute. split; discriminate. Qed.
Print Assumptions C08_find_matches_refuted.

Theorem C08_compare_two_records_refuted :
  exists o k v0, failed (run_op compare_two_pinned o k v0) <> None /\
                 visible (run_op compare_two_pinned o k v0) <> vis_of v0.
Proof. exists [], (Some (0, 0)), zero. vm_compute. split; discriminate. Qed.
Print Assumptions C08_compare_two_records_refuted.

(* the checker sees exactly these leaks, and accepts the repaired shapes *)
Example C08_pinned_leaks :
  leaks em_pinned = [FComparisons; FPrior] /\
  leaks find_matches_pinned = [FBlockingRules] /\
  leaks compare_two_pinned = [FRetainMatching; FRetainIntermediate].
Proof. vm_compute. auto. Qed.

Example C08_repaired_shapes_atomic :
  atomicb em_fixed = true /\ atomicb find_matches_fixed = true /\ atomicb compare_two_fixed = true.
Proof. vm_compute. auto. Qed.

(* non-vacuity: on the repaired compare_two_records shape the hypotheses of C08_atomicb_sound hold
   for a run that really fails after the flags were forced to 1, and the same program does change
   the flags while it runs (the success path of the pinned find_matches ends restored, too). *)
Example C08_nonvacuous :
  atomicb compare_two_fixed = true /\
  failed (run_op compare_two_fixed [] (Some (2, 0)) zero) = Some 2 /\
  visible (run_op compare_two_fixed [] (Some (2, 0)) zero) = vis_of zero /\
  cur (run (seqs [Mut FRetainMatching false (VConst 1); Sql 0]) (init zero [] (Some (0, 0)))) FRetainMatching = 1%Z /\
  failed (run_op find_matches_pinned [(0, true)] None zero) = None /\
  visible (run_op find_matches_pinned [(0, true)] None zero) = vis_of zero.
Proof. vm_compute. repeat split; reflexivity. Qed.
