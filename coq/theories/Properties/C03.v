(* C03  EM training performs exact EM steps and never lowers the likelihood.
   Only statements here; proofs live in Proofs/EMP.v (over Q, axiom-free) and
   Proofs/EMLikelihood.v (log-likelihood over the standard reals). *)
From Coq Require Import String Ascii.
From Coq Require Import List ZArith QArith Qreduction Bool Arith Permutation Reals Qreals.
From Splinkv Require Import Model.EM Proofs.EMLikelihood Proofs.EMP.
Import ListNotations.
Open Scope Q_scope.

(* The M-step as the SQL computes it (GROUP BY gamma, WHERE value != -1, window sum per
   comparison, lookup with the KeyError branch) is the textbook closed form: for every level
   value v of comparison i,  m'(v) = sum_{g_i = v} w p / sum_{g_i <> -1} w p  (NotObserved when
   no pair has g_i = v),  lambda' = sum w p / sum w. *)
Theorem C03_mstep_is_reference_em :
  forall fl p sc, no_null_values p -> mstep fl p sc = ref_mstep fl p sc.
Proof. exact mstep_is_reference_em. Qed.
Print Assumptions C03_mstep_is_reference_em.

(* the trained m (u) values of a comparison sum to 1 over the observed non-null levels ... *)
Theorem C03_m_sums_to_one :
  forall fl i sc c,
    cmp_covers i sc c -> fix_m fl = false -> (forall l, In l c -> lv_fixm l = false) ->
    ~ sumQ mterm (nonnull i sc) == 0 ->
    sumQ (fun l => pnum (new_m fl (props_tbl i sc) l)) c == 1.
Proof. exact m_sums_to_one. Qed.
Print Assumptions C03_m_sums_to_one.

Theorem C03_u_sums_to_one :
  forall fl i sc c,
    cmp_covers i sc c -> fix_u fl = false -> (forall l, In l c -> lv_fixu l = false) ->
    ~ sumQ uterm (nonnull i sc) == 0 ->
    sumQ (fun l => pnum (new_u fl (props_tbl i sc) l)) c == 1.
Proof. exact u_sums_to_one. Qed.
Print Assumptions C03_u_sums_to_one.

(* ... and as the readers see them (a never-observed level reads 1e-6) the excess is exactly
   1e-6 per never-observed level *)
Theorem C03_m_read_sums :
  forall fl i sc c,
    cmp_covers i sc c -> fix_m fl = false -> (forall l, In l c -> lv_fixm l = false) ->
    ~ sumQ mterm (nonnull i sc) == 0 ->
    sumQ (fun l => rd (new_m fl (props_tbl i sc) l)) c == 1 + (1 # 1000000) * unobserved_count i sc c.
Proof. exact m_read_sums. Qed.
Print Assumptions C03_m_read_sums.

(* parameters declared fixed (session flags or per-level flags) do not move, in one step ... *)
Theorem C03_fixed_do_not_move :
  forall fl p sc,
    (fix_lam fl = true -> lam (mstep fl p sc) = lam p) /\
    (forall i c k l, nth_error (cmps p) i = Some c -> nth_error c k = Some l ->
       exists c' l', nth_error (cmps (mstep fl p sc)) i = Some c' /\ nth_error c' k = Some l' /\
         lv_val l' = lv_val l /\
         (fix_m fl = true \/ lv_fixm l = true -> lv_m l' = lv_m l) /\
         (fix_u fl = true \/ lv_fixu l = true -> lv_u l' = lv_u l)).
Proof. exact fixed_do_not_move. Qed.
Print Assumptions C03_fixed_do_not_move.

(* ... and along the whole iteration history of a session *)
Theorem C03_fixed_along_history :
  forall fl conv fuel p data,
    (fix_lam fl = true -> Forall (fun q => lam q = lam p) (em_history fl conv fuel p data)) /\
    (fix_m fl = true -> Forall (fun q => map (map lv_m) (cmps q) = map (map lv_m) (cmps p)) (em_history fl conv fuel p data)) /\
    (fix_u fl = true -> Forall (fun q => map (map lv_u) (cmps q) = map (map lv_u) (cmps p)) (em_history fl conv fuel p data)).
Proof. exact fixed_along_history. Qed.
Print Assumptions C03_fixed_along_history.

(* the fast path (GROUP BY all gammas, count( * ), weights = counts) gives the same M-step as
   the row-wise path on the very same comparison vectors *)
Theorem C03_pattern_path_eq_rowwise :
  forall fl p rows,
    no_null_values p ->
    mstep fl p (estep p (pattern_data (count_patterns rows))) = mstep fl p (estep p (rowwise_data rows)).
Proof. exact pattern_path_eq_rowwise. Qed.
Print Assumptions C03_pattern_path_eq_rowwise.

(* comparisons sharing a column with the training blocking rule are not trained: position by
   position through a whole session.  A deactivated comparison keeps its lists of estimates; an
   active one, the a-th active (a = number of active comparisons before position k), gets for
   every level exactly the m (u) of the same-valued level of the a-th comparison of the final EM
   iterate appended (nothing when the session fixes m (u)). *)
Theorem C03_trained_only_active :
  forall nl nb fl conv n br data m k c,
    nth_error (md_cmps m) k = Some c ->
    let start := start_params nl nb br m in
    let final := last (em_history fl conv n start data) start in
    exists c', nth_error (md_cmps (session nl nb fl conv n br data m)) k = Some c' /\
      (deactivated br c = true ->
         map ml_tm (mc_levels c') = map ml_tm (mc_levels c) /\
         map ml_tu (mc_levels c') = map ml_tu (mc_levels c)) /\
      (deactivated br c = false ->
         exists f, nth_error (cmps final)
                             (length (filter (fun c => negb (deactivated br c)) (firstn k (md_cmps m)))) = Some f /\
           length (mc_levels c') = length (mc_levels c) /\
           forall j l, nth_error (mc_levels c) j = Some l ->
             exists fj l', nth_error f j = Some fj /\ nth_error (mc_levels c') j = Some l' /\
               lv_val fj = lv_val (ml_lv l) /\
               ml_tm l' = (if fix_m fl then ml_tm l else ml_tm l ++ [lv_m fj]) /\
               ml_tu l' = (if fix_u fl then ml_tu l else ml_tu l ++ [lv_u fj])).
Proof. exact session_appends_final_values. Qed.
Print Assumptions C03_trained_only_active.

(* ... and come out of the session as they went in: no estimate appended; values = populate,
   which is the identity on a comparison that was already populated *)
Theorem C03_deactivated_untouched :
  forall nl nb fl conv n br data m k c,
    nth_error (md_cmps m) k = Some c -> deactivated br c = true ->
    nth_error (md_cmps (session nl nb fl conv n br data m)) k = Some (populate_cmp c) /\
    (populate_cmp c = c -> nth_error (md_cmps (session nl nb fl conv n br data m)) k = Some c) /\
    populate_cmp (populate_cmp c) = populate_cmp c.
Proof.
  intros. pose proof (deactivated_untouched nl nb fl conv n br data m k c H H0) as E.
  split; [exact E|]. split; [intros P; rewrite E, P; reflexivity|apply populate_cmp_idem].
Qed.
Print Assumptions C03_deactivated_untouched.

(* median aggregation: every active comparison gets the session's final values appended to its
   estimates, every non-fixed level with numeric estimates carries their median
   (statistics.median), and the median does not depend on the order of the sessions *)
Theorem C03_median_aggregation :
  (forall fl br cs finals,
     length finals = length (filter (fun c => negb (deactivated br c)) cs) ->
     filter (fun c => negb (deactivated br c)) (append_trained fl br finals cs)
     = map (fun fc => append_cmp fl (fst fc) (snd fc)) (combine finals (filter (fun c => negb (deactivated br c)) cs))) /\
  (forall fl br final m c l,
     In c (md_cmps (finish_session fl br final m)) -> In l (mc_levels c) ->
     (forall q, lv_fixm (ml_lv l) = false -> median (numeric (ml_tm l)) = Some q -> lv_m (ml_lv l) = Val q) /\
     (forall q, lv_fixu (ml_lv l) = false -> median (numeric (ml_tu l)) = Some q -> lv_u (ml_lv l) = Val q)) /\
  (forall l l', Permutation l l' -> median (numeric l) = median (numeric l')).
Proof.
  split; [exact active_get_final_appended|]. split; [exact session_sets_medians|exact median_aggregation_order].
Qed.
Print Assumptions C03_median_aggregation.

(* Blocking-adjusted starting prior, whatever the column names look like: the code lower-cases
   the names on both sides; that is the same as comparing the names as they are (the
   specification) whenever no two DISTINCT names involved (rule columns, columns of exact-match
   levels) collide in lower case. *)
Theorem C03_prior_adjustment :
  forall br m,
    (forall x y, In x (names_involved br m) -> In y (names_involved br m) -> lower x = lower y -> x = y) ->
    adjusted_prior_impl br m = adjusted_prior_spec br m.
Proof. intros br m H. exact (prior_adjustment_names lower br m H). Qed.
Print Assumptions C03_prior_adjustment.

(* Blocking-adjusted starting prior for a column with upper-case letters: the code (both sides
   lower-cased since fix 6a6654d9) agrees with the specification (names compared as they
   are); the former one-sided lower() silently skipped the adjustment (DESIGN 7.6). *)
Definition surname_model : model :=
  {| md_lam := 1 # 10;
     md_cmps := [ {| mc_name := "Surname"; mc_cols := ["Surname"%string];
                     mc_levels := [ {| ml_lv := {| lv_val := 1; lv_m := Val (9 # 10); lv_u := Val (2 # 10);
                                                   lv_fixm := false; lv_fixu := false; lv_tfu := None |};
                                       ml_tm := []; ml_tu := []; ml_exact := Some ["Surname"%string] |};
                                    {| ml_lv := {| lv_val := 0; lv_m := Val (1 # 10); lv_u := Val (8 # 10);
                                                   lv_fixm := false; lv_fixu := false; lv_tfu := None |};
                                       ml_tm := []; ml_tu := []; ml_exact := None |} ] |} ] |}.
Example C03_prior_adjustment_uppercase :
  Qred (adjusted_prior_impl ["Surname"%string] surname_model) = 1 # 3 /\
  Qred (adjusted_prior_spec ["Surname"%string] surname_model) = 1 # 3.
Proof. split; vm_compute; reflexivity. Qed.
Example C03_prior_one_sided_lower_refuted :
  exists br m, ~ adjusted_prior_one_sided br m == adjusted_prior_spec br m.
Proof. exists ["Surname"%string], surname_model. vm_compute. discriminate. Qed.

(* ------------------------------------------------------------------------------------ *)
(* over the reals: the observed-data log-likelihood never decreases                       *)
(* ------------------------------------------------------------------------------------ *)

(* One EM step of a model without term-frequency adjustments, with ANY subset of
   {m, u, lambda} fixed by the session flags (generalised EM), for all data with positive
   weights whose gamma values are levels of the model, all parameters positive, lambda in
   (0,1), and the old m (u) of the levels observed in the data summing to at most 1 per
   comparison (true for every iterate after the first by C03_m_sums_to_one; an unnormalised
   start can lose "likelihood" simply by being normalised). *)
Theorem C03_likelihood_monotone :
  forall fl p data,
    no_tf p -> no_level_fix p -> cmps_wf p -> levels_pos p -> lam_ok p ->
    data_ok p data -> subnormal p data ->
    (loglik p data <= loglik (em_step fl p data) data)%R.
Proof. exact likelihood_monotone. Qed.
Print Assumptions C03_likelihood_monotone.

(* the hypotheses are preserved by the step, so the log-likelihood is monotone along the whole
   iteration history of a session *)
Theorem C03_likelihood_monotone_history :
  forall fl conv fuel p data,
    em_inv p data ->
    mono_chain data (em_history fl conv fuel p data) /\
    Forall (fun q => em_inv q data) (em_history fl conv fuel p data) /\
    (loglik p data <= loglik (last (em_history fl conv fuel p data) p) data)%R.
Proof. exact em_history_monotone. Qed.
Print Assumptions C03_likelihood_monotone_history.

(* ------------------------------------------------------------------------------------ *)
(* non-vacuity                                                                           *)
(* ------------------------------------------------------------------------------------ *)

(* a comparison with a null level in the data and a level that is never observed; m trained,
   u fixed *)
Definition demo_p : params :=
  {| lam := 1 # 10;
     cmps := [[ {| lv_val := 2; lv_m := Val (6 # 10); lv_u := Val (1 # 10); lv_fixm := false; lv_fixu := false; lv_tfu := None |};
                {| lv_val := 1; lv_m := Val (1 # 10); lv_u := Val (1 # 10); lv_fixm := false; lv_fixu := false; lv_tfu := None |};
                {| lv_val := 0; lv_m := Val (3 # 10); lv_u := Val (8 # 10); lv_fixm := false; lv_fixu := false; lv_tfu := None |} ]] |}.
Definition demo_rows : list (list Z) := [[2%Z]; [0%Z]; [0%Z]; [(-1)%Z]; [2%Z]; [0%Z]].
Definition demo_fl : flags := {| fix_m := false; fix_u := true; fix_lam := false |}.

Example C03_example_step :
  em_step demo_fl demo_p (rowwise_data demo_rows)
  = {| lam := 17 # 100;
       cmps := [[ {| lv_val := 2; lv_m := Val (20 # 23); lv_u := Val (1 # 10); lv_fixm := false; lv_fixu := false; lv_tfu := None |};
                  {| lv_val := 1; lv_m := NotObserved; lv_u := Val (1 # 10); lv_fixm := false; lv_fixu := false; lv_tfu := None |};
                  {| lv_val := 0; lv_m := Val (3 # 23); lv_u := Val (8 # 10); lv_fixm := false; lv_fixu := false; lv_tfu := None |} ]] |}.
Proof. vm_compute. reflexivity. Qed.

Example C03_example_pattern_path :
  count_patterns demo_rows = [([(-1)%Z], 1%positive); ([2%Z], 2%positive); ([0%Z], 3%positive)] /\
  em_step demo_fl demo_p (pattern_data (count_patterns demo_rows)) = em_step demo_fl demo_p (rowwise_data demo_rows).
Proof. split; vm_compute; reflexivity. Qed.

Example C03_example_median :
  median (numeric [Val (3 # 10); NotObserved; Val (1 # 10); Val (2 # 10); Val (8 # 10)]) = Some (1 # 4) /\
  median (numeric [Val (3 # 10); Val (2 # 20); Val (2 # 10)]) = Some (1 # 5).
Proof. split; vm_compute; reflexivity. Qed.

(* the hypotheses of the likelihood theorems are satisfiable (one comparison, two levels,
   three agreement patterns including a null gamma) *)
Example C03_example_likelihood_hypotheses : em_inv ex_p ex_data.
Proof. exact ex_inv. Qed.

(* ------------------------------------------------------------------------------------ *)
(* Invariance under re-presentation (C13): row order, pattern-table order, comparison     *)
(* labels.  reorder d pi l = map (fun i => nth i l d) pi;  relabel_params pi p keeps lam   *)
(* and reorders the comparisons; relabel_srow / relabel_drow reorder the gamma (and        *)
(* term-frequency) columns of a row and keep weight and match probability.                *)
(* ------------------------------------------------------------------------------------ *)

Theorem C03_mstep_perm_invariant :
  forall fl p sc sc', no_null_values p -> Permutation sc sc' -> mstep fl p sc = mstep fl p sc'.
Proof. exact mstep_perm_invariant. Qed.
Print Assumptions C03_mstep_perm_invariant.

Theorem C03_em_step_perm_invariant :
  forall fl p data data',
    no_null_values p -> Permutation data data' ->
    em_step fl p data = em_step fl p data' /\ no_null_values (em_step fl p data).
Proof.
  intros fl p data data' H P. split; [exact (em_step_perm_invariant fl p data data' H P)|].
  exact (no_null_values_em_step fl p data H).
Qed.
Print Assumptions C03_em_step_perm_invariant.

Theorem C03_em_history_perm_invariant :
  forall fl conv fuel p data data',
    no_null_values p -> Permutation data data' ->
    em_history fl conv fuel p data = em_history fl conv fuel p data'.
Proof. exact em_history_perm_invariant. Qed.
Print Assumptions C03_em_history_perm_invariant.

Theorem C03_count_patterns_perm :
  forall rows rows', Permutation rows rows' -> Permutation (count_patterns rows) (count_patterns rows').
Proof. exact count_patterns_perm. Qed.
Print Assumptions C03_count_patterns_perm.

Theorem C03_pattern_table_perm_invariant :
  forall fl p pc pc',
    no_null_values p -> Permutation pc pc' ->
    em_step fl p (pattern_data pc) = em_step fl p (pattern_data pc').
Proof. exact pattern_table_perm_invariant. Qed.
Print Assumptions C03_pattern_table_perm_invariant.

(* relabelling: no hypothesis is needed for the M-step alone (an index of pi beyond the end
   reads as an empty comparison and a null gamma) *)
Theorem C03_mstep_relabel_invariant :
  forall fl pi p sc,
    cmps (mstep fl {| lam := lam p; cmps := reorder [] pi (cmps p) |}
                (map (fun r => (reorder (-1)%Z pi (sg r), sw r, sp r)) sc))
    = reorder [] pi (cmps (mstep fl p sc)) /\
    lam (mstep fl {| lam := lam p; cmps := reorder [] pi (cmps p) |}
               (map (fun r => (reorder (-1)%Z pi (sg r), sw r, sp r)) sc))
    = lam (mstep fl p sc).
Proof. exact mstep_relabel_invariant. Qed.
Print Assumptions C03_mstep_relabel_invariant.

(* a whole EM step: the E-step multiplies the Bayes factors in another order, so the match
   probabilities agree only up to ==; the canonicalised M-step output is nevertheless equal *)
Theorem C03_em_step_relabel_invariant :
  forall fl pi p data,
    no_null_values p -> Permutation pi (seq 0 (length (cmps p))) ->
    cmps (em_step fl {| lam := lam p; cmps := reorder [] pi (cmps p) |}
                  (map (fun r => (reorder (-1)%Z pi (dg r), dw r, reorder None pi (dtf r))) data))
    = reorder [] pi (cmps (em_step fl p data)) /\
    lam (em_step fl {| lam := lam p; cmps := reorder [] pi (cmps p) |}
                 (map (fun r => (reorder (-1)%Z pi (dg r), dw r, reorder None pi (dtf r))) data))
    = lam (em_step fl p data).
Proof. exact em_step_relabel_invariant. Qed.
Print Assumptions C03_em_step_relabel_invariant.

(* two comparisons (the second with a term-frequency adjusted exact level), five rows:
   swapping the comparisons and shuffling the rows gives the swapped result *)
Definition demo_p2 : params :=
  {| lam := 1 # 10;
     cmps := [ [ {| lv_val := 2; lv_m := Val (6 # 10); lv_u := Val (1 # 10); lv_fixm := false; lv_fixu := false; lv_tfu := None |};
                 {| lv_val := 0; lv_m := Val (4 # 10); lv_u := Val (9 # 10); lv_fixm := false; lv_fixu := false; lv_tfu := None |} ];
               [ {| lv_val := 1; lv_m := Val (7 # 10); lv_u := Val (2 # 10); lv_fixm := false; lv_fixu := false; lv_tfu := Some 0%nat |};
                 {| lv_val := 0; lv_m := Val (3 # 10); lv_u := Val (8 # 10); lv_fixm := false; lv_fixu := true; lv_tfu := None |} ] ] |}.
Definition demo_data2 : list drow :=
  [ ([2; 1]%Z, 1, [None; Some (1 # 20)]); ([0; 0]%Z, 3, [None; None]); ([2; 0]%Z, 1, [None; None]);
    ([-1; 1]%Z, 2, [None; Some (1 # 4)]); ([0; -1]%Z, 1, [None; None]) ].
Definition demo_shuffled2 : list drow :=
  [ ([-1; 1]%Z, 2, [None; Some (1 # 4)]); ([0; -1]%Z, 1, [None; None]); ([2; 1]%Z, 1, [None; Some (1 # 20)]);
    ([2; 0]%Z, 1, [None; None]); ([0; 0]%Z, 3, [None; None]) ].

Example C03_example_relabel_and_shuffle :
  em_step demo_fl (relabel_params [1; 0]%nat demo_p2) (map (relabel_drow [1; 0]%nat) demo_shuffled2)
  = relabel_params [1; 0]%nat (em_step demo_fl demo_p2 demo_data2) /\
  em_step demo_fl demo_p2 demo_shuffled2 = em_step demo_fl demo_p2 demo_data2 /\
  map (map lv_m) (cmps (em_step demo_fl demo_p2 demo_data2)) <> map (map lv_m) (cmps demo_p2).
Proof. vm_compute. repeat split. discriminate. Qed.

(* ------------------------------------------------------------------------------------ *)
(* Audit additions                                                                       *)
(* ------------------------------------------------------------------------------------ *)

(* the E-step is Bayes' rule on the mixture density (no term-frequency adjustments) *)
Theorem C03_estep_is_bayes_posterior :
  forall p g tf, no_tf p -> levels_pos p -> lam_ok p ->
    posterior p g tf == lam p * prodM (cmps p) g / mixQ p g.
Proof. exact posterior_closed. Qed.
Print Assumptions C03_estep_is_bayes_posterior.

(* the value the M-step writes for an observed, non-fixed level is a genuine quotient.  With a
   zero denominator both sides would still agree through x / 0 = 0 in Q, whereas the SQL engines
   yield NULL / NaN there: that case is excluded by hypothesis *)
Theorem C03_mstep_reference_nonzero :
  forall fl p sc i c k l,
    nth_error (cmps p) i = Some c -> nth_error c k = Some l ->
    lv_val l <> (-1)%Z -> observed i (lv_val l) sc = true ->
    exists c' l', nth_error (cmps (mstep fl p sc)) i = Some c' /\ nth_error c' k = Some l' /\
      lv_val l' = lv_val l /\
      (fix_m fl = false -> lv_fixm l = false -> ~ sumQ mterm (nonnull i sc) == 0 ->
       rd (lv_m l') == sumQ mterm (rows_at i (lv_val l) sc) / sumQ mterm (nonnull i sc)) /\
      (fix_u fl = false -> lv_fixu l = false -> ~ sumQ uterm (nonnull i sc) == 0 ->
       rd (lv_u l') == sumQ uterm (rows_at i (lv_val l) sc) / sumQ uterm (nonnull i sc)).
Proof. exact mstep_reference_nonzero. Qed.
Print Assumptions C03_mstep_reference_nonzero.

(* for ANY positive well-formed start (no sub-normalisation assumed) one unfixed step
   establishes all hypotheses of the likelihood theorem, so the log-likelihood is monotone from
   iterate 1 on *)
Theorem C03_likelihood_monotone_from_iterate_1 :
  forall fl conv fuel p data,
    no_tf p -> no_level_fix p -> cmps_wf p -> levels_pos p -> lam_ok p -> data_ok p data ->
    fix_m fl = false -> fix_u fl = false ->
    em_inv (em_step fl p data) data /\
    mono_chain data (em_history fl conv fuel (em_step fl p data) data).
Proof.
  intros fl conv fuel p data H1 H2 H3 H4 H5 H6 Fm Fu.
  assert (Hpre : em_pre p data) by exact (conj H1 (conj H2 (conj H3 (conj H4 (conj H5 H6))))).
  split; [exact (one_step_subnormal fl p data Hpre Fm Fu)|exact (monotone_from_iterate_1 fl conv fuel p data Hpre Fm Fu)].
Qed.
Print Assumptions C03_likelihood_monotone_from_iterate_1.

(* the exact-match levels the training blocking rule implies (levels_for_rule): an independent,
   set-based specification of the greedy selection.  rule_selection keeps the column sets of the
   selected levels; cols_disjoint a b: no column of a is a column of b. *)
Theorem C03_prior_levels_sound :
  forall nl nb br m,
    map snd (rule_selection nl nb br m) = levels_for_rule nl nb br m /\
    subseq (rule_selection nl nb br m) (ssort (exact_cands m nl)) /\
    (forall a, In a (rule_selection nl nb br m) ->
       In a (exact_cands m nl) /\ ssubset (fst a) (map nb br) = true) /\
    ForallOrdPairs cols_disjoint (rule_selection nl nb br m).
Proof. exact levels_for_rule_sound. Qed.
Print Assumptions C03_prior_levels_sound.

Theorem C03_prior_levels_complete :
  forall nl nb br m,
    (forall pre post ec x,
       ssort (exact_cands m nl) = pre ++ (ec, x) :: post ->
       ssubset ec (map nb br) = true ->
       (forall a, In a (greedy_pairs pre (map nb br)) -> forall s, In s ec -> ~ In s (fst a)) ->
       In x (levels_for_rule nl nb br m)) /\
    (forall c x, In ([c], x) (exact_cands m nl) -> In c (map nb br) ->
       exists a, In a (rule_selection nl nb br m) /\ In c (fst a)).
Proof. exact levels_for_rule_complete. Qed.
Print Assumptions C03_prior_levels_complete.

Theorem C03_prior_prefers_multi_column :
  forall nl m,
    Permutation (ssort (exact_cands m nl)) (exact_cands m nl) /\
    Sorted.StronglySorted (fun a b => (length (fst b) <= length (fst a))%nat) (ssort (exact_cands m nl)).
Proof. exact levels_for_rule_prefers_larger. Qed.
Print Assumptions C03_prior_prefers_multi_column.

(* the sort is stable, as Python's list.sort: candidates with equally many columns keep their order *)
Example C03_example_ssort_ties :
  ssort [(["a"%string], 1%nat); (["b"%string], 2%nat); (["c"%string; "d"%string], 3%nat); (["e"%string], 4%nat)]
  = [(["c"%string; "d"%string], 3%nat); (["a"%string], 1%nat); (["b"%string], 2%nat); (["e"%string], 4%nat)].
Proof. vm_compute. reflexivity. Qed.

(* a richer witness: two comparisons, a null gamma in each, a never-observed level (value 1 of
   comparison 0); it satisfies every hypothesis of the likelihood theorems and of the
   sums-to-one theorems *)
Definition wit_level (v : Z) (m u : Q) : level :=
  {| lv_val := v; lv_m := Val m; lv_u := Val u; lv_fixm := false; lv_fixu := false; lv_tfu := None |}.
Definition wit_p : params :=
  {| lam := 1 # 10;
     cmps := [ [wit_level 2 (6 # 10) (1 # 10); wit_level 1 (1 # 10) (1 # 10); wit_level 0 (3 # 10) (8 # 10)];
               [wit_level 1 (7 # 10) (2 # 10); wit_level 0 (3 # 10) (8 # 10)] ] |}.
Definition wit_data : list drow :=
  [ ([2; 1]%Z, 1, []); ([0; 0]%Z, 3, []); ([-1; 1]%Z, 2, []); ([2; 0]%Z, 1, []); ([0; -1]%Z, 1, []) ].
Definition wit_fl : flags := {| fix_m := false; fix_u := false; fix_lam := false |}.

Example C03_example_rich_witness :
  em_inv wit_p wit_data /\
  cmp_covers 0 (estep wit_p wit_data) (nth 0 (cmps wit_p) []) /\
  cmp_covers 1 (estep wit_p wit_data) (nth 1 (cmps wit_p) []) /\
  ~ sumQ mterm (nonnull 0 (estep wit_p wit_data)) == 0 /\
  ~ sumQ uterm (nonnull 0 (estep wit_p wit_data)) == 0 /\
  observed 0 1 (estep wit_p wit_data) = false /\
  sumQ (fun l => pnum (new_m wit_fl (props_tbl 0 (estep wit_p wit_data)) l)) (nth 0 (cmps wit_p) []) == 1.
Proof.
  assert (Hcov0 : cmp_covers 0 (estep wit_p wit_data) (nth 0 (cmps wit_p) [])).
  { split; [repeat constructor; cbn; intuition discriminate|]. split; [cbn; intuition discriminate|].
    intros r Hr. apply in_map_iff in Hr as (d & <- & Hd). cbn in Hd.
    repeat (destruct Hd as [<-|Hd]; [vm_compute; tauto|]). destruct Hd. }
  assert (Hcov1 : cmp_covers 1 (estep wit_p wit_data) (nth 1 (cmps wit_p) [])).
  { split; [repeat constructor; cbn; intuition discriminate|]. split; [cbn; intuition discriminate|].
    intros r Hr. apply in_map_iff in Hr as (d & <- & Hd). cbn in Hd.
    repeat (destruct Hd as [<-|Hd]; [vm_compute; tauto|]). destruct Hd. }
  assert (Hnz : ~ sumQ mterm (nonnull 0 (estep wit_p wit_data)) == 0) by (vm_compute; discriminate).
  split; [|split; [exact Hcov0|split; [exact Hcov1|split; [exact Hnz|split; [vm_compute; discriminate|split; [reflexivity|]]]]]].
  - split; [|split; [|split; [|split; [|split; [|split]]]]].
    + intros c l Hc Hl. cbn in Hc. destruct Hc as [<-|[<-|[]]]; cbn in Hl;
        repeat (destruct Hl as [<-|Hl]; [reflexivity|]); destruct Hl.
    + intros c l Hc Hl. cbn in Hc. destruct Hc as [<-|[<-|[]]]; cbn in Hl;
        repeat (destruct Hl as [<-|Hl]; [split; reflexivity|]); destruct Hl.
    + intros c Hc. cbn in Hc. destruct Hc as [<-|[<-|[]]];
        (split; [repeat constructor; cbn; intuition discriminate|cbn; intuition discriminate]).
    + intros c l Hc Hl. cbn in Hc. destruct Hc as [<-|[<-|[]]]; cbn in Hl;
        repeat (destruct Hl as [<-|Hl]; [split; reflexivity|]); destruct Hl.
    + split; reflexivity.
    + split; [discriminate|]. intros r Hr. cbn in Hr.
      repeat (destruct Hr as [<-|Hr];
              [split; [reflexivity|]; intros i c Hi; destruct i as [|[|i]];
               [inversion Hi; subst; cbn; tauto|inversion Hi; subst; cbn; tauto|destruct i; discriminate]|]).
      destruct Hr.
    + intros i c Hi. destruct i as [|[|i]]; [| |destruct i; discriminate];
        inversion Hi; subst; split; vm_compute; discriminate.
  - apply (m_sums_to_one wit_fl 0 (estep wit_p wit_data)); [exact Hcov0|reflexivity| |exact Hnz].
    intros l Hl. cbn in Hl. repeat (destruct Hl as [<-|Hl]; [reflexivity|]). destruct Hl.
Qed.
