(* C04  The direct estimators equal exact pair frequencies.
   Only statements here; proofs live in Proofs/EstimatorsP.v (over Q, nat and Z; the last
   theorem, about the sample proportion, is over the standard reals). *)
From Coq Require Import String Ascii.
From Coq Require Import List ZArith QArith Qreduction Bool Arith Reals.
From Splinkv Require Import Model.EM Model.Estimators Proofs.EstimatorsP.
Import ListNotations.
Open Scope Q_scope.

(* The value appended for the level with value v of comparison i by estimate_u (all pairs given
   match_probability 0, then the M-step SQL) is the exact frequency of v among the pairs that
   are non-null in comparison i, in lowest terms; likewise for the two m estimators (pairs
   given match_probability 1). *)
Theorem C04_u_is_frequency :
  forall i v rows, v <> (-1)%Z -> u_estimate i v rows = frequency i v rows.
Proof. exact u_is_frequency. Qed.
Print Assumptions C04_u_is_frequency.

Theorem C04_m_is_frequency :
  forall i v rows, v <> (-1)%Z -> m_estimate i v rows = frequency i v rows.
Proof. exact m_is_frequency. Qed.
Print Assumptions C04_m_is_frequency.

(* a level that no pair shows gets the not-observed marker, and the model is not given an
   invented value: populating after the append is populating without it *)
Theorem C04_unobserved_gets_no_estimate :
  (forall i v rows, count_level i v rows = O -> v <> (-1)%Z ->
     u_estimate i v rows = NotObserved /\ m_estimate i v rows = NotObserved) /\
  (forall i rows l, count_level i (lv_val (ml_lv l)) rows = O -> lv_val (ml_lv l) <> (-1)%Z ->
     ml_lv (populate_level (add_u i rows l)) = ml_lv (populate_level l)) /\
  (forall b i rows l, count_level i (lv_val (ml_lv l)) rows = O -> lv_val (ml_lv l) <> (-1)%Z ->
     ml_lv (populate_level (add_m b i rows l)) = ml_lv (populate_level l)).
Proof. exact (conj unobserved_no_estimate (conj unobserved_add_u unobserved_add_m)). Qed.
Print Assumptions C04_unobserved_gets_no_estimate.

(* level-fixed values stay; the pairwise-label estimator does not even append to a level with
   fix_m_probability; estimate_u leaves the whole m side (estimate lists and values) as populate
   alone would, the m estimators leave the u side; the prior is never touched *)
Theorem C04_fixed_respected :
  (forall i rows l, lv_fixu (ml_lv l) = true ->
     lv_u (ml_lv (populate_level (add_u i rows l))) = lv_u (ml_lv l)) /\
  (forall b i rows l, lv_fixm (ml_lv l) = true ->
     lv_m (ml_lv (populate_level (add_m b i rows l))) = lv_m (ml_lv l) /\ add_m true i rows l = l) /\
  (forall i rows l,
     ml_tm (add_u i rows l) = ml_tm l /\
     ml_tm (populate_level (add_u i rows l)) = ml_tm l /\
     lv_m (ml_lv (populate_level (add_u i rows l))) = lv_m (ml_lv (populate_level l))) /\
  (forall rows m, m_side (estimate_u rows m) = m_side (populate m)) /\
  (forall rows m, u_side (estimate_m_label rows m) = u_side (populate m) /\
                  u_side (estimate_m_pairs rows m) = u_side (populate m)) /\
  (forall rows m, md_lam (estimate_u rows m) = md_lam m /\ md_lam (estimate_m_label rows m) = md_lam m /\
                  md_lam (estimate_m_pairs rows m) = md_lam m).
Proof.
  split; [exact fixed_u_respected|]. split; [exact fixed_m_respected|].
  split; [exact add_u_keeps_m|]. split; [exact estimate_u_keeps_m|].
  split; [|exact estimators_keep_lam].
  intros rows m. split; [exact (estimate_m_keeps_u false rows m)|exact (estimate_m_keeps_u true rows m)].
Qed.
Print Assumptions C04_fixed_respected.

(* after any of the three estimators every level that is not level-fixed and has a numeric
   estimate carries the median of its estimates; a first estimate is the frequency itself *)
Theorem C04_estimate_is_median :
  (forall rows m c l,
     In c (md_cmps (estimate_u rows m)) \/ In c (md_cmps (estimate_m_label rows m)) \/
     In c (md_cmps (estimate_m_pairs rows m)) ->
     In l (mc_levels c) ->
     (forall q, lv_fixm (ml_lv l) = false -> median (numeric (ml_tm l)) = Some q -> lv_m (ml_lv l) = Val q) /\
     (forall q, lv_fixu (ml_lv l) = false -> median (numeric (ml_tu l)) = Some q -> lv_u (ml_lv l) = Val q)) /\
  (forall i rows l,
     ml_tu l = [] -> lv_fixu (ml_lv l) = false ->
     lv_val (ml_lv l) <> (-1)%Z -> count_level i (lv_val (ml_lv l)) rows <> O ->
     lv_u (ml_lv (populate_level (add_u i rows l))) = frequency i (lv_val (ml_lv l)) rows) /\
  (forall b i rows l,
     ml_tm l = [] -> lv_fixm (ml_lv l) = false ->
     lv_val (ml_lv l) <> (-1)%Z -> count_level i (lv_val (ml_lv l)) rows <> O ->
     lv_m (ml_lv (populate_level (add_m b i rows l))) = frequency i (lv_val (ml_lv l)) rows).
Proof.
  exact (conj estimate_is_median (conj first_u_estimate_is_frequency first_m_estimate_is_frequency)).
Qed.
Print Assumptions C04_estimate_is_median.

(* calculate_cartesian, whenever it answers, is the number of admissible pairs of input tables
   with ns rows (dedupe_only answers for at most one table; link_only refuses fewer than two) *)
Theorem C04_cartesian_counts_admissible_pairs :
  (forall lt ns c,
     cartesian lt (map (fun n => inject_Z (Z.of_nat n)) ns) = Some c ->
     c == inject_Z (Z.of_nat (admissible_pairs lt ns))) /\
  (forall ns : list Q, cartesian LinkOnly ns = None <-> (length ns <= 1)%nat) /\
  (forall ns : list Q, cartesian DedupeOnly ns = None <-> (1 < length ns)%nat).
Proof.
  exact (conj cartesian_counts_admissible_pairs
              (conj cartesian_link_only_refuses cartesian_dedupe_only_refuses)).
Qed.
Print Assumptions C04_cartesian_counts_admissible_pairs.

(* estimate_probability_two_random_records_match: the four outcomes are characterised exactly
   (PriorZeroDivision: the guards pass but there is no admissible pair, the division raises) *)
Theorem C04_prior_formula_and_guard :
  (forall obs recall cart p,
     prior_estimate obs recall cart = PriorOk p ->
     0 < recall /\ recall <= 1 /\ obs <= cart * recall /\ ~ cart == 0 /\ p == obs / (recall * cart) /\
     (0 < cart -> 0 <= obs -> 0 <= p /\ p <= 1)) /\
  (forall obs recall cart,
     prior_estimate obs recall cart = RecallInconsistent <->
     (0 < recall /\ recall <= 1 /\ cart * recall < obs)) /\
  (forall obs recall cart,
     prior_estimate obs recall cart = BadRecall <-> ~ (0 < recall /\ recall <= 1)) /\
  (forall obs recall cart,
     prior_estimate obs recall cart = PriorZeroDivision <->
     (0 < recall /\ recall <= 1 /\ obs <= cart * recall /\ cart == 0)).
Proof.
  exact (conj prior_formula_and_guard
          (conj prior_recall_inconsistent (conj prior_bad_recall prior_zero_division))).
Qed.
Print Assumptions C04_prior_formula_and_guard.

(* lower_id_to_left_hand_side: for a strict order on the keys (asymmetric, and two keys that
   are not ordered either way are equal) the orientation of a labelled pair is irrelevant *)
Theorem C04_label_orientation_irrelevant :
  forall (A : Type) (ltb : A -> A -> bool),
    (forall a b, ltb a b = true -> ltb b a = false) ->
    (forall a b, ltb a b = false -> ltb b a = false -> a = b) ->
    forall p : A * A,
      lower_id_to_left ltb (lower_id_to_left ltb p) = lower_id_to_left ltb p /\
      (fst p <> snd p -> lower_id_to_left ltb (snd p, fst p) = lower_id_to_left ltb p) /\
      ltb (snd (lower_id_to_left ltb p)) (fst (lower_id_to_left ltb p)) = false.
Proof.
  intros A ltb Ha Ht p. split; [apply lower_idempotent; assumption|].
  split; [apply lower_swap; assumption|apply lower_not_descending; assumption].
Qed.
Print Assumptions C04_label_orientation_irrelevant.

(* the sample proportion of estimate_u_values (Model/Estimators.v sample_proportion, regenerated
   from estimate_u.py) is 1, i.e. the whole table is used, as soon as max_pairs reaches the number
   of admissible pairs: n (n - 1) / 2 for dedupe_only and link_and_dedupe, the cross-table pairs
   (the model's total_links, which is the number of admissible pairs) for link_only *)
Theorem C04_full_sample_when_enough_pairs :
  (forall lt ns max_pairs,
     lt <> LinkOnly -> (1 <= fold_right Nat.add O ns)%nat ->
     (INR (fold_right Nat.add O ns) * (INR (fold_right Nat.add O ns) - 1) / 2 <= max_pairs)%R ->
     sample_proportion lt (map INR ns) max_pairs = 1%R) /\
  (forall rc max_pairs,
     (0 < ((sumr rc) ^ 2 - sumr (map (fun c => c ^ 2) rc)) / 2)%R ->
     (((sumr rc) ^ 2 - sumr (map (fun c => c ^ 2) rc)) / 2 <= max_pairs)%R ->
     sample_proportion LinkOnly rc max_pairs = 1%R) /\
  (forall ns,
     (((sumr (map INR ns)) ^ 2 - sumr (map (fun c => c ^ 2) (map INR ns))) / 2
      = INR (admissible_pairs LinkOnly ns))%R) /\
  (forall ns max_pairs,
     (1 <= admissible_pairs LinkOnly ns)%nat -> (INR (admissible_pairs LinkOnly ns) <= max_pairs)%R ->
     sample_proportion LinkOnly (map INR ns) max_pairs = 1%R).
Proof.
  exact (conj sample_full_all_pairs (conj sample_full_link_only
          (conj link_only_total_links_is_admissible_pairs sample_full_link_only_pairs))).
Qed.
Print Assumptions C04_full_sample_when_enough_pairs.

(* ------------------------------------------------------------------------------------ *)
(* Non-vacuity: concrete inputs                                                          *)
(* ------------------------------------------------------------------------------------ *)

(* six pairs, two comparisons; in comparison 0 the levels are 0,1,2: one pair is null, level 0
   is never observed; comparison 1 is read from the second column *)
Definition ex_rows : list (list Z) :=
  [[2; 1]; [2; 0]; [1; 1]; [-1; 1]; [1; -1]; [2; 0]]%Z.

Example ex_u_estimates :
  u_estimate 0 2 ex_rows = Val (3 # 5) /\ u_estimate 0 1 ex_rows = Val (2 # 5) /\
  u_estimate 0 0 ex_rows = NotObserved /\
  u_estimate 1 1 ex_rows = Val (3 # 5) /\ u_estimate 1 0 ex_rows = Val (2 # 5) /\
  frequency 0 2 ex_rows = Val (3 # 5) /\ count_nonnull 0 ex_rows = 5%nat.
Proof. vm_compute. repeat split. Qed.

Example ex_m_estimates :
  m_estimate 0 2 ex_rows = Val (3 # 5) /\ m_estimate 0 0 ex_rows = NotObserved /\
  m_estimate 1 0 ex_rows = frequency 1 0 ex_rows.
Proof. vm_compute. repeat split. Qed.

(* a model with one comparison: level 2 has earlier u estimates 1/5 and 4/5, level 1 is u-fixed,
   level 0 is never observed *)
Definition ex_level (v : Z) (u : Q) (fixu : bool) (tu : list pval) : mlevel :=
  {| ml_lv := {| lv_val := v; lv_m := Val (1 # 2); lv_u := Val u; lv_fixm := false; lv_fixu := fixu;
                 lv_tfu := None |};
     ml_tm := []; ml_tu := tu; ml_exact := None |}.
Definition ex_model : model :=
  {| md_lam := 1 # 100;
     md_cmps := [ {| mc_name := "c0"; mc_cols := ["a"%string];
                     mc_levels := [ex_level 2 (1 # 10) false [Val (1 # 5); Val (4 # 5)];
                                   ex_level 1 (3 # 10) true [];
                                   ex_level 0 (6 # 10) false []] |} ] |}.

Example ex_estimate_u :
  map (fun c => map (fun l => lv_u (ml_lv l)) (mc_levels c)) (md_cmps (estimate_u ex_rows ex_model))
  = [[Val (3 # 5); Val (3 # 10); Val (6 # 10)]] /\
  map (fun c => map ml_tu (mc_levels c)) (md_cmps (estimate_u ex_rows ex_model))
  = [[[Val (1 # 5); Val (4 # 5); Val (3 # 5)]; [Val (2 # 5)]; [NotObserved]]].
Proof. vm_compute. split; reflexivity. Qed.

(* three input tables with 3, 4 and 2 rows *)
Example ex_cartesian :
  option_map Qred (cartesian LinkOnly [3; 4; 2]) = Some 26 /\ admissible_pairs LinkOnly [3; 4; 2]%nat = 26%nat /\
  option_map Qred (cartesian LinkAndDedupe [3; 4; 2]) = Some 36 /\
  admissible_pairs LinkAndDedupe [3; 4; 2]%nat = 36%nat /\
  cartesian DedupeOnly [3; 4; 2] = None /\
  option_map Qred (cartesian DedupeOnly [9]) = Some 36 /\ admissible_pairs DedupeOnly [9]%nat = 36%nat /\
  cartesian LinkOnly [9] = None.
Proof. vm_compute. repeat split. Qed.

(* 10 observed matches at recall 1/2 among 100 pairs: prior 1/5; 60 observed cannot be half of
   at most 100; recall 2 and recall 0 are rejected *)
Example ex_prior :
  match prior_estimate 10 (1 # 2) 100 with PriorOk p => Qeq_bool p (1 # 5) | _ => false end = true /\
  prior_estimate 60 (1 # 2) 100 = RecallInconsistent /\
  prior_estimate 10 2 100 = BadRecall /\ prior_estimate 10 0 100 = BadRecall /\
  prior_estimate 0 (1 # 2) 0 = PriorZeroDivision.
Proof. vm_compute. repeat split. Qed.

Example ex_orientation :
  lower_id_to_left Z.ltb (7, 3)%Z = (3, 7)%Z /\ lower_id_to_left Z.ltb (3, 7)%Z = (3, 7)%Z /\
  lower_id_to_left Z.ltb (5, 5)%Z = (5, 5)%Z.
Proof. vm_compute. repeat split. Qed.

(* ------------------------------------------------------------------------------------ *)
(* Invariance under re-presentation (C13): order of the pairs, labels of the comparisons,  *)
(* order of the input tables.  reorder d pi l = map (fun i => nth i l d) pi (Proofs/EMP).  *)
(* ------------------------------------------------------------------------------------ *)
From Coq Require Import Permutation.
From Splinkv Require Import Proofs.EMP.

Theorem C04_estimators_perm_invariant :
  (forall i v rows rows', Permutation rows rows' -> v <> (-1)%Z ->
     u_estimate i v rows = u_estimate i v rows' /\ m_estimate i v rows = m_estimate i v rows') /\
  (forall rows rows' m,
     (forall c l, In c (md_cmps m) -> In l (mc_levels c) -> lv_val (ml_lv l) <> (-1)%Z) ->
     Permutation rows rows' ->
     estimate_u rows m = estimate_u rows' m /\
     estimate_m_label rows m = estimate_m_label rows' m /\
     estimate_m_pairs rows m = estimate_m_pairs rows' m).
Proof. exact (conj estimates_perm_invariant estimators_perm_invariant). Qed.
Print Assumptions C04_estimators_perm_invariant.

(* column j of the relabelled pairs is column (nth j pi 0) of the original ones; only j in range
   is needed (no condition on v, pi need not be a permutation) *)
Theorem C04_estimators_relabel_invariant :
  forall pi j v rows, (j < length pi)%nat ->
    frequency j v (map (reorder (-1)%Z pi) rows) = frequency (nth j pi O) v rows /\
    u_estimate j v (map (reorder (-1)%Z pi) rows) = u_estimate (nth j pi O) v rows /\
    m_estimate j v (map (reorder (-1)%Z pi) rows) = m_estimate (nth j pi O) v rows.
Proof. exact estimates_relabel_invariant. Qed.
Print Assumptions C04_estimators_relabel_invariant.

(* the order in which the input tables are listed is irrelevant to the number of admissible
   pairs, to calculate_cartesian (both refuse, or both answer with == values) and hence to the
   prior estimate *)
Theorem C04_cartesian_table_order_irrelevant :
  (forall lt ns ns', Permutation ns ns' -> admissible_pairs lt ns = admissible_pairs lt ns') /\
  (forall lt ns ns', Permutation ns ns' ->
     match cartesian lt (map (fun n => inject_Z (Z.of_nat n)) ns),
           cartesian lt (map (fun n => inject_Z (Z.of_nat n)) ns') with
     | Some c, Some c' => c == c'
     | None, None => True
     | _, _ => False
     end) /\
  (forall obs recall c c', c == c' ->
     match prior_estimate obs recall c, prior_estimate obs recall c' with
     | PriorOk p, PriorOk p' => p == p'
     | BadRecall, BadRecall | RecallInconsistent, RecallInconsistent
     | PriorZeroDivision, PriorZeroDivision => True
     | _, _ => False
     end).
Proof. exact (conj admissible_pairs_perm (conj cartesian_perm prior_estimate_compat)). Qed.
Print Assumptions C04_cartesian_table_order_irrelevant.

(* the six pairs of ex_rows shuffled and their two columns swapped; tables listed in another order *)
Definition ex_rows_shuffled : list (list Z) :=
  [[1; -1]; [2; 0]; [-1; 1]; [2; 1]; [1; 1]; [2; 0]]%Z.

Example ex_representation :
  map (reorder (-1)%Z [1; 0]%nat) ex_rows_shuffled
  = [[-1; 1]; [0; 2]; [1; -1]; [1; 2]; [1; 1]; [0; 2]]%Z /\
  u_estimate 1 2 (map (reorder (-1)%Z [1; 0]%nat) ex_rows_shuffled) = u_estimate 0 2 ex_rows /\
  u_estimate 1 2 (map (reorder (-1)%Z [1; 0]%nat) ex_rows_shuffled) = Val (3 # 5) /\
  m_estimate 0 0 (map (reorder (-1)%Z [1; 0]%nat) ex_rows_shuffled) = m_estimate 1 0 ex_rows /\
  estimate_u ex_rows_shuffled ex_model = estimate_u ex_rows ex_model /\
  admissible_pairs LinkOnly [2; 3; 4]%nat = admissible_pairs LinkOnly [3; 4; 2]%nat /\
  option_map Qred (cartesian LinkOnly [2; 3; 4]) = option_map Qred (cartesian LinkOnly [3; 4; 2]).
Proof. vm_compute. repeat split. Qed.

(* ------------------------------------------------------------------------------------ *)
(* num_observed_matches (the cumulative row count of the deterministic rules = the rows the  *)
(* blocking of C01 emits) is the number of DISTINCT admissible pairs satisfying at least one  *)
(* rule: a pair matched by several rules is counted once.                                    *)
(* ------------------------------------------------------------------------------------ *)
From Splinkv Require Base.TV Model.Blocking.

Theorem C04_observed_counts_each_matched_pair_once :
  forall (rec : Type) (adm : rec -> rec -> bool) (rules : list (rec -> rec -> Splinkv.Base.TV.tv))
         (L : list rec),
    NoDup L ->
    NoDup (map snd (Splinkv.Model.Blocking.block adm rules L L)) /\
    (rules <> [] ->
     (forall l r, (exists n, In (n, (l, r)) (Splinkv.Model.Blocking.block adm rules L L)) <->
                  In l L /\ In r L /\ adm l r = true /\
                  exists rk, In rk rules /\ rk l r = Splinkv.Base.TV.T) /\
     observed_matches adm rules L
     = length (filter (fun lr => adm (fst lr) (snd lr) &&
                                 existsb (fun rk => Splinkv.Base.TV.isT (rk (fst lr) (snd lr))) rules)
                      (list_prod L L))).
Proof.
  intros rec adm rules L HL. split; [exact (block_pairs_nodup adm rules L HL)|].
  intros Hne. split; [intros l r; exact (block_pair_present adm rules L l r Hne)|].
  exact (observed_counts_distinct_pairs adm rules L HL Hne).
Qed.
Print Assumptions C04_observed_counts_each_matched_pair_once.

(* four records (id, first name, surname); dedupe (id_l < id_r); two overlapping rules: same
   first name (pairs (1,2), (3,4)); same surname with record 1 on the left (pairs (1,2), (1,3),
   (1,4)).  Pair (1,2) satisfies both: 4 observed matches, not 2 + 3 = 5 *)
Definition ex_recs : list (nat * nat * nat) := [(1, 7, 5); (2, 7, 5); (3, 8, 5); (4, 8, 5)]%nat.
Definition ex_adm (l r : nat * nat * nat) : bool := Nat.ltb (fst (fst l)) (fst (fst r)).
Definition ex_rule_first (l r : nat * nat * nat) : Splinkv.Base.TV.tv :=
  Splinkv.Base.TV.of_bool (Nat.eqb (snd (fst l)) (snd (fst r))).
Definition ex_rule_sur (l r : nat * nat * nat) : Splinkv.Base.TV.tv :=
  Splinkv.Base.TV.of_bool (Nat.eqb (snd l) (snd r) && Nat.ltb (fst (fst l)) 2).

Example ex_observed :
  observed_matches ex_adm [ex_rule_first; ex_rule_sur] ex_recs = 4%nat /\
  observed_matches ex_adm [ex_rule_first] ex_recs = 2%nat /\
  observed_matches ex_adm [ex_rule_sur] ex_recs = 3%nat /\
  match prior_from_records ex_adm [ex_rule_first; ex_rule_sur] ex_recs 1 6 with
  | PriorOk p => Qeq_bool p (2 # 3) | _ => false end = true.
Proof. vm_compute. repeat split. Qed.
