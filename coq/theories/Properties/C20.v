(* C20  Descriptive outputs are exact recounts of the data.
   Statements only; proofs in Proofs/DescriptiveP.v on top of Base/GroupBy.v and Base/CumSum.v.
   All theorems hold for every input list (any length, NULLs, single-valued or all-distinct
   columns, any number of source datasets). *)
From Coq Require Import List Bool ZArith QArith Qabs Sorting.Sorted Sorting.Permutation.
From Splinkv Require Import Base.GroupBy Base.CumSum Model.Descriptive Proofs.DescriptiveP.
Import ListNotations.
Local Open Scope Z_scope.

(* Term frequencies: each non-null value once, with its relative frequency among the non-null
   values; the frequencies sum to 1. *)
Theorem C20_tf_is_relative_frequency :
  forall col,
    (forall v f, In (v, f) (tf_table col) ->
       In v (non_null col) /\ f = qdiv (countZ (Z.eqb v) (non_null col)) (lenZ (non_null col))) /\
    (forall v, In v (non_null col) -> exists f, In (v, f) (tf_table col)) /\
    StronglySorted (fun a b => fst a < fst b) (tf_table col).
Proof.
  intros col. split; [apply tf_table_value|]. split; [apply tf_table_complete|apply tf_table_sorted].
Qed.
Print Assumptions C20_tf_is_relative_frequency.

Theorem C20_tf_sums_to_one :
  forall col, non_null col <> [] -> (sumQ (map snd (tf_table col)) == 1)%Q.
Proof. exact tf_sums_to_one. Qed.
Print Assumptions C20_tf_sums_to_one.

(* ... and the value joined onto each record for scoring is that relative frequency (NULL for
   a NULL cell). *)
Theorem C20_tf_is_scoring_tf :
  forall col,
    join_tf col
    = map (fun x => match x with
                    | Some v => Some (qdiv (countZ (Z.eqb v) (non_null col)) (lenZ (non_null col)))
                    | None => None
                    end) col.
Proof. exact join_tf_spec. Qed.
Print Assumptions C20_tf_is_scoring_tf.

(* Completeness: one row per source dataset, the share of non-null cells. *)
Theorem C20_completeness_is_share :
  forall cells,
    (forall r, In r (completeness_rows cells) ->
       let in_ds := fun x : Z * option Z => Z.eqb (c_ds r) (fst x) in
       total_rows_inc_nulls r = countZ in_ds cells /\
       total_null_rows r = countZ (fun x => negb (is_some (snd x)) && in_ds x) cells /\
       completeness r = qdiv (countZ (fun x => is_some (snd x) && in_ds x) cells) (countZ in_ds cells) /\
       0 < total_rows_inc_nulls r /\ (0 <= completeness r <= 1)%Q) /\
    (forall x, In x cells -> exists r, In r (completeness_rows cells) /\ c_ds r = fst x) /\
    StronglySorted (fun a b => c_ds a < c_ds b) (completeness_rows cells).
Proof.
  intros cells. split; [apply completeness_row_spec|].
  split; [apply completeness_rows_complete|apply completeness_rows_sorted].
Qed.
Print Assumptions C20_completeness_is_share.

(* Comparison-vector distribution: a partition of the scored pairs by gamma vector. *)
Theorem C20_cvd_partitions :
  forall preds,
    sumZ (map count_rows_in_comparison_vector_group (comparison_vector_distribution preds)) = lenZ preds /\
    (preds <> [] -> (sumQ (map proportion_of_comparisons (comparison_vector_distribution preds)) == 1)%Q) /\
    (forall r, In r (comparison_vector_distribution preds) ->
       In (v_gammas r) preds /\
       count_rows_in_comparison_vector_group r = countZ (list_eqb (v_gammas r)) preds /\
       proportion_of_comparisons r = qdiv (countZ (list_eqb (v_gammas r)) preds) (lenZ preds) /\
       sum_gam r = sumZ (map gam_term (v_gammas r))) /\
    (forall g, In g preds -> exists r, In r (comparison_vector_distribution preds) /\ v_gammas r = g) /\
    StronglySorted (fun a b => ltk lex_leb (v_gammas a) (v_gammas b) = true)
                   (comparison_vector_distribution preds).
Proof.
  intros preds. split; [apply cvd_counts_add_up|]. split; [apply cvd_proportions_add_up|].
  split; [apply cvd_row_spec|]. split; [apply cvd_complete|apply cvd_groups_distinct].
Qed.
Print Assumptions C20_cvd_partitions.

Theorem C20_cvd_key_equality_is_equality :
  forall a b, list_eqb a b = true <-> a = b.
Proof. exact list_eqb_eq. Qed.
Print Assumptions C20_cvd_key_equality_is_equality.

(* Histogram: every scored pair lies in exactly one bin [low, low + bw); counts add to N. *)
Theorem C20_histogram_partitions :
  forall bw scores, (0 < bw)%Q ->
    sumZ (map count_rows (histogram bw scores)) = lenZ scores /\
    (forall r, In r (histogram bw scores) ->
       splink_score_bin_low r = (bw * inject_Z (bin_index r))%Q /\
       splink_score_bin_high r = (splink_score_bin_low r + bw)%Q /\
       binwidth r = bw /\
       count_rows r = countZ (in_bin (splink_score_bin_low r) (splink_score_bin_high r)) scores /\
       0 < count_rows r) /\
    (forall s, In s scores -> exists r, In r (histogram bw scores) /\
       (splink_score_bin_low r <= s /\ s < splink_score_bin_high r)%Q) /\
    StronglySorted (fun a b => bin_index a < bin_index b) (histogram bw scores).
Proof.
  intros bw scores Hbw. split; [apply hist_counts_add_up|].
  split; [intros r; apply hist_row_spec; exact Hbw|].
  split; [intros s; apply hist_every_score_in_a_bin; exact Hbw|apply hist_bins_increasing].
Qed.
Print Assumptions C20_histogram_partitions.

Theorem C20_in_bin_meaning :
  forall low high s, in_bin low high s = true <-> (low <= s /\ s < high)%Q.
Proof. exact in_bin_iff. Qed.
Print Assumptions C20_in_bin_meaning.

Theorem C20_bin_width_is_a_listed_width :
  forall mn mx nb, In (choose_bin_width mn mx nb) bin_widths.
Proof. exact choose_bin_width_in_list. Qed.
Print Assumptions C20_bin_width_is_a_listed_width.

(* ... and it is a listed width NEAREST to (max - min) / target_bins (Qabsd is the distance).
   For target_bins = 0 Python's _bins raises ZeroDivisionError; the model's x/0 = 0 then picks
   0.01 - histogram_data with target_bins = 0 is outside the model (not generated). *)
Theorem C20_bin_width_is_nearest :
  forall mn mx nb w, In w bin_widths ->
    (Qabsd (choose_bin_width mn mx nb) ((mx - mn) / inject_Z nb) <= Qabsd w ((mx - mn) / inject_Z nb))%Q.
Proof. exact choose_bin_width_nearest. Qed.
Print Assumptions C20_bin_width_is_nearest.
Theorem C20_Qabsd_is_distance : forall a b, (Qabsd a b == Qabs (a - b))%Q.
Proof. exact Qabsd_is_distance. Qed.
Print Assumptions C20_Qabsd_is_distance.

(* Unlinkables: for each listed (rounded) self-match probability p < 1, cum_prop is exactly the
   share of records whose rounded self-match probability is <= p; every such probability is
   listed. *)
Theorem C20_unlinkables_cumulative :
  forall self_scores,
    let rows := round_self_link self_scores in
    (forall r, In r (unlinkables_data self_scores) ->
       (uc_prob r < 1)%Q /\
       (exists s, In s rows /\ uc_prob r = s_prob s) /\
       (cum_prop r == qdiv (countZ (fun s => Qle_bool (s_prob s) (uc_prob r)) rows) (lenZ rows))%Q /\
       uc_prop r = qdiv (countZ (fun s => eqk Qle_bool (uc_prob r) (s_prob s)) rows) (lenZ rows)) /\
    (forall s, In s rows -> (s_prob s < 1)%Q ->
       exists r, In r (unlinkables_data self_scores) /\ (uc_prob r == s_prob s)%Q).
Proof.
  intros self_scores rows. split.
  - intros r. apply unlinkables_row_spec.
  - intros s. apply unlinkables_complete.
Qed.
Print Assumptions C20_unlinkables_cumulative.

(* profile_columns: value frequencies, the percentile table and the top / bottom n values. *)
Theorem C20_profile_value_frequencies :
  forall col,
    (forall r, In r (value_frequencies col) ->
       In (vf_value r) (non_null col) /\ value_count r = freq col (vf_value r) /\ 0 < value_count r) /\
    (forall v, In v (non_null col) -> exists r, In r (value_frequencies col) /\ vf_value r = v) /\
    StronglySorted (fun a b => vf_value a < vf_value b) (value_frequencies col) /\
    sum_by value_count (value_frequencies col) = total_non_null_rows col.
Proof.
  intros col. split; [apply value_frequencies_spec|]. split; [apply value_frequencies_complete|].
  split; [apply value_frequencies_sorted|apply value_counts_add_up].
Qed.
Print Assumptions C20_profile_value_frequencies.

(* value_count_cumsum of the row for count c = number of non-null cells whose value occurs at
   least c times; sum_tokens = number of non-null cells whose value occurs exactly c times *)
Theorem C20_profile_percentiles :
  forall col p, In p (percentiles col) ->
    (exists r, In r (value_frequencies col) /\ value_count r = pc_value_count p) /\
    value_count_cumsum p = countZ (fun x => pc_value_count p <=? freq col x) (non_null col) /\
    sum_tokens_in_value_count_group p = countZ (fun x => freq col x =? pc_value_count p) (non_null col) /\
    percentile_ex_nulls p = (1 - qdiv (value_count_cumsum p) (total_non_null_rows col))%Q /\
    percentile_inc_nulls p = (1 - qdiv (value_count_cumsum p) (total_rows_incl_nulls col))%Q.
Proof. exact percentiles_spec. Qed.
Print Assumptions C20_profile_percentiles.

Theorem C20_profile_top_bottom_n :
  forall n col,
    (exists rest, Permutation (top_n n col ++ rest) (value_frequencies col) /\
       length (top_n n col) = Nat.min n (length (value_frequencies col)) /\
       StronglySorted (fun x y => value_count y <= value_count x) (top_n n col) /\
       (forall x y, In x (top_n n col) -> In y rest -> value_count y <= value_count x)) /\
    (exists rest, Permutation (bottom_n n col ++ rest) (value_frequencies col) /\
       length (bottom_n n col) = Nat.min n (length (value_frequencies col)) /\
       StronglySorted (fun x y => value_count x <= value_count y) (bottom_n n col) /\
       (forall x y, In x (bottom_n n col) -> In y rest -> value_count x <= value_count y)).
Proof. intros n col. split; [apply top_n_spec|apply bottom_n_spec]. Qed.
Print Assumptions C20_profile_top_bottom_n.

(* ------------------------------------------------------------------ non-vacuity *)
Example C20_example_tf :
  tf_table [Some 3; None; Some 1; Some 3; Some 2; None] = [(1, (1 # 4)%Q); (2, (1 # 4)%Q); (3, (2 # 4)%Q)]
  /\ join_tf [Some 3; None; Some 1; Some 3] = [Some (2 # 3)%Q; None; Some (1 # 3)%Q; Some (2 # 3)%Q].
Proof. vm_compute. split; reflexivity. Qed.
Example C20_example_completeness :
  map (fun r => (c_ds r, total_null_rows r, total_rows_inc_nulls r, completeness r))
      (completeness_rows [(1, Some 5); (2, None); (1, None); (2, None); (1, Some 0)])
  = [(1, 1, 3, (2 # 3)%Q); (2, 2, 2, (0 # 2)%Q)].
Proof. vm_compute. reflexivity. Qed.
Example C20_example_cvd :
  map (fun r => (v_gammas r, sum_gam r, count_rows_in_comparison_vector_group r))
      (comparison_vector_distribution [[1; 0]; [-1; 2]; [1; 0]; [0; 0]])
  = [([-1; 2], 2, 1); ([0; 0], -2, 1); ([1; 0], 0, 2)].
Proof. vm_compute. reflexivity. Qed.
Example C20_example_histogram :
  map (fun r => (splink_score_bin_low r, count_rows r))
      (histogram (1 # 2) [3 # 4; 1; (-1) # 4; 5 # 4; 1 # 2]%Q)
  = [(((-1) # 2)%Q, 1); ((1 # 2)%Q, 2); ((2 # 2)%Q, 2)]
  /\ choose_bin_width ((-10) # 1) (10 # 1) 30 = (1 # 2)%Q.
Proof. vm_compute. split; reflexivity. Qed.
Example C20_example_unlinkables :
  map (fun r => (Qred (uc_prob r), Qred (cum_prop r)))
      (unlinkables_data [(5, 99 # 100); (1 # 3, 1 # 2); (7, 1); (2 # 3, 500001 # 1000000)]%Q)
  = [((1 # 2)%Q, (1 # 2)%Q); ((99 # 100)%Q, (3 # 4)%Q)].
Proof. vm_compute. reflexivity. Qed.
Example C20_example_profile :
  let c := [Some 1; Some 2; Some 1; None; Some 3; Some 1; Some 2; Some 1; Some 2] in
  map (fun p => (pc_value_count p, sum_tokens_in_value_count_group p, value_count_cumsum p, Qred (percentile_ex_nulls p)))
      (percentiles c) = [(1, 1, 8, 0%Q); (3, 3, 7, (1 # 8)%Q); (4, 4, 4, (1 # 2)%Q)]
  /\ map vf_value (top_n 2 c) = [1; 2] /\ map vf_value (bottom_n 1 c) = [3].
Proof. vm_compute. repeat split; reflexivity. Qed.
