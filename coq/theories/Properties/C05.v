(* C05  Clusters are exactly the connected components of the thresholded graph.
   Only statements here; proofs live in Proofs/CCP.v and Base/Graph.v.

   nodes : node ids (Z; the harness maps the engine's id order - numeric for a bare integer
           unique_id, byte order of source_dataset || '-__-' || unique_id otherwise - to ranks)
   edges : (id_l, id_r, match_probability) rows;  thr : None = no threshold.
   cluster_at_threshold = Model/CC.v, the statement-by-statement model of
   solve_connected_components run with fuel |V|^2 + 1 (None = fuel exhausted).
   Hypotheses: node ids are distinct; every edge that passes the threshold joins two rows of
   the node table (true for the linker method by construction, a precondition of the standalone
   function). *)
From Coq Require Import ZArith List Bool QArith Permutation Lia.
From Splinkv Require Import Base.Graph Model.CC Proofs.CCP Model.CCSkel Proofs.CCSkelP Proofs.CCRelabelP Proofs.CCExtraP.
Import ListNotations.
Open Scope Z_scope.

Definition thresholded (thr : option Q) (edges : list (Z * Z * Q)) := thr_edges thr edges.

(* the thresholded edge list is what the property text says: probability at or above the threshold *)
Theorem C05_threshold_is_at_or_above :
  forall thr edges a b,
    In (a, b) (thresholded thr edges) <->
    exists p, In (a, b, p) edges /\ match thr with None => True | Some t => (t <= p)%Q end.
Proof.
  intros. unfold thresholded. rewrite thr_edges_in. split; intros [p [H1 H2]]; exists p; split; auto;
    now apply keep_edge_spec in H2 || apply keep_edge_spec.
Qed.
Print Assumptions C05_threshold_is_at_or_above.

(* main theorem, partial-correctness half: whatever the loop returns has every node exactly once
   and its cluster_id is the minimum of the node's connected component *)
Theorem C05_cluster_is_component_min :
  forall nodes edges thr out,
    NoDup nodes -> closed_edges nodes (thresholded thr edges) ->
    cluster_at_threshold nodes edges thr = Some out ->
    Permutation (map fst out) nodes /\
    forall v c, In (v, c) out -> c = comp_min nodes (thresholded thr edges) v /\
                                 is_comp_min nodes (thresholded thr edges) v c.
Proof.
  intros nodes edges thr out ND CL H. apply solve_cc_good in H; auto. split.
  - eapply good_output_perm; eauto.
  - intros v c Hin. split.
    + eapply good_output_comp_min; eauto.
    + destruct H as (_ & _ & Hm). now apply Hm.
Qed.
Print Assumptions C05_cluster_is_component_min.

(* termination: |V|^2 + 1 passes always suffice (the sum over the active nodes of the rank of
   their representative strictly decreases in every pass that leaves a needs_updating flag set) *)
Theorem C05_terminates :
  forall nodes edges thr,
    NoDup nodes -> closed_edges nodes (thresholded thr edges) ->
    cluster_at_threshold nodes edges thr <> None.
Proof. intros. now apply solve_cc_terminates. Qed.
Print Assumptions C05_terminates.

(* total correctness *)
Theorem C05_total :
  forall nodes edges thr,
    NoDup nodes -> closed_edges nodes (thresholded thr edges) ->
    exists out, cluster_at_threshold nodes edges thr = Some out /\
                Permutation (map fst out) nodes /\
                forall v, In v nodes -> In (v, comp_min nodes (thresholded thr edges) v) out.
Proof.
  intros nodes edges thr ND CL. destruct (solve_cc_total _ _ CL) as [out [H G]].
  exists out. split; [exact H|]. split; [eapply good_output_perm; eauto|].
  intros v Hv. now apply good_output_row.
Qed.
Print Assumptions C05_total.

(* two records share a cluster_id iff joined by a path of qualifying edges *)
Theorem C05_same_cluster_iff_connected :
  forall nodes edges thr out v w c d,
    NoDup nodes -> closed_edges nodes (thresholded thr edges) ->
    cluster_at_threshold nodes edges thr = Some out ->
    In (v, c) out -> In (w, d) out ->
    (c = d <-> conn nodes (thresholded thr edges) v w).
Proof.
  intros nodes edges thr out v w c d ND CL H Hv Hw. apply solve_cc_good in H; auto.
  destruct (good_output_comp_min _ _ _ _ _ H Hv) as [Nv ->].
  destruct (good_output_comp_min _ _ _ _ _ H Hw) as [Nw ->].
  now apply comp_min_eq_iff_conn.
Qed.
Print Assumptions C05_same_cluster_iff_connected.

(* records without a qualifying edge to another record form singleton clusters *)
Theorem C05_singletons :
  forall nodes edges thr out v,
    NoDup nodes -> closed_edges nodes (thresholded thr edges) ->
    cluster_at_threshold nodes edges thr = Some out ->
    In v nodes -> (forall w, adj (thresholded thr edges) v w -> w = v) ->
    In (v, v) out /\ forall w d, In (w, d) out -> d = v -> w = v.
Proof.
  intros nodes edges thr out v ND CL H Hv Hiso. apply solve_cc_good in H; auto.
  assert (Only : forall w, conn nodes (thresholded thr edges) v w -> w = v).
  { intros w C. induction C as [|u w x C IH Hx Ha]; [reflexivity|].
    specialize (IH Hv Hiso). subst w. now apply Hiso. }
  assert (M : comp_min nodes (thresholded thr edges) v = v).
  { apply Only. apply (comp_min_spec nodes (thresholded thr edges) v Hv). }
  split.
  - rewrite <- M at 2. now apply good_output_row.
  - intros w d Hin ->. destruct (good_output_comp_min _ _ _ _ _ H Hin) as [Nw Ew].
    apply Only. apply conn_sym. rewrite Ew. apply (comp_min_spec nodes (thresholded thr edges) w Nw).
Qed.
Print Assumptions C05_singletons.

(* the cluster_id is a member of the cluster and the smallest one *)
Theorem C05_id_is_smallest_member :
  forall nodes edges thr out v c,
    NoDup nodes -> closed_edges nodes (thresholded thr edges) ->
    cluster_at_threshold nodes edges thr = Some out ->
    In (v, c) out ->
    In (c, c) out /\ forall w d, In (w, d) out -> d = c -> c <= w.
Proof.
  intros nodes edges thr out v c ND CL H Hin. apply solve_cc_good in H; auto.
  destruct (good_output_comp_min _ _ _ _ _ H Hin) as [Nv ->]. split.
  - rewrite <- (comp_min_idem nodes (thresholded thr edges) v Nv) at 2.
    apply good_output_row; auto. now apply comp_min_in_nodes.
  - intros w d Hw Hd. destruct (good_output_comp_min _ _ _ _ _ H Hw) as [Nw Ew].
    rewrite <- Hd, Ew. now apply comp_min_le.
Qed.
Print Assumptions C05_id_is_smallest_member.

(* distinct records are never conflated GIVEN an injective id assignment (hypothesis): each record
   then has exactly one output row.  Injectivity of the actual composite key of link jobs is the
   subject of C05_composite_id_injective / C05_composite_ids_not_conflated below. *)
Theorem C05_distinct_records_not_conflated_given_injective_id :
  forall (rec : Type) (id : rec -> Z) (recs : list rec) edges thr out,
    NoDup recs -> (forall r r', In r recs -> In r' recs -> id r = id r' -> r = r') ->
    closed_edges (map id recs) (thresholded thr edges) ->
    cluster_at_threshold (map id recs) edges thr = Some out ->
    Permutation (map fst out) (map id recs) /\
    forall r r', In r recs -> In r' recs -> r <> r' ->
      exists c c', In (id r, c) out /\ In (id r', c') out /\ id r <> id r' /\
        (c = c' <-> conn (map id recs) (thresholded thr edges) (id r) (id r')).
Proof.
  intros rec id recs edges thr out ND Inj CL H.
  assert (NDn : NoDup (map id recs)).
  { clear - ND Inj. induction recs as [|a t IH]; cbn; [constructor|]. inversion ND; subst. constructor.
    - intros Hin. apply in_map_iff in Hin. destruct Hin as [x [Ex Hx]].
      assert (x = a) by (apply Inj; cbn; auto). subst. contradiction.
    - apply IH; auto. intros; apply Inj; cbn; auto. }
  pose proof (solve_cc_good _ _ CL _ H) as G. split; [eapply good_output_perm; eauto|].
  intros r r' Hr Hr' Hne.
  assert (N : In (id r) (map id recs)) by now apply in_map.
  assert (N' : In (id r') (map id recs)) by now apply in_map.
  exists (comp_min (map id recs) (thresholded thr edges) (id r)),
         (comp_min (map id recs) (thresholded thr edges) (id r')).
  repeat split; try (now apply good_output_row); try (now apply comp_min_eq_iff_conn).
  intros Heq. apply Hne. now apply Inj.
Qed.
Print Assumptions C05_distinct_records_not_conflated_given_injective_id.

(* robustness: duplicate edges, reversed edges and self loops change neither the neighbours
   table (as a set) nor the result *)
Theorem C05_edge_representation_irrelevant :
  forall nodes E E',
    (forall a b, a <> b -> (adj E a b <-> adj E' a b)) ->
    (forall v w, In (v, w) (neighbours nodes (edges_with_self_loops nodes E)) <->
                 In (v, w) (neighbours nodes (edges_with_self_loops nodes E'))) /\
    (NoDup nodes -> closed_edges nodes E -> closed_edges nodes E' ->
     forall out out', solve_cc nodes E = Some out -> solve_cc nodes E' = Some out' ->
                      forall v c, In (v, c) out <-> In (v, c) out').
Proof.
  intros nodes E E' H. split; [now apply neighbours_robust|].
  intros ND C1 C2 out out' H1 H2.
  apply (outputs_robust nodes E E' out out' ND C1 C2 H); now apply solve_cc_good.
Qed.
Print Assumptions C05_edge_representation_irrelevant.

Theorem C05_duplicate_reversed_self_edges :
  forall (E : list (Z * Z)) a b c,
    (forall x y, x <> y -> (adj E x y <-> adj ((a, b) :: (b, a) :: (a, b) :: (c, c) :: E) x y)) <->
    (a <> b -> adj E a b).
Proof.
  intros E a b c. unfold adj. cbn [In]. split.
  - intros H Hne. apply (H a b Hne). auto.
  - intros H x y Hne. split; [tauto|].
    intros [[Eq|[Eq|[Eq|[Eq|Hin]]]]|[Eq|[Eq|[Eq|[Eq|Hin]]]]]; try tauto;
      injection Eq as <- <-; try congruence; try (destruct (H Hne); tauto);
      destruct (H (not_eq_sym Hne)); tauto.
Qed.
Print Assumptions C05_duplicate_reversed_self_edges.

(* a match-weight threshold w (integer) is equivalent to its probability 2^w/(1+2^w):
   p >= 2^w/(1+2^w)  iff  the Bayes factor p/(1-p) >= 2^w, i.e. match weight >= w *)
Theorem C05_threshold_weight_equiv :
  forall (w : Z) (p : Q), (0 <= p)%Q -> (p < 1)%Q ->
    ((weight_to_prob w <= p)%Q <-> (pow2Q w <= p / (1 - p))%Q).
Proof. exact weight_threshold_equiv. Qed.
Print Assumptions C05_threshold_weight_equiv.

(* modelling note made checkable: the LEFT JOINs of the neighbours CTE always match (self loop),
   so rendering them as inner joins loses nothing *)
Theorem C05_neighbour_left_joins_always_match :
  forall nodes E v, In v nodes ->
    filter (fun e => v =? fst e) (edges_with_self_loops nodes E) <> [] /\
    filter (fun e => v =? snd e) (edges_with_self_loops nodes E) <> [].
Proof. exact neighbours_left_joins_match. Qed.
Print Assumptions C05_neighbour_left_joins_always_match.

(* T: the per-CTE obligation `skel_ok (name, s) = true` evaluated on every run holds exactly when
   the skeleton regenerated from /repo is the one Model/CCSkel.v records for that CTE *)
Theorem C05_skeleton_check_decides_equality :
  forall name s, skel_ok (name, s) = true <-> lookup_sk name expected = Some s.
Proof. exact skel_ok_iff. Qed.
Print Assumptions C05_skeleton_check_decides_equality.

(* the executable spec used by the correspondence check is the component minimum *)
Theorem C05_comp_min_exec_is_spec :
  forall nodes E v, In v nodes ->
    conn nodes E v (comp_min nodes E v) /\ forall w, conn nodes E v w -> comp_min nodes E v <= w.
Proof. intros. now apply comp_min_spec. Qed.
Print Assumptions C05_comp_min_exec_is_spec.

(* non-vacuity: a zig-zag path 3-1-5-0-6-2-7 plus an isolated node with a self loop, edge (6,2)
   below the threshold; duplicate and reversed edges present *)
Definition ex_nodes := [0; 1; 2; 3; 4; 5; 6; 7].
Definition ex_edges : list (Z * Z * Q) :=
  [(3, 1, Qmake 3 4); (1, 5, Qmake 1 2); (5, 0, Qmake 1 2); (0, 6, Qmake 1023 1024);
   (6, 2, Qmake 511 1024); (2, 7, Qmake 1 1); (4, 4, Qmake 1 1); (1, 3, Qmake 3 4); (3, 1, Qmake 3 4)].
Example C05_example_hyps :
  NoDup ex_nodes /\ closed_edges ex_nodes (thresholded (Some (Qmake 1 2)) ex_edges).
Proof.
  split.
  - repeat constructor; cbn; intuition congruence.
  - intros a b Hin. vm_compute in Hin. unfold ex_nodes.
    repeat (destruct Hin as [Hin|Hin]; [injection Hin as <- <-; cbn; tauto|]). destruct Hin.
Qed.
Example C05_example :
  cluster_at_threshold ex_nodes ex_edges (Some (Qmake 1 2))
  = Some [(2, 2); (4, 4); (7, 2); (0, 0); (1, 0); (3, 0); (5, 0); (6, 0)].
Proof. vm_compute. reflexivity. Qed.
Example C05_example_spec :
  map (comp_min ex_nodes (thresholded (Some (Qmake 1 2)) ex_edges)) ex_nodes = [0; 0; 2; 0; 4; 0; 0; 2].
Proof. vm_compute. reflexivity. Qed.

(* ------------------------------------------------------------------------------------ *)
(* Re-presentation invariance (also the clustering half of C13).
   relabel_edges f edges = the same edge rows with both ids mapped through f. *)

(* spec level *)
Theorem C05_comp_min_commutes_with_order_preserving_relabelling :
  forall (f : Z -> Z) nodes E v,
    (forall x y, x < y -> f x < f y) -> In v nodes ->
    comp_min (map f nodes) (map_edges f E) (f v) = f (comp_min nodes E v).
Proof. exact comp_min_relabel_monotone. Qed.
Print Assumptions C05_comp_min_commutes_with_order_preserving_relabelling.

Theorem C05_partition_invariant_under_injective_relabelling :
  forall (f : Z -> Z) nodes E v w,
    (forall x y, f x = f y -> x = y) -> In v nodes -> In w nodes ->
    (comp_min (map f nodes) (map_edges f E) (f v) = comp_min (map f nodes) (map_edges f E) (f w) <->
     comp_min nodes E v = comp_min nodes E w).
Proof. exact comp_min_relabel_partition. Qed.
Print Assumptions C05_partition_invariant_under_injective_relabelling.

Theorem C05_comp_min_row_order_irrelevant :
  forall nodes nodes2 E E2 v,
    Permutation nodes nodes2 -> Permutation E E2 -> In v nodes ->
    comp_min nodes E v = comp_min nodes2 E2 v.
Proof.
  intros nodes nodes2 E E2 v Pn Pe Hv. apply comp_min_rows_irrelevant; auto.
  - intros x; split; apply Permutation_in; [exact Pn|now apply Permutation_sym].
  - intros e; split; apply Permutation_in; [exact Pe|now apply Permutation_sym].
Qed.
Print Assumptions C05_comp_min_row_order_irrelevant.

(* loop model, through total correctness: a strictly order-preserving relabelling of the ids
   relabels the whole output (node ids and cluster ids) and nothing else *)
Theorem C05_relabel_order_preserving :
  forall (f : Z -> Z) nodes edges thr,
    closed_edges nodes (thresholded thr edges) ->
    (forall x y, x < y -> f x < f y) ->
    exists out out',
      cluster_at_threshold nodes edges thr = Some out /\
      cluster_at_threshold (map f nodes) (relabel_edges f edges) thr = Some out' /\
      (forall v c, In (v, c) out -> In (f v, f c) out') /\
      (forall v' c', In (v', c') out' -> exists v c, v' = f v /\ c' = f c /\ In (v, c) out).
Proof. intros f nodes edges thr CL Mono. now apply relabel_monotone. Qed.
Print Assumptions C05_relabel_order_preserving.

(* under an arbitrary injective relabelling the partition is preserved: two records share a
   cluster before iff their images share a cluster after (the cluster ids themselves may change,
   because the smallest member of a cluster may change) *)
Theorem C05_relabel_injective_preserves_partition :
  forall (f : Z -> Z) nodes edges thr,
    closed_edges nodes (thresholded thr edges) ->
    (forall x y, f x = f y -> x = y) ->
    exists out out',
      cluster_at_threshold nodes edges thr = Some out /\
      cluster_at_threshold (map f nodes) (relabel_edges f edges) thr = Some out' /\
      (forall v, In v nodes -> exists c c', In (v, c) out /\ In (f v, c') out') /\
      (forall v w c d c' d', In (v, c) out -> In (w, d) out -> In (f v, c') out' -> In (f w, d') out' ->
                             (c = d <-> c' = d')).
Proof. intros f nodes edges thr CL Inj. now apply relabel_injective_partition. Qed.
Print Assumptions C05_relabel_injective_preserves_partition.

(* permuting the rows of the node table and of the edge table changes nothing *)
Theorem C05_row_order_irrelevant :
  forall nodes nodes2 edges edges2 thr,
    closed_edges nodes (thresholded thr edges) ->
    Permutation nodes nodes2 -> Permutation edges edges2 ->
    exists out out2,
      cluster_at_threshold nodes edges thr = Some out /\
      cluster_at_threshold nodes2 edges2 thr = Some out2 /\
      forall v c, In (v, c) out <-> In (v, c) out2.
Proof. intros nodes nodes2 edges edges2 thr CL Pn Pe. now apply rows_irrelevant. Qed.
Print Assumptions C05_row_order_irrelevant.

(* non-vacuity: x -> 3x + 5 is order preserving, x -> 7 - x is injective but order reversing
   (cluster ids become the images of the *largest* members); reversed row order *)
Example C05_relabel_example_monotone :
  cluster_at_threshold (map (fun x => 3 * x + 5) ex_nodes) (relabel_edges (fun x => 3 * x + 5) ex_edges) (Some (Qmake 1 2))
  = Some (map (fun vc => (3 * fst vc + 5, 3 * snd vc + 5))
              [(2, 2); (4, 4); (7, 2); (0, 0); (1, 0); (3, 0); (5, 0); (6, 0)]).
Proof. vm_compute. reflexivity. Qed.
Example C05_relabel_example_reversing :
  cluster_at_threshold (map (fun x => 7 - x) ex_nodes) (relabel_edges (fun x => 7 - x) ex_edges) (Some (Qmake 1 2))
  = Some [(5, 0); (3, 3); (0, 0); (7, 1); (6, 1); (4, 1); (2, 1); (1, 1)].
Proof. vm_compute. reflexivity. Qed.
Example C05_rows_example :
  cluster_at_threshold (rev ex_nodes) (rev ex_edges) (Some (Qmake 1 2))
  = Some [(7, 2); (4, 4); (2, 2); (6, 0); (5, 0); (3, 0); (1, 0); (0, 0)].
Proof. vm_compute. reflexivity. Qed.

(* ------------------------------------------------------------------------------------ *)
(* Composite ids of link jobs: source_dataset || '-__-' || unique_id, compared as strings. *)
From Coq Require Import String Ascii.
Open Scope string_scope.

(* injective when the source dataset names contain no '-' *)
Theorem C05_composite_id_injective :
  forall s1 u1 s2 u2,
    has_char "-"%char s1 = false -> has_char "-"%char s2 = false ->
    composite_id s1 u1 = composite_id s2 u2 -> s1 = s2 /\ u1 = u2.
Proof. exact composite_id_inj. Qed.
Print Assumptions C05_composite_id_injective.

(* not injective in general: two different records with the same composite id (they would be one
   node for the clustering).  Outside the property ("distinct records"); the harness never
   generates the separator inside an id. *)
Example C05_composite_id_ambiguous_refuted :
  exists s1 u1 s2 u2, (s1, u1) <> (s2, u2) /\ composite_id s1 u1 = composite_id s2 u2.
Proof. exists "a-__-b", "c", "a", "b-__-c". split; [discriminate|reflexivity]. Qed.

(* "the separator occurs in neither part" is NOT enough either, because '-__-' overlaps itself *)
Example C05_composite_id_separator_free_parts_still_ambiguous_refuted :
  exists s1 u1 s2 u2, (s1, u1) <> (s2, u2) /\ composite_id s1 u1 = composite_id s2 u2 /\
    forall x, In x [s1; u1; s2; u2] -> String.index 0 composite_sep x = None.
Proof.
  exists "a", "__-b", "a-__", "b". split; [discriminate|]. split; [reflexivity|].
  intros x Hx. cbn in Hx. destruct Hx as [<-|[<-|[<-|[<-|[]]]]]; reflexivity.
Qed.

(* records of different source datasets that carry the same unique_id are never conflated:
   records are (source_dataset, unique_id) pairs, node ids are key(composite id) for any injective
   key (the harness uses the rank in byte order), dataset names contain no '-' *)
Theorem C05_composite_ids_not_conflated :
  forall (key : string -> Z) (recs : list (string * string)) edges thr out,
    (forall a b, key a = key b -> a = b) ->
    NoDup recs -> (forall r, In r recs -> has_char "-"%char (fst r) = false) ->
    let id := fun r : string * string => key (composite_id (fst r) (snd r)) in
    closed_edges (map id recs) (thresholded thr edges) ->
    cluster_at_threshold (map id recs) edges thr = Some out ->
    Permutation (map fst out) (map id recs) /\
    forall r r', In r recs -> In r' recs -> r <> r' ->
      exists c c', In (id r, c) out /\ In (id r', c') out /\ id r <> id r' /\
        (c = c' <-> conn (map id recs) (thresholded thr edges) (id r) (id r')).
Proof.
  intros key recs edges thr out Kinj ND Dash id CL H.
  apply (C05_distinct_records_not_conflated_given_injective_id (string * string) id recs edges thr out ND); auto.
  intros [s u] [s' u'] Hr Hr' E. unfold id in E. apply Kinj in E. cbn in E.
  destruct (composite_id_inj s u s' u' (Dash _ Hr) (Dash _ Hr') E) as [-> ->]. reflexivity.
Qed.
Print Assumptions C05_composite_ids_not_conflated.
Close Scope string_scope.

(* ------------------------------------------------------------------------------------ *)
(* Outside the precondition closed_edges: an edge that mentions an id absent from the node table
   (accepted by the standalone function; impossible for the linker method, whose nodes and edges
   come from the same records).  Model and implementation agree (checked on DuckDB and SQLite): the
   cluster id is then not a record, and two records can be joined through the absent id. *)
Example C05_dangling_edge_refuted :
  exists nodes edges out v c,
    NoDup nodes /\ cluster_at_threshold nodes edges None = Some out /\ In (v, c) out /\ ~ In c nodes.
Proof.
  exists [1; 2; 3], [(0, 2, Qmake 1 1)], [(1, 1); (2, 0); (3, 3)], 2, 0.
  split; [repeat constructor; cbn; intuition lia|]. split; [vm_compute; reflexivity|].
  split; [cbn; auto|cbn; intuition lia].
Qed.
Example C05_dangling_edge_joins_records_refuted :
  cluster_at_threshold [1; 2; 3] [(0, 2, Qmake 1 1); (0, 3, Qmake 1 1)] None = Some [(1, 1); (2, 0); (3, 0)] /\
  ~ conn [1; 2; 3] (thresholded None [(0, 2, Qmake 1 1); (0, 3, Qmake 1 1)]) 2 3.
Proof.
  split; [vm_compute; reflexivity|]. intros C.
  assert (M := comp_min_eq_iff_conn [1; 2; 3] (thresholded None [(0, 2, Qmake 1 1); (0, 3, Qmake 1 1)]) 2 3).
  apply M in C; [|cbn; auto..]. vm_compute in C. discriminate C.
Qed.

(* ------------------------------------------------------------------------------------ *)
(* clustering at an integer match weight w = clustering at its probability 2^w/(1+2^w) = keeping
   the edges whose match weight log2(p/(1-p)) is at least w (p = 1: weight +inf) *)
Theorem C05_weight_threshold_same_clusters :
  forall nodes edges (w : Z),
    (forall e, In e edges -> (0 <= snd e)%Q /\ (snd e <= 1)%Q) ->
    thresholded (Some (weight_to_prob w)) edges = weight_edges w edges /\
    cluster_at_threshold nodes edges (Some (weight_to_prob w)) = solve_cc nodes (weight_edges w edges).
Proof.
  intros nodes edges w H. pose proof (thr_edges_weight w edges H) as E. split; [exact E|].
  unfold cluster_at_threshold. now rewrite E.
Qed.
Print Assumptions C05_weight_threshold_same_clusters.

(* ------------------------------------------------------------------------------------ *)
(* Edge rows whose match_probability is NULL (thr_edges_n / cluster_at_threshold_n take nullable
   probabilities): such a row never qualifies under a threshold - not even threshold 0 - and
   qualifies when no threshold is given ("all edges when no threshold is given"). *)
Theorem C05_null_probability_never_qualifies :
  forall t edges a b,
    In (a, b) (thr_edges_n (Some t) edges) <-> exists p, In (a, b, Some p) edges /\ (t <= p)%Q.
Proof. exact thr_edges_n_in. Qed.
Print Assumptions C05_null_probability_never_qualifies.

Theorem C05_nullable_probabilities_reduce :
  forall nodes edges t,
    cluster_at_threshold_n nodes edges (Some t) = cluster_at_threshold nodes (non_null edges) (Some t) /\
    cluster_at_threshold_n nodes edges None = solve_cc nodes (map fst edges).
Proof.
  intros. unfold cluster_at_threshold_n, cluster_at_threshold.
  now rewrite thr_edges_n_some, thr_edges_n_none.
Qed.
Print Assumptions C05_nullable_probabilities_reduce.

(* threshold 0 is a threshold: the NULL edge 1-2 does not link, without threshold it does *)
Example C05_null_edge_at_threshold_zero :
  cluster_at_threshold_n [1; 2; 3] [(1, 2, None); (2, 3, Some (Qmake 1 2))] (Some (Qmake 0 1))
    = Some [(1, 1); (2, 2); (3, 2)] /\
  cluster_at_threshold_n [1; 2; 3] [(1, 2, None); (2, 3, Some (Qmake 1 2))] None
    = Some [(1, 1); (2, 1); (3, 1)].
Proof. split; vm_compute; reflexivity. Qed.
