(* C02  Scores follow the Fellegi-Sunter formula with the model's parameters.
   Only statements here; proofs live in Proofs/ScoringP.v.  Theorems over Q are closed
   under the global context; those about log2 / 2^w are over R and list the standard
   real-number axioms. *)
From Coq Require Import List Bool ZArith QArith Qminmax Permutation Reals Qreals.
From Splinkv Require Import Base.TV Model.Scoring Proofs.ScoringP.
Import ListNotations.
Local Open Scope Q_scope.

(* gamma is the comparison_vector_value of the first listed level whose condition is TRUE
   (an ELSE level always fires; NULL/FALSE conditions do not); null levels are numbered -1,
   the others count down from (#non-null levels - 1) to 0; and the CASE lookups keyed by
   gamma return the Bayes factor / TF adjustment of exactly that level.  Without any firing
   level (no ELSE) gamma is NULL. *)
Theorem C02_gamma_first_true :
  forall (ls : list level) (outc : nat -> tv),
  match gamma ls outc with
  | Some g =>
      exists i l, nth_error ls i = Some l /\ fires outc l = true /\
        (forall j l', (j < i)%nat -> nth_error ls j = Some l' -> fires outc l' = false) /\
        g = (if is_null l then (-1)%Z else (Z.of_nat (n_nonnull ls) - 1 - Z.of_nat (nn_before i ls))%Z) /\
        bf_of_gamma ls g = Some (bf l) /\
        (forall pow tfs, tf_of_gamma pow tfs ls g = Some (tf_adj pow tfs ls l g))
  | None => forall l, In l ls -> fires outc l = false
  end.
Proof. exact gamma_first_true. Qed.
Print Assumptions C02_gamma_first_true.

Theorem C02_gamma_total_with_else :
  forall ls outc, existsb is_else ls = true -> gamma ls outc <> None.
Proof. exact gamma_total. Qed.
Print Assumptions C02_gamma_total_with_else.

(* both SQL variants of the divisor CASE compute max(tf_l', tf_r'[, min_u]) where a NULL
   side is replaced by the other side (coalesce); ties included; both NULL is the only case
   without a value. *)
Theorem C02_divisor_is_max :
  forall (tfl tfr : option Q) (min_u : Q),
    (tfl = None /\ tfr = None /\ coalesce2 tfl tfr = None) \/
    (exists l' r', coalesce2 tfl tfr = Some l' /\ coalesce2 tfr tfl = Some r' /\
       (exists d, divisor_A tfl tfr = Some d /\ d == Qmax l' r') /\
       (exists d, divisor_B min_u tfl tfr = Some d /\ d == Qmax (Qmax l' r') min_u) /\
       (0 <= l' -> 0 <= r' -> 0 <= min_u ->
        exists d, tf_divisor min_u tfl tfr = Some d /\ d == Qmax (Qmax l' r') min_u)).
Proof. exact divisor_is_max_full. Qed.
Print Assumptions C02_divisor_is_max.

(* the documented factor: (u_exact / max(tf_l, tf_r, minimum_u))^weight, for every POW.  The two cases in which
   the formula is meaningless are excluded explicitly: no level supplies u_exact (the real code raises ValueError
   while generating the SQL; `tf_generable` is the corresponding executable guard) and a zero divisor. *)
Theorem C02_tf_factor_formula :
  forall pow tfs ls l cvv k tfl tfr l' r' u,
    tf_active l cvv = true -> tf_col l = Some k -> tfs k = (tfl, tfr) ->
    coalesce2 tfl tfr = Some l' -> coalesce2 tfr tfl = Some r' ->
    0 <= l' -> 0 <= r' -> 0 <= tf_min_u l ->
    0 < Qmax (Qmax l' r') (tf_min_u l) ->
    u_exact ls l = Some u ->
    exists d, d == Qmax (Qmax l' r') (tf_min_u l) /\ 0 < d /\
              tf_adj pow tfs ls l cvv = pow (u / d) (tf_w l).
Proof. exact tf_adj_formula. Qed.
Print Assumptions C02_tf_factor_formula.

(* which level supplies u_exact: the level itself when exact-match detection is disabled; otherwise the
   FIRST listed level that is an exact match on exactly the TF column.  A level that is an exact match
   on several columns (forename AND surname) never supplies it, wherever it is listed. *)
Theorem C02_u_exact_supplier :
  forall ls l c,
    (disable_exact_detect l = true -> u_exact ls l = Some (lu l)) /\
    (disable_exact_detect l = false -> tf_col l = Some c ->
     forall u, u_exact ls l = Some u <->
       exists i s, nth_error ls i = Some s /\ exact_cols s = [c] /\ lu s = u /\
                   forall j y, (j < i)%nat -> nth_error ls j = Some y -> exact_cols y <> [c]) /\
    (forall s, (2 <= length (exact_cols s))%nat -> is_exact_on c s = false).
Proof.
  intros ls l c. split; [apply u_exact_disabled|]. split; [intros; apply u_exact_supplier; auto|].
  intros; apply multi_column_level_never_supplies; auto.
Qed.
Print Assumptions C02_u_exact_supplier.

(* the documented factor with that supplier: (u of the first single-column exact level / max(..))^w *)
Theorem C02_tf_factor_formula_supplier :
  forall pow tfs ls l cvv k tfl tfr l' r' i s,
    tf_active l cvv = true -> tf_col l = Some k -> tfs k = (tfl, tfr) ->
    coalesce2 tfl tfr = Some l' -> coalesce2 tfr tfl = Some r' ->
    0 <= l' -> 0 <= r' -> 0 <= tf_min_u l ->
    0 < Qmax (Qmax l' r') (tf_min_u l) ->
    disable_exact_detect l = false ->
    nth_error ls i = Some s -> exact_cols s = [k] ->
    (forall j y, (j < i)%nat -> nth_error ls j = Some y -> exact_cols y <> [k]) ->
    exists d, d == Qmax (Qmax l' r') (tf_min_u l) /\ 0 < d /\
              tf_adj pow tfs ls l cvv = pow (lu s / d) (tf_w l).
Proof. exact tf_adj_formula_supplier. Qed.
Print Assumptions C02_tf_factor_formula_supplier.

Theorem C02_no_tf_value_is_no_adjustment :
  forall pow tfs ls l cvv k, tf_col l = Some k -> tfs k = (None, None) -> tf_adj pow tfs ls l cvv = 1.
Proof. exact tf_adj_no_tf_values. Qed.
Print Assumptions C02_no_tf_value_is_no_adjustment.

(* weight 0 means no adjustment, whatever POW does; and the expected SQL branch is the
   literal 1 *)
Theorem C02_weight_zero_is_no_adjustment :
  forall pow tfs ls l cvv, tf_w l == 0 ->
    tf_adj pow tfs ls l cvv = 1 /\ gen_tf_level ls l cvv = NLit 1.
Proof. intros. split; [apply tf_adj_weight_zero|apply gen_tf_level_weight_zero]; auto. Qed.
Print Assumptions C02_weight_zero_is_no_adjustment.

(* the score is the prior odds times the product of the retained bf_ / bf_tf_adj_ columns,
   in any order; every retained column is the value of the level that fired *)
Theorem C02_product_of_parts :
  forall pow tfs p cmps outcs cs,
    eval_all pow tfs cmps outcs = Some cs ->
    score pow tfs p cmps outcs = Some (score_of_cols p cs) /\
    xq_eq (score_of_cols p cs) (xmul (prior_odds p) (xprod (all_terms cs))) /\
    (forall terms', Permutation (all_terms cs) terms' ->
       xq_eq (score_of_cols p cs) (xmul (prior_odds p) (xprod terms'))).
Proof. exact product_of_parts_full. Qed.
Print Assumptions C02_product_of_parts.

Theorem C02_columns_are_level_values :
  forall pow tfs ls outc c,
    cmp_eval pow tfs ls outc = Some c ->
    exists i l, fired outc ls = Some i /\ nth_error ls i = Some l /\
      c_gamma c = cvv_of ls i /\ c_bf c = bf l /\
      c_tf c = if has_tf ls then Some (tf_adj pow tfs ls l (cvv_of ls i)) else None.
Proof. exact columns_are_level_values_full. Qed.
Print Assumptions C02_columns_are_level_values.

(* match_probability: the CASE (any factor infinite -> 1, else s/(1+s)) is s/(1+s) of the
   score with the convention inf -> 1 *)
Theorem C02_prob_from_weight :
  forall p terms, match_probability_of p terms = prob_of_score (product p terms).
Proof. exact match_probability_closed_form. Qed.
Print Assumptions C02_prob_from_weight.

Theorem C02_inf_gives_one :
  forall p terms,
    (existsb x_is_inf terms = true -> product p terms = Inf /\ match_probability_of p terms = 1) /\
    (Qeq_bool p 1 = false -> existsb x_is_inf terms = false ->
       exists s, product p terms = Fin s /\ match_probability_of p terms = s / (1 + s)).
Proof. intros. split; [apply inf_gives_one|apply no_inf_gives_ratio]. Qed.
Print Assumptions C02_inf_gives_one.

(* a probability threshold p in (0,1) (applied by the code as Bayes-factor threshold
   p/(1-p), i.e. weight log2(p/(1-p))) keeps exactly the rows with probability >= p *)
Theorem C02_threshold_exact :
  forall p, 0 < p -> p < 1 ->
    (forall s, 0 <= s -> (p <= s / (1 + s) <-> p / (1 - p) <= s)) /\
    (forall x, xpos x = true -> keep (p / (1 - p)) x = keep_prob p x).
Proof. intros p P0 P1. split; intros; [apply prob_threshold_Q|apply keep_threshold_exact]; auto. Qed.
Print Assumptions C02_threshold_exact.

(* evaluating the SQL skeletons the model expects (and the translator finds in the emitted
   SQL) stage by stage gives the model's score and probability *)
Theorem C02_generated_sql_computes_score :
  forall pow tfs env p cmps outcs cs,
    (forall k, env (CTfL k) = option_map Fin (fst (tfs k))) ->
    (forall k, env (CTfR k) = option_map Fin (snd (tfs k))) ->
    (forall i ls oc, nth_error cmps i = Some ls -> nth_error outcs i = Some oc ->
        env (CGamma i) = neval pow env oc (gen_gamma_case ls (assign_cvv ls))) ->
    (forall i ls, nth_error cmps i = Some ls ->
        env (CBf i) = neval pow env noconds (gen_bf_case i ls)) ->
    (forall i ls, nth_error cmps i = Some ls -> has_tf ls = true ->
        env (CTfAdj i) = neval pow env noconds (gen_tf_case i ls)) ->
    eval_all pow tfs cmps outcs = Some cs ->
    neval pow env noconds (gen_bf_expr p (term_cols cmps)) = Some (score_of_cols p cs) /\
    (cmps <> [] ->
     exists e, gen_match_prob p (term_cols cmps) = Some e /\
               neval pow env noconds e = Some (Fin (match_probability_of p (all_terms cs)))).
Proof. intros. eapply pipeline_sound; eauto. Qed.
Print Assumptions C02_generated_sql_computes_score.

Theorem C02_gamma_sql_is_gamma :
  forall pow env conds ls,
    neval pow env conds (gen_gamma_case ls (assign_cvv ls)) = option_map zval (gamma ls conds).
Proof. exact gen_gamma_sound. Qed.
Print Assumptions C02_gamma_sql_is_gamma.

(* the comparison used for the skeleton obligations (literals compared with ==) only accepts
   skeletons that evaluate alike, for every POW that respects == *)
Theorem C02_skeleton_equality_sound :
  forall pow, (forall a a' b b', a == a' -> b == b' -> pow a b == pow a' b') ->
  forall a b, nx_eqb a b = true ->
  forall env conds, oxq_eq (neval pow env conds a) (neval pow env conds b).
Proof. exact skeleton_equality_sound_full. Qed.
Print Assumptions C02_skeleton_equality_sound.

(* ---- over R --------------------------------------------------------------------------- *)
Local Open Scope R_scope.

Theorem C02_prob_from_weight_R :
  forall s : R, 0 < s -> s / (1 + s) = pow2R (log2R s) / (1 + pow2R (log2R s)).
Proof. exact prob_from_weight_R. Qed.
Print Assumptions C02_prob_from_weight_R.

Theorem C02_threshold_exact_R :
  forall p s : R, 0 < p -> p < 1 -> 0 < s ->
    (log2R (p / (1 - p)) <= log2R s <-> p <= s / (1 + s)).
Proof. exact prob_threshold_R. Qed.
Print Assumptions C02_threshold_exact_R.

Theorem C02_weight_threshold_R :
  forall (T s : Q) (w : R), (0 < s)%Q -> Q2R T = pow2R w ->
    (keep T (Fin s) = true <-> w <= log2R (Q2R s)).
Proof. exact keep_is_weight_test. Qed.
Print Assumptions C02_weight_threshold_R.

(* the chart records (waterfall_records: prior bar, then per comparison the Bayes-factor bar and the TF bar) add
   up: when all bars are finite and positive, the sum of their log2 is log2 of the final bar, which is the score
   (match weight).  Bars with an infinite factor (u = 0) are outside this statement (checked by X only). *)
Theorem C02_waterfall_adds_up :
  forall p cs qs,
    fin_vals (waterfall_records p cs) = Some qs -> Forall (fun q => (0 < q)%Q) qs ->
    exists s, waterfall_final p cs = Fin s /\ (0 < s)%Q /\ sum_log2 (map Q2R qs) = log2R (Q2R s).
Proof. exact waterfall_sums_to_score. Qed.
Print Assumptions C02_waterfall_adds_up.

(* ---- non-vacuity ------------------------------------------------------------------------ *)
Local Open Scope Q_scope.
Definition ex_null := {| lcond := 0; is_null := true; is_else := false; lm := 0; lu := 0; tf_col := None;
                         tf_w := 1; tf_min_u := 0; disable_exact_detect := false; exact_cols := [] |}.
Definition ex_exact := {| lcond := 1; is_null := false; is_else := false; lm := 9 # 10; lu := 1 # 10; tf_col := Some 0%nat;
                          tf_w := 1; tf_min_u := 0; disable_exact_detect := false; exact_cols := [0%nat] |}.
Definition ex_fuzzy := {| lcond := 2; is_null := false; is_else := false; lm := 1 # 20; lu := 1 # 5; tf_col := Some 0%nat;
                          tf_w := 1; tf_min_u := 3 # 10; disable_exact_detect := false; exact_cols := [] |}.
Definition ex_inf := {| lcond := 3; is_null := false; is_else := false; lm := 1 # 2; lu := 0; tf_col := None;
                        tf_w := 1; tf_min_u := 0; disable_exact_detect := false; exact_cols := [] |}.
Definition ex_else := {| lcond := 9; is_null := false; is_else := true; lm := 1 # 10; lu := 9 # 10; tf_col := None;
                         tf_w := 1; tf_min_u := 0; disable_exact_detect := false; exact_cols := [] |}.
Definition ex_ls := [ex_null; ex_exact; ex_fuzzy; ex_inf; ex_else].
Definition ex_pow (b e : Q) : Q := if Qeq_bool e 1 then b else 1.
Definition ex_tfs (k : nat) : option Q * option Q := (Some (1 # 4), None).

(* forename AND surname exact listed first (u = 1/100) does not supply the u of the surname TF adjustment;
   the single-column surname level (u = 1/10) does *)
Definition ex_and := {| lcond := 5; is_null := false; is_else := false; lm := 1 # 2; lu := 1 # 100; tf_col := None;
                        tf_w := 1; tf_min_u := 0; disable_exact_detect := false; exact_cols := [0%nat; 1%nat] |}.
Example C02_example_u_exact :
  u_exact [ex_null; ex_and; ex_fuzzy; ex_exact; ex_else] ex_fuzzy = Some (1 # 10) /\
  u_exact [ex_null; ex_and; ex_fuzzy; ex_else] ex_fuzzy = None.
Proof. vm_compute. auto. Qed.

(* numbering -1,3,2,1,0; a pair whose exact and fuzzy conditions are both TRUE gets the
   exact level (3); NULL on the null level's condition does not fire it *)
Example C02_example_gamma :
  assign_cvv ex_ls = [-1; 3; 2; 1; 0]%Z /\
  gamma ex_ls (fun i => match i with 0 => U | 1 => T | 2 => T | _ => F end)%nat = Some 3%Z /\
  gamma ex_ls (fun i => match i with 0 => T | _ => T end)%nat = Some (-1)%Z /\
  gamma ex_ls (fun i => F) = Some 0%Z.
Proof. vm_compute. auto. Qed.

(* fuzzy level with one-sided NULL tf, minimum u 3/10 > tf 1/4: factor u_exact/min_u = 1/3,
   bf 1/4, prior 1/2: score 1/12, probability 1/13; an infinite level gives probability 1 *)
Example C02_example_score :
  (match score ex_pow ex_tfs (1 # 2) [ex_ls] [fun i => match i with 2 => T | _ => F end]%nat with
   | Some x => xq_eqb x (Fin ((1 # 1) * (1 # 4) * (1 # 3))) | None => false end) = true /\
  (match match_probability ex_pow ex_tfs (1 # 2) [ex_ls] [fun i => match i with 2 => T | _ => F end]%nat with
   | Some q => Qeq_bool q (1 # 13) | None => false end) = true /\
  score ex_pow ex_tfs (1 # 2) [ex_ls] [fun i => match i with 3 => T | _ => F end]%nat = Some Inf /\
  match_probability ex_pow ex_tfs (1 # 2) [ex_ls] [fun i => match i with 3 => T | _ => F end]%nat = Some 1.
Proof. vm_compute. auto. Qed.

Example C02_example_threshold :
  keep ((1 # 2) / (1 - (1 # 2))) (Fin 1) = true /\ keep_prob (1 # 2) (Fin 1) = true /\
  keep ((1 # 2) / (1 - (1 # 2))) (Fin (99 # 100)) = false /\ keep_prob (1 # 2) (Fin (99 # 100)) = false.
Proof. vm_compute. auto. Qed.

(* the expected SQL skeleton of the example comparison is accepted by final_ok only with >= *)
Example C02_example_final_ok :
  let cols := term_cols [ex_ls] in
  let f op := {| f_weight_arg := gen_bf_expr (1 # 2) cols;
                 f_prob := match gen_match_prob (1 # 2) cols with Some e => e | None => NNull end;
                 f_where := Some (gen_bf_expr (1 # 2) cols, op, 2) |} in
  final_ok (1 # 2) [ex_ls] (Some 2) (f OpGe) = true /\ final_ok (1 # 2) [ex_ls] (Some 2) (f OpGt) = false.
Proof. vm_compute. auto. Qed.

(* non-vacuity of C02_generated_sql_computes_score: the environment built stage by stage like the CTE pipeline
   (tf columns -> gamma column -> bf / bf_tf_adj columns) satisfies its five hypotheses, and the theorem then
   gives the score 1/12 of C02_example_score *)
Definition ex_oc : nat -> tv := fun i => match i with 2%nat => T | _ => F end.
Definition ex_env0 : colref -> option xq :=
  fun c => match c with CTfL k => option_map Fin (fst (ex_tfs k)) | CTfR k => option_map Fin (snd (ex_tfs k)) | _ => None end.
Definition ex_env1 : colref -> option xq :=
  fun c => match c with CGamma 0 => neval ex_pow ex_env0 ex_oc (gen_gamma_case ex_ls (assign_cvv ex_ls)) | _ => ex_env0 c end.
Definition ex_env2 : colref -> option xq :=
  fun c => match c with
           | CBf 0 => neval ex_pow ex_env1 noconds (gen_bf_case 0 ex_ls)
           | CTfAdj 0 => neval ex_pow ex_env1 noconds (gen_tf_case 0 ex_ls)
           | _ => ex_env1 c end.
Example C02_example_staged_env :
  exists cs, eval_all ex_pow ex_tfs [ex_ls] [ex_oc] = Some cs /\
    neval ex_pow ex_env2 noconds (gen_bf_expr (1 # 2) (term_cols [ex_ls])) = Some (score_of_cols (1 # 2) cs) /\
    match score_of_cols (1 # 2) cs with Fin q => Qeq_bool q (1 # 12) | Inf => false end = true.
Proof.
  destruct (eval_all ex_pow ex_tfs [ex_ls] [ex_oc]) as [cs|] eqn:E; [|vm_compute in E; discriminate].
  exists cs. split; [reflexivity|]. split.
  - apply (C02_generated_sql_computes_score ex_pow ex_tfs ex_env2 (1 # 2) [ex_ls] [ex_oc] cs); auto.
    + intros i ls oc H1 H2. destruct i as [|[|i]]; cbn in H1, H2; try discriminate.
      injection H1 as <-. injection H2 as <-. vm_compute. reflexivity.
    + intros i ls H1. destruct i as [|[|i]]; cbn in H1; try discriminate. injection H1 as <-. vm_compute. reflexivity.
    + intros i ls H1 _. destruct i as [|[|i]]; cbn in H1; try discriminate. injection H1 as <-. vm_compute. reflexivity.
  - vm_compute in E. injection E as <-. vm_compute. reflexivity.
Qed.
