(* C15  Accuracy tables are exact recounts of the labelled pairs.
   Statements only; proofs live in Proofs/AccuracyP.v, Proofs/BlockAnalysisP.v, Base/GroupBy.v,
   Base/CumSum.v.  The model (Model/Accuracy.v) has one definition per CTE of
   truth_space_table_from_labels_with_predictions_sqls; all theorems quantify over every list
   of labelled pairs (any length, any scores, ties, NULL labels, unfound pairs), every
   threshold_actual, every rounding function, both values of the scored-as-zero option and an
   optional total number of labels (label-column mode). *)
From Coq Require Import List Bool ZArith QArith Lia Sorting.Sorted.
From Splinkv Require Import Base.TV Base.GroupBy Base.CumSum Model.BlockAnalysis Model.Accuracy
     Proofs.AccuracyP Proofs.BlockAnalysisP.
From Coq Require Strings.String.
Import String.StringSyntax.
Import ListNotations.
Local Open Scope Z_scope.

(* Each reported count is the direct recount of the labelled pairs at that row's threshold:
   a pair is predicted positive iff its adjusted score (rounded match weight, or -999 when it
   was not found by the blocking rules and the option is on) is >= the threshold.  The pairs
   never scored (label-column mode) are clerical negatives predicted negative. *)
Theorem C15_counts_are_recounts :
  forall thr_actual rnd zero_unfound total_labels rows t,
    In t (truth_space_table thr_actual rnd zero_unfound total_labels rows) ->
    let pos := is_pos thr_actual in
    let pred := fun r => Qle_bool (thr t) (adj_score rnd zero_unfound r) in
    TP t = countZ (fun r => pos r && pred r) rows /\
    FP t = countZ (fun r => negb (pos r) && pred r) rows /\
    FN t = countZ (fun r => pos r && negb (pred r)) rows /\
    TN t = countZ (fun r => negb (pos r) && negb (pred r)) rows + ghosts total_labels rows /\
    P t = countZ pos rows /\
    N t = countZ (fun r => negb (pos r)) rows + ghosts total_labels rows /\
    total t = Z.of_nat (length rows) + ghosts total_labels rows.
Proof. intros. apply table_row_recount. assumption. Qed.
Print Assumptions C15_counts_are_recounts.

Theorem C15_conservation :
  forall thr_actual rnd zero_unfound total_labels rows t,
    In t (truth_space_table thr_actual rnd zero_unfound total_labels rows) ->
    TP t + FN t = P t /\ TN t + FP t = N t /\ P t + N t = total t /\
    total t = match total_labels with Some tl => tl | None => Z.of_nat (length rows) end.
Proof. exact table_row_conservation. Qed.
Print Assumptions C15_conservation.

(* TP and FP never increase, FN and TN never decrease, when the threshold grows. *)
Theorem C15_monotone :
  forall thr_actual rnd zero_unfound total_labels rows a b,
    In a (truth_space_table thr_actual rnd zero_unfound total_labels rows) ->
    In b (truth_space_table thr_actual rnd zero_unfound total_labels rows) ->
    (thr a <= thr b)%Q ->
    TP b <= TP a /\ FP b <= FP a /\ FN a <= FN b /\ TN a <= TN b.
Proof. exact table_monotone. Qed.
Print Assumptions C15_monotone.

(* The reported thresholds are exactly the distinct adjusted scores >= -998, each once, in
   increasing order. *)
Theorem C15_rows_are_the_distinct_scores :
  forall thr_actual rnd zero_unfound total_labels rows,
    let tab := truth_space_table thr_actual rnd zero_unfound total_labels rows in
    StronglySorted (fun a b => (thr a < thr b)%Q) tab /\
    (forall t, In t tab -> (min_reported <= thr t)%Q /\
                           exists r, In r rows /\ thr t = adj_score rnd zero_unfound r) /\
    (forall r, In r rows -> (min_reported <= adj_score rnd zero_unfound r)%Q ->
               exists t, In t tab /\ (thr t == adj_score rnd zero_unfound r)%Q).
Proof.
  intros ta rnd zu tl rows tab. split; [apply table_thresholds_sorted|]. split.
  - intros t Ht. split.
    + apply Qle_bool_iff. apply (table_row_frame ta rnd zu tl rows t Ht).
    + apply (table_threshold_from ta rnd zu tl rows t Ht).
  - intros r Hr Hm. apply table_threshold_complete; [exact Hr|]. apply Qle_bool_iff. exact Hm.
Qed.
Print Assumptions C15_rows_are_the_distinct_scores.

(* With the option on, a pair not found by the blocking rules is a predicted negative in
   every reported row (it is counted in FN or TN, never in TP or FP). *)
Theorem C15_unfound_pairs_are_predicted_negative :
  forall thr_actual rnd total_labels rows t r,
    In t (truth_space_table thr_actual rnd true total_labels rows) ->
    found r = false ->
    Qle_bool (thr t) (adj_score rnd true r) = false.
Proof. exact unfound_predicted_negative. Qed.
Print Assumptions C15_unfound_pairs_are_predicted_negative.

(* Label-column mode: the total is the number of admissible record pairs (calculate_cartesian
   is exact), so the implicit negatives are exactly the admissible pairs that were not scored. *)
Theorem C15_column_mode_total_is_pair_count :
  forall (A : Type) (tables : list (list A)),
    (forall l, tables = [l] ->
       cartesian CDedupe (sizes tables) = Some (Z.of_nat (length (all_pairs l)))) /\
    cartesian CLinkAndDedupe (sizes tables) = Some (Z.of_nat (length (all_pairs (concat tables)))) /\
    ((2 <= length tables)%nat ->
       cartesian CLinkOnly (sizes tables) = Some (Z.of_nat (length (cross_pairs tables)))).
Proof.
  intros A tables. split; [|split].
  - intros l ->. apply cartesian_dedupe_counts.
  - apply cartesian_link_and_dedupe_counts.
  - apply cartesian_link_only_counts.
Qed.
Print Assumptions C15_column_mode_total_is_pair_count.

Theorem C15_column_mode_recount :
  forall lt counts nrules thr_actual rnd zero_unfound preds tab t,
    truth_space_table_from_labels_column lt counts nrules thr_actual rnd zero_unfound preds = Some tab ->
    In t tab ->
    exists tl, cartesian lt counts = Some tl /\
      let rows := labels_with_predictions_from_column nrules preds in
      let unscored := tl - Z.of_nat (length preds) in
      let pos := is_pos thr_actual in
      let pred := fun r => Qle_bool (thr t) (adj_score rnd zero_unfound r) in
      TP t = countZ (fun r => pos r && pred r) rows /\
      FP t = countZ (fun r => negb (pos r) && pred r) rows /\
      FN t = countZ (fun r => pos r && negb (pred r)) rows /\
      TN t = countZ (fun r => negb (pos r) && negb (pred r)) rows + unscored /\
      total t = tl.
Proof. exact column_mode_recount. Qed.
Print Assumptions C15_column_mode_recount.

(* match_weight_round_to_nearest is a monotone map of the score (so rounded thresholds keep
   the order of the scores). *)
Theorem C15_rounding_monotone :
  forall rm rd x y, (0 <= rm)%Q -> (0 < rd)%Q -> (x <= y)%Q ->
    (rounding (Some (rm, rd)) x <= rounding (Some (rm, rd)) y)%Q.
Proof. intros. apply round_to_mono; assumption. Qed.
Print Assumptions C15_rounding_monotone.

(* Labels-table mode: every label is joined with the lower id on the left, whichever
   orientation it was supplied in; with unique record ids each label whose two records exist
   yields exactly one scored pair. *)
Theorem C15_labels_lower_id_left :
  forall recs ls,
    (forall x, In x (block_from_labels recs ls) -> (id_l x <= id_r x)%nat) /\
    Forall2 (fun x y => cms y = cms x /\
                        ((id_l y = id_l x /\ id_r y = id_r x) \/ (id_l y = id_r x /\ id_r y = id_l x)))
            ls (lower_id_to_left_hand_side ls) /\
    (NoDup recs ->
     block_from_labels recs ls
     = filter (fun x => existsb (Nat.eqb (id_l x)) recs && existsb (Nat.eqb (id_r x)) recs)
              (lower_id_to_left_hand_side ls)).
Proof.
  intros recs ls. split; [|split].
  - intros x Hx. unfold block_from_labels in Hx. apply in_flat_map in Hx. destruct Hx as (y & Hy & Hx).
    apply in_flat_map in Hx. destruct Hx as (l & _ & Hx). apply in_map_iff in Hx. destruct Hx as (r & <- & _).
    eapply lower_id_oriented; eauto.
  - apply lower_id_same_pair.
  - apply block_from_labels_unique_ids.
Qed.
Print Assumptions C15_labels_lower_id_left.

(* prediction_errors_* return exactly the false positives and false negatives (as the code
   defines them: strict comparisons with the threshold; NULL clerical scores are neither),
   each labelled pair at most once per input row and with the right status. *)
Theorem C15_prediction_errors_exact :
  forall (column_mode inc_fp inc_fn : bool) (t : Q) (rows : list erow),
    let fn := if column_mode then false_negative_column t else false_negative_table t in
    (forall e st,
       In (e, st) (prediction_errors column_mode inc_fp inc_fn t rows) <->
       In e rows /\
       ((inc_fp && isT (false_positive t e)) || (inc_fn && isT (fn e))) = true /\
       st = (if isT (false_positive t e) then Some StFP else if isT (fn e) then Some StFN else None)) /\
    map fst (prediction_errors column_mode inc_fp inc_fn t rows)
    = filter (fun e => (inc_fp && isT (false_positive t e)) || (inc_fn && isT (fn e))) rows /\
    (forall e, isT (false_positive t e) = true -> isT (fn e) = false).
Proof.
  intros column_mode inc_fp inc_fn t rows fn. split; [|split].
  - intros e st. apply prediction_errors_spec.
  - rewrite prediction_errors_sublist. apply filter_ext. intros e. unfold where_condition, fn.
    destruct inc_fp, inc_fn; cbn [andb orb]; rewrite ?isT_or3, ?orb_false_r; reflexivity.
  - intros e. apply fp_fn_disjoint.
Qed.
Print Assumptions C15_prediction_errors_exact.

Theorem C15_prediction_error_classes :
  forall t e,
    (isT (false_positive t e) = true <->
       exists c, e_cms e = Some c /\ (c < t)%Q /\ (t < e_prob e)%Q) /\
    (isT (false_negative_table t e) = true <->
       exists c, e_cms e = Some c /\ (t < c)%Q /\ (e_prob e < t)%Q) /\
    (isT (false_negative_column t e) = true <->
       exists c, e_cms e = Some c /\ (t < c)%Q /\ ((e_prob e < t)%Q \/ e_found e = false)).
Proof.
  intros t e. split; [apply false_positive_iff|]. split;
    [apply false_negative_table_iff|apply false_negative_column_iff].
Qed.
Print Assumptions C15_prediction_error_classes.

(* Bridge between prediction_errors and the truth table.  prediction_errors compares
   match_probability and the clerical score STRICTLY with one threshold t; the table classifies
   by clerical >= t and adjusted match weight >= the row's threshold.  At a reported row whose
   threshold separates the pairs exactly as "match_probability > t" does, and when no pair has a
   NULL label, a clerical score equal to t or a match probability equal to t, the rows returned
   as FP / FN are exactly as many as that row's FP / FN (the FP half needs only "no NULL label").
   Label-column mode additionally needs the scored-as-zero option (as the real function assumes:
   it returns unfound positives as false negatives). *)
Theorem C15_prediction_errors_match_truth_table :
  forall column_mode t rnd zero_unfound total_labels rows (probf : lrow -> Q) row,
    In row (truth_space_table t rnd zero_unfound total_labels rows) ->
    (column_mode = true -> zero_unfound = true) ->
    (forall r, In r rows -> Qle_bool (thr row) (adj_score rnd zero_unfound r) = negb (Qle_bool (probf r) t)) ->
    (forall r, In r rows -> exists c, clerical r = Some c /\ ~ (c == t)%Q) ->
    (forall r, In r rows -> ~ (probf r == t)%Q) ->
    let returned := prediction_errors column_mode true true t (map (erow_of probf) rows) in
    countZ (is_status StFP) returned = FP row /\ countZ (is_status StFN) returned = FN row.
Proof. exact prediction_errors_match_truth_table. Qed.
Print Assumptions C15_prediction_errors_match_truth_table.

(* ... and precisely what happens where those hypotheses fail: a pair with a NULL label or a
   clerical score equal to t is never returned (the table counts it as a clerical negative,
   resp. positive); a pair whose match probability equals t is returned neither as FP nor as FN
   by the labels-table function, and by the label-column function only as an unfound positive. *)
Theorem C15_prediction_errors_ties_and_nulls :
  forall t e,
    (e_cms e = None -> isT (false_positive t e) = false /\ isT (false_negative_table t e) = false
                       /\ isT (false_negative_column t e) = false) /\
    (forall c, e_cms e = Some c -> (c == t)%Q ->
       isT (false_positive t e) = false /\ isT (false_negative_table t e) = false /\ isT (false_negative_column t e) = false) /\
    ((e_prob e == t)%Q ->
       isT (false_positive t e) = false /\ isT (false_negative_table t e) = false /\
       (isT (false_negative_column t e) = true <-> exists c, e_cms e = Some c /\ (t < c)%Q /\ e_found e = false)).
Proof. exact prediction_errors_ties_and_nulls. Qed.
Print Assumptions C15_prediction_errors_ties_and_nulls.

(* Derived rates: the documented definitions (Model/Accuracy.v rate_defs; the translator
   regenerates the trees from the SQL in /repo and compares by evaluation) in closed form. *)
Theorem C15_rates_by_definition :
  forall t : trow,
    let q := fun z : Z => inject_Z z in
    let rate := fun name => match lookup_rate name rate_defs with Some e => aeval t e | None => None end in
    let TPq := q (TP t) in let TNq := q (TN t) in let FPq := q (FP t) in let FNq := q (FN t) in
    let Pq := q (P t) in let Nq := q (N t) in let Tq := q (total t) in
    let div := fun a b : Q => if Qeq_bool b 0 then None else Some (a / b)%Q in
    rate "P_rate"%string = div Pq Tq /\
    rate "N_rate"%string = div Nq Tq /\
    rate "tp_rate"%string = div TPq Pq /\
    rate "tn_rate"%string = div TNq Nq /\
    rate "fp_rate"%string = div FPq Nq /\
    rate "fn_rate"%string = div FNq Pq /\
    rate "precision"%string = (if Qeq_bool (TPq + FPq)%Q 0 then Some 1%Q else Some (TPq / (TPq + FPq))%Q) /\
    rate "recall"%string = div TPq Pq /\
    rate "specificity"%string = div TNq Nq /\
    rate "npv"%string = (if Qeq_bool (TNq + FNq)%Q 0 then Some 1%Q else Some (TNq / (TNq + FNq))%Q) /\
    rate "accuracy"%string = div (TPq + TNq)%Q (Pq + Nq)%Q /\
    rate "f1"%string = div (inject_Z 2 * TPq)%Q (inject_Z 2 * TPq + FNq + FPq)%Q /\
    rate "f2"%string = div (inject_Z 5 * TPq)%Q (inject_Z 5 * TPq + inject_Z 4 * FNq + FPq)%Q /\
    rate "f0_5"%string = div ((5 # 4) * TPq)%Q ((5 # 4) * TPq + (1 # 4) * FNq + FPq)%Q /\
    rate "p4"%string = div (inject_Z 4 * TPq * TNq)%Q (inject_Z 4 * TPq * TNq + (TPq + TNq) * (FPq + FNq))%Q /\
    rate "phi"%string =
      (if Qeq_bool (TNq + FNq)%Q 0 || Qeq_bool (TPq + FPq)%Q 0 || Qeq_bool Pq 0 || Qeq_bool Nq 0 then Some 0%Q
       else match Qsqrt_exact ((TPq + FPq) * Pq * Nq * (TNq + FNq))%Q with
            | Some s => div (TPq * TNq - FPq * FNq)%Q s
            | None => None          (* irrational square root: outside the exact model, compared numerically in X *)
            end).
Proof. exact rates_closed_form. Qed.
Print Assumptions C15_rates_by_definition.


(* The translator regenerates one expression tree per derived column from the SQL text in /repo on
   every run and the obligation evaluated by the kernel is [aexp_eqb tree documented = true] for all
   16 names; by this theorem the SQL's tree then IS the documented tree, so the closed forms above
   are statements about what the SQL says, for every row (not only on a grid). *)
Theorem C15_rate_tree_equality_is_identity :
  forall sql_tree documented, aexp_eqb sql_tree documented = true -> sql_tree = documented.
Proof. exact aexp_eqb_eq. Qed.
Print Assumptions C15_rate_tree_equality_is_identity.

Example C15_all_rates_are_documented :
  map fst rate_defs = ["P_rate"; "N_rate"; "tp_rate"; "tn_rate"; "fp_rate"; "fn_rate"; "precision"; "recall";
                       "specificity"; "npv"; "accuracy"; "f1"; "f2"; "f0_5"; "p4"; "phi"]%string
  /\ forallb (fun ne => aexp_eqb (snd ne) (snd ne)) rate_defs = true.
Proof. vm_compute. split; reflexivity. Qed.

(* ------------------------------------------------------------------ non-vacuity *)
Definition ex_rows : list lrow :=
  [ {| score := 3 # 2;    clerical := Some 1%Q;     found := true |};
    {| score := 6 # 4;    clerical := Some 0%Q;     found := true |};    (* tie, other class *)
    {| score := (-5) # 1; clerical := Some 1%Q;     found := false |};   (* not found by blocking *)
    {| score := (-7) # 4; clerical := None;         found := true |};    (* NULL label *)
    {| score := 9 # 4;    clerical := Some (1 # 2); found := true |};    (* label = threshold_actual *)
    {| score := 9 # 4;    clerical := Some (1 # 4); found := false |} ].
Example C15_example_table :
  truth_space_table (1 # 2) (rounding None) true None ex_rows
  = [ {| thr := (-7) # 4; total := 6; P := 3; N := 3; FP := 2; TP := 2; FN := 1; TN := 1 |};
      {| thr := 3 # 2;    total := 6; P := 3; N := 3; FP := 1; TP := 2; FN := 1; TN := 2 |};
      {| thr := 9 # 4;    total := 6; P := 3; N := 3; FP := 0; TP := 1; FN := 2; TN := 3 |} ].
Proof. vm_compute. reflexivity. Qed.
Example C15_example_column_mode_rounded :
  map (fun t => (thr t, TP t, TN t, FP t, FN t, total t))
      (truth_space_table (1 # 2) (rounding (Some (1 # 2, 1 # 2))) false (Some 15) ex_rows)
  = [ ((-10) # 2, 3, 9, 3, 0, 15); ((-4) # 2, 2, 9, 3, 1, 15); (3 # 2, 2, 10, 2, 1, 15);
      (5 # 2, 1, 11, 1, 2, 15) ].
Proof. vm_compute. reflexivity. Qed.
Example C15_example_errors :
  map (fun x => (e_key (fst x), snd x))
      (prediction_errors true true true (1 # 2)
         [ {| e_key := 0; e_cms := Some 1%Q; e_prob := 1 # 4; e_found := true |};
           {| e_key := 1; e_cms := Some 0%Q; e_prob := 3 # 4; e_found := true |};
           {| e_key := 2; e_cms := Some 1%Q; e_prob := 3 # 4; e_found := false |};
           {| e_key := 3; e_cms := Some 1%Q; e_prob := 3 # 4; e_found := true |};
           {| e_key := 4; e_cms := Some 0%Q; e_prob := 1 # 2; e_found := true |} ])
  = [ (0%nat, Some StFN); (1%nat, Some StFP); (2%nat, Some StFN) ].
Proof. vm_compute. reflexivity. Qed.
(* label-column mode: dedupe of 5 records (10 admissible pairs), one blocking rule, 4 scored pairs
   (the last one found only through the label rule), 6 implicit negatives *)
Example C15_example_column_mode_recount :
  let preds := [ {| p_score := 3 # 1;    p_label_l := Some 1; p_label_r := Some 1; p_match_key := 0%nat |};
                 {| p_score := 1 # 2;    p_label_l := Some 1; p_label_r := Some 2; p_match_key := 0%nat |};
                 {| p_score := (-2) # 1; p_label_l := None;   p_label_r := Some 2; p_match_key := 0%nat |};
                 {| p_score := 4 # 1;    p_label_l := Some 2; p_label_r := Some 2; p_match_key := 1%nat |} ] in
  option_map (map (fun t => (thr t, TP t, TN t, FP t, FN t, total t)))
             (truth_space_table_from_labels_column CDedupe [5] 1 (1 # 2) (rounding None) true preds)
  = Some [ ((-2) # 1, 1, 6, 2, 1, 10); (1 # 2, 1, 7, 1, 1, 10); (3 # 1, 1, 8, 0, 1, 10) ].
Proof. vm_compute. reflexivity. Qed.
(* the bridge's hypotheses are satisfiable: probabilities 9/10, 6/10, 1/10 against t = 1/2, row at weight 0 *)
Example C15_example_errors_match_table :
  let rows := [ {| score := 3 # 1;    clerical := Some 1%Q; found := true |};
                {| score := 1 # 2;    clerical := Some 0%Q; found := true |};
                {| score := (-3) # 1; clerical := Some 1%Q; found := true |};
                {| score := (-4) # 1; clerical := Some 0%Q; found := true |} ] in
  let probf := fun r : lrow => if Qle_bool 0 (score r) then (if Qle_bool 3 (score r) then 9 # 10 else 6 # 10) else 1 # 10 in
  let tab := truth_space_table (1 # 2) (rounding None) true None rows in
  let ret := prediction_errors false true true (1 # 2) (map (erow_of probf) rows) in
  map (fun t => (thr t, FP t, FN t)) tab = [ ((-4) # 1, 2, 0); ((-3) # 1, 1, 0); (1 # 2, 1, 1); (3 # 1, 0, 1) ]
  /\ (countZ (is_status StFP) ret, countZ (is_status StFN) ret) = (1, 1).
Proof. vm_compute. split; reflexivity. Qed.
