(* C13 (recount outputs)  Results are invariant under re-presentation of the input:
   the truth-space table, prediction errors, term-frequency tables, completeness, the
   comparison-vector distribution, the match-weight histogram, the unlinkables data and all
   blocking-analysis counts are invariant under any Permutation of the input rows / label rows,
   and (where ids occur at all) under a renaming of the ids that preserves the orientation
   order.  Statements only; proofs in Proofs/AccuracyP.v, DescriptiveP.v, BlockAnalysisP.v on the
   permutation lemmas of Base/GroupBy.v (group_keys_perm, sorted_unique, countZ_perm). *)
From Coq Require Import List Bool ZArith QArith Sorting.Permutation.
From Splinkv Require Import Base.TV Base.GroupBy Base.CumSum Model.Blocking Model.BlockAnalysis Model.Accuracy
     Model.Descriptive Proofs.AccuracyP Proofs.DescriptiveP Proofs.BlockAnalysisP.
Import ListNotations.
Local Open Scope Z_scope.

(* ------------------------------------------------------------------ accuracy (C15 outputs) *)
Theorem C13_truth_table_row_order :
  forall thr_actual rnd zero_unfound total_labels rows rows' t,
    Permutation rows rows' ->
    In t (truth_space_table thr_actual rnd zero_unfound total_labels rows) ->
    exists t', In t' (truth_space_table thr_actual rnd zero_unfound total_labels rows') /\
      (thr t' == thr t)%Q /\ TP t' = TP t /\ FP t' = FP t /\ FN t' = FN t /\ TN t' = TN t /\
      P t' = P t /\ N t' = N t /\ total t' = total t.
Proof. intros. eapply truth_space_table_perm; eauto. Qed.
Print Assumptions C13_truth_table_row_order.

Theorem C13_label_rows_order :
  forall scoref foundf recs ls ls' nrules preds preds',
    (Permutation ls ls' ->
     Permutation (labels_with_predictions_from_table scoref foundf recs ls)
                 (labels_with_predictions_from_table scoref foundf recs ls')) /\
    (Permutation preds preds' ->
     Permutation (labels_with_predictions_from_column nrules preds)
                 (labels_with_predictions_from_column nrules preds')).
Proof.
  intros. split; [apply labels_with_predictions_perm|apply labels_with_predictions_column_perm].
Qed.
Print Assumptions C13_label_rows_order.

Theorem C13_prediction_errors_row_order :
  forall column_mode inc_fp inc_fn t rows rows',
    Permutation rows rows' ->
    Permutation (prediction_errors column_mode inc_fp inc_fn t rows)
                (prediction_errors column_mode inc_fp inc_fn t rows').
Proof. intros. apply prediction_errors_perm. assumption. Qed.
Print Assumptions C13_prediction_errors_row_order.

(* renaming the ids by a strictly monotone (hence injective, orientation-preserving) map, with
   scores and found flags transported along it, leaves the labelled pairs unchanged *)
Theorem C13_labels_table_id_renaming :
  forall phi scoref foundf scoref' foundf' recs ls,
    (forall a b, (a < b)%nat -> (phi a < phi b)%nat) ->
    (forall a b, scoref' (phi a) (phi b) = scoref a b) ->
    (forall a b, foundf' (phi a) (phi b) = foundf a b) ->
    forall thr_actual rnd,
      truth_space_table_from_labels_table thr_actual rnd scoref' foundf' (map phi recs) (map (relabel phi) ls)
      = truth_space_table_from_labels_table thr_actual rnd scoref foundf recs ls.
Proof.
  intros phi scoref foundf scoref' foundf' recs ls H1 H2 H3 ta rnd. unfold truth_space_table_from_labels_table.
  rewrite (relabel_labels_table phi scoref foundf scoref' foundf' recs ls H1 H2 H3). reflexivity.
Qed.
Print Assumptions C13_labels_table_id_renaming.

(* ------------------------------------------------------------------ descriptive outputs (C20) *)
Theorem C13_tf_table_row_order :
  forall col col', Permutation col col' -> tf_table col = tf_table col'.
Proof. exact tf_table_perm. Qed.
Print Assumptions C13_tf_table_row_order.

Theorem C13_completeness_row_order :
  forall cells cells', Permutation cells cells' -> completeness_rows cells = completeness_rows cells'.
Proof. exact completeness_rows_perm. Qed.
Print Assumptions C13_completeness_row_order.

Theorem C13_cvd_row_order :
  forall preds preds', Permutation preds preds' ->
    comparison_vector_distribution preds = comparison_vector_distribution preds'.
Proof. exact cvd_perm. Qed.
Print Assumptions C13_cvd_row_order.

Theorem C13_histogram_row_order :
  forall bw scores scores', Permutation scores scores' -> histogram bw scores = histogram bw scores'.
Proof. exact histogram_perm. Qed.
Print Assumptions C13_histogram_row_order.

Theorem C13_unlinkables_row_order :
  forall scores scores' r,
    Permutation scores scores' -> In r (unlinkables_data scores) ->
    exists r', In r' (unlinkables_data scores') /\
               (uc_prob r' == uc_prob r)%Q /\ (cum_prop r' == cum_prop r)%Q /\ (uc_prop r' == uc_prop r)%Q.
Proof. exact unlinkables_perm. Qed.
Print Assumptions C13_unlinkables_row_order.

(* ------------------------------------------------------------------ blocking analysis (C14) *)
Theorem C13_blocking_counts_row_order :
  forall (rec : Type) (adm : rec -> rec -> bool) (rule : rec -> rec -> tv) (rules : list (rec -> rec -> tv))
         (keyL keyR : rec -> option (list Z)) n k L L' R R',
    Permutation L L' -> Permutation R R' ->
    post_filter_count adm rule L R = post_filter_count adm rule L' R' /\
    pre_filter_count keyL keyR L R = pre_filter_count keyL keyR L' R' /\
    n_largest_blocks n keyL keyR L R = n_largest_blocks n keyL keyR L' R' /\
    (rules <> [] -> (k < length rules)%nat ->
     nth k (row_counts (length rules) (block adm rules L R)) 0
     = nth k (row_counts (length rules) (block adm rules L' R')) 0).
Proof.
  intros rec adm rule rules keyL keyR n k L L' R R' HL HR.
  split; [apply post_filter_count_perm; assumption|].
  split; [apply pre_filter_count_perm; assumption|].
  split; [apply n_largest_perm; assumption|].
  intros Hne Hk. apply row_counts_perm; assumption.
Qed.
Print Assumptions C13_blocking_counts_row_order.

Theorem C13_cartesian_table_order :
  forall lt ns ns', lt <> CDedupe -> Permutation ns ns' -> cartesian lt ns = cartesian lt ns'.
Proof. intros lt ns ns' Hlt H. destruct (cartesian_perm lt ns ns' H) as [E|E]; [exact E|contradiction]. Qed.
Print Assumptions C13_cartesian_table_order.

(* renaming the records along any map that transports admissibility (for ids: an injective
   renaming preserving the orientation order), rule outcomes and keys *)
Theorem C13_blocking_counts_id_renaming :
  forall (rec rec' : Type) (phi : rec -> rec') adm adm' rule rule' rules rules' keyL keyR keyL' keyR' L R k,
    (forall a b, adm' (phi a) (phi b) = adm a b) ->
    (forall a b, rule' (phi a) (phi b) = rule a b) ->
    Forall2 (fun r r' => forall a b, r' (phi a) (phi b) = r a b) rules rules' ->
    (forall a, keyL' (phi a) = keyL a) -> (forall a, keyR' (phi a) = keyR a) ->
    post_filter_count adm' rule' (map phi L) (map phi R) = post_filter_count adm rule L R /\
    pre_filter_count keyL' keyR' (map phi L) (map phi R) = pre_filter_count keyL keyR L R /\
    (rules <> [] -> (k < length rules)%nat ->
     nth k (row_counts (length rules') (block adm' rules' (map phi L) (map phi R))) 0
     = nth k (row_counts (length rules) (block adm rules L R)) 0).
Proof.
  intros rec rec' phi adm adm' rule rule' rules rules' keyL keyR keyL' keyR' L R k Ha Hr HF HkL HkR.
  split; [apply post_filter_count_relabel; assumption|].
  split; [apply pre_filter_count_relabel; assumption|].
  intros Hne Hk. apply row_counts_relabel; assumption.
Qed.
Print Assumptions C13_blocking_counts_id_renaming.

(* ------------------------------------------------------------------ non-vacuity *)
Example C13_recounts_example :
  let rows := [ {| score := 3 # 2; clerical := Some 1%Q; found := true |};
                {| score := 6 # 4; clerical := Some 0%Q; found := true |};
                {| score := (-5) # 1; clerical := Some 1%Q; found := false |} ] in
  map (fun t => (TP t, FP t, FN t, TN t)) (truth_space_table (1 # 2) (rounding None) true None rows)
  = map (fun t => (TP t, FP t, FN t, TN t)) (truth_space_table (1 # 2) (rounding None) true None (rev rows))
  /\ tf_table [Some 3; None; Some 1; Some 3] = tf_table [Some 1; Some 3; Some 3; None].
Proof. vm_compute. split; reflexivity. Qed.

(* non-vacuity of the two renaming theorems (witnesses of docs/AUDIT_1.md) *)
Example C13_labels_table_id_renaming_example :
  let phi := fun n : nat => (2 * n + 3)%nat in
  let inv := fun a : nat => ((a - 3) / 2)%nat in
  let scoref := fun l r : nat => inject_Z (Z.of_nat (l + 2 * r)) in
  let foundf := fun l r : nat => Nat.even (l + r) in
  let scoref' := fun a b : nat => scoref (inv a) (inv b) in
  let foundf' := fun a b : nat => foundf (inv a) (inv b) in
  let recs := [0; 1; 2; 3]%nat in
  let ls := [ {| id_l := 2%nat; id_r := 0%nat; cms := Some 1%Q |};      (* higher id supplied on the left *)
              {| id_l := 0%nat; id_r := 1%nat; cms := None |};
              {| id_l := 1%nat; id_r := 3%nat; cms := Some 0%Q |};
              {| id_l := 3%nat; id_r := 7%nat; cms := Some 1%Q |} ] in  (* 7 is not a record *)
  (* the hypotheses hold on the ids in play ... *)
  forallb (fun a => forallb (fun b => implb (Nat.ltb a b) (Nat.ltb (phi a) (phi b))
                                     && Qeq_bool (scoref' (phi a) (phi b)) (scoref a b)
                                     && Bool.eqb (foundf' (phi a) (phi b)) (foundf a b)) (seq 0 8)) (seq 0 8) = true
  (* ... and the renamed job has the same, non-trivial, truth table *)
  /\ truth_space_table_from_labels_table (1 # 2) (rounding None) scoref' foundf' (map phi recs) (map (relabel phi) ls)
     = truth_space_table_from_labels_table (1 # 2) (rounding None) scoref foundf recs ls
  /\ map (fun t => (thr t, TP t, FP t, FN t, TN t))
         (truth_space_table_from_labels_table (1 # 2) (rounding None) scoref foundf recs ls)
     = [ (4 # 1, 1, 1, 0, 1); (7 # 1, 0, 1, 1, 1) ].
Proof. vm_compute. repeat split; reflexivity. Qed.

Example C13_blocking_counts_id_renaming_example :
  let phi := fun n : nat => (n + 10)%nat in
  let adm := fun l r : nat => Nat.ltb l r in
  let r0 := fun l r : nat => of_bool (Nat.even (l + r)) in                 (* parity rules: invariant under +10 *)
  let r1 := fun l r : nat => if Nat.eqb l 0 then U else of_bool (Nat.odd r) in
  let r1' := fun a b : nat => if Nat.eqb a 10 then U else of_bool (Nat.odd b) in
  let key := fun x : nat => if Nat.eqb x 3 then None else Some [Z.of_nat (Nat.modulo x 2)] in
  let key' := fun a : nat => key (a - 10)%nat in
  let L := [0; 1; 2; 3; 4]%nat in
  forallb (fun a => forallb (fun b => Bool.eqb (adm (phi a) (phi b)) (adm a b)
                                     && tv_eqb (r0 (phi a) (phi b)) (r0 a b)
                                     && tv_eqb (r1' (phi a) (phi b)) (r1 a b)) L) L = true
  /\ (post_filter_count adm r0 (map phi L) (map phi L), post_filter_count adm r0 L L) = (4, 4)
  /\ (pre_filter_count key' key' (map phi L) (map phi L), pre_filter_count key key L L) = (10, 10)
  /\ (row_counts 2 (block adm [r0; r1'] (map phi L) (map phi L)), row_counts 2 (block adm [r0; r1] L L)) = ([4; 1], [4; 1]).
Proof. vm_compute. repeat split; reflexivity. Qed.
