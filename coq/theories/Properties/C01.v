(* C01  Blocking yields exactly the rule-satisfying pairs, each once.
   Only statements here; proofs live in Proofs/BlockingP.v. *)
From Coq Require Import List Bool Arith Lia Permutation.
From Splinkv Require Import Base.TV Model.Blocking Proofs.BlockingP.
Import ListNotations.

(* Canonical composition (ON rule_k WHERE adm AND NOT (OR_{j<k} coalesce(rule_j,false))):
   any record type, any rule functions, any number of rules, any tables. *)
Theorem C01_membership :
  forall (rec : Type) (adm : rec -> rec -> bool) (rules : list (rec -> rec -> tv)) L R n l r,
    rules <> [] ->
    (In (n, (l, r)) (block adm rules L R) <->
     In l L /\ In r R /\ adm l r = true /\ first_true 0 rules l r = Some n).
Proof.
  intros rec adm rules L R n l r Hne. unfold block. destruct rules as [|a t]; [congruence|].
  rewrite block_aux_spec. cbn [existsb]. tauto.
Qed.
Print Assumptions C01_membership.

Theorem C01_exactly_once :
  forall (rec : Type) (adm : rec -> rec -> bool) (rules : list (rec -> rec -> tv)) L R,
    NoDup L -> NoDup R -> NoDup (map snd (block adm rules L R)).
Proof. intros. unfold block. apply block_aux_pairs_nodup; assumption. Qed.
Print Assumptions C01_exactly_once.

Theorem C01_pair_present_iff_some_rule_true :
  forall (rec : Type) (adm : rec -> rec -> bool) (rules : list (rec -> rec -> tv)) L R l r,
    rules <> [] ->
    ((exists n, In (n, (l, r)) (block adm rules L R)) <->
     In l L /\ In r R /\ adm l r = true /\ exists rk, In rk rules /\ rk l r = T).
Proof.
  intros rec adm rules L R l r Hne. rewrite <- first_true_some_iff with (k := 0). split.
  - intros [n H]. apply C01_membership in H; [|exact Hne]. destruct H as (?&?&?&?). eauto 6.
  - intros (Hl&Hr&Ha&[n Hn]). exists n. apply C01_membership; auto.
Qed.
Print Assumptions C01_pair_present_iff_some_rule_true.

Theorem C01_first_rule_owns :
  forall (rec : Type) (adm : rec -> rec -> bool) (rules : list (rec -> rec -> tv)) L R n l r,
    rules <> [] -> In (n, (l, r)) (block adm rules L R) ->
    (exists rk, nth_error rules n = Some rk /\ rk l r = T) /\
    forall j rj, j < n -> nth_error rules j = Some rj -> rj l r <> T.
Proof.
  intros rec adm rules L R n l r Hne H. apply C01_membership in H; [|exact Hne].
  destruct H as (_&_&_&Hf). apply first_true_least in Hf. rewrite Nat.sub_0_r in Hf. tauto.
Qed.
Print Assumptions C01_first_rule_owns.

Theorem C01_no_rules_all_admissible :
  forall (rec : Type) (adm : rec -> rec -> bool) L R l r,
    In (0, (l, r)) (block adm [] L R) <-> In l L /\ In r R /\ adm l r = true.
Proof.
  intros. unfold block. rewrite block_aux_spec. cbn. tauto.
Qed.
Print Assumptions C01_no_rules_all_admissible.

(* Skeleton of the SQL the real generator emits (regenerated per run): if the exhaustive
   valuation check accepts it, then on all tables the UNION ALL is, as a bag, exactly
   "each candidate pair once with its first true rule, if admissible". *)
Theorem C01_skeleton_sound :
  forall (rec : Type) atomf partf idltf sdsnef sdsltf natoms ns lt rules sk (L R : list rec),
    (forall n l, In n ns -> 1 <= partf n l <= n) ->
    skeleton_ok lt natoms ns rules sk = true ->
    (lt = TwoDatasetLinkOnly -> forall l r, In l L -> In r R -> sdsltf l r = true) ->
    Permutation (block_tables rec atomf partf idltf sdsnef sdsltf natoms ns sk L R)
                (spec_tables rec atomf partf idltf sdsnef sdsltf natoms ns lt rules L R).
Proof. intros. apply skeleton_sound; assumption. Qed.
Print Assumptions C01_skeleton_sound.

Theorem C01_spec_each_pair_at_most_once :
  forall lt rules v, length (expected lt rules v) <= 1.
Proof. exact expected_at_most_one. Qed.
Print Assumptions C01_spec_each_pair_at_most_once.

Theorem C01_spec_first_rule_owns :
  forall lt rules v k, rules <> [] -> In k (expected lt rules v) ->
    adm_of lt v = true /\
    (exists e, nth_error rules k = Some e /\ beval v [] e = T) /\
    forall j e, j < k -> nth_error rules j = Some e -> beval v [] e <> T.
Proof.
  intros lt rules v k Hne Hin. split; [eapply expected_adm; eauto|].
  unfold expected in Hin. destruct (adm_of lt v); [|destruct Hin].
  destruct rules as [|a t]; [congruence|].
  destruct (first_true_e v 0 (a :: t)) eqn:Hf; [|destruct Hin].
  destruct Hin as [<-|[]]. apply first_true_e_least in Hf. rewrite Nat.sub_0_r in Hf. tauto.
Qed.
Print Assumptions C01_spec_first_rule_owns.

Theorem C01_spec_absent_iff_no_rule_true :
  forall lt rules v, rules <> [] -> adm_of lt v = true -> expected lt rules v = [] ->
    forall e, In e rules -> beval v [] e <> T.
Proof.
  intros lt rules v Hne Ha He. unfold expected in He. rewrite Ha in He.
  destruct rules as [|a t]; [congruence|].
  destruct (first_true_e v 0 (a :: t)) eqn:Hf; [discriminate|].
  eapply first_true_e_none; eauto.
Qed.
Print Assumptions C01_spec_absent_iff_no_rule_true.

(* non-vacuity: a concrete 3-record table with NULL outcomes, two rules *)
Example C01_example :
  let adm := fun l r : nat => Nat.ltb l r in
  let r0 := fun l r : nat => if Nat.eqb l 0 then U else of_bool (Nat.eqb (l + r) 3) in
  let r1 := fun l r : nat => of_bool (Nat.eqb l 0) in
  block adm [r0; r1] [0; 1; 2] [0; 1; 2] = [(0, (1, 2)); (1, (0, 1)); (1, (0, 2))].
Proof. vm_compute. reflexivity. Qed.

(* non-vacuity of the skeleton theorem: the canonical two-rule skeleton is accepted, a
   skeleton without the coalesce is rejected with a NULL-outcome counterexample *)
Definition sk2 (coal : bool) : skeleton :=
  {| sels := [ {| s_mk := 0; s_kind := SJoin; s_on := BAtom 0; s_where := BIdLt |};
               {| s_mk := 1; s_kind := SJoin; s_on := BAtom 1;
                  s_where := BAnd BIdLt (BNot (if coal then BCoalF (BAtom 0) else BAtom 0)) |} ];
     ids_defs := [] |}.
Example C01_skeleton_example_ok :
  skeleton_ok Dedupe 2 [] [BAtom 0; BAtom 1] (sk2 true) = true.
Proof. vm_compute. reflexivity. Qed.
Example C01_skeleton_example_bad :
  skeleton_cex Dedupe 2 [] [BAtom 0; BAtom 1] (sk2 false)
  = Some {| v_atoms := [U; T]; v_parts := []; v_idlt := true; v_sdsne := true; v_sdslt := true |}.
Proof. vm_compute. reflexivity. Qed.

(* predict()'s two-dataset fast path (split into the rows of the least and of the greatest
   source dataset, joined with WHERE 1=1) produces exactly the link_only pairs of the whole
   table, with the same match keys, when there are exactly two datasets and composite ids are
   ordered by dataset first *)
Theorem C01_two_dataset_split_equiv :
  forall (rec : Type) (ds : rec -> nat) (idlt : rec -> rec -> bool) (a b : nat) (All : list rec),
    a < b ->
    (forall x, In x All -> ds x = a \/ ds x = b) ->
    (forall l r, In l All -> In r All -> ds l < ds r -> idlt l r = true) ->
    (forall l r, idlt l r = true -> idlt r l = false) ->
    forall (rules : list (rec -> rec -> tv)) n l r,
      In (n, (l, r)) (block (adm_link_only rec ds idlt) rules All All) <->
      In (n, (l, r)) (block (adm_all rec) rules (part rec ds All a) (part rec ds All b)).
Proof. intros. apply two_dataset_split_equiv; assumption. Qed.
Print Assumptions C01_two_dataset_split_equiv.

(* with a third dataset the fast path would lose pairs: non-vacuity of the hypothesis *)
Example C01_two_dataset_needs_two :
  let ds := fun x : nat => x / 10 in
  let idlt := Nat.ltb in
  let All := [1; 11; 21] in
  let rule := fun _ _ : nat => T in
  length (block (adm_link_only nat ds idlt) [rule] All All) = 3 /\
  length (block (adm_all nat) [rule] (part nat ds All 0) (part nat ds All 2)) = 1.
Proof. vm_compute. split; reflexivity. Qed.
