(* C01  Blocking yields exactly the rule-satisfying pairs, each once.
   Only statements here; proofs live in Proofs/BlockingP.v. *)
From Coq Require Import List Bool Arith Lia Permutation.
From Splinkv Require Import Base.TV Model.Blocking Proofs.BlockingP.
Import ListNotations.

(* Canonical composition (ON rule_k WHERE adm AND NOT (OR_{j<k} coalesce(rule_j,false))):
   any record type, any rule functions, any number of rules, any tables. *)
Theorem C01_membership :
  forall (rec : Type) (adm : rec -> rec -> bool) (rules : list (rec -> rec -> tv)) L R n l r,
    rules <> [] ->
    (In (n, (l, r)) (block adm rules L R) <->
     In l L /\ In r R /\ adm l r = true /\ first_true 0 rules l r = Some n).
Proof.
  intros rec adm rules L R n l r Hne. unfold block. destruct rules as [|a t]; [congruence|].
  rewrite block_aux_spec. cbn [existsb]. tauto.
Qed.
Print Assumptions C01_membership.

Theorem C01_exactly_once :
  forall (rec : Type) (adm : rec -> rec -> bool) (rules : list (rec -> rec -> tv)) L R,
    NoDup L -> NoDup R -> NoDup (map snd (block adm rules L R)).
Proof. intros. unfold block. apply block_aux_pairs_nodup; assumption. Qed.
Print Assumptions C01_exactly_once.

Theorem C01_pair_present_iff_some_rule_true :
  forall (rec : Type) (adm : rec -> rec -> bool) (rules : list (rec -> rec -> tv)) L R l r,
    rules <> [] ->
    ((exists n, In (n, (l, r)) (block adm rules L R)) <->
     In l L /\ In r R /\ adm l r = true /\ exists rk, In rk rules /\ rk l r = T).
Proof.
  intros rec adm rules L R l r Hne. rewrite <- first_true_some_iff with (k := 0). split.
  - intros [n H]. apply C01_membership in H; [|exact Hne]. destruct H as (?&?&?&?). eauto 6.
  - intros (Hl&Hr&Ha&[n Hn]). exists n. apply C01_membership; auto.
Qed.
Print Assumptions C01_pair_present_iff_some_rule_true.

Theorem C01_first_rule_owns :
  forall (rec : Type) (adm : rec -> rec -> bool) (rules : list (rec -> rec -> tv)) L R n l r,
    rules <> [] -> In (n, (l, r)) (block adm rules L R) ->
    (exists rk, nth_error rules n = Some rk /\ rk l r = T) /\
    forall j rj, j < n -> nth_error rules j = Some rj -> rj l r <> T.
Proof.
  intros rec adm rules L R n l r Hne H. apply C01_membership in H; [|exact Hne].
  destruct H as (_&_&_&Hf). apply first_true_least in Hf. rewrite Nat.sub_0_r in Hf. tauto.
Qed.
Print Assumptions C01_first_rule_owns.

Theorem C01_no_rules_all_admissible :
  forall (rec : Type) (adm : rec -> rec -> bool) L R l r,
    In (0, (l, r)) (block adm [] L R) <-> In l L /\ In r R /\ adm l r = true.
Proof.
  intros. unfold block. rewrite block_aux_spec. cbn. tauto.
Qed.
Print Assumptions C01_no_rules_all_admissible.

(* Skeleton of the SQL the real generator emits (regenerated per run): if the exhaustive
   valuation check accepts it, then on all tables the UNION ALL is, as a bag, exactly
   "each candidate pair once with its first true rule, if admissible". *)
Theorem C01_skeleton_sound :
  forall (rec : Type) atomf partf idltf sdsnef sdsltf natoms ns lt rules sk (L R : list rec),
    (forall n l, In n ns -> 1 <= partf n l <= n) ->
    skeleton_ok lt natoms ns rules sk = true ->
    (lt = TwoDatasetLinkOnly -> forall l r, In l L -> In r R -> sdsltf l r = true) ->
    Permutation (block_tables rec atomf partf idltf sdsnef sdsltf natoms ns sk L R)
                (spec_tables rec atomf partf idltf sdsnef sdsltf natoms ns lt rules L R).
Proof. intros. apply skeleton_sound; assumption. Qed.
Print Assumptions C01_skeleton_sound.

Theorem C01_spec_each_pair_at_most_once :
  forall lt rules v, length (expected lt rules v) <= 1.
Proof. exact expected_at_most_one. Qed.
Print Assumptions C01_spec_each_pair_at_most_once.

Theorem C01_spec_first_rule_owns :
  forall lt rules v k, rules <> [] -> In k (expected lt rules v) ->
    adm_of lt v = true /\
    (exists e, nth_error rules k = Some e /\ beval v [] e = T) /\
    forall j e, j < k -> nth_error rules j = Some e -> beval v [] e <> T.
Proof.
  intros lt rules v k Hne Hin. split; [eapply expected_adm; eauto|].
  unfold expected in Hin. destruct (adm_of lt v); [|destruct Hin].
  destruct rules as [|a t]; [congruence|].
  destruct (first_true_e v 0 (a :: t)) eqn:Hf; [|destruct Hin].
  destruct Hin as [<-|[]]. apply first_true_e_least in Hf. rewrite Nat.sub_0_r in Hf. tauto.
Qed.
Print Assumptions C01_spec_first_rule_owns.

Theorem C01_spec_absent_iff_no_rule_true :
  forall lt rules v, rules <> [] -> adm_of lt v = true -> expected lt rules v = [] ->
    forall e, In e rules -> beval v [] e <> T.
Proof.
  intros lt rules v Hne Ha He. unfold expected in He. rewrite Ha in He.
  destruct rules as [|a t]; [congruence|].
  destruct (first_true_e v 0 (a :: t)) eqn:Hf; [discriminate|].
  eapply first_true_e_none; eauto.
Qed.
Print Assumptions C01_spec_absent_iff_no_rule_true.

(* non-vacuity: a concrete 3-record table with NULL outcomes, two rules *)
Example C01_example :
  let adm := fun l r : nat => Nat.ltb l r in
  let r0 := fun l r : nat => if Nat.eqb l 0 then U else of_bool (Nat.eqb (l + r) 3) in
  let r1 := fun l r : nat => of_bool (Nat.eqb l 0) in
  block adm [r0; r1] [0; 1; 2] [0; 1; 2] = [(0, (1, 2)); (1, (0, 1)); (1, (0, 2))].
Proof. vm_compute. reflexivity. Qed.

(* non-vacuity of the skeleton theorem: the canonical two-rule skeleton is accepted, a
   skeleton without the coalesce is rejected with a NULL-outcome counterexample *)
Definition sk2 (coal : bool) : skeleton :=
  {| sels := [ {| s_mk := 0; s_kind := SJoin; s_on := BAtom 0; s_where := BIdLt |};
               {| s_mk := 1; s_kind := SJoin; s_on := BAtom 1;
                  s_where := BAnd BIdLt (BNot (if coal then BCoalF (BAtom 0) else BAtom 0)) |} ];
     ids_defs := [] |}.
Example C01_skeleton_example_ok :
  skeleton_ok Dedupe 2 [] [BAtom 0; BAtom 1] (sk2 true) = true.
Proof. vm_compute. reflexivity. Qed.
Example C01_skeleton_example_bad :
  skeleton_cex Dedupe 2 [] [BAtom 0; BAtom 1] (sk2 false)
  = Some {| v_atoms := [U; T]; v_parts := []; v_idlt := true; v_sdsne := true; v_sdslt := true |}.
Proof. vm_compute. reflexivity. Qed.

(* predict()'s two-dataset fast path (split into the rows of the least and of the greatest
   source dataset, joined with WHERE 1=1) produces exactly the link_only pairs of the whole
   table, with the same match keys, when there are exactly two datasets and composite ids are
   ordered by dataset first *)
Theorem C01_two_dataset_split_equiv :
  forall (rec : Type) (ds : rec -> nat) (idlt : rec -> rec -> bool) (a b : nat) (All : list rec),
    a < b ->
    (forall x, In x All -> ds x = a \/ ds x = b) ->
    (forall l r, In l All -> In r All -> ds l < ds r -> idlt l r = true) ->
    (forall l r, idlt l r = true -> idlt r l = false) ->
    forall (rules : list (rec -> rec -> tv)) n l r,
      In (n, (l, r)) (block (adm_link_only rec ds idlt) rules All All) <->
      In (n, (l, r)) (block (adm_all rec) rules (part rec ds All a) (part rec ds All b)).
Proof. intros. apply two_dataset_split_equiv; assumption. Qed.
Print Assumptions C01_two_dataset_split_equiv.

(* with a third dataset the fast path would lose pairs: non-vacuity of the hypothesis *)
Example C01_two_dataset_needs_two :
  let ds := fun x : nat => x / 10 in
  let idlt := Nat.ltb in
  let All := [1; 11; 21] in
  let rule := fun _ _ : nat => T in
  length (block (adm_link_only nat ds idlt) [rule] All All) = 3 /\
  length (block (adm_all nat) [rule] (part nat ds All 0) (part nat ds All 2)) = 1.
Proof. vm_compute. split; reflexivity. Qed.

(* ------------------------------------------------------------------------------------ *)
(* Unordered pairs (dedupe_only / link_and_dedupe: admissibility is the strict order on ids) *)
Theorem C01_each_unordered_pair_at_most_one_orientation :
  forall (rec : Type) (id : rec -> nat) (rules : list (rec -> rec -> tv)) L n m l r,
    In (n, (l, r)) (block (adm_lt rec id) rules L L) ->
    In (m, (r, l)) (block (adm_lt rec id) rules L L) -> False.
Proof. intros. eapply one_orientation_only; eassumption. Qed.
Print Assumptions C01_each_unordered_pair_at_most_one_orientation.

(* the two-sided bound for rules that need not be symmetric in l and r: a pair of distinct
   records with some rule TRUE in both orientations is present (in exactly one orientation, by the
   theorem above); an orientation in which no rule is TRUE is absent; for symmetric rules the two
   together give exact set equality on unordered pairs *)
Theorem C01_asymmetric_rules_two_sided_bound :
  forall (rec : Type) (id : rec -> nat) (rules : list (rec -> rec -> tv)) L l r,
    rules <> [] -> In l L -> In r L -> id l <> id r ->
    ((exists rk, In rk rules /\ rk l r = T) -> (exists rk, In rk rules /\ rk r l = T) ->
     (exists n, In (n, (l, r)) (block (adm_lt rec id) rules L L)) \/
     (exists n, In (n, (r, l)) (block (adm_lt rec id) rules L L))) /\
    ((forall rk, In rk rules -> rk l r <> T) ->
     forall n, ~ In (n, (l, r)) (block (adm_lt rec id) rules L L)).
Proof.
  intros rec id rules L l r Hne Hl Hr Hid. split.
  - intros H1 H2. apply present_if_true_both_ways; assumption.
  - intros H n. apply absent_if_true_neither_way; assumption.
Qed.
Print Assumptions C01_asymmetric_rules_two_sided_bound.

(* positive witness of the hypotheses of C01_two_dataset_split_equiv: two datasets 0 and 1,
   ids 1,2 in dataset 0 and 11,12 in dataset 1 *)
Example C01_two_dataset_positive_example :
  let ds := fun x : nat => x / 10 in
  let All := [1; 2; 11; 12] in
  0 < 1 /\ (forall x, In x All -> ds x = 0 \/ ds x = 1) /\
  (forall l r, In l All -> In r All -> ds l < ds r -> Nat.ltb l r = true) /\
  length (block (adm_link_only nat ds Nat.ltb) [fun _ _ => T] All All) = 4 /\
  length (block (adm_all nat) [fun _ _ => T] (part nat ds All 0) (part nat ds All 1)) = 4.
Proof.
  cbv zeta. split; [lia|]. split.
  - intros x Hx. cbn in Hx. repeat (destruct Hx as [<-|Hx]; [cbn; auto|]). destruct Hx.
  - split; [|split; vm_compute; reflexivity].
    intros l r Hl Hr. cbn in Hl, Hr.
    repeat (destruct Hl as [<-|Hl]; [repeat (destruct Hr as [<-|Hr]; [cbn; intros; try lia; reflexivity|]); destruct Hr|]).
    destruct Hl.
Qed.

(* ------------------------------------------------------------------------------------ *)
(* Known finding KF-C01-exploding-preceded, refuted on the faithful model: for the rule list
   [plain r0; exploding r1] the code excludes r0 inside r1's marginal id table on the EXPLODED
   variants.  Records are lists of tokens (the array); r0 is array equality (l.arr = r.arr), r1 is
   token equality on the exploded variants.  Arrays [a,b], [b,c], [a,b]: the pairs (1,2) and (2,3)
   share an element but are produced by neither rule.
   The skeleton obligations (C01_skeleton_sound) evaluate a preceding rule's placeholder atoms on
   the parent pair; this is faithful only when the preceding rules do not mention the exploded
   column, which holds for the placeholders (distinct columns per rule) and is the stated
   precondition of the skeleton tie for exploding rules. *)
Definition kf_records : list (nat * list nat) := [(1, [10; 11]); (2, [11; 12]); (3, [10; 11])].
Definition kf_explode (x : nat * list nat) : list (nat * list nat) := map (fun t => (fst x, [t])) (snd x).
Definition kf_r0 (l r : nat * list nat) : tv := of_bool (if list_eq_dec Nat.eq_dec (snd l) (snd r) then true else false).
Definition kf_adm (l r : nat * list nat) : bool := Nat.ltb (fst l) (fst r).
Theorem C01_exploding_preceded_refuted :
  exists l r,
    In l kf_records /\ In r kf_records /\ kf_adm l r = true /\
    (* the specification: some rule is TRUE for the pair (rule 1 on some pair of variants) *)
    r1_spec _ kf_explode kf_r0 l r = T /\
    (* but the code's composition produces the pair under neither match key *)
    ~ In (l, r) (map snd (block_plain_then_exploding _ kf_adm kf_explode kf_r0 kf_r0 kf_records)).
Proof.
  exists (1, [10; 11]), (2, [11; 12]). repeat split; try (cbn; tauto); try (vm_compute; reflexivity).
  vm_compute. intros H. repeat (destruct H as [H|H]; [discriminate H|]). exact H.
Qed.
Print Assumptions C01_exploding_preceded_refuted.
