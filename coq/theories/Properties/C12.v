(* C12  Single-best-link clusters respect duplicate-free datasets.
   Only statements here; proofs live in Proofs/OneToOneP.v.

   The two `row_number()` windows of one_to_one_clustering.py have no tie-breaker; they are
   modelled by two arbitrary choosers (Model/OneToOne.v).  C12_partition and
   C12_dupfree_invariant hold for ALL choosers (not even `rank1_ok` is needed): every
   engine- and thread-dependent tie-break is covered. *)
From Coq Require Import List Bool ZArith QArith Lia.
From Splinkv Require Import Model.OneToOne Proofs.OneToOneP Proofs.OneToOneGreedyP.
Import ListNotations.
Open Scope Z_scope.

(* every record exactly once, with its own source dataset *)
Theorem C12_partition :
  forall dfs thr (chl chr : chooser) fuel nodes E out,
    NoDup (map n_id nodes) ->
    oto_loop dfs (df_neighbours thr E) chl chr fuel 1 (df_representatives nodes) = Some out ->
    partition_of nodes out.
Proof.
  intros dfs thr chl chr fuel nodes E out Hnd H.
  destruct (inv_loop _ _ _ _ _ _ _ _ _ (inv_init dfs nodes Hnd) H) as (Hnd' & Hsame & _).
  split; [assumption|]. intros v s. rewrite init_records. apply Hsame.
Qed.
Print Assumptions C12_partition.

(* for all choosers and all iterations (and at exit) no class holds two records of one
   duplicate-free dataset *)
Theorem C12_dupfree_invariant :
  forall dfs thr (chl chr : chooser) nodes E,
    NoDup (map n_id nodes) ->
    (forall k, dupfree dfs (oto_iter dfs (df_neighbours thr E) chl chr k 1 (df_representatives nodes))) /\
    (forall fuel out,
        oto_loop dfs (df_neighbours thr E) chl chr fuel 1 (df_representatives nodes) = Some out ->
        dupfree dfs out).
Proof.
  intros dfs thr chl chr nodes E Hnd. split.
  - intros k. apply (inv_iter dfs _ chl chr k 1 _ _ (inv_init dfs nodes Hnd)).
  - intros fuel out H. apply (inv_loop _ _ _ _ _ _ _ _ _ (inv_init dfs nodes Hnd) H).
Qed.
Print Assumptions C12_dupfree_invariant.

(* the same for the table the function returns *)
Theorem C12_output_dupfree :
  forall dfs thr (chl chr : chooser) fuel nodes E out,
    NoDup (map n_id nodes) ->
    one_to_one_clustering dfs thr chl chr fuel nodes E = Some out ->
    NoDup (map fst out) /\
    (forall v, In v (map n_id nodes) <-> In v (map fst out)) /\
    forall v1 v2 c s, In (v1, c) out -> In (v2, c) out -> In (v1, s) nodes -> In (v2, s) nodes ->
                      In s dfs -> v1 = v2.
Proof. exact output_dupfree. Qed.
Print Assumptions C12_output_dupfree.

(* pairwise distinct probabilities, any tie-breaks satisfying the SQL contract: at exit no
   admissible cross edge remains, i.e. every remaining >= threshold edge between two different
   clusters joins clusters that both contain a record of one duplicate-free dataset *)
Theorem C12_maximal_tiefree :
  forall dfs thr (chl chr : chooser) fuel nodes E out,
    NoDup (map n_id nodes) -> tie_free E -> rank1_ok chl -> rank1_ok chr ->
    oto_loop dfs (df_neighbours thr E) chl chr fuel 1 (df_representatives nodes) = Some out ->
    forall v w, ~ admissible_cross dfs thr E out v w.
Proof. exact maximal_tiefree. Qed.
Print Assumptions C12_maximal_tiefree.

(* pairwise distinct probabilities: every final cluster is connected through >= threshold edges
   INSIDE the cluster (every record on the path belongs to the cluster) *)
Theorem C12_connected_tiefree :
  forall dfs thr (chl chr : chooser) fuel nodes E out,
    NoDup (map n_id nodes) -> tie_free E -> rank1_ok chl -> rank1_ok chr ->
    oto_loop dfs (df_neighbours thr E) chl chr fuel 1 (df_representatives nodes) = Some out ->
    forall v w c s s', In (v, c, s) out -> In (w, c, s') out -> conn_in thr E (in_class out c) v w.
Proof. exact connected_tiefree. Qed.
Print Assumptions C12_connected_tiefree.

(* stronger: for pairwise distinct probabilities the SQL loop computes exactly the partition of
   the sequential procedure "edges by decreasing probability; merge the two clusters of an edge
   iff they share no duplicate-free dataset" (Model/OneToOne.v, greedy_clusters) *)
Theorem C12_refines_greedy :
  forall dfs thr (chl chr : chooser) fuel nodes E out,
    NoDup (map n_id nodes) -> tie_free E -> rank1_ok chl -> rank1_ok chr ->
    oto_loop dfs (df_neighbours thr E) chl chr fuel 1 (df_representatives nodes) = Some out ->
    forall v c s w c' s', In (v, c, s) out -> In (w, c', s') out ->
      (c = c' <-> greedy_clusters le_prob dfs thr nodes E v = greedy_clusters le_prob dfs thr nodes E w).
Proof. exact refines_greedy. Qed.
Print Assumptions C12_refines_greedy.

(* ---- the ORDER BY with the tie-break `match_probability desc, least(ids), greatest(ids)`
   (fix of KF-C12-ties-disconnected): both windows rank an edge and its reverse alike and no two
   different pairs equal, so ties in probability are harmless.  Hypothesis: no pair of records is
   listed twice with the same probability (Splink's predictions list every pair once).
   A chooser satisfying the tie-break contract also satisfies rank1_ok, so every theorem above
   applies to the tie-broken code as well. *)
Theorem C12_tiebreak_is_rank1 :
  forall ch, rank1_ok_for le_tiebreak ch -> rank1_ok ch.
Proof. exact le_tiebreak_refines_prob. Qed.
Print Assumptions C12_tiebreak_is_rank1.

Theorem C12_tiebreak_connected :
  forall dfs thr (chl chr : chooser) fuel nodes E out,
    NoDup (map n_id nodes) -> nodup_pairs E ->
    rank1_ok_for le_tiebreak chl -> rank1_ok_for le_tiebreak chr ->
    oto_loop dfs (df_neighbours thr E) chl chr fuel 1 (df_representatives nodes) = Some out ->
    forall v w c s s', In (v, c, s) out -> In (w, c, s') out -> conn_in thr E (in_class out c) v w.
Proof. exact connected_tiebreak. Qed.
Print Assumptions C12_tiebreak_connected.

Theorem C12_tiebreak_maximal :
  forall dfs thr (chl chr : chooser) fuel nodes E out,
    NoDup (map n_id nodes) -> nodup_pairs E ->
    rank1_ok_for le_tiebreak chl -> rank1_ok_for le_tiebreak chr ->
    oto_loop dfs (df_neighbours thr E) chl chr fuel 1 (df_representatives nodes) = Some out ->
    forall v w, ~ admissible_cross dfs thr E out v w.
Proof. exact maximal_tiebreak. Qed.
Print Assumptions C12_tiebreak_maximal.

Theorem C12_tiebreak_refines_greedy :
  forall dfs thr (chl chr : chooser) fuel nodes E out,
    NoDup (map n_id nodes) -> nodup_pairs E ->
    rank1_ok_for le_tiebreak chl -> rank1_ok_for le_tiebreak chr ->
    oto_loop dfs (df_neighbours thr E) chl chr fuel 1 (df_representatives nodes) = Some out ->
    forall v c s w c' s', In (v, c, s) out -> In (w, c', s') out ->
      (c = c' <-> greedy_clusters le_tiebreak dfs thr nodes E v = greedy_clusters le_tiebreak dfs thr nodes E w).
Proof. exact refines_greedy_tiebreak. Qed.
Print Assumptions C12_tiebreak_refines_greedy.

(* for ALL tie-breaks (ties included): every cluster lies inside one connected component of the
   >= threshold graph (the path to the representative may leave the cluster) *)
Theorem C12_connected_within_component :
  forall dfs thr (chl chr : chooser) fuel nodes E out,
    NoDup (map n_id nodes) ->
    oto_loop dfs (df_neighbours thr E) chl chr fuel 1 (df_representatives nodes) = Some out ->
    forall v c s, In (v, c, s) out -> conn_in thr E (fun _ => True) v c.
Proof. exact connected_weak. Qed.
Print Assumptions C12_connected_within_component.

(* with ties and adversarial (but legal) tie-breaks a final class can be disconnected:
   5 records, record 3 in the duplicate-free dataset 1, edges 0-3 (.7), 1-4, 2-4, 3-4 (.9);
   rank_l breaks ties towards the first row, rank_r towards the last. Final class {1,2}. *)
Theorem C12_connected_ties_refuted :
  exists dfs thr nodes E (chl chr : chooser) fuel out c v w,
    NoDup (map n_id nodes) /\ rank1_ok chl /\ rank1_ok chr /\
    oto_loop dfs (df_neighbours thr E) chl chr fuel 1 (df_representatives nodes) = Some out /\
    in_class out c v /\ in_class out c w /\
    ~ conn_in thr E (in_class out c) v w.
Proof. exact connected_ties_refuted. Qed.
Print Assumptions C12_connected_ties_refuted.

(* the Python `while needs_updating_count > 0` loop terminates for all tie-breaks: fuel
   exhaustion (None) is excluded once the fuel exceeds a bound computed from the ids *)
Theorem C12_terminates :
  forall dfs thr (chl chr : chooser) nodes E,
    NoDup (map n_id nodes) ->
    exists fuel, forall fuel', (fuel <= fuel')%nat ->
      oto_loop dfs (df_neighbours thr E) chl chr fuel' 1 (df_representatives nodes) <> None.
Proof. exact loop_terminates. Qed.
Print Assumptions C12_terminates.

(* the enumeration used by X for tie-containing inputs (`oto_step_allowed`) accepts the step of
   EVERY pair of legal tie-breaks: no false alarm can come from an engine's tie-break *)
Theorem C12_allowed_complete :
  forall dfs nbs (chl chr : chooser) it prev,
    rank1_ok chl -> rank1_ok chr ->
    oto_step_allowed dfs nbs prev (node_rep (oto_step dfs nbs chl chr it prev)) = true.
Proof. exact allowed_complete. Qed.
Print Assumptions C12_allowed_complete.

(* non-vacuity: tests/test_cluster_using_single_best_links.py example 1 (a=0, b=1, c=2) *)
Example C12_example_1 :
  one_to_one_clustering [0; 1; 2] (Some (1 # 2)%Q) first_max first_max 20
    [(0,0);(1,1);(2,2);(3,0);(4,1);(5,2);(6,0);(7,1);(8,2)]
    [(0,1,(90#100)%Q);(1,2,(70#100)%Q);(3,5,(85#100)%Q);(4,5,(90#100)%Q);(6,5,(80#100)%Q);(6,7,(70#100)%Q)]
  = Some [(0,0);(1,0);(2,0);(3,3);(4,3);(5,3);(6,6);(7,6);(8,8)].
Proof. vm_compute. reflexivity. Qed.

(* non-vacuity of the tie-free hypotheses: distinct probabilities, first_max/last_max are legal *)
Example C12_example_tiefree :
  tie_free [(0,1,(90#100)%Q);(1,2,(70#100)%Q);(3,5,(85#100)%Q);(4,5,(91#100)%Q);(6,5,(80#100)%Q);(6,7,(71#100)%Q)]
  /\ rank1_ok first_max /\ rank1_ok last_max /\
  one_to_one_clustering [0; 2] (Some (1 # 2)%Q) first_max last_max 20
    [(0,0);(1,1);(2,2);(3,0);(4,1);(5,2);(6,0);(7,1);(8,2)]
    [(0,1,(90#100)%Q);(1,2,(70#100)%Q);(3,5,(85#100)%Q);(4,5,(91#100)%Q);(6,5,(80#100)%Q);(6,7,(71#100)%Q)]
  = Some [(0,0);(1,0);(2,0);(3,3);(4,3);(5,3);(6,6);(7,6);(8,8)]
  /\ map (greedy_clusters le_prob [0; 2] (Some (1 # 2)%Q)
            [(0,0);(1,1);(2,2);(3,0);(4,1);(5,2);(6,0);(7,1);(8,2)]
            [(0,1,(90#100)%Q);(1,2,(70#100)%Q);(3,5,(85#100)%Q);(4,5,(91#100)%Q);(6,5,(80#100)%Q);(6,7,(71#100)%Q)])
         [0;1;2;3;4;5;6;7;8]
     = [0;0;0;3;3;3;6;6;8].
Proof.
  split; [|split; [exact first_max_ok|split; [exact last_max_ok|split; vm_compute; reflexivity]]].
  unfold tie_free. repeat constructor; intro H; unfold Qeq in H; simpl in H; discriminate.
Qed.

(* non-vacuity of the tie-break theorems: the witness of KF-C12-ties-disconnected (ranks of the
   composite ids: b-1=0, b-30=1, c-11=2, c-2=3, ds_x-101=4; datasets b=0, c=1, ds_x=2); with the
   tie-break both windows pick the edge 1-4 first and the clusters come out connected *)
Example C12_example_tiebreak :
  let E := [(2,4,(800#1024)%Q);(3,4,(800#1024)%Q);(1,4,(800#1024)%Q);(3,0,(845#1024)%Q)] in
  nodup_pairs E /\ rank1_ok_for le_tiebreak (max_by le_tiebreak) /\
  one_to_one_clustering [1] (Some (0#1)%Q) (max_by le_tiebreak) (max_by le_tiebreak) 20
    [(0,0);(3,1);(1,0);(2,1);(4,2)] E
  = Some [(0,0);(3,0);(1,1);(2,1);(4,1)].
Proof.
  split; [|split; [apply max_by_ok; exact le_tiebreak_order|vm_compute; reflexivity]].
  unfold nodup_pairs. repeat constructor; intros (H & H1 & H2); vm_compute in H1; try discriminate H1;
    vm_compute in H2; discriminate H2.
Qed.
