(* C10  All inference entry points agree on a pair's score.
   Only statements here; proofs live in Proofs/EntryPointsP.v. *)
From Coq Require Import List Bool ZArith QArith.
From Splinkv Require Import Base.TV Model.Blocking Model.Scoring Model.EntryPoints Proofs.EntryPointsP.
Import ListNotations.
Local Open Scope Q_scope.

Section C10.
  Variable rec : Type.
  Variable pow : Q -> Q -> Q.
  Variable prior : Q.
  Variable cmps : list (list level).
  Variable outc : rec -> rec -> list (nat -> tv).
  Notation score_row := (score_row rec pow cmps outc).

  (* BY CONSTRUCTION of the composition model (every ep_* is defined as filter . map score_row . candidates):
     this theorem documents the model, it is not evidence about the five SQL paths.  The evidence that the
     real entry points compute one and the same scoring is C10_entry_point_sql_agrees below (applied on every
     run to the skeletons extracted from the SQL each entry point executed) together with X.
     Every row of every entry point is the ONE scorer applied to (l, r, tf l, tf r) with that entry
     point's TF sources; therefore two rows (of any two entry points) for the same pair are equal -
     same comparison levels (gamma), same Bayes factors, same match weight - whenever the TF sources
     agree on the two records. *)
  Theorem C10_same_score_when_same_tf :
    (forall adm rules tf T L R x,
        In x (ep_predict rec pow prior cmps outc adm rules tf T L R) -> scored_with rec pow cmps outc tf tf x) /\
    (forall tfl tfr L R x,
        In x (ep_compare rec pow cmps outc tfl tfr L R) -> scored_with rec pow cmps outc tfl tfr x) /\
    (forall rules tfe tfn t E N x,
        In x (ep_find_matches rec pow prior cmps outc rules tfe tfn t E N) -> scored_with rec pow cmps outc tfe tfn x) /\
    (forall adm cluster in_pred tf T C x,
        In x (ep_missing_edges rec pow prior cmps outc adm cluster in_pred tf T C) -> scored_with rec pow cmps outc tf tf x) /\
    (forall tfl tfr tfl' tfr' (x y : scored rec),
        scored_with rec pow cmps outc tfl tfr x -> scored_with rec pow cmps outc tfl' tfr' y ->
        fst x = fst y ->
        (forall k, tfl (fst (fst x)) k = tfl' (fst (fst x)) k) ->
        (forall k, tfr (snd (fst x)) k = tfr' (snd (fst x)) k) ->
        x = y /\ row_gammas rec x = row_gammas rec y /\ row_score rec prior x = row_score rec prior y).
  Proof. exact (same_score_when_same_tf_full rec pow prior cmps outc). Qed.

  (* find_matches_to_new_records returns exactly the (existing, new) pairs admitted by some rule of
     its rule list (all pairs when the list is empty), each once, whose weight is STRICTLY above the
     threshold (t = 2^threshold) *)
  Theorem C10_find_matches_exact_set :
    forall rules tfe tfn t existing new,
      (forall x, In x (ep_find_matches rec pow prior cmps outc rules tfe tfn t existing new) <->
         exists l r, In l existing /\ In r new /\
                     (exists rk, In rk (rules_or_all rec rules) /\ rk l r = T) /\
                     x = score_row (tfe l) (tfn r) l r /\
                     above_row rec prior t x = true) /\
      (NoDup existing -> NoDup new ->
         NoDup (map fst (ep_find_matches rec pow prior cmps outc rules tfe tfn t existing new))).
  Proof. intros. split; [intros; apply in_ep_find_matches|apply find_matches_pairs_once]. Qed.

  (* missing-edge scoring returns exactly the admissible within-cluster pairs that are absent from
     the supplied predictions (and pass the optional threshold), each once *)
  Theorem C10_missing_edges_exact_set :
    forall adm cluster in_pred tf T C,
      (forall x, In x (ep_missing_edges rec pow prior cmps outc adm cluster in_pred tf T C) <->
         exists l r, In l C /\ In r C /\ adm l r = true /\
                     (exists c, cluster l = Some c /\ cluster r = Some c) /\
                     in_pred l r = false /\
                     x = score_row (tf l) (tf r) l r /\ keep_row rec prior T x = true) /\
      (NoDup C -> NoDup (map fst (ep_missing_edges rec pow prior cmps outc adm cluster in_pred tf T C))).
  Proof. intros. split; [intros; apply in_ep_missing_edges|apply missing_edges_pairs_once]. Qed.

  (* TF of an ad-hoc record as a function of the cache state (own tf_ column supplied? tf table cached? concat
     table cached?).  `src` is ANY source-selection function that agrees with route_priority on the eight states;
     the function regenerated on every run from the SQL that _join_new_table_to_df_concat_with_tf_sql emits is
     shown to do so in coq/gen/C10_tfjoin_gen.v (obligation tf_join_source_is_route_priority), and this theorem is
     then instantiated with it.  Not supplied + table cached: the linker's own value under that table, whether or
     not the concat table is cached too; no table + concat table cached: the linker's own data-derived value;
     nothing cached: NULL. *)
  Variable V : Type.
  Variable veqb : V -> V -> bool.
  Variable value : nat -> rec -> option V.

  Theorem C10_adhoc_tf_by_cache_state :
    forall (D : list rec) (src : bool -> bool -> bool -> route_kind),
      (forall s t c, src s t c = route_priority s t c) ->
      forall (supplied_col table_cached : nat -> bool) (concat_cached : bool) (tbl : nat -> list (V * Q)) supplied r k,
        adhoc_tf rec V veqb value D
                 (fun k => route_of (src (supplied_col k) (table_cached k) concat_cached) (tbl k)) supplied r k
        = if supplied_col k then supplied r k
          else if table_cached k then data_tf rec V veqb value D (fun k => Some (tbl k)) r k
          else if concat_cached then data_tf rec V veqb value D (fun _ => None) r k
          else None.
  Proof. exact (adhoc_tf_by_cache_state rec V veqb value). Qed.

  Theorem C10_unseen_value_has_null_tf :
    forall D k x, (forall d, In d D -> has_value rec V veqb value k x d = false) ->
                  tf_of_data rec V veqb value D k (Some x) = None.
  Proof. intros. apply tf_of_data_unseen; auto. Qed.
End C10.
Print Assumptions C10_same_score_when_same_tf.
Print Assumptions C10_find_matches_exact_set.
Print Assumptions C10_missing_edges_exact_set.
Print Assumptions C10_adhoc_tf_by_cache_state.
Print Assumptions C10_unseen_value_has_null_tf.

(* the LEFT JOIN ... ON both keys ... WHERE both NULL that the translator finds in the emitted
   missing-edge SQL keeps exactly the candidate pairs that are not among the supplied predictions *)
Theorem C10_anti_join_exact :
  forall on wh pairs preds,
    anti_join_ok (Some (on, wh)) true = true ->
    flat_map (fun ne => left_join_where on wh ne preds) pairs
    = filter (fun ne => negb (existsb (key_pair_eqb ne) preds)) pairs.
Proof. exact anti_join_ok_sound. Qed.
Print Assumptions C10_anti_join_exact.

Example C10_example_anti_join :
  flat_map (fun ne => left_join_where canon_on canon_wh ne [(1, 2); (3, 4); (1, 2)]%nat) [(1, 2); (2, 1); (3, 4); (1, 4)]%nat
  = [(2, 1); (1, 4)]%nat /\
  (* joining on the left key only loses (1,4) *)
  flat_map (fun ne => left_join_where (JEq KOeL KNeL) canon_wh ne [(1, 2); (3, 4)]%nat) [(1, 2); (2, 1); (3, 4); (1, 4)]%nat
  = [(2, 1)]%nat.
Proof. vm_compute. auto. Qed.

(* SQL-shaped model of each entry point: the scoring skeletons extracted from the SQL an entry point really
   executed, evaluated stage by stage (run_pipeline).  If the per-run obligation pipeline_eqb sk_ep sk_predict
   holds, the entry point's rows equal predict()'s on EVERY tf environment and outcome vector: same gamma
   columns, same Bayes-factor and TF-adjustment columns, same argument of log2 (match weight), same probability
   (up to == on rationals), for every POW that respects ==. *)
Theorem C10_entry_point_sql_agrees :
  forall pow, (forall a a' b b', a == a' -> b == b' -> pow a b == pow a' b') ->
  forall (sk_ep sk_predict : pipeline) tfs outcs,
    pipeline_eqb sk_ep sk_predict = true ->
    out_rel (run_pipeline pow sk_ep tfs outcs) (run_pipeline pow sk_predict tfs outcs).
Proof. intros pow Hp a b tfs outcs H. apply pipeline_agrees; auto. Qed.
Print Assumptions C10_entry_point_sql_agrees.

(* non-vacuity: three records 0,1,2 (value = id mod 2), one exact-match comparison *)
Definition ex_cmp : list level :=
  [ {| lcond := 0; is_null := false; is_else := false; lm := 9 # 10; lu := 1 # 10; tf_col := Some 0%nat;
       tf_w := 1; tf_min_u := 0; disable_exact_detect := false; exact_cols := [0%nat] |};
    {| lcond := 1; is_null := false; is_else := true; lm := 1 # 10; lu := 9 # 10; tf_col := None;
       tf_w := 1; tf_min_u := 0; disable_exact_detect := false; exact_cols := [] |} ].
Definition ex_outc (l r : nat) : list (nat -> tv) := [fun _ => of_bool (Nat.eqb (Nat.modulo l 2) (Nat.modulo r 2))].
Definition ex_value (k : nat) (r : nat) : option nat := Some (Nat.modulo r 2).
Definition ex_pow (b e : Q) : Q := b.
Definition ex_tf := data_tf nat nat Nat.eqb ex_value [0; 1; 2]%nat (fun _ => None).

Example C10_example_agreement :
  (* predict on pair (0,2) and compare_two_records of the same two records with select-distinct tf *)
  let p := ep_predict nat ex_pow (1 # 2) [ex_cmp] ex_outc Nat.ltb [fun l r => T] ex_tf None [0; 1; 2]%nat [0; 1; 2]%nat in
  let c := ep_compare nat ex_pow [ex_cmp] ex_outc
             (adhoc_tf nat nat Nat.eqb ex_value [0; 1; 2]%nat (fun _ => DistinctFromConcat nat) (fun _ _ => None))
             (adhoc_tf nat nat Nat.eqb ex_value [0; 1; 2]%nat (fun _ => DistinctFromConcat nat) (fun _ _ => None))
             [0%nat] [2%nat] in
  map (row_gammas nat) (filter (fun x => Nat.eqb (snd (fst x)) 2 && Nat.eqb (fst (fst x)) 0) p) = map (row_gammas nat) c /\
  map (row_gammas nat) c = [Some [1%Z]] /\ length p = 3%nat.
Proof. vm_compute. auto. Qed.

Example C10_example_find_matches_strict :
  (* score of an exact pair: 1 * 9 * (0.1 / (2/3)) = 27/20; threshold exactly 27/20 excludes it *)
  let fm t := ep_find_matches nat ex_pow (1 # 2) [ex_cmp] ex_outc [] ex_tf ex_tf t [0; 1; 2]%nat [0%nat] in
  map fst (fm (27 # 20)) = [] /\ map fst (fm (26 # 20)) = [(0, 0); (2, 0)]%nat.
Proof. vm_compute. auto. Qed.

Example C10_example_missing_edges :
  let me := ep_missing_edges nat ex_pow (1 # 2) [ex_cmp] ex_outc Nat.ltb
              (fun r => Some (Z.of_nat (Nat.modulo r 2))) (fun l r => false) ex_tf None [0; 1; 2; 4]%nat in
  let me' := ep_missing_edges nat ex_pow (1 # 2) [ex_cmp] ex_outc Nat.ltb
              (fun r => Some (Z.of_nat (Nat.modulo r 2))) (fun l r => Nat.eqb l 0 && Nat.eqb r 2) ex_tf None [0; 1; 2; 4]%nat in
  map fst me = [(0, 2); (0, 4); (2, 4)]%nat /\ map fst me' = [(0, 4); (2, 4)]%nat.
Proof. vm_compute. auto. Qed.

(* the model's own pipeline evaluates to the model's score (27/20, see above); a pipeline with another prior is
   rejected by pipeline_eqb *)
Example C10_example_pipeline :
  let pl := model_pipeline (1 # 2) [ex_cmp] in
  let out := run_pipeline ex_pow pl (fun _ => (Some (2 # 3), Some (2 # 3))) [fun _ => T] in
  pipeline_eqb pl pl = true /\ pipeline_eqb pl (model_pipeline (1 # 3) [ex_cmp]) = false /\
  o_gammas out = [Some (Fin (inject_Z 1))] /\
  match o_weight_arg out with Some x => xq_eqb x (Fin (27 # 20)) | None => false end = true.
Proof. vm_compute. auto. Qed.
