(* C14  Blocking analysis reports the numbers blocking actually produces.
   Statements only; proofs in Proofs/BlockAnalysisP.v (on C01's Model/Blocking.v and
   Proofs/BlockingP.v, Base/GroupBy.v, Base/CumSum.v).  Record type, rule functions, key
   functions, tables and the number of rules are arbitrary. *)
From Coq Require Import List Bool ZArith Lia Sorting.Sorted Sorting.Permutation.
From Splinkv Require Import Base.TV Base.GroupBy Base.CumSum Model.Blocking Model.BlockAnalysis
     Proofs.BlockingP Proofs.BlockAnalysisP.
Import ListNotations.
Local Open Scope Z_scope.

(* The post-filter count is the number of pairs blocking emits for that single rule (the
   pairs predict() would score): C01's [block] with the one-rule list. *)
Theorem C14_post_filter_is_predict_count :
  forall (rec : Type) (adm : rec -> rec -> bool) (rule : rec -> rec -> tv) L R,
    post_filter_count adm rule L R = lenZ (block adm [rule] L R).
Proof. intros. apply post_filter_is_block. Qed.
Print Assumptions C14_post_filter_is_predict_count.

(* The pre-filter count (sum over equi-join key tuples of left x right block sizes, computed
   by GROUP BY on each side and a join USING the keys) is the number of (l, r) in L x R whose
   key tuples are equal and free of NULLs. *)
Theorem C14_pre_filter_is_equijoin_count :
  forall (rec : Type) (keyL keyR : rec -> option (list Z)) L R,
    pre_filter_count keyL keyR L R
    = countZ (fun p => key_match (keyL (fst p)) (keyR (snd p))) (cross L R).
Proof. intros. apply pre_filter_is_equijoin_count. Qed.
Print Assumptions C14_pre_filter_is_equijoin_count.

Theorem C14_key_match_meaning :
  forall a b, key_match a b = true <-> exists k, a = Some k /\ b = Some k.
Proof. exact key_match_iff. Qed.
Print Assumptions C14_key_match_meaning.

Theorem C14_pre_filter_without_keys :
  forall (rec : Type) (L R : list rec), pre_filter_count_no_keys L R = lenZ (cross L R).
Proof. intros. apply pre_filter_no_keys. Qed.
Print Assumptions C14_pre_filter_without_keys.

(* Cumulative table: the row count of rule n is the number of admissible pairs whose FIRST
   true rule is n (= the pairs carrying match_key n, by C01_first_rule_owns); cumulative_rows
   and start are the running sums; the cartesian count is exact (C15/C14 share it). *)
Theorem C14_marginal_counts :
  forall (rec : Type) (adm : rec -> rec -> bool) (rules : list (rec -> rec -> tv)) L R n,
    rules <> [] -> (n < length rules)%nat ->
    nth n (row_counts (length rules) (block adm rules L R)) 0
    = countZ (fun p => adm (fst p) (snd p) && owner_is rec 0 rules n (fst p) (snd p)) (cross L R).
Proof. intros. apply row_counts_nth; assumption. Qed.
Print Assumptions C14_marginal_counts.

Theorem C14_owner_is_first_true_rule :
  forall (rec : Type) (rules : list (rec -> rec -> tv)) n l r,
    owner_is rec 0 rules n l r = true <->
    (exists rk, nth_error rules n = Some rk /\ rk l r = T) /\
    (forall j rj, (j < n)%nat -> nth_error rules j = Some rj -> rj l r <> T).
Proof. exact owner_is_first_true_rule. Qed.
Print Assumptions C14_owner_is_first_true_rule.

Theorem C14_cumulative_columns :
  forall cart counts i d, (i < length counts)%nat ->
    let r := nth i (cumulative_table cart counts) d in
    row_count r = nth i counts 0 /\
    cumulative_rows r = sumZ (firstn (S i) counts) /\
    start r = sumZ (firstn i counts) /\
    cartesian_count r = cart.
Proof. intros. apply cumulative_table_spec. assumption. Qed.
Print Assumptions C14_cumulative_columns.

(* Top level of cumulative_comparisons_to_be_scored_from_blocking_rules_data: one row per rule, the
   cartesian column is calculate_cartesian of the table sizes (exact number of admissible pairs by
   C14_cartesian_exact), the row counts are the first-true-rule counts, the other two columns the
   running sums.  (max_rows_limit is not modelled: calls in which the limit is not hit.) *)
Theorem C14_cumulative_table_top_level :
  forall (rec : Type) lt sizes (adm : rec -> rec -> bool) rules L R tab i d,
    cumulative_comparisons_data lt sizes adm rules L R = Some tab ->
    rules <> [] -> (i < length rules)%nat ->
    exists cart, cartesian lt sizes = Some cart /\
      let counts := row_counts (length rules) (block adm rules L R) in
      let r := nth i tab d in
      row_count r = countZ (fun p => adm (fst p) (snd p) && owner_is rec 0 rules i (fst p) (snd p)) (cross L R) /\
      cumulative_rows r = sumZ (firstn (S i) counts) /\
      start r = sumZ (firstn i counts) /\
      cartesian_count r = cart /\
      length tab = length rules.
Proof. intros. eapply cumulative_comparisons_data_spec; eassumption. Qed.
Print Assumptions C14_cumulative_table_top_level.

Theorem C14_cartesian_exact :
  forall (A : Type) (tables : list (list A)),
    (forall l, tables = [l] ->
       cartesian CDedupe (sizes tables) = Some (Z.of_nat (length (all_pairs l)))) /\
    cartesian CLinkAndDedupe (sizes tables) = Some (Z.of_nat (length (all_pairs (concat tables)))) /\
    ((2 <= length tables)%nat ->
       cartesian CLinkOnly (sizes tables) = Some (Z.of_nat (length (cross_pairs tables)))).
Proof.
  intros A tables. split; [|split].
  - intros l ->. apply cartesian_dedupe_counts.
  - apply cartesian_link_and_dedupe_counts.
  - apply cartesian_link_only_counts.
Qed.
Print Assumptions C14_cartesian_exact.

(* n_largest_blocks: the listed blocks are genuine blocks, there are min(n, #blocks) of them,
   in non-increasing order of size, and no unlisted block is larger than a listed one. *)
Theorem C14_n_largest_are_largest :
  forall (rec : Type) n (keyL keyR : rec -> option (list Z)) L R,
    let all := block_counts keyL keyR L R in
    let top := n_largest_blocks n keyL keyR L R in
    exists rest,
      Permutation (top ++ rest) all /\
      length top = Nat.min n (length all) /\
      StronglySorted ge_size top /\
      (forall x y, In x top -> In y rest -> block_size y <= block_size x).
Proof. intros. apply n_largest_spec. Qed.
Print Assumptions C14_n_largest_are_largest.

Theorem C14_blocks_are_genuine :
  forall (rec : Type) (keyL keyR : rec -> option (list Z)) L R k cl cr,
    In (k, cl, cr) (block_counts keyL keyR L R) ->
    cl = lenZ (filter (fun x => eqk lex_leb k x) (some_keys keyL L)) /\
    cr = lenZ (filter (fun x => eqk lex_leb k x) (some_keys keyR R)) /\
    0 < cl /\ 0 < cr.
Proof. intros. eapply block_counts_spec; eauto. Qed.
Print Assumptions C14_blocks_are_genuine.

(* ------------------------------------------------------------------ non-vacuity *)
Definition ex_key (x : nat) : option (list Z) :=
  match x with 0%nat => Some [1] | 1%nat => Some [1] | 2%nat => None | 3%nat => Some [2] | _ => Some [1] end.
Example C14_example_pre_filter :
  pre_filter_count ex_key ex_key [0; 1; 2; 3; 4]%nat [0; 1; 2; 3; 4]%nat = 10
  /\ map block_size (n_largest_blocks 1 ex_key ex_key [0; 1; 2; 3; 4]%nat [0; 1; 2; 3; 4]%nat) = [9].
Proof. vm_compute. split; reflexivity. Qed.
Example C14_example_cumulative :
  let adm := fun l r : nat => Nat.ltb l r in
  let r0 := fun l r : nat => if Nat.eqb l 0 then U else of_bool (Nat.eqb (l + r) 3) in
  let r1 := fun l r : nat => of_bool (Nat.eqb l 0) in
  map (fun c => (row_count c, cumulative_rows c, start c, cartesian_count c))
      (cumulative_comparisons adm [r0; r1] 3 [0; 1; 2]%nat [0; 1; 2]%nat)
  = [(1, 1, 0, 3); (2, 3, 1, 3)]
  /\ post_filter_count adm r1 [0; 1; 2]%nat [0; 1; 2]%nat = 2.
Proof. vm_compute. split; reflexivity. Qed.
Example C14_example_top_level :
  let adm := fun l r : nat => Nat.ltb l r in
  let r0 := fun l r : nat => if Nat.eqb l 0 then U else of_bool (Nat.eqb (l + r) 3) in
  let r1 := fun l r : nat => of_bool (Nat.eqb l 0) in
  option_map (map (fun c => (row_count c, cumulative_rows c, start c, cartesian_count c)))
             (cumulative_comparisons_data CDedupe [3] adm [r0; r1] [0; 1; 2]%nat [0; 1; 2]%nat)
  = Some [(1, 1, 0, 3); (2, 3, 1, 3)]
  /\ cumulative_comparisons_data CDedupe [3; 4] adm [r0; r1] [0; 1; 2]%nat [0; 1; 2]%nat = None.
Proof. vm_compute. split; reflexivity. Qed.
