(* C13 (identifier layer)  Name-level decisions commute with column renamings.
   Statements only; proofs in Proofs/IdentsP.v.  The table of string operations `ops` of the
   current source is regenerated on every run and `ops_good` / `ops_eqb` are evaluated on it. *)
From Coq Require Import List Bool Arith String Ascii.
From Splinkv Require Import Model.Idents Proofs.IdentsP.
Import ListNotations.
Open Scope string_scope.
Open Scope list_scope.

(* A renaming rho of the column names of a universe U is admissible when it neither merges nor
   splits names that the (case-insensitive) backends identify.
   `lower` is ASCII lower-casing (A-Z only): the model, the theorems and the correspondence pool
   are about ASCII column names; Python's str.lower() on non-ASCII identifiers (and the backends'
   own case folding of them) is outside this layer. *)

(* (a) which comparisons the EM training rule deactivates: for every admissible renaming, every
   rule and every comparison over U - whatever the names look like (suffix-like parts such as
   name_last / address_line_1 / fn_l, upper case, spaces, keywords) *)
Theorem C13_rename_commutes_deactivation :
  forall o q U rho br c, ops_good o = true -> rho_ok U rho ->
    incl br U -> incl (acomparison_cols c) U ->
    deactivates o q (map rho br) (render rho c) = deactivates o q br (render (fun x => x) c).
Proof. exact rename_commutes_deactivation. Qed.
Print Assumptions C13_rename_commutes_deactivation.

(* (b) the exact-match levels found for the training rule (indices of comparison and level, in
   the order the greedy matching takes them; None = the real function raises) *)
Theorem C13_rename_commutes_exact_levels :
  forall o q U rho br cs, ops_good o = true -> rho_ok U rho ->
    text_ok o U rho -> text_ok o U (fun x => x) ->
    incl br U -> incl (flat_map acomparison_cols cs) U ->
    levels_for_rule o q (map rho br) (map (render rho) cs) =
    levels_for_rule o q br (map (render (fun x => x)) cs).
Proof. exact rename_commutes_levels_for_rule. Qed.
Print Assumptions C13_rename_commutes_exact_levels.

(* (c) pairing of derived columns with comparisons: a single-column comparison on rho(c) uses
   exactly the column rho(c); its default output / gamma / bf names are the stated functions of it *)
Theorem C13_rename_commutes_column_names :
  forall o q rho c pre, strip_anchored (o_incol_strip o) = true ->
  let cmp := render rho [ANull [c]; AExact [c]; AElse] in
  cc_cols o cmp = [rho c] /\
  default_output_name o q cmp = Some (attr_of o q (o_out_attr o) (rho c)) /\
  option_map (gamma_name o pre) (default_output_name o q cmp)
    = Some (prefixed o pre (attr_of o q (o_out_attr o) (rho c))).
Proof. exact single_column_names. Qed.
Print Assumptions C13_rename_commutes_column_names.

(* (d) InputColumn: quoting is invertible, and the column is recovered from the name_l / name_r
   SQL text by an anchored strip for EVERY column name (also one that ends in _l or contains quotes) *)
Theorem C13_unquote_quote : forall q s, unquote q (quote q s) = Some s.
Proof. exact unquote_quote. Qed.
Print Assumptions C13_unquote_quote.

Theorem C13_name_l_roundtrip : forall o q raw op,
  strip_anchored op = true -> o_suffix_l o = "_l" ->
  option_map (apply_strip op) (unquote q (name_l o q raw)) = Some (column_name_of q raw).
Proof. exact name_l_roundtrip. Qed.
Print Assumptions C13_name_l_roundtrip.

Theorem C13_name_r_roundtrip : forall o q raw op,
  strip_anchored op = true -> o_suffix_r o = "_r" ->
  option_map (apply_strip op) (unquote q (name_r o q raw)) = Some (column_name_of q raw).
Proof. exact name_r_roundtrip. Qed.
Print Assumptions C13_name_r_roundtrip.

(* ------------------------------------------------------------------ refutations *)
Definition dq : ascii := """"%char.
Definition to (a b : string) : string -> string := fun s => if String.eqb s a then b else s.
Definition one (c : string) : acomparison := [ANull [c]; AExact [c]; AElse].

Lemma rho_ok_single : forall a rho, rho_ok [a] rho.
Proof.
  intros a rho x y [Hx|[]] [Hy|[]]. subst. split; reflexivity.
Qed.
Print Assumptions rho_ok_single.

(* 7.6 / fix 6a6654d9: lower() on the level side only *)
Definition ops_one_sided_lower : ops :=
  let o := ops_modelled IdName in
  {| o_deact_attr := o_deact_attr o; o_deact_lower_cc := o_deact_lower_cc o; o_deact_lower_br := o_deact_lower_br o;
     o_incol_strip := o_incol_strip o; o_prior_lower_br := false; o_cond_lower := true;
     o_isexact_strip := Chop2; o_exact_strip := Chop2; o_exact_text := IdName; o_out_attr := AInputName;
     o_despace := true; o_keywords := o_keywords o; o_suffix_l := "_l"; o_suffix_r := "_r" |}.
Theorem C13_one_sided_lower_refuted :
  exists U rho br cs, rho_ok U rho /\ incl br U /\
    levels_for_rule ops_one_sided_lower dq (map rho br) (map (render rho) cs) = Some [] /\
    levels_for_rule ops_one_sided_lower dq br (map (render (fun x => x)) cs) = Some [(0, 1)].
Proof.
  exists ["surname"], (to "surname" "Surname"), ["surname"], [one "surname"].
  split; [apply rho_ok_single|]. split; [intros x H; exact H|]. split; vm_compute; reflexivity.
Qed.
Print Assumptions C13_one_sided_lower_refuted.

(* fix ad5a7b39: the keyword-quoted input_name compared with the rule's bare identifier *)
Definition ops_input_name : ops :=
  let o := ops_modelled IdName in
  {| o_deact_attr := AInputName; o_deact_lower_cc := false; o_deact_lower_br := false;
     o_incol_strip := o_incol_strip o; o_prior_lower_br := true; o_cond_lower := true;
     o_isexact_strip := Chop2; o_exact_strip := Chop2; o_exact_text := IdName; o_out_attr := AInputName;
     o_despace := true; o_keywords := o_keywords o; o_suffix_l := "_l"; o_suffix_r := "_r" |}.
Theorem C13_keyword_quoted_input_name_refuted :
  exists U rho br c, rho_ok U rho /\ incl br U /\
    deactivates ops_input_name dq (map rho br) (render rho c) = false /\
    deactivates ops_input_name dq br (render (fun x => x) c) = true.
Proof.
  exists ["surname"], (to "surname" "group"), ["surname"], (one "surname").
  split; [apply rho_ok_single|]. split; [intros x H; exact H|]. split; vm_compute; reflexivity.
Qed.
Print Assumptions C13_keyword_quoted_input_name_refuted.

(* fix cb4534c9: case-sensitive comparison of the rule's spelling with the comparison's *)
Definition ops_case_sensitive : ops :=
  let o := ops_modelled IdName in
  {| o_deact_attr := AColumnName; o_deact_lower_cc := false; o_deact_lower_br := false;
     o_incol_strip := o_incol_strip o; o_prior_lower_br := true; o_cond_lower := true;
     o_isexact_strip := Chop2; o_exact_strip := Chop2; o_exact_text := IdName; o_out_attr := AInputName;
     o_despace := true; o_keywords := o_keywords o; o_suffix_l := "_l"; o_suffix_r := "_r" |}.
Theorem C13_case_sensitive_deactivation_refuted :
  exists U rho br c, rho_ok U rho /\ incl br U /\ incl (acomparison_cols c) U /\
    deactivates ops_case_sensitive dq (map rho br) (render rho c) = true /\
    deactivates ops_case_sensitive dq br (render (fun x => x) c) = false.
Proof.
  exists ["SURNAME"; "surname"], lower, ["SURNAME"], (one "surname").
  split.
  - intros a b Ha Hb. simpl in Ha, Hb.
    destruct Ha as [<-|[<-|[]]]; destruct Hb as [<-|[<-|[]]]; vm_compute; split; reflexivity.
  - split; [intros x [<-|[]]; left; reflexivity|]. split.
    + intros x H. vm_compute in H. destruct H as [<-|[<-|[]]]; right; left; reflexivity.
    + split; vm_compute; reflexivity.
Qed.
Print Assumptions C13_case_sensitive_deactivation_refuted.

(* seeded defect C13_1: un-anchored  re.sub(r"_[lr]", "", c)  in _exact_match_colname *)
Definition ops_unanchored : ops :=
  let o := ops_modelled IdName in
  {| o_deact_attr := AColumnName; o_deact_lower_cc := true; o_deact_lower_br := true;
     o_incol_strip := o_incol_strip o; o_prior_lower_br := true; o_cond_lower := true;
     o_isexact_strip := Chop2; o_exact_strip := RemoveAllLR; o_exact_text := IdName; o_out_attr := AInputName;
     o_despace := true; o_keywords := o_keywords o; o_suffix_l := "_l"; o_suffix_r := "_r" |}.
Theorem C13_unanchored_strip_refuted :
  exists U rho br cs, rho_ok U rho /\ incl br U /\
    levels_for_rule ops_unanchored dq (map rho br) (map (render rho) cs) = Some [] /\
    levels_for_rule ops_unanchored dq br (map (render (fun x => x)) cs) = Some [(0, 1)] /\
    remove_all_lr "name_last_l" = "nameast".
Proof.
  exists ["surname"], (to "surname" "name_last"), ["surname"], [one "surname"].
  split; [apply rho_ok_single|]. split; [intros x H; exact H|]. repeat split; vm_compute; reflexivity.
Qed.
Print Assumptions C13_unanchored_strip_refuted.

(* found while building this layer: Identifier.sql() re-quotes a name that starts with a digit,
   and the quote survives the two-character chop *)
Theorem C13_requoted_identifier_refuted :
  exists U rho br cs, rho_ok U rho /\ incl br U /\
    levels_for_rule (ops_modelled IdSqlUnquoted) dq (map rho br) (map (render rho) cs) = Some [] /\
    levels_for_rule (ops_modelled IdSqlUnquoted) dq br (map (render (fun x => x)) cs) = Some [(0, 1)].
Proof.
  exists ["surname"], (to "surname" "1st"), ["surname"], [one "surname"].
  split; [apply rho_ok_single|]. split; [intros x H; exact H|]. split; vm_compute; reflexivity.
Qed.
Print Assumptions C13_requoted_identifier_refuted.

(* ------------------------------------------------------------------ non-vacuity *)
Example C13_idents_modelled_table_good :
  ops_good (ops_modelled IdName) = true /\ ops_good (ops_modelled IdSqlUnquoted) = true /\
  ops_good ops_one_sided_lower = false /\ ops_good ops_input_name = false /\
  ops_good ops_case_sensitive = false /\ ops_good ops_unanchored = false.
Proof. vm_compute. repeat split; reflexivity. Qed.

(* the decisions for the tricky names, computed: all equal to the decisions for `surname` *)
Definition tricky : list string :=
  ["name_last"; "address_line_1"; "fn_l"; "fn_r"; "x_L"; "COL_R"; "_l"; "Surname"; "Sur Name"; "group";
   "index"; "INDEX"; "first name"; "a"; "1st"; "name_l_"; "sur""name"].
Example C13_idents_example :
  forallb (fun n =>
    let rho := to "surname" n in
    let o := ops_modelled IdName in
    Bool.eqb (deactivates o dq (map rho ["surname"]) (render rho (one "surname"))) true &&
    match levels_for_rule o dq (map rho ["surname"]) (map (render rho) [one "other"; one "surname"]) with
    | Some [(1, 1)] => true | _ => false end &&
    match option_map (apply_strip (StripEnd true)) (unquote dq (name_l o dq n)) with
    | Some c => String.eqb c n | None => false end) tricky = true.
Proof. vm_compute. reflexivity. Qed.

(* multi-column witness: three comparisons (forename, surname, and one on both columns), a rule on both
   columns; the two-column exact level is preferred (longest first), the single-column levels are then
   no longer matched, all three comparisons are deactivated - identically under a renaming that moves
   the suffix-like / upper-case / keyword names around, and under a different spelling of the rule *)
Definition two (c d : string) : acomparison := [ANull [c; d]; AExact [c; d]; AFuzzy [c]; AElse].
Definition rho2 : string -> string :=
  fun s => if String.eqb s "forename" then "Name_Last" else if String.eqb s "surname" then "group"
           else if String.eqb s "FORENAME" then "NAME_LAST" else s.
Example C13_idents_multi_column_example :
  let o := ops_modelled IdName in
  let cs := [one "forename"; one "surname"; two "forename" "surname"; one "dob"] in
  levels_for_rule o dq ["FORENAME"; "surname"] (map (render (fun x => x)) cs) = Some [(2, 1)] /\
  levels_for_rule o dq (map rho2 ["FORENAME"; "surname"]) (map (render rho2) cs) = Some [(2, 1)] /\
  levels_for_rule o dq ["surname"] (map (render rho2) cs) = Some [] /\
  levels_for_rule o dq (map rho2 ["surname"]) (map (render rho2) cs) = Some [(1, 1)] /\
  deactivated o dq (map rho2 ["FORENAME"; "surname"]) (map (render rho2) cs) = [true; true; true; false] /\
  deactivated o dq ["FORENAME"; "surname"] (map (render (fun x => x)) cs) = [true; true; true; false] /\
  cc_cols o (render rho2 (two "forename" "surname")) = ["Name_Last"; "group"] /\
  default_output_name o dq (render rho2 (two "forename" "surname")) = None.
Proof. vm_compute. repeat split; reflexivity. Qed.
