(* C11  Multi-threshold clustering equals clustering at each threshold.
   Only statements here; proofs live in Proofs/MultiThrP.v.

   `multi nodes edges thresholds` (Model/MultiThr.v) is the statement-by-statement model of
   cluster_pairwise_predictions_at_multiple_thresholds over the spec of single-threshold
   clustering (C05: the clusters at one threshold are the component-minimum labelling):
   sort the thresholds, cluster at the lowest, then for each next threshold keep the clusters
   whose incident edges (at or above the previous threshold) are all at or above the new one,
   re-cluster the remaining nodes with the edges among them, and take the union.
   Hypotheses: node ids distinct; every edge row joins two rows of the node table. *)
From Coq Require Import ZArith List Bool QArith Permutation Lia.
From Splinkv Require Import Base.Graph Model.CC Proofs.CCP Proofs.CCExtraP Model.MultiThr Proofs.MultiThrP.
Import ListNotations.
Open Scope Z_scope.

(* every edge row joins two rows of the node table.  C11_each_threshold does not need it (the spec's
   connectivity is restricted to the node table); the link to the C05 loop model does. *)
Definition closed_rows (nodes : list Z) (edges : list (Z * Z * Q)) : Prop :=
  forall a b p, In (a, b, p) edges -> In a nodes /\ In b nodes.

(* the entry for threshold t is the clustering of the graph thresholded at t: one row per node,
   cluster id = component minimum of (nodes, edges with probability >= t); any threshold order *)
Theorem C11_each_threshold :
  forall nodes edges thresholds,
    NoDup nodes -> closed_rows nodes edges ->
    (forall t, In t thresholds -> exists cc, In (t, cc) (multi nodes edges thresholds)) /\
    (forall t cc, In (t, cc) (multi nodes edges thresholds) ->
       In t thresholds /\
       Permutation (map fst cc) nodes /\
       forall v c, In (v, c) cc <-> In v nodes /\ c = comp_min nodes (thr_edges (Some t) edges) v).
Proof.
  intros nodes edges ts ND CL. split.
  - intros t Ht. now apply multi_covers.
  - intros t cc Hin. pose proof (multi_good nodes edges ND ts t cc Hin) as G. split; [|split].
    + apply (sortQ_in t ts). rewrite <- (multi_keys nodes edges ts). change t with (fst (t, cc)). now apply in_map.
    + eapply good_cc_perm; eauto.
    + apply G.
Qed.
Print Assumptions C11_each_threshold.

(* same partition as clustering independently at that threshold with the C05 model of the loop *)
Theorem C11_equals_independent_clustering :
  forall nodes edges thresholds t cc out,
    NoDup nodes -> closed_rows nodes edges ->
    In (t, cc) (multi nodes edges thresholds) ->
    cluster_at_threshold nodes edges (Some t) = Some out ->
    forall v c, In (v, c) cc <-> In (v, c) out.
Proof.
  intros nodes edges ts t cc out ND CL Hin Hout v c.
  pose proof (multi_good nodes edges ND ts t cc Hin) as [_ G].
  assert (CE : closed_edges nodes (thr_edges (Some t) edges)).
  { intros a b H. apply thr_edges_in in H. destruct H as [p [H _]]. eapply CL; eauto. }
  pose proof (solve_cc_good _ _ CE _ Hout) as GO. rewrite G. split.
  - intros [Hv ->]. now apply good_output_row.
  - intros H. eapply good_output_comp_min; eauto.
Qed.
Print Assumptions C11_equals_independent_clustering.

(* match-weight form: thresholds given as integer match weights *)
Theorem C11_each_threshold_weights :
  forall nodes edges ws,
    NoDup nodes -> closed_rows nodes edges ->
    forall w, In w ws -> exists cc,
      In (weight_to_prob w, cc) (multi nodes edges (map weight_to_prob ws)) /\
      forall v c, In (v, c) cc <->
                  In v nodes /\ c = comp_min nodes (thr_edges (Some (weight_to_prob w)) edges) v.
Proof.
  intros nodes edges ws ND CL w Hw.
  destruct (multi_covers nodes edges (map weight_to_prob ws) (weight_to_prob w)) as [cc Hcc]; [now apply in_map|].
  exists cc. split; [exact Hcc|]. apply (multi_good nodes edges ND _ _ _ Hcc).
Qed.
Print Assumptions C11_each_threshold_weights.

(* the thresholds are processed in ascending order whatever order they were given in *)
Theorem C11_any_order :
  forall nodes edges thresholds, map fst (multi nodes edges thresholds) = sortQ thresholds /\
                                 sortedQ (sortQ thresholds) /\
                                 forall t, In t (sortQ thresholds) <-> In t thresholds.
Proof. intros. split; [apply multi_keys|]. split; [apply sortQ_sorted|intros; apply sortQ_in]. Qed.
Print Assumptions C11_any_order.

(* duplicate thresholds: both entries are the same clustering (the implementation's dict keeps one) *)
Theorem C11_duplicate_thresholds :
  forall nodes edges thresholds t cc cc',
    NoDup nodes -> closed_rows nodes edges ->
    In (t, cc) (multi nodes edges thresholds) -> In (t, cc') (multi nodes edges thresholds) ->
    forall v c, In (v, c) cc <-> In (v, c) cc'.
Proof.
  intros nodes edges ts t cc cc' ND CL H H' v c.
  pose proof (multi_good nodes edges ND ts t cc H) as [_ G].
  pose proof (multi_good nodes edges ND ts t cc' H') as [_ G']. now rewrite G, G'.
Qed.
Print Assumptions C11_duplicate_thresholds.

(* summary statistics are those of that partition: one size per component (keyed by its
   minimum), each size the number of nodes of the component, sizes add up to the number of
   nodes; (num_clusters, max, avg) are computed from exactly these sizes *)
Theorem C11_stats_of_partition :
  forall nodes edges thresholds t cc,
    NoDup nodes -> closed_rows nodes edges ->
    In (t, cc) (multi nodes edges thresholds) ->
    let E := thr_edges (Some t) edges in
    let sizes := cluster_sizes cc in
    NoDup (map fst sizes) /\
    (forall cid, In cid (map fst sizes) <-> exists v, In v nodes /\ comp_min nodes E v = cid) /\
    (forall cid k, In (cid, k) sizes -> k = length (filter (fun v => comp_min nodes E v =? cid) nodes)) /\
    fold_right Nat.add O (map snd sizes) = length nodes /\
    cluster_stats cc = (length sizes, fold_right Nat.max O (map snd sizes),
                        Qmake (Z.of_nat (length nodes)) (Pos.of_nat (length sizes))).
Proof.
  intros nodes edges ts t cc ND CL Hin E sizes.
  pose proof (multi_good nodes edges ND ts t cc Hin) as G.
  destruct (cluster_sizes_keys nodes edges t cc G) as [K1 K2].
  pose proof (cluster_sizes_total nodes edges ND t cc G) as T.
  split; [exact K1|]. split; [exact K2|]. split.
  - intros cid k H. now apply (cluster_sizes_spec nodes edges ND t cc cid k G).
  - split; [exact T|]. unfold cluster_stats. fold sizes. rewrite map_length. unfold sizes at 3. rewrite T. reflexivity.
Qed.
Print Assumptions C11_stats_of_partition.

(* ------------------------------------------------------------------------------------ *)
(* The inner clustering calls.  `multi` calls the C05 *spec* (cluster_spec); `multi_lm` is the same
   routine with the C05 *loop model* cluster_at_threshold (Model/CC.v) for every clustering call. *)

(* whatever the previous clustering, the in-play node and edge tables handed to the inner call
   satisfy the hypotheses of C05: distinct ids, every edge joins two in-play nodes *)
Theorem C11_in_play_tables_satisfy_C05_hypotheses :
  forall nodes edges t t' cc,
    NoDup nodes ->
    let sn := stable_nodes cc (stable_clusters t' (cluster_edge_probabilities cc (relevant_edges t edges))) in
    let nip := nodes_in_play nodes sn in
    let eip := edges_in_play edges nip in
    NoDup nip /\ closed_edges nip (thr_edges (Some t') eip) /\
    forall a b p, In (a, b, p) eip -> In a nip /\ In b nip.
Proof. intros nodes edges t t' cc ND. exact (nip_hyps nodes edges ND t t' cc). Qed.
Print Assumptions C11_in_play_tables_satisfy_C05_hypotheses.

(* one pass: with the loop model for the inner call the pass terminates and yields the same rows *)
Theorem C11_inner_call_by_loop_model_same_rows :
  forall nodes edges t t' cc,
    NoDup nodes -> (t <= t')%Q ->
    (forall v c, In (v, c) cc <-> In v nodes /\ c = comp_min nodes (thr_edges (Some t) edges) v) ->
    NoDup (map fst cc) ->
    exists cc', next_cc_lm nodes edges t t' cc = Some cc' /\
                forall v c, In (v, c) cc' <-> In (v, c) (next_cc nodes edges t t' cc).
Proof.
  intros nodes edges t t' cc ND Hle G NDcc.
  destruct (next_cc_lm_good nodes edges ND t t' cc Hle (conj NDcc G)) as (cc' & E & _ & R). eauto.
Qed.
Print Assumptions C11_inner_call_by_loop_model_same_rows.

(* the whole routine with the loop model everywhere: never runs out of fuel, has one entry per
   requested threshold, and every entry has the same rows as the corresponding entry of `multi`
   (both are the component-minimum labelling).  closed_rows is needed here - for the first call only. *)
Theorem C11_loop_model_throughout :
  forall nodes edges thresholds,
    NoDup nodes -> closed_rows nodes edges ->
    exists r, multi_lm nodes edges thresholds = Some r /\
              map fst r = map fst (multi nodes edges thresholds) /\
              forall t cc, In (t, cc) r ->
                Permutation (map fst cc) nodes /\
                (forall v c, In (v, c) cc <-> In v nodes /\ c = comp_min nodes (thr_edges (Some t) edges) v) /\
                exists cc0, In (t, cc0) (multi nodes edges thresholds) /\ forall v c, In (v, c) cc <-> In (v, c) cc0.
Proof.
  intros nodes edges ts ND CL. destruct (multi_lm_good nodes edges ND CL ts) as (r & E & K & G).
  exists r. split; [exact E|]. split; [now rewrite K, (multi_keys nodes edges ts)|].
  intros t cc Hin. pose proof (G t cc Hin) as Gc. split; [eapply good_cc_perm; eauto|]. split; [apply Gc|].
  assert (Ht : In t ts).
  { apply (sortQ_in t ts). rewrite <- K. change t with (fst (t, cc)). now apply in_map. }
  destruct (multi_covers nodes edges ts t Ht) as [cc0 H0]. exists cc0. split; [exact H0|].
  pose proof (multi_good nodes edges ND ts t cc0 H0) as [_ G0]. destruct Gc as [_ Gc].
  intros v c. now rewrite Gc, G0.
Qed.
Print Assumptions C11_loop_model_throughout.

(* without closed_rows the two diverge (an edge row that mentions an id absent from the node table:
   the loop model, like the implementation, joins records through the absent id; see C05) *)
Example C11_non_closed_rows_diverge_refuted :
  multi [2; 3] [(0, 2, Qmake 1 1); (0, 3, Qmake 1 1)] [Qmake 1 2] = [(Qmake 1 2, [(2, 2); (3, 3)])] /\
  multi_lm [2; 3] [(0, 2, Qmake 1 1); (0, 3, Qmake 1 1)] [Qmake 1 2] = Some [(Qmake 1 2, [(2, 0); (3, 0)])].
Proof. split; vm_compute; reflexivity. Qed.

(* empty node table: SQL returns (0, NULL, NULL); the model's cluster_stats [] is (0, 0, 0).  The
   statistics theorem above is about the rows of a partition of a node table and is vacuous here. *)
Example C11_stats_empty_table_note : cluster_stats [] = (0%nat, 0%nat, Qmake 0 1).
Proof. vm_compute. reflexivity. Qed.

(* edge rows with a NULL match_probability (multi_n) are inert at every threshold, 0 included: each
   entry is the component-minimum labelling over the rows whose probability is known and >= t *)
Theorem C11_null_probability_edges_inert :
  forall nodes edges thresholds t cc,
    NoDup nodes -> In (t, cc) (multi_n nodes edges thresholds) ->
    forall v c, In (v, c) cc <-> In v nodes /\ c = comp_min nodes (thr_edges_n (Some t) edges) v.
Proof.
  intros nodes edges ts t cc ND Hin. unfold multi_n in Hin. rewrite thr_edges_n_some.
  apply (multi_good nodes (non_null edges) ND ts t cc Hin).
Qed.
Print Assumptions C11_null_probability_edges_inert.

Example C11_null_edge_example :
  multi_n [1; 2; 3] [(1, 2, None); (2, 3, Some (Qmake 1 2))] [Qmake 3 4; Qmake 0 1]
  = [(Qmake 0 1, [(1, 1); (2, 2); (3, 2)]); (Qmake 3 4, [(1, 1); (2, 2); (3, 3)])].
Proof. vm_compute. reflexivity. Qed.

(* non-vacuity: unsorted thresholds including 1 and a value equal to an edge probability *)
Definition ex_nodes := [0; 1; 2; 3; 4; 5].
Definition ex_edges : list (Z * Z * Q) :=
  [(0, 1, Qmake 1 2); (2, 1, Qmake 3 4); (3, 4, Qmake 3 4); (4, 4, Qmake 1 4)].
Example C11_example_hyps : NoDup ex_nodes /\ closed_rows ex_nodes ex_edges.
Proof.
  split.
  - repeat constructor; cbn; intuition congruence.
  - intros a b p Hin. unfold ex_nodes. cbn in Hin.
    repeat (destruct Hin as [Hin|Hin]; [injection Hin as <- <- <-; cbn; tauto|]). destruct Hin.
Qed.
Example C11_example :
  multi ex_nodes ex_edges [Qmake 3 4; Qmake 1 4; Qmake 1 1; Qmake 1 2]
  = [(Qmake 1 4, [(0, 0); (1, 0); (2, 0); (3, 3); (4, 3); (5, 5)]);
     (Qmake 1 2, [(0, 0); (1, 0); (2, 0); (5, 5); (3, 3); (4, 3)]);
     (Qmake 3 4, [(5, 5); (3, 3); (4, 3); (0, 0); (1, 1); (2, 1)]);
     (Qmake 1 1, [(5, 5); (0, 0); (1, 1); (2, 2); (3, 3); (4, 4)])].
Proof. vm_compute. reflexivity. Qed.
Example C11_example_stats :
  map (fun x => cluster_stats (snd x)) (multi ex_nodes ex_edges [Qmake 3 4; Qmake 1 4; Qmake 1 1; Qmake 1 2])
  = [(3%nat, 3%nat, Qmake 6 3); (3%nat, 3%nat, Qmake 6 3); (4%nat, 2%nat, Qmake 6 4); (6%nat, 1%nat, Qmake 6 6)].
Proof. vm_compute. reflexivity. Qed.
