(* C19  Graph metrics equal their graph-theoretic definitions.
   Only statements here; proofs live in Proofs/GraphMetricsP.v.
   C : df_clustered (one row per record: composite id, cluster id), TE : the thresholded
   prediction rows (a multigraph: duplicated rows and self loops allowed). *)
From Coq Require Import List Bool ZArith QArith Lia.
From Splinkv Require Import Model.GraphMetrics Proofs.GraphMetricsP.
Import ListNotations.
Open Scope Z_scope.

(* one row per record (isolated records included, in the order of df_clustered), whose degree is
   the number of edge ends at the record and whose centrality is degree / (cluster size - 1)
   with the guard cluster size > 1 *)
Theorem C19_degree_is_incidence_count :
  forall C thr P, NoDup (map fst C) ->
    let TE := truncated_edges thr P in
    graph_metrics_nodes C TE
    = map (fun c => (fst c, snd c, incidence TE (fst c),
                     node_centrality (incidence TE (fst c)) (size_in C (snd c)))) C.
Proof. intros. apply graph_metrics_nodes_spec. assumption. Qed.
Print Assumptions C19_degree_is_incidence_count.

Theorem C19_one_row_per_node :
  forall C TE, NoDup (map fst C) ->
    map (fun r => (nm_uid r, nm_cid r)) (graph_metrics_nodes C TE) = C /\
    NoDup (map nm_uid (graph_metrics_nodes C TE)).
Proof.
  intros C TE H. rewrite graph_metrics_nodes_spec by assumption. rewrite !map_map.
  unfold nm_uid, nm_cid. cbn [fst snd]. split.
  - rewrite <- (map_id C) at 2. apply map_ext. intros [u k]. reflexivity.
  - exact H.
Qed.
Print Assumptions C19_one_row_per_node.

Theorem C19_one_row_per_edge :
  forall TE, map (fun r : Z * Z * bool => fst r) (graph_metrics_edges TE) = ends TE.
Proof. exact edges_rows. Qed.
Print Assumptions C19_one_row_per_edge.

(* one row per cluster, carrying exactly the aggregates of its members' degrees *)
Theorem C19_one_row_per_cluster :
  forall C TE, NoDup (map fst C) ->
    NoDup (map cl_cid (graph_metrics_clusters (graph_metrics_nodes C TE))) /\
    forall r, In r (graph_metrics_clusters (graph_metrics_nodes C TE)) <->
      exists c, In c (map snd C) /\
        let degs := map (incidence TE) (cluster_members C c) in
        let n := Z.of_nat (length degs) in
        r = {| cl_cid := c; cl_n_nodes := n; cl_n_edges := n_edges_of (sumZ degs);
               cl_density := density_of n (n_edges_of (sumZ degs));
               cl_centralisation := centralisation_of n (maxZ degs) (sumZ degs) |}.
Proof.
  intros C TE H. split; [apply clusters_cids_nodup|]. intros r. apply clusters_in. assumption.
Qed.
Print Assumptions C19_one_row_per_cluster.

(* handshake: the degree sum over a cluster counts every edge inside it twice and every edge
   leaving it once; hence n_edges = SUM(node_degree)/2 is the number of edges of the cluster
   whenever no thresholded edge leaves the cluster *)
Theorem C19_handshake :
  forall C TE c, NoDup (map fst C) ->
    let M := cluster_members C c in
    sumZ (map (incidence TE) M) = 2 * inside M TE + crossing M TE /\
    (crossing M TE = 0 -> (n_edges_of (sumZ (map (incidence TE) M)) == inject_Z (inside M TE))%Q).
Proof.
  intros C TE c H M. assert (Hnd : NoDup M) by (apply cluster_members_nodup; assumption). split.
  - apply handshake. assumption.
  - apply n_edges_handshake. assumption.
Qed.
Print Assumptions C19_handshake.

(* without that precondition n_edges is NOT the edge count of the cluster: clusters {0,1},{2,3}
   with thresholded edges 0-1, 1-2, 2-3 (edge 1-2 crosses) give n_edges = 3/2 and density = 3/2
   for both clusters, although each contains exactly one edge.  The precondition holds whenever
   df_clustered comes from clustering the same thresholded graph. *)
Theorem C19_n_edges_crossing_refuted :
  exists C thr P r,
    NoDup (map fst C) /\
    In r (graph_metrics_clusters (graph_metrics_nodes C (truncated_edges thr P))) /\
    inside (cluster_members C (cl_cid r)) (truncated_edges thr P) = 1 /\
    (cl_n_edges r == 3 # 2)%Q /\ cl_density r = Some (cl_n_edges r * 2 / inject_Z 2)%Q /\
    ~ (cl_n_edges r == inject_Z (inside (cluster_members C (cl_cid r)) (truncated_edges thr P)))%Q.
Proof.
  exists [(0,0);(1,0);(2,2);(3,2)], (1#2)%Q, [(0,1,(9#10)%Q);(1,2,(9#10)%Q);(2,3,(9#10)%Q)],
         {| cl_cid := 0; cl_n_nodes := 2; cl_n_edges := n_edges_of 3;
            cl_density := density_of 2 (n_edges_of 3); cl_centralisation := None |}.
  split; [cbn; repeat constructor; cbn; intuition lia|].
  split; [vm_compute; left; reflexivity|].
  split; [vm_compute; reflexivity|]. split; [vm_compute; reflexivity|]. split; [reflexivity|].
  vm_compute. discriminate.
Qed.
Print Assumptions C19_n_edges_crossing_refuted.

(* density = n_edges / (n(n-1)/2) iff n > 1 (NULL otherwise); cluster centralisation =
   sum_v (max degree - degree v) / ((n-1)(n-2)) iff n > 2 (NULL otherwise), where the maximum is
   attained and bounds every degree; node centralisation = degree / (n-1) iff n > 1, else 0 *)
Theorem C19_density_centralisation_formulae :
  (forall n ne,
     (1 < n -> exists d, density_of n ne = Some d /\ (d == ne / (inject_Z (n * (n - 1))%Z / 2))%Q) /\
     (n <= 1 -> density_of n ne = None)) /\
  (forall degs : list Z,
     let n := Z.of_nat (length degs) in
     (2 < n -> exists z, centralisation_of n (maxZ degs) (sumZ degs) = Some z /\
        (z == inject_Z (sumZ (map (fun d => (maxZ degs - d)%Z) degs)) / inject_Z ((n - 1) * (n - 2))%Z)%Q) /\
     (n <= 2 -> centralisation_of n (maxZ degs) (sumZ degs) = None)) /\
  (forall degs : list Z, degs <> [] -> In (maxZ degs) degs /\ forall d, In d degs -> d <= maxZ degs) /\
  (forall deg size,
     (1 < size -> node_centrality deg size = (inject_Z deg / inject_Z (size - 1)%Z)%Q) /\
     (size <= 1 -> node_centrality deg size = 0%Q)).
Proof.
  split; [exact density_formula|]. split; [exact centralisation_formula|]. split.
  - intros degs H. split; [apply maxZ_in; assumption|apply maxZ_ge].
  - exact node_centrality_formula.
Qed.
Print Assumptions C19_density_centralisation_formulae.

(* the executable bridge test is the definition: removing that edge occurrence disconnects its
   endpoints (inductive undirected paths in the remaining multigraph) *)
Theorem C19_is_bridge_b_correct :
  forall TE i, is_bridge_b TE i = true <-> bridge TE i.
Proof. exact is_bridge_b_correct. Qed.
Print Assumptions C19_is_bridge_b_correct.

Theorem C19_reachability_correct :
  forall E s t, reach_b E s t = true <-> conn E s t.
Proof. exact reach_b_correct. Qed.
Print Assumptions C19_reachability_correct.

(* non-vacuity: a triangle 0-1-2 with a pendant 3, an isolated record 4 and a below-threshold edge *)
Example C19_example :
  let C := [(0,0);(1,0);(2,0);(3,0);(4,4)] in
  let P := [(0,1,(9#10)%Q);(2,1,(8#10)%Q);(0,2,(7#10)%Q);(3,2,(6#10)%Q);(3,4,(1#10)%Q)] in
  let TE := truncated_edges (1#2)%Q P in
  map (fun r => (nm_uid r, nm_deg r)) (graph_metrics_nodes C TE) = [(0,2);(1,2);(2,3);(3,1);(4,0)] /\
  map (fun r => snd r) (graph_metrics_edges TE) = [false; false; false; true] /\
  map (fun r => (cl_cid r, cl_n_nodes r, Qred (cl_n_edges r), option_map Qred (cl_density r), option_map Qred (cl_centralisation r)))
      (graph_metrics_clusters (graph_metrics_nodes C TE))
  = [(0, 4, (4#1)%Q, Some (2#3)%Q, Some (2#3)%Q); (4, 1, (0#1)%Q, None, None)].
Proof. vm_compute. repeat split; reflexivity. Qed.
