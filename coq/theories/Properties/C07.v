(* C07  Results never depend on what ran before (cache soundness).
   Statements only; proofs live in Proofs/CacheP.v, the model in Model/Cache.v.

   All theorems quantify over every key type K with decidable equality and every INJECTIVE
   [hash : sqlt -> nat -> K] (the 9-hex-digit sha256(sql + uid) of database_api.py), every list of
   (plain-named) input tables, every settings list of term-frequency columns, every tree
   variant [fx] and EVERY finite history of public operations (induction over
   [fold_left step ops s0]).  [hist_ok] is the explicit boolean guard that excludes the finding
   classes; each class has its own [_refuted] theorem below.

   WHAT [hist_ok] / [op_ok_hashed] EXCLUDE (all positive theorems):
     - ChangeInput (rows changed without invalidate_cache), SecondLinker (two linkers on one DatabaseAPI), SetDebug,
       InvalidateKeepingResults (a model variant, not the code): refuted below;
     - RegisterTFOverwrite (register_term_frequency_lookup(..., overwrite=True)) on EVERY tree variant, also the repaired one
       (fx718 = true): the operation changes registered data in place.  The unrepaired variant is refuted
       (C07_predict_equals_fresh_refuted_lookup_overwrite); the repaired variant is covered only by the closed Example
       C07_lookup_overwrite_repaired and by X (witness replayed on every run), NOT by a theorem;
     - FindMatchesTable (find_matches_to_new_records given a table NAME whose rows the caller replaces between searches):
       the table is read by earlier cached results, so refilling it is an input change without invalidate_cache and
       C07_hashed_entries_sound is genuinely false afterwards (the earlier __splink__find_matches_predictions stays cached
       with the old rows; it is never served because that pipeline runs with use_cache=False).  Covered by X only
       (dedicated scenario: trace vs model and output vs fresh linker). *)
From Coq Require Import List Bool Arith String.
From Splinkv Require Import Model.Cache Proofs.CacheP.
Import ListNotations.
Open Scope string_scope.
Open Scope list_scope.

Section C07.
  Variable K : Type.
  Variable keqb : K -> K -> bool.
  Variable hash : sqlt -> nat -> K.
  Hypothesis keqb_spec : forall a b, keqb a b = true <-> a = b.
  Hypothesis hash_inj : forall t u t' u', hash t u = hash t' u' -> t = t' /\ u = u'.

  (* Every hashed cache entry points at a table that holds exactly what its SQL denotes under the
     CURRENT registered data - for every history in which the input rows change only together
     with invalidate_cache (op ChangeInputInvalidate), on one linker per DatabaseAPI. *)
  Theorem C07_hashed_entries_sound :
    forall inputs ver tfcols params uid luid fx ops,
      inputs_plain inputs -> forallb op_ok_hashed ops = true ->
      let s := run K keqb hash (init_state K inputs ver tfcols params uid luid fx) ops in
      forall n k h, aget K keqb (st_cache K s) (PH K n k) = Some h ->
        exists t, h_src K h = Mat t /\ h_phys K h = PH K n k /\ k = hash t (st_uid K s) /\ n = name_of t /\
                  content K keqb (st_db K s) (h_phys K h) = denote K keqb (st_db K s) t.
  Proof. intros. eapply hashed_entries_sound; eauto. Qed.

  (* predict() after any guarded history is the closed-form function [predict_spec] of the current
     input rows, the model and the registered lookups ... *)
  Theorem C07_predict_is_a_function_of_data_model_lookups :
    forall inputs ver tfcols params uid luid fx ops,
      inputs_plain inputs ->
      hist_ok K keqb hash (init_state K inputs ver tfcols params uid luid fx) ops = true ->
      let s := run K keqb hash (init_state K inputs ver tfcols params uid luid fx) ops in
      result_prov K keqb hash s Predict = predict_spec K keqb s.
  Proof.
    intros. apply predict_correct; auto. apply run_inv2; auto. apply init_inv2; auto.
  Qed.

  (* ... hence two linkers (any histories, any DatabaseAPI uids) that agree on input rows, model and
     registered lookups return the same predictions *)
  Theorem C07_predict_depends_only_on_data_model_lookups :
    forall inputs1 ver1 tf1 p1 uid1 luid1 fx1 ops1 inputs2 ver2 tf2 p2 uid2 luid2 fx2 ops2,
      inputs_plain inputs1 -> inputs_plain inputs2 ->
      let i1 := init_state K inputs1 ver1 tf1 p1 uid1 luid1 fx1 in
      let i2 := init_state K inputs2 ver2 tf2 p2 uid2 luid2 fx2 in
      hist_ok K keqb hash i1 ops1 = true -> hist_ok K keqb hash i2 ops2 = true ->
      obs K keqb (run K keqb hash i1 ops1) = obs K keqb (run K keqb hash i2 ops2) ->
      result_prov K keqb hash (run K keqb hash i1 ops1) Predict =
      result_prov K keqb hash (run K keqb hash i2 ops2) Predict.
  Proof. intros. apply predict_depends_only_on_obs; auto. Qed.

  (* the property as worded: predict() after the history = predict() of a FRESH linker (new
     DatabaseAPI, same input rows, the saved model, the same lookups registered again) *)
  Theorem C07_predict_equals_fresh :
    forall inputs ver tfcols params uid luid fx ops ver' uid' luid' lks,
      inputs_plain inputs ->
      let i := init_state K inputs ver tfcols params uid luid fx in
      hist_ok K keqb hash i ops = true ->
      let s := run K keqb hash i ops in
      let f := run K keqb hash (init_state K inputs ver' tfcols (st_params K s) uid' luid' fx) (registrations lks) in
      obs K keqb f = obs K keqb s ->
      result_prov K keqb hash s Predict = result_prov K keqb hash f Predict.
  Proof. intros. apply predict_equals_fresh; auto. Qed.

  (* after the rows changed and invalidate_cache was called, predict() is that of a fresh linker over
     the NEW rows with the current model (invalidate_cache also forgets registered lookups) *)
  Theorem C07_invalidate_reflects_new_data :
    forall inputs ver tfcols params uid luid fx ops v uid' luid' fx',
      inputs_plain inputs ->
      let i := init_state K inputs ver tfcols params uid luid fx in
      hist_ok K keqb hash i ops = true ->
      let s := run K keqb hash i (ops ++ [ChangeInputInvalidate v]) in
      result_prov K keqb hash s Predict =
      result_prov K keqb hash (init_state K inputs v tfcols (st_params K s) uid' luid' fx') Predict.
  Proof. intros. apply invalidate_reflects_new_data; auto. Qed.

  (* the DB-existence fallback of _get_table_from_cache_or_db is unreachable on one DatabaseAPI: whenever a hashed
     key is not in the cache, no table of that name exists, so a cached pipeline either hits the cache or executes *)
  Theorem C07_db_fallback_unreachable :
    forall inputs ver tfcols params uid luid fx ops,
      inputs_plain inputs -> forallb op_ok_hashed ops = true ->
      let s := run K keqb hash (init_state K inputs ver tfcols params uid luid fx) ops in
      (forall n k, aget K keqb (st_cache K s) (PH K n k) = None -> amem K keqb (st_db K s) (PH K n k) = false) /\
      (forall templ tree al mids,
         exec_pipeline K keqb hash s templ tree al mids true =
         match aget K keqb (st_cache K s) (named K templ) with
         | Some h => (s, h, [Hit (h_templ K h) (pbase K (h_phys K h))])
         | None => match aget K keqb (st_cache K s) (PH K templ (hash tree (st_uid K s))) with
                   | Some h => (s, h, [Hit (h_templ K h) (pbase K (h_phys K h))])
                   | None => exec_run K keqb hash s templ tree
                   end
         end).
  Proof.
    intros. split; [intros; eapply db_fallback_unreachable; eauto | intros; eapply exec_pipeline_hit_or_run; eauto].
  Qed.

  (* compare_two_records after any guarded history: the score table is the closed-form [c2_spec] - the two records, the
     model and, per tf column, the source chosen by EntryPoints.route_priority: the cached tf table (registered lookup)
     BEFORE select-distinct from a cached __splink__df_concat_with_tf BEFORE NULL *)
  Theorem C07_compare_two_records_follows_the_tf_route :
    forall inputs ver tfcols params uid luid fx ops flag,
      inputs_plain inputs ->
      hist_ok K keqb hash (init_state K inputs ver tfcols params uid luid fx) ops = true ->
      let s := run K keqb hash (init_state K inputs ver tfcols params uid luid fx) ops in
      result_prov K keqb hash s (CompareTwo flag) = c2_spec K keqb s flag.
  Proof. intros. apply compare_two_correct; auto. apply run_inv2; auto. apply init_inv2; auto. Qed.

  (* hence with a lookup (or computed tf table) cached for every tf column the result is a function of records, model and
     those tables only: whether predict / EM / clustering / find_matches ran before (cached concat_with_tf) is irrelevant *)
  Theorem C07_compare_two_records_registered_lookups_have_priority :
    forall inputs ver tfcols params uid luid fx ops flag,
      inputs_plain inputs ->
      hist_ok K keqb hash (init_state K inputs ver tfcols params uid luid fx) ops = true ->
      let s := run K keqb hash (init_state K inputs ver tfcols params uid luid fx) ops in
      (forall c, In c (st_tfcols K s) -> amem K keqb (st_cache K s) (named K (tfname c)) = true) ->
      result_prov K keqb hash s (CompareTwo flag) =
      derive (c2_name flag) (st_params K s)
             ([PRecords (st_ctr K s); PRecords (S (st_ctr K s))] ++ map (tf_spec K keqb s) (st_tfcols K s)).
  Proof.
    intros. rewrite <- c2_spec_all_registered by auto. apply compare_two_correct; auto. apply run_inv2; auto. apply init_inv2; auto.
  Qed.

  (* the model's fresh linker [fresh_of s uid' luid'] (new DatabaseAPI, same input rows, saved model, the currently
     registered lookups registered again) observes what the history's state observes - no hypothesis left to the user *)
  Theorem C07_fresh_linker_observes_the_same :
    forall inputs ver tfcols params uid luid fx ops uid' luid',
      inputs_plain inputs ->
      hist_ok K keqb hash (init_state K inputs ver tfcols params uid luid fx) ops = true ->
      let s := run K keqb hash (init_state K inputs ver tfcols params uid luid fx) ops in
      obs K keqb (fresh_of K keqb s uid' luid') = obs K keqb s.
  Proof.
    intros inputs ver tfcols params uid luid fx ops uid' luid' Hp Hok s. apply (obs_fresh_of K keqb keqb_spec).
    destruct (run_inv K keqb hash keqb_spec hash_inj ops _ (hist_ok_hashed K keqb hash ops _ Hok)
                      (init_inv K keqb hash inputs ver tfcols params uid luid fx Hp)) as (_ & _ & Hi & _).
    fold s in Hi. rewrite Hi. exact Hp.
  Qed.

  (* hence predict() after the history is the closed form evaluated on that fresh linker's state.  (That executing
     predict ON the fresh state yields its closed form is C07_predict_equals_fresh for the fresh linker written as a
     history - init_state + registrations - and is recomputed for [fresh_of] inside Coq by X on every generated case.) *)
  Theorem C07_predict_is_the_fresh_linkers_closed_form :
    forall inputs ver tfcols params uid luid fx ops uid' luid',
      inputs_plain inputs ->
      hist_ok K keqb hash (init_state K inputs ver tfcols params uid luid fx) ops = true ->
      let s := run K keqb hash (init_state K inputs ver tfcols params uid luid fx) ops in
      result_prov K keqb hash s Predict = predict_spec K keqb (fresh_of K keqb s uid' luid').
  Proof.
    intros inputs ver tfcols params uid luid fx ops uid' luid' Hp Hok s.
    pose proof (predict_spec_obs K keqb _ _ (C07_fresh_linker_observes_the_same inputs ver tfcols params uid luid fx ops uid' luid' Hp Hok)) as E.
    fold s in E. rewrite E. apply C07_predict_is_a_function_of_data_model_lookups; auto.
  Qed.
End C07.
Print Assumptions C07_fresh_linker_observes_the_same.
Print Assumptions C07_predict_is_the_fresh_linkers_closed_form.
Print Assumptions C07_compare_two_records_follows_the_tf_route.
Print Assumptions C07_compare_two_records_registered_lookups_have_priority.
Print Assumptions C07_db_fallback_unreachable.
Print Assumptions C07_hashed_entries_sound.
Print Assumptions C07_predict_is_a_function_of_data_model_lookups.
Print Assumptions C07_predict_depends_only_on_data_model_lookups.
Print Assumptions C07_predict_equals_fresh.
Print Assumptions C07_invalidate_reflects_new_data.

(* realtime.compare_records and its module-level SQLCache.  Settings are SettingsCreator objects (address = id(),
   object identity, model), dicts (base content + the ComparisonCreator.configure() values) or strings; events are
   calls (settings, use_sql_from_cache, include_found_by_blocking_rules) and garbage collections of SettingsCreator
   objects.  [rt_wf] is what Python guarantees: a call passes a live object, an address has one live owner at a time
   (reused only after the owner died), an object keeps address and model.  With the three key ingredients that
   translators/c07_realtime.py reads off the source on every run - the flag in the key (7.8), the configure() values in
   the key of a dict holding creators, a fingerprint of the object's current content in the key of a SettingsCreator object - every call of
   EVERY sequence, cached or not, runs the SQL of its own settings and its own flag (the weak-reference liveness test is then
   hygiene only; it is what makes the unrepaired key sound for unmutated objects, see below).
   Not modelled (X / trusted): the dialect, Path file contents changing between calls, json key order of dicts. *)
Theorem C07_realtime_cache_transparent :
  forall evs, Forall2 rt_out_ok evs (rt_run rt_good ([], []) evs).
Proof. intros. apply rt_transparent. intros e []. Qed.
(* [rt_good] includes a fourth ingredient: the key of a SettingsCreator OBJECT carries a fingerprint of what the object
   describes now.  A SettingsCreator is a mutable object keyed by id(): without the fingerprint ([rt_nofp], the tree
   before the repair) transparency holds only for sequences in which no object is mutated between calls - that is the
   "object keeps its model" clause of [rt_wf] - and is refuted by a two-call witness otherwise. *)
Theorem C07_realtime_cache_transparent_for_unmutated_objects :
  forall evs, rt_wf ([], []) evs = true -> Forall2 rt_out_ok evs (rt_run rt_nofp ([], []) evs).
Proof. intros. eapply rt_transparent_unmutated; eauto. intros e []. Qed.
Theorem C07_realtime_refuted_when_object_mutated :
  exists evs, ~ Forall2 rt_out_ok evs (rt_run rt_nofp ([], []) evs).
Proof.
  exists [RtCall (RObj 7 1 3) true false; RtCall (RObj 7 1 5) true false].
  intros H. apply rt_all_okb_of_Forall2 in H. vm_compute in H. discriminate H.
Qed.
Print Assumptions C07_realtime_cache_transparent_for_unmutated_objects.
Print Assumptions C07_realtime_refuted_when_object_mutated.
Print Assumptions C07_realtime_cache_transparent.

(* ------------------------------------------------------------------ the finding classes, refuted on the model
   (instance: K = sqlt * nat, hash = pair - injective by construction) *)
Definition s0 (fx : fixes) : state KI :=
  init_state KI [LPlain "inp"] 0 ["first_name"; "surname"] 0 5 6 fx.
Definition unfixed : fixes := {| fx77 := false; fx716 := false; fx715 := false; fx718 := false; fxba := false; fxco := false |}.
Definition repaired : fixes := {| fx77 := true; fx716 := true; fx715 := true; fx718 := true; fxba := true; fxco := true |}.
Definition predict_prov (s : state KI) : prov := result_prov KI keqbI hashI s Predict.

(* (a) DESIGN 7.7: predict; register_term_frequency_lookup; predict - on the unrepaired tree the named
   __splink__df_concat_with_tf is stale.  Confirmed on the real code (match weights differ). *)
Theorem C07_predict_equals_fresh_refuted_stale_lookup :
  exists ops, forallb op_ok_hashed ops = true /\ hist_ok KI keqbI hashI (s0 unfixed) ops = false /\
    let s := run KI keqbI hashI (s0 unfixed) ops in
    predict_prov s <> predict_prov (fresh_of KI keqbI s 777 888).
Proof.
  exists [Predict; RegisterTF "first_name" 1]. split; [reflexivity|split; [vm_compute; reflexivity|]].
  cbv zeta. intros H. vm_compute in H. discriminate H.
Qed.
Print Assumptions C07_predict_equals_fresh_refuted_stale_lookup.

(* the same history is harmless on the repaired tree (and is covered by the theorems above) *)
Example C07_stale_lookup_repaired :
  let ops := [Predict; RegisterTF "first_name" 1] in
  hist_ok KI keqbI hashI (s0 repaired) ops = true /\
  let s := run KI keqbI hashI (s0 repaired) ops in predict_prov s = predict_prov (fresh_of KI keqbI s 777 888).
Proof. split; vm_compute; reflexivity. Qed.

(* (b) two linkers sharing one DatabaseAPI share the named entries (known finding in the property text) *)
Theorem C07_predict_equals_fresh_refuted_two_linkers :
  exists ops,
    let i := set_db KI (s0 repaired) (aset KI keqbI (st_db KI (s0 repaired)) (PL KI (LPlain "inp_b"))
                                           {| e_prov := PInput "inp_b" 2; e_origin := User |}) in
    hist_ok KI keqbI hashI i ops = false /\
    let s := run KI keqbI hashI i ops in
    predict_prov s <> predict_prov (fresh_of KI keqbI s 777 888).
Proof.
  exists [Predict; SecondLinker [LPlain "inp_b"] ["first_name"; "surname"] 0].
  split; [vm_compute; reflexivity|]. cbv zeta. intros H. vm_compute in H. discriminate H.
Qed.
Print Assumptions C07_predict_equals_fresh_refuted_two_linkers.

(* input rows changed WITHOUT invalidate_cache: stale by design (the property requires the call) *)
Theorem C07_input_change_without_invalidate_refuted :
  exists ops, hist_ok KI keqbI hashI (s0 repaired) ops = false /\
    let s := run KI keqbI hashI (s0 repaired) ops in
    predict_prov s <> predict_prov (fresh_of KI keqbI s 777 888).
Proof.
  exists [Predict; ChangeInput 1]. split; [vm_compute; reflexivity|]. cbv zeta. intros H. vm_compute in H. discriminate H.
Qed.
Print Assumptions C07_input_change_without_invalidate_refuted.

(* the fallback becomes reachable - and returns stale rows - as soon as a cleanup leaves a result table behind:
   MODEL VARIANT [InvalidateKeepingResults] = an invalidate_cache that clears the cache but keeps the
   __splink__df_predict tables (the DatabaseAPI._cache_uid that is hashed never changes, so after an in-place data
   change the same SQL hashes to the same name and table_exists_in_database finds the old table).  X replays the
   mechanism on the real code by forgetting the cache entry of df_predict before calling invalidate_cache. *)
Theorem C07_invalidate_reflects_new_data_refuted_when_results_are_retained :
  exists ops,
    let s := run KI keqbI hashI (s0 repaired) ops in
    amem KI keqbI (st_db KI s) (PH KI PREDICT (hashI (Cte PREDICT 0
       [Mat (Cte BLOCKED 0 [Mat (cwtf_tree KI keqbI (s0 repaired))]); Mat (cwtf_tree KI keqbI (s0 repaired))]) 5)) = true /\
    aget KI keqbI (st_cache KI s) (PH KI PREDICT (hashI (Cte PREDICT 0
       [Mat (Cte BLOCKED 0 [Mat (cwtf_tree KI keqbI (s0 repaired))]); Mat (cwtf_tree KI keqbI (s0 repaired))]) 5)) = None /\
    predict_prov s <> predict_prov (fresh_of KI keqbI s 777 888).
Proof.
  exists [Predict; ChangeInput 1; InvalidateKeepingResults].
  cbv zeta. split; [vm_compute; reflexivity|split; [vm_compute; reflexivity|]]. intros H. vm_compute in H. discriminate H.
Qed.
Print Assumptions C07_invalidate_reflects_new_data_refuted_when_results_are_retained.

(* 7.18: register_term_frequency_lookup(..., overwrite=True) over an existing lookup keeps the physical name, so the SQL
   of every derived table is textually unchanged: on the unrepaired tree the old __splink__df_predict is served *)
Theorem C07_predict_equals_fresh_refuted_lookup_overwrite :
  exists ops,
    let fx := {| fx77 := true; fx716 := true; fx715 := true; fx718 := false; fxba := false; fxco := false |} in
    let s := run KI keqbI hashI (s0 fx) ops in
    predict_prov s <> predict_prov (fresh_of KI keqbI s 777 888).
Proof.
  exists [RegisterTF "first_name" 1; Predict; RegisterTFOverwrite "first_name" 2].
  cbv zeta. intros H. vm_compute in H. discriminate H.
Qed.
Print Assumptions C07_predict_equals_fresh_refuted_lookup_overwrite.
Example C07_lookup_overwrite_repaired :
  let s := run KI keqbI hashI (s0 repaired) [RegisterTF "first_name" 1; Predict; RegisterTFOverwrite "first_name" 2] in
  predict_prov s = predict_prov (fresh_of KI keqbI s 777 888).
Proof. vm_compute. reflexivity. Qed.

(* each key ingredient is necessary: without it a well-formed sequence gets another call's SQL *)
(* (c) DESIGN 7.8: the flag is not in the key *)
Theorem C07_realtime_cache_transparent_refuted_without_flag_in_key :
  exists evs, rt_wf ([], []) evs = true /\
    ~ Forall2 rt_out_ok evs (rt_run {| rp_flag_in_key := false; rp_configured_in_key := true; rp_liveness_called := true; rp_content_in_key := true |} ([], []) evs).
Proof.
  exists [RtCall (RObj 7 1 3) true false; RtCall (RObj 7 1 3) true true].
  split; [reflexivity|]. intros H. apply rt_all_okb_of_Forall2 in H. vm_compute in H. discriminate H.
Qed.
(* two settings dicts holding creator objects that differ only in ComparisonCreator.configure(...) share an entry *)
Theorem C07_realtime_cache_transparent_refuted_without_configure_values_in_key :
  exists evs, rt_wf ([], []) evs = true /\
    ~ Forall2 rt_out_ok evs (rt_run {| rp_flag_in_key := true; rp_configured_in_key := false; rp_liveness_called := true; rp_content_in_key := true |} ([], []) evs).
Proof.
  exists [RtCall (RDict 4 1) true false; RtCall (RDict 4 2) true false].
  split; [reflexivity|]. intros H. apply rt_all_okb_of_Forall2 in H. vm_compute in H. discriminate H.
Qed.
(* the weak reference is not called: the entry of a collected SettingsCreator is served to a new object at its address *)
Theorem C07_realtime_cache_transparent_refuted_without_liveness_call :
  exists evs, rt_wf ([], []) evs = true /\
    ~ Forall2 rt_out_ok evs (rt_run {| rp_flag_in_key := true; rp_configured_in_key := true; rp_liveness_called := false; rp_content_in_key := false |} ([], []) evs).
Proof.
  exists [RtCall (RObj 7 1 3) true false; RtDel 1; RtCall (RObj 7 2 5) true false].
  split; [reflexivity|]. intros H. apply rt_all_okb_of_Forall2 in H. vm_compute in H. discriminate H.
Qed.
Print Assumptions C07_realtime_cache_transparent_refuted_without_configure_values_in_key.
Print Assumptions C07_realtime_cache_transparent_refuted_without_liveness_call.
(* non-vacuity of rt_wf: address reuse after collection is well-formed, reuse while alive is not *)
Example C07_rt_wf_examples :
  rt_wf ([], []) [RtCall (RObj 7 1 3) true false; RtDel 1; RtCall (RObj 7 2 5) true true; RtCall (RDict 4 1) true false] = true /\
  rt_wf ([], []) [RtCall (RObj 7 1 3) true false; RtCall (RObj 7 2 5) true false] = false.
Proof. split; reflexivity. Qed.
Print Assumptions C07_realtime_cache_transparent_refuted_without_flag_in_key.

(* ------------------------------------------------------------------ non-vacuity *)
(* the hypotheses are satisfiable: the pair instance has a correct equality and an injective hash *)
Example C07_instance_hypotheses :
  (forall a b, keqbI a b = true <-> a = b) /\ (forall t u t' u', hashI t u = hashI t' u' -> t = t' /\ u = u').
Proof. split; [apply keqbI_spec | apply hashI_inj]. Qed.

(* a non-trivial guarded history (training, tf tables, lookups, new records, clustering, input change) *)
Definition example_history : list op :=
  [Predict; ComputeTF "first_name"; EstimateU 1 1; Predict; EstimateEM 0 2; FindMatches; CompareTwo true;
   Cluster 0; AccuracyColumn; ErrorsColumn; EstimateMColumn 3; AccuracyTable; Unlinkables; GraphMetrics 0; ClusterMulti;
   Profile; BlockingCumulative; ChangeInputInvalidate 1; RegisterTF "surname" 2; AccuracyColumn; Predict;
   DeterministicLink; Predict].
Example C07_example_guard : hist_ok KI keqbI hashI (s0 repaired) example_history = true.
Proof. vm_compute. reflexivity. Qed.
Example C07_example_has_cache_hits :
  let s := run KI keqbI hashI (s0 repaired) example_history in
  List.length (st_cache KI s) = 9 /\
  obs KI keqbI (run KI keqbI hashI (init_state KI [LPlain "inp"] 1 ["first_name"; "surname"] 3 70 71 repaired)
                    (registrations [("surname", 2)])) = obs KI keqbI s.
Proof. split; vm_compute; reflexivity. Qed.
(* so C07_predict_equals_fresh applies to it; the conclusion, recomputed: *)
Example C07_example_conclusion :
  let s := run KI keqbI hashI (s0 repaired) example_history in
  predict_prov s = predict_prov (run KI keqbI hashI (init_state KI [LPlain "inp"] 1 ["first_name"; "surname"] 3 70 71 repaired)
                                     (registrations [("surname", 2)])).
Proof.
  apply (C07_predict_equals_fresh KI keqbI hashI keqbI_spec hashI_inj [LPlain "inp"] 0 ["first_name"; "surname"] 0 5 6 repaired
           example_history 1 70 71 [("surname", 2)]).
  - intros l [<-|[]]. eauto.
  - vm_compute. reflexivity.
  - vm_compute. reflexivity.
Qed.
