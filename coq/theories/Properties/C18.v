(* C18  Splink never damages data it did not create and can clean up after itself.
   Statements only; proofs in Proofs/CatalogP.v (on top of Proofs/CacheP.v), model in
   Model/Catalog.v (extends Model/Cache.v).

   A history is a list of catalog operations [cop]: every public Linker operation of C07 ([COp]),
   register_table, register_multiple_tables / Linker(...) over mixed lists of table names and data frames
   ([CRegisterMultiple]), the register_* entry points called with the NAME of an existing table ([CRegisterByName]: the
   cache slot __splink__df_concat_with_tf / __splink__df_predict / __splink__df_tf_<col> then points at a
   user-owned table; [CHandleByName]: a frame for an existing table), dropping a named table through a
   SplinkDataFrame, realtime compare_records.
   [cop_safe K fx] is the guard of the theorems: the caller never passes overwrite=True / force (for
   [CRegisterMultiple] also: the aliases of one call are pairwise different up to letter case), does not
   itself change its input rows, debug mode is off, and the realtime cached-SQL path is used only on the
   repaired tree (fx715 fx = true, fix b2f0593c) - debug mode and the unrepaired cached path are the refuted
   finding classes below. *)
From Coq Require Import List Bool Arith String.
From Splinkv Require Import Model.Cache Model.Catalog Proofs.CacheP Proofs.CatalogP.
Import ListNotations.
Open Scope string_scope.
Open Scope list_scope.

Section C18.
  Variable K : Type.
  Variable keqb : K -> K -> bool.
  Variable hash : sqlt -> nat -> K.
  Hypothesis keqb_spec : forall a b, keqb a b = true <-> a = b.
  Hypothesis hash_inj : forall t u t' u', hash t u = hash t' u' -> t = t' /\ u = u'.

  (* every table or view that existed before Splink was attached (input tables and any other user
     object, whatever its name) keeps its catalog entry - name, content, origin - through EVERY
     safe history of any length *)
  Theorem C18_user_tables_untouched :
    forall inputs ver others tfcols params uid luid fx cs,
      forallb (cop_safe K fx) cs = true ->
      let s0 := cinit K inputs ver others tfcols params uid luid fx in
      forall l e, aget K keqb (st_db K s0) (PL K l) = Some e ->
                  aget K keqb (st_db K (crun K keqb hash s0 cs)) (PL K l) = Some e.
  Proof. intros. eapply user_tables_untouched; eauto. Qed.

  (* ... and so does every table the caller registers on the way (lookups, new records, register_table) *)
  Theorem C18_registered_tables_untouched :
    forall inputs ver others tfcols params uid luid fx cs1 cs2,
      forallb (cop_safe K fx) (cs1 ++ cs2) = true ->
      let s0 := cinit K inputs ver others tfcols params uid luid fx in
      forall l e, aget K keqb (st_db K (crun K keqb hash s0 cs1)) (PL K l) = Some e ->
                  aget K keqb (st_db K (crun K keqb hash s0 (cs1 ++ cs2))) (PL K l) = Some e.
  Proof. intros. eapply registered_tables_untouched; eauto. Qed.

  (* registering under an existing name without overwrite is refused: nothing changes, in ANY state *)
  Theorem C18_register_refused :
    forall s name ver, amem K keqb (st_db K s) (PL K (LPlain name)) = true ->
      cstep K keqb hash s (CRegisterTable K name false ver) = (s, [Refused name]).
  Proof. intros. apply register_refused; auto. Qed.

  (* ... also when the requested name differs from an existing object only in letter case: DuckDB and SQLite resolve
     table names case-insensitively, so `People` would shadow / replace the user's `people` *)
  Theorem C18_register_refused_case_insensitive :
    forall s existing name ver,
      amem K keqb (st_db K s) (PL K (LPlain existing)) = true -> ci_eqb existing name = true ->
      cstep K keqb hash s (CRegisterTable K name false ver) = (s, [Refused name]).
  Proof. intros. eapply register_refused_ci; eauto. Qed.

  (* register_multiple_tables over MIXED inputs (tables given by name and data frames, any order, any lengths): item i and
     alias i belong together.  (1) a frame whose alias names an existing object - up to letter case - makes the whole call
     fail without any change, in ANY state, wherever the frame stands in the list ... *)
  Theorem C18_register_multiple_refused :
    forall s items aliases ver a existing,
      In (RFrame ver, a) (combine items aliases) ->
      amem K keqb (st_db K s) (PL K (LPlain existing)) = true -> ci_eqb existing a = true ->
      exists evs, cstep K keqb hash s (CRegisterMultiple K items aliases false) = (s, evs) /\ In (Refused a) evs.
  Proof. intros. eapply register_multiple_refused; eauto. Qed.

  (* ... (2) and, WHATEVER the overwrite flag (Linker(...) without aliases passes overwrite=True), every named entry whose
     name is not the alias of a FRAME item keeps name, content and origin: the alias of a by-name item is only a label, no
     table of that name is dropped or replaced *)
  Theorem C18_register_multiple_touches_frame_aliases_only :
    forall s items aliases ow l e,
      aget K keqb (st_db K s) (PL K l) = Some e ->
      (forall ver a, In (RFrame ver, a) (combine items aliases) -> same_name K a (PL K l) = false) ->
      aget K keqb (st_db K (fst (cstep K keqb hash s (CRegisterMultiple K items aliases ow)))) (PL K l) = Some e.
  Proof. intros. eapply register_multiple_touches_frame_aliases_only; eauto. Qed.

  (* register_table(frame, name, overwrite) is the one-frame instance *)
  Theorem C18_register_table_is_singleton_register_multiple :
    forall s name ow ver,
      cstep K keqb hash s (CRegisterTable K name ow ver) = cstep K keqb hash s (CRegisterMultiple K [RFrame ver] [name] ow).
  Proof. intros. apply register_table_is_singleton; auto. Qed.

  (* dropping through Splink a table Splink did not create is refused: [CDropTable name false] builds the frame
     table_to_splink_dataframe(name, name) (created_by_splink = False) and goes through [drop_handle], whose check of that
     flag refuses; conjunct 2 is the check itself, for any frame.  These two are one-step facts about the guard; the
     history-level content is C18_only_splink_tables_are_droppable / C18_drop_frame_spares_foreign_tables below *)
  Theorem C18_drop_refused :
    forall s, (forall name, cstep K keqb hash s (CDropTable K name false) = (s, [Refused name])) /\
              (forall h, h_cbs K h = false -> drop_handle K keqb s h = (s, [Refused (pbase K (h_phys K h))])).
  Proof. intros. split; [intros; apply drop_refused | intros; apply drop_handle_refused; auto]. Qed.

  (* the invariant behind that guard: after any safe history, every frame Splink is willing to drop (created_by_splink =
     True) points at a hashed table of Splink origin - never at a user's or caller's table ... *)
  Theorem C18_only_splink_tables_are_droppable :
    forall inputs ver others tfcols params uid luid fx cs,
      forallb (cop_safe K fx) cs = true ->
      let s := crun K keqb hash (cinit K inputs ver others tfcols params uid luid fx) cs in
      forall key h, aget K keqb (st_cache K s) key = Some h -> h_cbs K h = true ->
        is_hashed K (h_phys K h) = true /\
        forall e, aget K keqb (st_db K s) (h_phys K h) = Some e -> e_origin e = Splink.
  Proof. intros. eapply only_splink_tables_are_droppable; eauto. Qed.

  (* ... so drop_table_from_database_and_remove_from_cache() on ANY frame Splink cached leaves every entry that is not of
     Splink origin exactly as it was *)
  Theorem C18_drop_frame_spares_foreign_tables :
    forall inputs ver others tfcols params uid luid fx cs key,
      forallb (cop_safe K fx) cs = true ->
      let s := crun K keqb hash (cinit K inputs ver others tfcols params uid luid fx) cs in
      forall p e, aget K keqb (st_db K s) p = Some e -> e_origin e <> Splink ->
                  aget K keqb (st_db K (fst (cstep K keqb hash s (CDropFrame K key)))) p = Some e.
  Proof. intros. eapply drop_frame_spares_foreign_tables; eauto. Qed.

  (* a table Splink reports as dropped is gone *)
  Theorem C18_dropped_is_gone :
    forall s h, h_cbs K h = true -> amem K keqb (st_db K (fst (drop_handle K keqb s h))) (h_phys K h) = false.
  Proof. intros. apply dropped_is_gone; auto. Qed.

  (* after delete_tables_created_by_splink_from_db / invalidate_cache, following ANY safe history, no
     table of Splink origin is left, no hashed name is left, and every other entry is exactly as before *)
  Theorem C18_cleanup_exact :
    forall inputs ver others tfcols params uid luid fx cs,
      forallb (cop_safe K fx) cs = true ->
      let s := crun K keqb hash (cinit K inputs ver others tfcols params uid luid fx) cs in
      forall c, c = COp K DeleteTables \/ c = COp K InvalidateCache ->
        let s' := fst (cstep K keqb hash s c) in
        no_splink K keqb s' /\
        (forall l, aget K keqb (st_db K s') (PL K l) = aget K keqb (st_db K s) (PL K l)) /\
        (forall n k, amem K keqb (st_db K s') (PH K n k) = false).
  Proof. intros. eapply cleanup_exact; eauto. Qed.
End C18.
Print Assumptions C18_user_tables_untouched.
Print Assumptions C18_registered_tables_untouched.
Print Assumptions C18_register_refused.
Print Assumptions C18_register_refused_case_insensitive.
Print Assumptions C18_register_multiple_refused.
Print Assumptions C18_register_multiple_touches_frame_aliases_only.
Print Assumptions C18_register_table_is_singleton_register_multiple.
Print Assumptions C18_drop_refused.
Print Assumptions C18_only_splink_tables_are_droppable.
Print Assumptions C18_drop_frame_spares_foreign_tables.
Print Assumptions C18_dropped_is_gone.
Print Assumptions C18_cleanup_exact.

(* ------------------------------------------------------------------ refuted on the model (pair instance) *)
Definition fxs (b : bool) : fixes := {| fx77 := true; fx716 := true; fx715 := b; fx718 := true; fxba := true; fxco := true |}.
Definition c0 (b : bool) : state KI :=
  cinit KI ["inp"] 0 [("customers", 0); ("blocked_with_cols", 0); ("r", 0)] ["first_name"; "surname"] 0 5 6 (fxs b).

(* NAMESPACES (trusted, not proved).  User objects are modelled as [PL (LPlain name)], Splink's derived tables as
   [PH templ (hash sql uid)]: distinct constructors, so a user table can look like a Splink name ("__splink__df_predict",
   "__splink__df_concat_with_tf_0a1b2c3d4" are plain names in the model and in X) but can never BE the physical name
   templ_<sha256(sql+uid)[:9]> that Splink computes later.  That a user object does not carry exactly such a name
   (one chance in 16^9 per derived table, and the uid is drawn after the database exists) is an assumption of
   C18_user_tables_untouched, stated here and in meta/C18.json; it is not a theorem.  What the model says if it is
   violated (a User-origin entry under a hashed key) is shown by the next two examples: a cached pipeline returns the
   user's table instead of computing (table_exists_in_database fallback, the table is NOT damaged), an uncached
   pipeline (use_cache=False) does DROP TABLE IF EXISTS + CREATE and replaces it. *)
Definition predict_tree0 : sqlt :=
  Cte PREDICT 0 [Mat (Cte BLOCKED 0 [Mat (cwtf_tree KI keqbI (c0 true))]); Mat (cwtf_tree KI keqbI (c0 true))].
Definition c0_collision : state KI :=
  set_db KI (c0 true) (aset KI keqbI (st_db KI (c0 true)) (PH KI PREDICT (hashI predict_tree0 5))
                            {| e_prov := PInput "user_table_named_like_the_hash" 0; e_origin := User |}).
Example C18_hashed_name_collision_cached_pipeline_reads_user_table :
  let s := crun KI keqbI hashI c0_collision [COp KI Predict] in
  aget KI keqbI (st_db KI s) (PH KI PREDICT (hashI predict_tree0 5))
  = Some {| e_prov := PInput "user_table_named_like_the_hash" 0; e_origin := User |}.
Proof. vm_compute. reflexivity. Qed.


(* DESIGN 7.11: in debug mode every CTE becomes a physical table under its templated name and the cache is
   cleared after each pipeline, so the tables survive the cleanup call (confirmed on the real code) *)
Theorem C18_cleanup_exact_refuted_debug_leak :
  exists cs, let s := crun KI keqbI hashI (c0 true) (cs ++ [COp KI DeleteTables]) in
             7 <= List.length (splink_tables KI s).
Proof. exists [COp KI (SetDebug true); COp KI Predict]. vm_compute. repeat constructor. Qed.
Print Assumptions C18_cleanup_exact_refuted_debug_leak.

(* ... and CTE names without the __splink__ prefix become physical names: the user's table
   blocked_with_cols is dropped and replaced by predict() *)
Theorem C18_user_tables_untouched_refuted_debug_clobber :
  exists cs l e, aget KI keqbI (st_db KI (c0 true)) (PL KI l) = Some e /\
                 aget KI keqbI (st_db KI (crun KI keqbI hashI (c0 true) cs)) (PL KI l) <> Some e.
Proof.
  exists [COp KI (SetDebug true); COp KI Predict], (LPlain "blocked_with_cols"),
         {| e_prov := PInput "blocked_with_cols" 0; e_origin := User |}.
  split; [vm_compute; reflexivity|]. intros H. vm_compute in H. discriminate H.
Qed.
Print Assumptions C18_user_tables_untouched_refuted_debug_clobber.

(* DESIGN 7.15: the realtime cached-SQL path creates its result table untracked (unrepaired tree) *)
Theorem C18_cleanup_exact_refuted_realtime_cached_path :
  exists cs, let s := crun KI keqbI hashI (c0 false) (cs ++ [COp KI DeleteTables]) in
             splink_tables KI s <> [].
Proof. exists [CRealtime KI false; CRealtime KI true]. cbv zeta. intros H. vm_compute in H. discriminate H. Qed.
Print Assumptions C18_cleanup_exact_refuted_realtime_cached_path.
(* with the table tracked (repaired tree) the same history is inside the guard, so C18_cleanup_exact applies *)
Example C18_realtime_cached_path_guard :
  forallb (cop_safe KI (fxs true)) [CRealtime KI false; CRealtime KI true] = true /\
  forallb (cop_safe KI (fxs false)) [CRealtime KI false; CRealtime KI true] = false.
Proof. split; reflexivity. Qed.
Example C18_realtime_cached_path_repaired :
  splink_tables KI (crun KI keqbI hashI (c0 true) [CRealtime KI false; CRealtime KI true; COp KI DeleteTables]) = [].
Proof. vm_compute. reflexivity. Qed.

(* overwrite=True and force are the caller's explicit requests to destroy a table: outside the guard *)
Example C18_overwrite_replaces :
  aget KI keqbI (st_db KI (crun KI keqbI hashI (c0 true) [CRegisterTable KI "customers" true 9])) (PL KI (LPlain "customers"))
  = Some {| e_prov := PInput "customers" 9; e_origin := Caller |}.
Proof. vm_compute. reflexivity. Qed.

(* a cache slot that points at the user's own table: every operation that drops cache entries leaves the table alone
   (the created_by_splink guards of _drop_stale_df_concat_with_tf, delete_tables_created_by_splink_from_db,
   drop_table_from_database_and_remove_from_cache); instance of C18_user_tables_untouched *)
Example C18_slot_pointing_at_user_table :
  let cs := [CRegisterByName KI SlotCwtf "customers"; COp KI Predict; COp KI (RegisterTF "first_name" 1);
             CRegisterByName KI (SlotTf "surname") "r"; CRegisterByName KI SlotPredict "customers"; COp KI (Cluster 0);
             CDropTable KI "customers" false; COp KI DeleteTables; COp KI InvalidateCache] in
  forallb (cop_safe KI (fxs true)) cs = true /\
  aget KI keqbI (st_db KI (crun KI keqbI hashI (c0 true) cs)) (PL KI (LPlain "customers"))
  = Some {| e_prov := PInput "customers" 0; e_origin := User |}.
Proof. split; vm_compute; reflexivity. Qed.
Example C18_case_insensitive_names :
  ci_eqb "people" "PEOPLE" = true /\ ci_eqb "Customer_View" "customer_view" = true /\ ci_eqb "people" "peoples" = false /\
  fst (cstep KI keqbI hashI (c0 true) (CRegisterTable KI "CUSTOMERS" false 3)) = c0 true.
Proof. repeat split; vm_compute; reflexivity. Qed.

(* register_multiple_tables over a table given by NAME followed by a frame (Linker(["people_in_db", df_new], ...)): the clash
   check looks at the FRAME's alias ("r" exists -> refused, nothing changes); with free aliases the call is inside the guard
   and only the frame is registered; with overwrite=True the by-name table's own name used as its alias is NOT dropped
   (instance of C18_register_multiple_touches_frame_aliases_only) *)
Example C18_register_multiple_mixed :
  cstep KI keqbI hashI (c0 true) (CRegisterMultiple KI [RByName "customers"; RFrame 3] ["census"; "R"] false)
    = (c0 true, [Refused "R"]) /\
  (let cs := [CRegisterMultiple KI [RByName "customers"; RFrame 3] ["customers"; "new_records"] false] in
   forallb (cop_safe KI (fxs true)) cs = true /\
   aget KI keqbI (st_db KI (crun KI keqbI hashI (c0 true) cs)) (PL KI (LPlain "new_records"))
     = Some {| e_prov := PInput "new_records" 3; e_origin := Caller |} /\
   aget KI keqbI (st_db KI (crun KI keqbI hashI (c0 true) cs)) (PL KI (LPlain "customers"))
     = Some {| e_prov := PInput "customers" 0; e_origin := User |}) /\
  aget KI keqbI (st_db KI (crun KI keqbI hashI (c0 true)
      [CRegisterMultiple KI [RByName "customers"; RFrame 3] ["customers"; "scratch"] true])) (PL KI (LPlain "customers"))
    = Some {| e_prov := PInput "customers" 0; e_origin := User |}.
Proof. vm_compute. repeat split; reflexivity. Qed.
(* outside the guard (overwrite=True): Linker(frame) WITHOUT aliases registers under __splink__input_table_0 with
   overwrite=True - a user table of exactly that name at a FRAME position is dropped and replaced (the model follows the
   code; X keeps such a table only at by-name positions) *)
Example C18_linker_default_alias_overwrites :
  let s0 := cinit KI ["inp"] 0 [("__splink__input_table_0", 0)] [] 0 5 6 (fxs true) in
  aget KI keqbI (st_db KI (crun KI keqbI hashI s0 [CRegisterMultiple KI [RFrame 1] ["__splink__input_table_0"] true]))
       (PL KI (LPlain "__splink__input_table_0"))
    = Some {| e_prov := PInput "__splink__input_table_0" 1; e_origin := Caller |} /\
  aget KI keqbI (st_db KI (crun KI keqbI hashI s0
         [CRegisterMultiple KI [RByName "inp"; RFrame 1] ["__splink__input_table_0"; "__splink__input_table_1"] true]))
       (PL KI (LPlain "__splink__input_table_0"))
    = Some {| e_prov := PInput "__splink__input_table_0" 0; e_origin := User |}.
Proof. vm_compute. split; reflexivity. Qed.

(* ------------------------------------------------------------------ non-vacuity *)
Definition example_catalog_history : list (cop KI) :=
  [COp KI Predict; CRegisterTable KI "caller_t1" false 1; CRegisterTable KI "customers" false 2; CDropTable KI "r" false;
   COp KI (RegisterTF "first_name" 1); COp KI FindMatches; COp KI (CompareTwo false); CRealtime KI false; CRealtime KI true; COp KI (Cluster 0);
   COp KI AccuracyColumn; COp KI (EstimateMColumn 5); COp KI (GraphMetrics 0); COp KI Unlinkables;
   COp KI (EstimateU 1 1); COp KI (EstimateEM 0 2); COp KI DeleteTables; COp KI Predict; COp KI InvalidateCache].
Example C18_example_guard : forallb (cop_safe KI (fxs true)) example_catalog_history = true.
Proof. vm_compute. reflexivity. Qed.
(* the history creates Splink tables (so the cleanup theorems are not about an empty catalog) *)
Example C18_example_creates_tables :
  List.length (splink_tables KI (crun KI keqbI hashI (c0 true) (firstn 11 example_catalog_history))) = 10.
Proof. vm_compute. reflexivity. Qed.
Example C18_example_cleanup :
  let s := crun KI keqbI hashI (c0 true) example_catalog_history in
  splink_tables KI s = [] /\
  aget KI keqbI (st_db KI s) (PL KI (LPlain "customers")) = Some {| e_prov := PInput "customers" 0; e_origin := User |} /\
  aget KI keqbI (st_db KI s) (PL KI (LPlain "caller_t1")) = Some {| e_prov := PInput "caller_t1" 1; e_origin := Caller |}.
Proof. vm_compute. repeat split; reflexivity. Qed.
