(* C18  Splink never damages data it did not create and can clean up after itself.
   Statements only; proofs in Proofs/CatalogP.v (on top of Proofs/CacheP.v), model in
   Model/Catalog.v (extends Model/Cache.v).

   A history is a list of catalog operations [cop]: every public Linker operation of C07 ([COp]),
   register_table, the register_* entry points called with the NAME of an existing table ([CRegisterByName]: the
   cache slot __splink__df_concat_with_tf / __splink__df_predict / __splink__df_tf_<col> then points at a
   user-owned table; [CHandleByName]: a frame for an existing table), dropping a named table through a
   SplinkDataFrame, realtime compare_records.
   [cop_safe fx] is the guard of the theorems: the caller never passes overwrite=True / force, does not
   itself change its input rows, debug mode is off, and the realtime cached-SQL path is used only on the
   repaired tree (fx715 fx = true, fix b2f0593c) - debug mode and the unrepaired cached path are the refuted
   finding classes below. *)
From Coq Require Import List Bool Arith String.
From Splinkv Require Import Model.Cache Model.Catalog Proofs.CacheP Proofs.CatalogP.
Import ListNotations.
Open Scope string_scope.
Open Scope list_scope.

Section C18.
  Variable K : Type.
  Variable keqb : K -> K -> bool.
  Variable hash : sqlt -> nat -> K.
  Hypothesis keqb_spec : forall a b, keqb a b = true <-> a = b.
  Hypothesis hash_inj : forall t u t' u', hash t u = hash t' u' -> t = t' /\ u = u'.

  (* every table or view that existed before Splink was attached (input tables and any other user
     object, whatever its name) keeps its catalog entry - name, content, origin - through EVERY
     safe history of any length *)
  Theorem C18_user_tables_untouched :
    forall inputs ver others tfcols params uid luid fx cs,
      forallb (cop_safe fx) cs = true ->
      let s0 := cinit K inputs ver others tfcols params uid luid fx in
      forall l e, aget K keqb (st_db K s0) (PL K l) = Some e ->
                  aget K keqb (st_db K (crun K keqb hash s0 cs)) (PL K l) = Some e.
  Proof. intros. eapply user_tables_untouched; eauto. Qed.

  (* ... and so does every table the caller registers on the way (lookups, new records, register_table) *)
  Theorem C18_registered_tables_untouched :
    forall inputs ver others tfcols params uid luid fx cs1 cs2,
      forallb (cop_safe fx) (cs1 ++ cs2) = true ->
      let s0 := cinit K inputs ver others tfcols params uid luid fx in
      forall l e, aget K keqb (st_db K (crun K keqb hash s0 cs1)) (PL K l) = Some e ->
                  aget K keqb (st_db K (crun K keqb hash s0 (cs1 ++ cs2))) (PL K l) = Some e.
  Proof. intros. eapply registered_tables_untouched; eauto. Qed.

  (* registering under an existing name without overwrite is refused: nothing changes, in ANY state *)
  Theorem C18_register_refused :
    forall s name ver, amem K keqb (st_db K s) (PL K (LPlain name)) = true ->
      cstep K keqb hash s (CRegisterTable name false ver) = (s, [Refused name]).
  Proof. intros. apply register_refused; auto. Qed.

  (* ... also when the requested name differs from an existing object only in letter case: DuckDB and SQLite resolve
     table names case-insensitively, so `People` would shadow / replace the user's `people` *)
  Theorem C18_register_refused_case_insensitive :
    forall s existing name ver,
      amem K keqb (st_db K s) (PL K (LPlain existing)) = true -> ci_eqb existing name = true ->
      cstep K keqb hash s (CRegisterTable name false ver) = (s, [Refused name]).
  Proof. intros. eapply register_refused_ci; eauto. Qed.

  (* dropping through Splink a table Splink did not create is refused (created_by_splink guard) *)
  Theorem C18_drop_refused :
    forall s, (forall name, cstep K keqb hash s (CDropTable name false) = (s, [Refused name])) /\
              (forall h, h_cbs K h = false -> drop_handle K keqb s h = (s, [Refused (pbase K (h_phys K h))])).
  Proof. intros. split; [intros; apply drop_refused | intros; apply drop_handle_refused; auto]. Qed.

  (* a table Splink reports as dropped is gone *)
  Theorem C18_dropped_is_gone :
    forall s h, h_cbs K h = true -> amem K keqb (st_db K (fst (drop_handle K keqb s h))) (h_phys K h) = false.
  Proof. intros. apply dropped_is_gone; auto. Qed.

  (* after delete_tables_created_by_splink_from_db / invalidate_cache, following ANY safe history, no
     table of Splink origin is left, no hashed name is left, and every other entry is exactly as before *)
  Theorem C18_cleanup_exact :
    forall inputs ver others tfcols params uid luid fx cs,
      forallb (cop_safe fx) cs = true ->
      let s := crun K keqb hash (cinit K inputs ver others tfcols params uid luid fx) cs in
      forall c, c = COp DeleteTables \/ c = COp InvalidateCache ->
        let s' := fst (cstep K keqb hash s c) in
        no_splink K keqb s' /\
        (forall l, aget K keqb (st_db K s') (PL K l) = aget K keqb (st_db K s) (PL K l)) /\
        (forall n k, amem K keqb (st_db K s') (PH K n k) = false).
  Proof. intros. eapply cleanup_exact; eauto. Qed.
End C18.
Print Assumptions C18_user_tables_untouched.
Print Assumptions C18_registered_tables_untouched.
Print Assumptions C18_register_refused.
Print Assumptions C18_register_refused_case_insensitive.
Print Assumptions C18_drop_refused.
Print Assumptions C18_dropped_is_gone.
Print Assumptions C18_cleanup_exact.

(* ------------------------------------------------------------------ refuted on the model (pair instance) *)
Definition fxs (b : bool) : fixes := {| fx77 := true; fx716 := true; fx715 := b; fx718 := true; fxba := true |}.
Definition c0 (b : bool) : state KI :=
  cinit KI ["inp"] 0 [("customers", 0); ("blocked_with_cols", 0); ("r", 0)] ["first_name"; "surname"] 0 5 6 (fxs b).

(* DESIGN 7.11: in debug mode every CTE becomes a physical table under its templated name and the cache is
   cleared after each pipeline, so the tables survive the cleanup call (confirmed on the real code) *)
Theorem C18_cleanup_exact_refuted_debug_leak :
  exists cs, let s := crun KI keqbI hashI (c0 true) (cs ++ [COp DeleteTables]) in
             7 <= List.length (splink_tables KI s).
Proof. exists [COp (SetDebug true); COp Predict]. vm_compute. repeat constructor. Qed.
Print Assumptions C18_cleanup_exact_refuted_debug_leak.

(* ... and CTE names without the __splink__ prefix become physical names: the user's table
   blocked_with_cols is dropped and replaced by predict() *)
Theorem C18_user_tables_untouched_refuted_debug_clobber :
  exists cs l e, aget KI keqbI (st_db KI (c0 true)) (PL KI l) = Some e /\
                 aget KI keqbI (st_db KI (crun KI keqbI hashI (c0 true) cs)) (PL KI l) <> Some e.
Proof.
  exists [COp (SetDebug true); COp Predict], (LPlain "blocked_with_cols"),
         {| e_prov := PInput "blocked_with_cols" 0; e_origin := User |}.
  split; [vm_compute; reflexivity|]. intros H. vm_compute in H. discriminate H.
Qed.
Print Assumptions C18_user_tables_untouched_refuted_debug_clobber.

(* DESIGN 7.15: the realtime cached-SQL path creates its result table untracked (unrepaired tree) *)
Theorem C18_cleanup_exact_refuted_realtime_cached_path :
  exists cs, let s := crun KI keqbI hashI (c0 false) (cs ++ [COp DeleteTables]) in
             splink_tables KI s <> [].
Proof. exists [CRealtime false; CRealtime true]. cbv zeta. intros H. vm_compute in H. discriminate H. Qed.
Print Assumptions C18_cleanup_exact_refuted_realtime_cached_path.
(* with the table tracked (repaired tree) the same history is inside the guard, so C18_cleanup_exact applies *)
Example C18_realtime_cached_path_guard :
  forallb (cop_safe (fxs true)) [CRealtime false; CRealtime true] = true /\
  forallb (cop_safe (fxs false)) [CRealtime false; CRealtime true] = false.
Proof. split; reflexivity. Qed.
Example C18_realtime_cached_path_repaired :
  splink_tables KI (crun KI keqbI hashI (c0 true) [CRealtime false; CRealtime true; COp DeleteTables]) = [].
Proof. vm_compute. reflexivity. Qed.

(* overwrite=True and force are the caller's explicit requests to destroy a table: outside the guard *)
Example C18_overwrite_replaces :
  aget KI keqbI (st_db KI (crun KI keqbI hashI (c0 true) [CRegisterTable "customers" true 9])) (PL KI (LPlain "customers"))
  = Some {| e_prov := PInput "customers" 9; e_origin := Caller |}.
Proof. vm_compute. reflexivity. Qed.

(* a cache slot that points at the user's own table: every operation that drops cache entries leaves the table alone
   (the created_by_splink guards of _drop_stale_df_concat_with_tf, delete_tables_created_by_splink_from_db,
   drop_table_from_database_and_remove_from_cache); instance of C18_user_tables_untouched *)
Example C18_slot_pointing_at_user_table :
  let cs := [CRegisterByName SlotCwtf "customers"; COp Predict; COp (RegisterTF "first_name" 1);
             CRegisterByName (SlotTf "surname") "r"; CRegisterByName SlotPredict "customers"; COp (Cluster 0);
             CDropTable "customers" false; COp DeleteTables; COp InvalidateCache] in
  forallb (cop_safe (fxs true)) cs = true /\
  aget KI keqbI (st_db KI (crun KI keqbI hashI (c0 true) cs)) (PL KI (LPlain "customers"))
  = Some {| e_prov := PInput "customers" 0; e_origin := User |}.
Proof. split; vm_compute; reflexivity. Qed.
Example C18_case_insensitive_names :
  ci_eqb "people" "PEOPLE" = true /\ ci_eqb "Customer_View" "customer_view" = true /\ ci_eqb "people" "peoples" = false /\
  fst (cstep KI keqbI hashI (c0 true) (CRegisterTable "CUSTOMERS" false 3)) = c0 true.
Proof. repeat split; vm_compute; reflexivity. Qed.

(* ------------------------------------------------------------------ non-vacuity *)
Definition example_catalog_history : list cop :=
  [COp Predict; CRegisterTable "caller_t1" false 1; CRegisterTable "customers" false 2; CDropTable "r" false;
   COp (RegisterTF "first_name" 1); COp FindMatches; COp (CompareTwo false); CRealtime false; CRealtime true; COp (Cluster 0);
   COp AccuracyColumn; COp (EstimateMColumn 5); COp (GraphMetrics 0); COp Unlinkables;
   COp (EstimateU 1 1); COp (EstimateEM 0 2); COp DeleteTables; COp Predict; COp InvalidateCache].
Example C18_example_guard : forallb (cop_safe (fxs true)) example_catalog_history = true.
Proof. vm_compute. reflexivity. Qed.
(* the history creates Splink tables (so the cleanup theorems are not about an empty catalog) *)
Example C18_example_creates_tables :
  List.length (splink_tables KI (crun KI keqbI hashI (c0 true) (firstn 11 example_catalog_history))) = 10.
Proof. vm_compute. reflexivity. Qed.
Example C18_example_cleanup :
  let s := crun KI keqbI hashI (c0 true) example_catalog_history in
  splink_tables KI s = [] /\
  aget KI keqbI (st_db KI s) (PL KI (LPlain "customers")) = Some {| e_prov := PInput "customers" 0; e_origin := User |} /\
  aget KI keqbI (st_db KI s) (PL KI (LPlain "caller_t1")) = Some {| e_prov := PInput "caller_t1" 1; e_origin := Caller |}.
Proof. vm_compute. repeat split; reflexivity. Qed.
