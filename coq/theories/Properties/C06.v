(* C06  All executable backends compute the same linkage.
   Statements only; proofs in Proofs/BackendsP.v.  No theorem can speak about DuckDB, SQLite or
   Spark themselves: what is proved is (1) the step from "each backend agrees with one
   deterministic reference" (checked per run, inside Coq, on the exact rationals of the engines'
   floats) to "the backends agree with each other", with the composed tolerance, and (2) the
   soundness of the dialect-table checker evaluated on the table extracted from the source. *)
From Coq Require Import String Bool ZArith QArith Qabs List.
From Splinkv Require Import Base.TV Model.SqlExpr Model.Levels Model.Backends Proofs.BackendsP.
Import ListNotations.
Local Open Scope Q_scope.

(* two implementations that each refine one deterministic model within tolerance agree with each
   other within the composed tolerance (any input type, any model) *)
Theorem C06_agree_via_model :
  forall (X : Type) (model impl1 impl2 : X -> Q) (e1 e2 : Q) (x : X),
    Qabs (impl1 x - model x) <= e1 -> Qabs (impl2 x - model x) <= e2 ->
    Qabs (impl1 x - impl2 x) <= e1 + e2.
Proof. intros. now apply agree_via_model with (m := model x). Qed.
Print Assumptions C06_agree_via_model.

Theorem C06_agree_via_model_discrete :
  forall (X Y : Type) (model impl1 impl2 : X -> Y) (x : X),
    impl1 x = model x -> impl2 x = model x -> impl1 x = impl2 x.
Proof. exact agree_via_model_discrete. Qed.
Print Assumptions C06_agree_via_model_discrete.

(* what the per-run check `close tol ref x` (evaluated in Coq for every number of every backend
   against the DuckDB reference) gives for any two backends *)
Theorem C06_close_to_reference_agree :
  forall tol r a b, close tol r a = true -> close tol r b = true -> Qabs (a - b) <= 2 * tol * scale r.
Proof. exact close_two_backends. Qed.
Print Assumptions C06_close_to_reference_agree.

Theorem C06_all_close_spec :
  forall tol l, all_close tol l = true <-> Forall (fun rx => Qabs (snd rx - fst rx) <= tol * scale (fst rx)) l.
Proof. exact all_close_spec. Qed.
Print Assumptions C06_all_close_spec.

(* cluster labelings accepted by the per-run check induce the same partition *)
Theorem C06_same_partition_sound :
  forall a b, same_partition a b = true ->
    length a = length b /\
    forall i j xa xb ya yb,
      nth_error a i = Some xa -> nth_error b i = Some xb -> nth_error a j = Some ya -> nth_error b j = Some yb ->
      (xa = ya <-> xb = yb).
Proof. exact same_partition_sound. Qed.
Print Assumptions C06_same_partition_sound.

Theorem C06_rows_equal : forall a b, zrows_eqb a b = true <-> a = b.
Proof. exact zrows_eqb_eq. Qed.
Print Assumptions C06_rows_equal.

(* dialect table (Pattern A): accepted table => every emitted function name is registered in its
   backend, `>=` levels call a similarity and `<=` levels a distance *)
Theorem C06_dialect_table_ok :
  forall t, dialect_table_ok t = true ->
    forall d es e, In (d, es) t -> In e es ->
      f_registered e = true /\ (f_ge e = true -> f_kind e = Similarity) /\ (f_ge e = false -> f_kind e = Distance).
Proof. exact dialect_table_ok_sound. Qed.
Print Assumptions C06_dialect_table_ok.

(* why a distance under `>=` is a defect: the level is inverted *)
Theorem C06_distance_under_ge_inverts : forall s t : Q, Qle_bool t (1 - s) = Qle_bool s (1 - t).
Proof. exact distance_under_ge_inverts. Qed.
Print Assumptions C06_distance_under_ge_inverts.

(* SQL-level cross-dialect obligation: if the conditions two dialects emit for the same level creator are accepted by
   `same_modulo syn`, they have the same value on every record pair, under every interpretation of the named functions
   that gives each synonym the meaning of its canonical name *)
Theorem C06_same_modulo_sound :
  forall syn e1 e2, same_modulo syn e1 e2 = true ->
    forall P fenv env, (forall f args, fenv (canon syn f) args = fenv f args) ->
      eval P fenv env e1 = eval P fenv env e2.
Proof. exact same_modulo_sound. Qed.
Print Assumptions C06_same_modulo_sound.

(* which part of the synonym table is VERIFIED: for jaro_sim~jaro_similarity, jaro_winkler~jaro_winkler_similarity,
   size~array_length, array_intersect~list_intersect the executable meaning (`builtin`, Model/Levels.v) of the synonym IS the
   meaning of the canonical name, and that meaning is defined and non-NULL on some arguments (so this is not the default
   "unknown function -> NULL" on both sides).  unix_timestamp~epoch has no executable meaning in Coq: it is in
   `synonyms_x_only` and tied by the correspondence run only. *)
Theorem C06_synonyms_verified :
  (forall f args, builtin (canon synonyms_builtin f) args = builtin f args) /\
  (forall a b, In (a, b) synonyms_builtin -> exists args v, builtin a args = Some v /\ builtin b args = Some v /\ v <> VNull) /\
  synonyms = synonyms_builtin ++ synonyms_x_only.
Proof. split; [exact builtin_respects_synonyms|split; [exact synonyms_builtin_defined|reflexivity]]. Qed.
Print Assumptions C06_synonyms_verified.

(* ---- non-vacuity ---- *)
Local Open Scope string_scope.
Example C06_example_close :
  close (1 # 100000000) (7 # 2) ((7 # 2) + (1 # 1000000000000)) = true /\
  close (1 # 100000000) (7 # 2) ((7 # 2) + (1 # 1000)) = false /\
  same_partition [1; 1; 3; 4; 3]%Z [10; 10; 7; 9; 7]%Z = true /\
  same_partition [1; 1; 3; 4; 3]%Z [10; 10; 7; 7; 7]%Z = false.
Proof. vm_compute. auto. Qed.
(* the table of the tree before fix f2546301: jaro_winkler registered as a distance, jaro_sim not registered *)
Example C06_example_same_modulo :
  let l := fun f => ECmp CGe (EFn f [ECol true "name"; ECol false "name"]) (ELit (VNum (9 # 10))) in
  same_modulo synonyms (l "jaro_winkler_similarity") (EParen (l "jaro_winkler")) = true /\
  same_modulo synonyms (l "jaro_winkler_similarity") (l "jaro_sim") = false.
Proof. vm_compute. auto. Qed.
Example C06_example_table :
  let good := {| f_role := "jaro_winkler"; f_sqlname := "jaro_winkler"; f_ge := true; f_registered := true; f_kind := Similarity |} in
  let lev := {| f_role := "levenshtein"; f_sqlname := "levenshtein"; f_ge := false; f_registered := true; f_kind := Distance |} in
  let bad1 := {| f_role := "jaro_winkler"; f_sqlname := "jaro_winkler"; f_ge := true; f_registered := true; f_kind := Distance |} in
  let bad2 := {| f_role := "jaro"; f_sqlname := "jaro_sim"; f_ge := true; f_registered := false; f_kind := OtherKind |} in
  dialect_table_ok [("sqlite", [good; lev])] = true /\
  bad_entries [("sqlite", [lev; bad1; bad2])] = [("sqlite", "jaro_winkler"); ("sqlite", "jaro")].
Proof. vm_compute. auto. Qed.
