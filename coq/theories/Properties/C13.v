(* C13  Results are invariant under re-presentation of the same problem (model level).
   Column renaming is invisible at this level by construction: rules and level conditions are
   functions of records, not of names; the string-level handling of names is tied by X. *)
From Coq Require Import List Bool Arith Lia Permutation.
From Splinkv Require Import Base.TV Model.Blocking Proofs.BlockingP Model.Present Proofs.PresentP.
Import ListNotations.

Theorem C13_rule_reorder :
  forall (rec : Type) (adm : rec -> rec -> bool) (rules rules' : list (rec -> rec -> tv)) L R,
    Permutation rules rules' -> forall l r,
    In (l, r) (pairs_of (block adm rules L R)) <-> In (l, r) (pairs_of (block adm rules' L R)).
Proof. intros. apply rule_reorder_pairs; assumption. Qed.
Print Assumptions C13_rule_reorder.

Theorem C13_row_and_table_permutation :
  forall (rec : Type) (adm : rec -> rec -> bool) (rules : list (rec -> rec -> tv)) L R L' R',
    Permutation L L' -> Permutation R R' -> forall n l r,
    In (n, (l, r)) (block adm rules L R) <-> In (n, (l, r)) (block adm rules L' R').
Proof. intros. apply row_permutation_pairs; assumption. Qed.
Print Assumptions C13_row_and_table_permutation.

(* relabelling / retyping ids by any map f under which admissibility (the id order and the
   source-dataset inequality) and the rule outcomes are preserved: outputs correspond exactly,
   including match keys and multiplicities *)
Theorem C13_id_relabel :
  forall (A B : Type) (f : A -> B) (admA : A -> A -> bool) (admB : B -> B -> bool)
         (rulesA : list (A -> A -> tv)) (rulesB : list (B -> B -> tv)) L R,
    (forall l r, admB (f l) (f r) = admA l r) ->
    Forall2 (fun ra rb => forall l r, rb (f l) (f r) = ra l r) rulesA rulesB ->
    block admB rulesB (map f L) (map f R) = map (map_out A B f) (block admA rulesA L R).
Proof. intros. apply block_relabel; assumption. Qed.
Print Assumptions C13_id_relabel.

Theorem C13_salting_irrelevant :
  forall (rec : Type) atomf partf partf' idltf sdsnef sdsltf natoms ns ns' lt rules sk sk' (L R : list rec),
    forallb salt_free rules = true ->
    (forall n l, In n ns -> 1 <= partf n l <= n) ->
    (forall n l, In n ns' -> 1 <= partf' n l <= n) ->
    skeleton_ok lt natoms ns rules sk = true ->
    skeleton_ok lt natoms ns' rules sk' = true ->
    (lt = TwoDatasetLinkOnly -> forall l r, In l L -> In r R -> sdsltf l r = true) ->
    Permutation (block_tables rec atomf partf idltf sdsnef sdsltf natoms ns sk L R)
                (block_tables rec atomf partf' idltf sdsnef sdsltf natoms ns' sk' L R).
Proof. intros. eapply salting_irrelevant; eassumption. Qed.
Print Assumptions C13_salting_irrelevant.

(* non-vacuity: relabelling 0,1,2 -> 10,20,30 (order preserving) with a NULL-producing rule *)
Example C13_relabel_example :
  let f := fun x : nat => 10 * (x + 1) in
  let admA := fun l r : nat => Nat.ltb l r in
  let rA := fun l r : nat => if Nat.eqb l 0 then U else of_bool (Nat.eqb (l + r) 3) in
  let rB := fun l r : nat => if Nat.eqb l 10 then U else of_bool (Nat.eqb (l + r) 50) in
  block admA [rB] (map f [0; 1; 2]) (map f [0; 1; 2]) = map (map_out nat nat f) (block admA [rA] [0; 1; 2] [0; 1; 2])
  /\ block admA [rA] [0; 1; 2] [0; 1; 2] <> [].
Proof. vm_compute. split; [reflexivity|discriminate]. Qed.

(* relabelling / retyping ids by ANY injective map, also one that changes the id order (e.g.
   integers 9, 10 retyped as strings): for rules symmetric in l and r the same unordered pairs
   are produced (the orientation may flip) *)
Theorem C13_id_relabel_unordered :
  forall (A B : Type) (f : A -> B) (idA : A -> nat) (idB : B -> nat)
         (rulesA : list (A -> A -> tv)) (rulesB : list (B -> B -> tv)) L l r,
    rulesA <> [] ->
    Forall2 (fun ra rb => forall x y, rb (f x) (f y) = ra x y) rulesA rulesB ->
    (forall rk, In rk rulesA -> forall x y, rk x y = rk y x) ->
    In l L -> In r L -> idA l <> idA r -> idB (f l) <> idB (f r) ->
    (((exists n, In (n, (l, r)) (block (adm_lt A idA) rulesA L L)) \/
      (exists n, In (n, (r, l)) (block (adm_lt A idA) rulesA L L))) <->
     ((exists n, In (n, (f l, f r)) (block (adm_lt B idB) rulesB (map f L) (map f L))) \/
      (exists n, In (n, (f r, f l)) (block (adm_lt B idB) rulesB (map f L) (map f L))))).
Proof. intros. apply relabel_unordered; assumption. Qed.
Print Assumptions C13_id_relabel_unordered.

(* non-vacuity: ids 9 and 10 relabelled order-reversingly (10 - x); the produced orientation
   flips, the unordered pair stays *)
Example C13_relabel_unordered_example :
  let rA := fun l r : nat => of_bool (Nat.eqb (l + r) 19) in
  let rB := fun l r : nat => of_bool (Nat.eqb (l + r) 1) in
  block (adm_lt nat (fun x => x)) [rA] [9; 10] [9; 10] = [(0, (9, 10))] /\
  block (adm_lt nat (fun x => x)) [rB] (map (fun x => 10 - x) [9; 10]) (map (fun x => 10 - x) [9; 10]) = [(0, (0, 1))].
Proof. vm_compute. split; reflexivity. Qed.

(* non-vacuity of C13_salting_irrelevant: the same rule salted into 2 and into 3 partitions; both
   skeletons are accepted by the exhaustive checker *)
Definition salted_sk (n : nat) : skeleton :=
  {| sels := map (fun k => {| s_mk := 0; s_kind := SJoin; s_on := BAnd (BAtom 0) (BSalt k n); s_where := BIdLt |}) (seq 1 n);
     ids_defs := [] |}.
Example C13_salting_example :
  forallb salt_free [BAtom 0] = true /\
  skeleton_ok Dedupe 1 [2] [BAtom 0] (salted_sk 2) = true /\
  skeleton_ok Dedupe 1 [3] [BAtom 0] (salted_sk 3) = true.
Proof. vm_compute. repeat split; reflexivity. Qed.
