(* C13 (re-presentation invariance), part: single-best-link clustering (C12 model) and graph
   metrics (C19 model).  Only statements; proofs in Proofs/OneToOneInvP.v, GraphMetricsInvP.v.
   "perm/flip": the same rows in any order, every edge row in either orientation
   (eperm_flip E E' := Permutation (map canon E) (map canon E')). *)
From Coq Require Import List Bool ZArith QArith Lia Permutation.
From Splinkv Require Model.GraphMetrics Proofs.GraphMetricsP Proofs.GraphMetricsInvP.
From Splinkv Require Import Model.OneToOne Proofs.OneToOneP Proofs.OneToOneGreedyP Proofs.OneToOneInvP.
Import ListNotations.
Open Scope Z_scope.

(* ---------------------------------------------------------------- single-best-link clustering *)
(* row order of nodes and edges, edge orientation: the returned rows are identical.
   (a) ORDER BY match_probability desc, pairwise distinct probabilities *)
Theorem C13_oto_perm_flip_tiefree :
  forall dfs thr nodes nodes' E E' (chl chr chl' chr' : chooser) fuel fuel' out out',
    NoDup (map n_id nodes) -> Permutation nodes nodes' -> eperm_flip E E' ->
    tie_free E -> tie_free E' ->
    rank1_ok chl -> rank1_ok chr -> rank1_ok chl' -> rank1_ok chr' ->
    oto_loop dfs (df_neighbours thr E) chl chr fuel 1 (df_representatives nodes) = Some out ->
    oto_loop dfs (df_neighbours thr E') chl' chr' fuel' 1 (df_representatives nodes') = Some out' ->
    forall v c s, In (v, c, s) out <-> In (v, c, s) out'.
Proof.
  intros. apply (perm_flip_invariant le_prob le_prob_order dfs thr nodes nodes' E E' chl chr chl' chr' fuel fuel');
    auto using tie_free_strict, rank1_ok_prob.
Qed.
Print Assumptions C13_oto_perm_flip_tiefree.

(* (b) the tie-break ORDER BY (current code), ties in probability allowed *)
Theorem C13_oto_perm_flip_tiebreak :
  forall dfs thr nodes nodes' E E' (chl chr chl' chr' : chooser) fuel fuel' out out',
    NoDup (map n_id nodes) -> Permutation nodes nodes' -> eperm_flip E E' ->
    nodup_pairs E -> nodup_pairs E' ->
    rank1_ok_for le_tiebreak chl -> rank1_ok_for le_tiebreak chr ->
    rank1_ok_for le_tiebreak chl' -> rank1_ok_for le_tiebreak chr' ->
    oto_loop dfs (df_neighbours thr E) chl chr fuel 1 (df_representatives nodes) = Some out ->
    oto_loop dfs (df_neighbours thr E') chl' chr' fuel' 1 (df_representatives nodes') = Some out' ->
    forall v c s, In (v, c, s) out <-> In (v, c, s) out'.
Proof.
  intros. apply (perm_flip_invariant le_tiebreak le_tiebreak_order dfs thr nodes nodes' E E' chl chr chl' chr' fuel fuel');
    auto using nodup_pairs_strict.
Qed.
Print Assumptions C13_oto_perm_flip_tiebreak.

(* strictly order-preserving relabelling of ids (composed with any perm/flip): every record
   keeps its cluster and the cluster id is the image of the old cluster id; tie-break ORDER BY *)
Theorem C13_oto_monotone_relabel :
  forall phi, (forall a b, a < b -> phi a < phi b) ->
  forall dfs thr nodes nodes' E E' (chl chr chl' chr' : chooser) fuel fuel' out out',
    NoDup (map n_id nodes) -> NoDup (map n_id nodes') ->
    Permutation (map (fn phi) nodes) nodes' -> eperm_flip (map (fe phi) E) E' ->
    nodup_pairs E -> nodup_pairs E' ->
    rank1_ok_for le_tiebreak chl -> rank1_ok_for le_tiebreak chr ->
    rank1_ok_for le_tiebreak chl' -> rank1_ok_for le_tiebreak chr' ->
    oto_loop dfs (df_neighbours thr E) chl chr fuel 1 (df_representatives nodes) = Some out ->
    oto_loop dfs (df_neighbours thr E') chl' chr' fuel' 1 (df_representatives nodes') = Some out' ->
    forall v c s, In (v, c, s) out -> In (phi v, phi c, s) out'.
Proof.
  intros phi Hm. intros.
  apply (monotone_relabel_invariant le_tiebreak le_tiebreak_order phi Hm (le_tiebreak_relabel phi Hm)
           dfs thr nodes nodes' E E' chl chr chl' chr' fuel fuel' out out'); auto using nodup_pairs_strict.
Qed.
Print Assumptions C13_oto_monotone_relabel.

(* ... and conversely every row of the relabelled output is the image of a row of the original *)
Theorem C13_oto_monotone_relabel_converse :
  forall phi, (forall a b, a < b -> phi a < phi b) ->
  forall dfs thr nodes nodes' E E' (chl chr chl' chr' : chooser) fuel fuel' out out',
    NoDup (map n_id nodes) -> NoDup (map n_id nodes') ->
    Permutation (map (fn phi) nodes) nodes' -> eperm_flip (map (fe phi) E) E' ->
    nodup_pairs E -> nodup_pairs E' ->
    rank1_ok_for le_tiebreak chl -> rank1_ok_for le_tiebreak chr ->
    rank1_ok_for le_tiebreak chl' -> rank1_ok_for le_tiebreak chr' ->
    oto_loop dfs (df_neighbours thr E) chl chr fuel 1 (df_representatives nodes) = Some out ->
    oto_loop dfs (df_neighbours thr E') chl' chr' fuel' 1 (df_representatives nodes') = Some out' ->
    forall v' c' s, In (v', c', s) out' -> exists v c, v' = phi v /\ c' = phi c /\ In (v, c, s) out.
Proof.
  intros phi Hm. intros.
  apply (monotone_relabel_invariant_conv le_tiebreak le_tiebreak_order phi Hm (le_tiebreak_relabel phi Hm)
           dfs thr nodes nodes' E E' chl chr chl' chr' fuel fuel' out out'); auto using nodup_pairs_strict.
Qed.
Print Assumptions C13_oto_monotone_relabel_converse.

(* ARBITRARY injective relabelling, pairwise distinct probabilities: the partition is preserved
   up to renaming (two records share a cluster iff their images do).  Cluster ids are NOT mapped
   in general: the id of a cluster is its least member under the new order
   (C12_cluster_id_is_min below). *)
Theorem C13_oto_injective_relabel_tiefree :
  forall phi, (forall a b, phi a = phi b -> a = b) ->
  forall dfs thr nodes nodes' E E' (chl chr chl' chr' : chooser) fuel fuel' out out',
    NoDup (map n_id nodes) -> NoDup (map n_id nodes') ->
    Permutation (map (fn phi) nodes) nodes' -> eperm_flip (map (fe phi) E) E' ->
    tie_free E -> tie_free E' ->
    rank1_ok chl -> rank1_ok chr -> rank1_ok chl' -> rank1_ok chr' ->
    oto_loop dfs (df_neighbours thr E) chl chr fuel 1 (df_representatives nodes) = Some out ->
    oto_loop dfs (df_neighbours thr E') chl' chr' fuel' 1 (df_representatives nodes') = Some out' ->
    forall v c s w d t c' d', In (v, c, s) out -> In (w, d, t) out ->
      In (phi v, c', s) out' -> In (phi w, d', t) out' -> (c = d <-> c' = d').
Proof.
  intros phi Hinj. intros.
  apply (injective_relabel_partition le_prob le_prob_order phi Hinj (le_prob_relabel phi)
           dfs thr nodes nodes' E E' chl chr chl' chr' fuel fuel' out out') with (v := v) (s := s) (w := w) (t := t);
    auto using tie_free_strict, rank1_ok_prob.
Qed.
Print Assumptions C13_oto_injective_relabel_tiefree.

(* ARBITRARY injective relabelling WITH ties under the tie-break ORDER BY: the choice among tied
   rows depends on the ids, so the partition itself may change; what is preserved is that the
   relabelled input again satisfies the hypotheses of the C12 theorems, hence its output is again
   a duplicate-free, connected, maximal partition. *)
Theorem C13_oto_injective_relabel_with_ties :
  forall phi, (forall a b, phi a = phi b -> a = b) ->
  forall dfs thr nodes E (chl chr : chooser) fuel out',
    NoDup (map n_id nodes) -> nodup_pairs E ->
    rank1_ok_for le_tiebreak chl -> rank1_ok_for le_tiebreak chr ->
    oto_loop dfs (df_neighbours thr (map (fe phi) E)) chl chr fuel 1 (df_representatives (map (fn phi) nodes)) = Some out' ->
    partition_of (map (fn phi) nodes) out' /\ dupfree dfs out' /\
    (forall v w c s s', In (v, c, s) out' -> In (w, c, s') out' -> conn_in thr (map (fe phi) E) (in_class out' c) v w) /\
    (forall v w, ~ admissible_cross dfs thr (map (fe phi) E) out' v w).
Proof.
  intros phi Hinj dfs thr nodes E chl chr fuel out' Hnd Hnp Hl Hr Hrun.
  pose proof (nodup_ids_relabel phi nodes Hinj Hnd) as Hnd'. pose proof (nodup_pairs_relabel phi E Hinj Hnp) as Hnp'.
  destruct (inv_loop _ _ _ _ _ _ _ _ _ (inv_init dfs _ Hnd') Hrun) as (Hn & Hsame & Hdf).
  split; [|split; [exact Hdf|split]].
  - split; [exact Hn|]. intros v s. rewrite init_records. apply Hsame.
  - apply (connected_tiebreak dfs thr chl chr fuel _ _ out' Hnd' Hnp' Hl Hr Hrun).
  - apply (maximal_tiebreak dfs thr chl chr fuel _ _ out' Hnd' Hnp' Hl Hr Hrun).
Qed.
Print Assumptions C13_oto_injective_relabel_with_ties.

(* ... and the partition is indeed NOT preserved: with tied probabilities the deterministic
   tie-break (least, greatest node id) makes the choice among tied edges depend on the labels.
   Witness: the FX-C12 records (ranks b-1=0, b-30=1, c-11=2, c-2=3, ds_x-101=4; c duplicate-free),
   edges 2-4, 3-4, 1-4 at 800/1024 and 3-0 at 845/1024, relabelled by phi x = 4 - x.
   Original clusters {0,3},{1,2,4}; after relabelling (in original ids) {0,1,3,4},{2}: records 1
   and 2 share a cluster before and are separated after. *)
Theorem C13_oto_injective_relabel_ties_refuted :
  exists (phi : Z -> Z) dfs thr nodes E (chl chr : chooser) fuel out out' v w c c' d',
    (forall a b, phi a = phi b -> a = b) /\
    NoDup (map n_id nodes) /\ nodup_pairs E /\ nodup_pairs (map (fe phi) E) /\
    rank1_ok_for le_tiebreak chl /\ rank1_ok_for le_tiebreak chr /\
    one_to_one_clustering dfs thr chl chr fuel nodes E = Some out /\
    one_to_one_clustering dfs thr chl chr fuel (map (fn phi) nodes) (map (fe phi) E) = Some out' /\
    In (v, c) out /\ In (w, c) out /\ In (phi v, c') out' /\ In (phi w, d') out' /\ c' <> d'.
Proof.
  exists (fun x => 4 - x), [1], (Some (0#1)%Q), [(0,0);(3,1);(1,0);(2,1);(4,2)],
         [(2,4,(800#1024)%Q);(3,4,(800#1024)%Q);(1,4,(800#1024)%Q);(3,0,(845#1024)%Q)],
         (max_by le_tiebreak), (max_by le_tiebreak), 20%nat,
         [(0,0);(3,0);(1,1);(2,1);(4,1)], [(4,0);(1,0);(3,0);(2,2);(0,0)], 1, 2, 1, 0, 2.
  split; [intros a b H; lia|].
  split; [cbn; repeat constructor; cbn; intuition lia|].
  assert (Hnp : forall E0 : list edge,
            E0 = [(2,4,(800#1024)%Q);(3,4,(800#1024)%Q);(1,4,(800#1024)%Q);(3,0,(845#1024)%Q)] \/
            E0 = [(2,0,(800#1024)%Q);(1,0,(800#1024)%Q);(3,0,(800#1024)%Q);(1,4,(845#1024)%Q)] -> nodup_pairs E0).
  { intros E0 [-> | ->]; unfold nodup_pairs; repeat constructor; intros (H & H1 & H2); vm_compute in H1; try discriminate H1;
      vm_compute in H2; discriminate H2. }
  split; [apply Hnp; left; reflexivity|]. split; [apply Hnp; right; reflexivity|].
  split; [apply max_by_ok; exact le_tiebreak_order|]. split; [apply max_by_ok; exact le_tiebreak_order|].
  split; [vm_compute; reflexivity|]. split; [vm_compute; reflexivity|].
  cbn. repeat split; try tauto. lia.
Qed.
Print Assumptions C13_oto_injective_relabel_ties_refuted.

(* the cluster id is the least member of the cluster (strictly ranked input) *)
Theorem C12_cluster_id_is_min :
  forall dfs thr (chl chr : chooser) fuel nodes E out,
    NoDup (map n_id nodes) -> nodup_pairs E ->
    rank1_ok_for le_tiebreak chl -> rank1_ok_for le_tiebreak chr ->
    oto_loop dfs (df_neighbours thr E) chl chr fuel 1 (df_representatives nodes) = Some out ->
    forall v c s, In (v, c, s) out ->
      (exists sc, In (c, c, sc) out) /\ forall w s', In (w, c, s') out -> c <= w.
Proof.
  intros dfs thr chl chr fuel nodes E out Hnd Hnp Hl Hr Hrun.
  apply (cluster_id_is_min_ranked le_tiebreak le_tiebreak_order dfs thr chl chr fuel nodes E out Hnd (nodup_pairs_strict E Hnp) Hl Hr Hrun).
Qed.
Print Assumptions C12_cluster_id_is_min.

(* ---------------------------------------------------------------- graph metrics *)
Module GM.
Import Splinkv.Model.GraphMetrics Splinkv.Proofs.GraphMetricsP Splinkv.Proofs.GraphMetricsInvP.

(* row order of df_clustered and df_predict, orientation of prediction rows: same nodes rows
   (degree, centrality) and same clusters rows (size, edge count, density, centralisation) *)
Theorem C13_metrics_perm_flip :
  forall C C' thr P P', NoDup (map fst C) -> Permutation C C' -> perm_flip P P' ->
    Permutation (graph_metrics_nodes C (truncated_edges thr P)) (graph_metrics_nodes C' (truncated_edges thr P')) /\
    forall r, In r (graph_metrics_clusters (graph_metrics_nodes C (truncated_edges thr P))) <->
              In r (graph_metrics_clusters (graph_metrics_nodes C' (truncated_edges thr P'))).
Proof. intros. split; [apply nodes_perm_invariant|apply clusters_perm_invariant]; assumption. Qed.
Print Assumptions C13_metrics_perm_flip.

(* the edge-metric rows themselves: under any row order and orientation of the prediction rows the
   edges table holds the same rows (endpoints canonicalised to (min, max)) with the same bridge flags *)
Theorem C13_bridge_perm_flip :
  forall thr P P', perm_flip P P' ->
    Permutation (map canon_row (graph_metrics_edges (truncated_edges thr P)))
                (map canon_row (graph_metrics_edges (truncated_edges thr P'))).
Proof. intros. apply edges_table_perm_flip. apply truncated_perm_flip. assumption. Qed.
Print Assumptions C13_bridge_perm_flip.

(* auxiliary: connectivity depends only on the undirected edge relation *)
Theorem C13_conn_same_undirected_edges :
  forall E F, (forall v w, uedge E v w <-> uedge F v w) -> forall v w, conn E v w <-> conn F v w.
Proof. exact conn_same_uedges. Qed.
Print Assumptions C13_conn_same_undirected_edges.

(* any injective relabelling f of record ids: is_bridge of every edge row is unchanged (this is
   what makes the row_number() relabelling for igraph and the mapping back harmless) *)
Theorem C19_bridge_invariant_under_relabel :
  forall f, (forall a b, f a = f b -> a = b) -> forall TE i,
    is_bridge_b (map (fP f) TE) i = is_bridge_b TE i.
Proof. exact is_bridge_relabel. Qed.
Print Assumptions C19_bridge_invariant_under_relabel.

Theorem C13_edges_table_relabel :
  forall f, (forall a b, f a = f b -> a = b) -> forall TE,
    graph_metrics_edges (map (fP f) TE)
    = map (fun r : Z * Z * bool => (f (fst (fst r)), f (snd (fst r)), snd r)) (graph_metrics_edges TE).
Proof. exact edges_table_relabel. Qed.
Print Assumptions C13_edges_table_relabel.

(* any injective relabelling f of record ids and g of cluster ids: degree, centrality, size, edge
   count, density and centralisation are unchanged *)
Theorem C13_metrics_relabel :
  forall f, (forall a b, f a = f b -> a = b) -> forall g, (forall a b, g a = g b -> a = b) ->
  forall C thr P, NoDup (map fst C) ->
    graph_metrics_nodes (map (fC f g) C) (truncated_edges thr (map (fP f) P))
    = map (fun r => (f (nm_uid r), g (nm_cid r), nm_deg r, nm_cen r)) (graph_metrics_nodes C (truncated_edges thr P)) /\
    forall r, In r (graph_metrics_clusters (graph_metrics_nodes C (truncated_edges thr P))) ->
      In {| cl_cid := g (cl_cid r); cl_n_nodes := cl_n_nodes r; cl_n_edges := cl_n_edges r;
            cl_density := cl_density r; cl_centralisation := cl_centralisation r |}
         (graph_metrics_clusters (graph_metrics_nodes (map (fC f g) C) (truncated_edges thr (map (fP f) P)))).
Proof.
  intros f Hf g Hg C thr P Hnd. split; [apply nodes_relabel; assumption|].
  intros r Hr. apply clusters_relabel; assumption.
Qed.
Print Assumptions C13_metrics_relabel.

Theorem C13_metrics_relabel_converse :
  forall f, (forall a b, f a = f b -> a = b) -> forall g, (forall a b, g a = g b -> a = b) ->
  forall C thr P r', NoDup (map fst C) ->
    In r' (graph_metrics_clusters (graph_metrics_nodes (map (fC f g) C) (truncated_edges thr (map (fP f) P)))) ->
    exists r, In r (graph_metrics_clusters (graph_metrics_nodes C (truncated_edges thr P))) /\
      r' = {| cl_cid := g (cl_cid r); cl_n_nodes := cl_n_nodes r; cl_n_edges := cl_n_edges r;
              cl_density := cl_density r; cl_centralisation := cl_centralisation r |}.
Proof. exact clusters_relabel_conv. Qed.
Print Assumptions C13_metrics_relabel_converse.

(* non-vacuity of the metrics theorems: triangle 0-1-2 with pendant 3 and isolated 4, records
   relabelled by 10 - x, cluster ids by 2x + 7, rows reversed and two prediction rows flipped *)
Example C13_metrics_example :
  let C := [(0,0);(1,0);(2,0);(3,0);(4,4)] in
  let P := [(0,1,(9#10)%Q);(2,1,(8#10)%Q);(0,2,(7#10)%Q);(3,2,(6#10)%Q);(3,4,(1#10)%Q)] in
  let f := fun x => 10 - x in let g := fun x => 2 * x + 7 in
  let P' := [(4,3,(1#10)%Q);(3,2,(6#10)%Q);(2,0,(7#10)%Q);(2,1,(8#10)%Q);(1,0,(9#10)%Q)] in
  perm_flip P P' /\
  map (fun r => (nm_uid r, nm_deg r)) (graph_metrics_nodes (map (fC f g) C) (truncated_edges (1#2)%Q (map (fP f) P)))
  = [(10,2);(9,2);(8,3);(7,1);(6,0)] /\
  map (fun r : Z * Z * bool => snd r) (graph_metrics_edges (truncated_edges (1#2)%Q (map (fP f) P))) = [false; false; false; true] /\
  map (fun r => (nm_uid r, nm_deg r)) (graph_metrics_nodes (rev C) (truncated_edges (1#2)%Q P'))
  = [(4,0);(3,1);(2,3);(1,2);(0,2)] /\
  map canon_row (graph_metrics_edges (truncated_edges (1#2)%Q P')) = [(2,3,true);(0,2,false);(1,2,false);(0,1,false)].
Proof.
  split; [|vm_compute; repeat split; reflexivity]. unfold perm_flip.
  exact (Permutation_rev [(0,1,(9#10)%Q);(1,2,(8#10)%Q);(0,2,(7#10)%Q);(2,3,(6#10)%Q);(3,4,(1#10)%Q)]).
Qed.
End GM.

(* non-vacuity: the FX-C12 witness listed in reverse row order with three rows reversed *)
Example C13_oto_example :
  let nodes := [(0,0);(3,1);(1,0);(2,1);(4,2)] in
  let E  := [(2,4,(800#1024)%Q);(3,4,(800#1024)%Q);(1,4,(800#1024)%Q);(3,0,(845#1024)%Q)] in
  let E' := [(0,3,(845#1024)%Q);(4,1,(800#1024)%Q);(4,3,(800#1024)%Q);(2,4,(800#1024)%Q)] in
  eperm_flip E E' /\
  one_to_one_clustering [1] (Some (0#1)%Q) (max_by le_tiebreak) (max_by le_tiebreak) 20 nodes E
  = one_to_one_clustering [1] (Some (0#1)%Q) (max_by le_tiebreak) (max_by le_tiebreak) 20 nodes E'.
Proof.
  split; [|vm_compute; reflexivity]. unfold eperm_flip.
  exact (Permutation_rev [(2,4,(800#1024)%Q);(3,4,(800#1024)%Q);(1,4,(800#1024)%Q);(0,3,(845#1024)%Q)]).
Qed.

(* non-vacuity of C13_oto_monotone_relabel: the 9-record example relabelled by 2x + 1 (strictly
   increasing): every record keeps its cluster, cluster ids are the images *)
Example C13_oto_monotone_example :
  let nodes := [(0,0);(1,1);(2,2);(3,0);(4,1);(5,2);(6,0);(7,1);(8,2)] in
  let E := [(0,1,(90#100)%Q);(1,2,(70#100)%Q);(3,5,(85#100)%Q);(4,5,(90#100)%Q);(6,5,(80#100)%Q);(6,7,(70#100)%Q)] in
  let phi := fun x => 2 * x + 1 in
  forall out, one_to_one_clustering [0;1;2] (Some (1#2)%Q) (max_by le_tiebreak) (max_by le_tiebreak) 20 nodes E = Some out ->
    one_to_one_clustering [0;1;2] (Some (1#2)%Q) (max_by le_tiebreak) (max_by le_tiebreak) 20 (map (fn phi) nodes) (map (fe phi) E)
    = Some (map (fun vc => (phi (fst vc), phi (snd vc))) out).
Proof. cbv zeta. intros out H. vm_compute in H. inversion H; subst. vm_compute. reflexivity. Qed.

(* non-vacuity of C13_oto_injective_relabel_tiefree: distinct probabilities, relabelled by the
   order-REVERSING 8 - x: the same records share clusters ({0,1,2},{3,4,5},{6,7},{8}), but the
   cluster ids are the least members under the new order (not the images of the old ids) *)
Example C13_oto_injective_example :
  let nodes := [(0,0);(1,1);(2,2);(3,0);(4,1);(5,2);(6,0);(7,1);(8,2)] in
  let E := [(0,1,(90#100)%Q);(1,2,(70#100)%Q);(3,5,(85#100)%Q);(4,5,(91#100)%Q);(6,5,(80#100)%Q);(6,7,(71#100)%Q)] in
  let phi := fun x => 8 - x in
  one_to_one_clustering [0;2] (Some (1#2)%Q) first_max first_max 20 nodes E
  = Some [(0,0);(1,0);(2,0);(3,3);(4,3);(5,3);(6,6);(7,6);(8,8)] /\
  one_to_one_clustering [0;2] (Some (1#2)%Q) first_max first_max 20 (map (fn phi) nodes) (map (fe phi) E)
  = Some [(8,6);(7,6);(6,6);(5,3);(4,3);(3,3);(2,1);(1,1);(0,0)].
Proof. split; vm_compute; reflexivity. Qed.
