(* C16  Library comparison levels mean what their documentation says.
   Statements only; proofs live in Proofs/LevelsP.v.  `sem P fenv env e` is the SQL three-valued
   value of the level condition `e` for an engine profile P, an interpretation fenv of named
   functions and the record pair env.  `gen_X` is the generator of creator family X; the
   translator checks on every run that the SQL the real creator emits equals `gen_X args`
   (obligation `same_expr`, sound by C16_obligation_sound). *)
From Coq Require Import String Ascii Bool ZArith QArith Qabs Arith List Lqa.
From Splinkv Require Import Base.TV Model.SqlExpr Model.Levels Proofs.LevelsP.
Import ListNotations.
Local Open Scope nat_scope.
Local Open Scope list_scope.

(* a discharged translator obligation transfers every theorem below to the emitted SQL *)
Theorem C16_obligation_sound :
  forall current generated, same_expr current generated = true ->
    forall P fenv env, eval P fenv env current = eval P fenv env generated.
Proof. exact same_expr_sound. Qed.
Print Assumptions C16_obligation_sound.

(* ---- NullLevel: TRUE exactly when either value is missing; never unknown ---- *)
Theorem C16_null_level_iff :
  forall P fenv env cl cr,
    sem P fenv env (gen_null cl cr) = T <-> eval P fenv env cl = VNull \/ eval P fenv env cr = VNull.
Proof. exact null_level_T_iff. Qed.
Print Assumptions C16_null_level_iff.

Theorem C16_null_level_two_valued :
  forall P fenv env cl cr, sem P fenv env (gen_null cl cr) <> U.
Proof. exact null_level_two_valued. Qed.
Print Assumptions C16_null_level_two_valued.

(* ---- ExactMatchLevel / LiteralMatchLevel / ColumnsReversedLevel ---- *)
Theorem C16_exact_match :
  forall P fenv env cl cr a b,
    eval P fenv env cl = VStr a -> eval P fenv env cr = VStr b ->
    sem P fenv env (gen_exact cl cr) = of_bool (String.eqb a b).
Proof. exact sem_exact_str. Qed.
Print Assumptions C16_exact_match.

Theorem C16_exact_match_integers :
  forall P fenv env cl cr a b,
    eval P fenv env cl = VInt a -> eval P fenv env cr = VInt b ->
    sem P fenv env (gen_exact cl cr) = of_bool (Z.eqb a b).
Proof. exact sem_exact_int. Qed.
Print Assumptions C16_exact_match_integers.

Theorem C16_literal_match :
  forall P fenv env s cl cr a b x,
    eval P fenv env cl = VStr a -> eval P fenv env cr = VStr b ->
    sem P fenv env (gen_literal s cl cr (ELit (VStr x))) =
    of_bool match s with
            | SLeft => String.eqb a x
            | SRight => String.eqb b x
            | SBoth => String.eqb a x && String.eqb b x
            end.
Proof. exact sem_literal_str. Qed.
Print Assumptions C16_literal_match.

Theorem C16_columns_reversed :
  forall P fenv env sym c1l c1r c2l c2r a1 b1 a2 b2,
    eval P fenv env c1l = VStr a1 -> eval P fenv env c1r = VStr b1 ->
    eval P fenv env c2l = VStr a2 -> eval P fenv env c2r = VStr b2 ->
    sem P fenv env (gen_reversed sym c1l c1r c2l c2r) =
    of_bool (if sym then String.eqb a1 b2 && String.eqb b1 a2 else String.eqb a1 b2).
Proof. exact sem_reversed_str. Qed.
Print Assumptions C16_columns_reversed.

(* ---- threshold levels over any named two-argument function (metric abstract) ----
   Levenshtein / Damerau-Levenshtein / DistanceFunction(lower): value <= t;
   Jaro / Jaro-Winkler / Jaccard / cosine / DistanceFunction(higher): value >= t *)
Theorem C16_threshold_level :
  forall P fenv env f higher cl cr t q tq,
    numQ (fenv f [eval P fenv env cl; eval P fenv env cr]) = Some q -> numQ t = Some tq ->
    sem P fenv env (gen_fn_thresh f higher cl cr t) = if higher then doc_ge q tq else doc_le q tq.
Proof. exact sem_fn_thresh. Qed.
Print Assumptions C16_threshold_level.

(* with the executable specifications of the metrics (tied to the engines by the correspondence run) *)
Theorem C16_levenshtein_level :
  forall P env cl cr t a b tq,
    eval P (std_fenv []) env cl = VStr a -> eval P (std_fenv []) env cr = VStr b -> numQ t = Some tq ->
    sem P (std_fenv []) env (gen_fn_thresh "levenshtein" false cl cr t)
    = doc_le (inject_Z (Z.of_nat (lev a b))) tq.
Proof. exact sem_lev_std. Qed.
Print Assumptions C16_levenshtein_level.

(* the dynamic programme `lev_list` (the executable `lev` of the theorem above) equals the textbook recursive definition
   of the edit distance, for ALL lists over any alphabet *)
Theorem C16_levenshtein_dp_is_recursive_definition :
  forall (A : Type) (eqA : A -> A -> bool) (s t : list A), lev_list eqA s t = lev_spec eqA s t.
Proof. intros. apply lev_list_spec. Qed.
Print Assumptions C16_levenshtein_dp_is_recursive_definition.

Theorem C16_damerau_levenshtein_level :
  forall P env cl cr t a b tq,
    eval P (std_fenv []) env cl = VStr a -> eval P (std_fenv []) env cr = VStr b -> numQ t = Some tq ->
    sem P (std_fenv []) env (gen_fn_thresh "damerau_levenshtein" false cl cr t)
    = doc_le (inject_Z (Z.of_nat (dam_lev a b))) tq.
Proof. exact sem_dl_std. Qed.
Print Assumptions C16_damerau_levenshtein_level.

(* independent characterisations of the executable metrics used on the right-hand sides *)
Theorem C16_jaccard_is_set_ratio :
  forall a b,
    let la := list_ascii_of_string a in let lb := list_ascii_of_string b in
    exists I U : list ascii,
      NoDup I /\ NoDup U /\
      (forall c, In c I <-> In c la /\ In c lb) /\ (forall c, In c U <-> In c la \/ In c lb) /\
      jaccard a b = Qred (inject_Z (Z.of_nat (length I)) / inject_Z (Z.of_nat (length U))).
Proof. exact jaccard_spec. Qed.
Print Assumptions C16_jaccard_is_set_ratio.

Theorem C16_jaro_range : forall a b, (0 <= jaro a b <= 1)%Q.
Proof. exact jaro_range. Qed.
Print Assumptions C16_jaro_range.

Theorem C16_jaro_winkler_ge_jaro : forall a b, (jaro a b <= jaro_winkler a b)%Q /\ (jaro_winkler a b <= 1)%Q.
Proof. exact jaro_winkler_ge_jaro. Qed.
Print Assumptions C16_jaro_winkler_ge_jaro.

Theorem C16_jaccard_level :
  forall P env cl cr t a b tq,
    eval P (std_fenv []) env cl = VStr a -> eval P (std_fenv []) env cr = VStr b -> numQ t = Some tq ->
    sem P (std_fenv []) env (gen_fn_thresh "jaccard" true cl cr t) = doc_ge (jaccard a b) tq.
Proof. exact sem_jaccard_std. Qed.
Print Assumptions C16_jaccard_level.

Theorem C16_jaro_level :
  forall P env cl cr t a b tq,
    eval P (std_fenv []) env cl = VStr a -> eval P (std_fenv []) env cr = VStr b -> numQ t = Some tq ->
    sem P (std_fenv []) env (gen_fn_thresh "jaro_similarity" true cl cr t) = doc_ge (jaro a b) tq.
Proof. exact sem_jaro_std. Qed.
Print Assumptions C16_jaro_level.

Theorem C16_jaro_winkler_level :
  forall P env cl cr t a b tq,
    eval P (std_fenv []) env cl = VStr a -> eval P (std_fenv []) env cr = VStr b -> numQ t = Some tq ->
    sem P (std_fenv []) env (gen_fn_thresh "jaro_winkler_similarity" true cl cr t) = doc_ge (jaro_winkler a b) tq.
Proof. exact sem_jw_std. Qed.
Print Assumptions C16_jaro_winkler_level.

(* ---- AbsoluteDifferenceLevel: |x - y| <= t (inclusive) ---- *)
Theorem C16_absolute_difference :
  forall P fenv env cl cr t x y tq,
    eval P fenv env cl = VNum x -> eval P fenv env cr = VNum y -> numQ t = Some tq ->
    sem P fenv env (gen_absdiff cl cr t) = doc_absdiff x y tq.
Proof. exact sem_absdiff_num. Qed.
Print Assumptions C16_absolute_difference.

Theorem C16_absolute_difference_integers :
  forall P fenv env cl cr t x y tq,
    eval P fenv env cl = VInt x -> eval P fenv env cr = VInt y -> numQ t = Some tq ->
    sem P fenv env (gen_absdiff cl cr t) = doc_absdiff (inject_Z x) (inject_Z y) tq.
Proof. exact sem_absdiff_int. Qed.
Print Assumptions C16_absolute_difference_integers.

(* ---- PercentageDifferenceLevel: |x - y| / max(x, y) < t, strict ---- *)
Theorem C16_percentage_difference :
  forall P fenv env cl cr t x y tq,
    eval P fenv env cl = VNum x -> eval P fenv env cr = VNum y -> numQ t = Some tq ->
    Qeq_bool (Qmaxb x y) 0 = false ->
    sem P fenv env (gen_pctdiff cl cr t) = doc_pctdiff x y tq.
Proof. exact sem_pctdiff_num. Qed.
Print Assumptions C16_percentage_difference.

(* larger value zero: x/0 is NULL (SQLite, Spark) or inf/NaN (DuckDB); the level is never TRUE *)
Theorem C16_percentage_difference_zero_never_true :
  forall P fenv env cl cr t x y tq,
    eval P fenv env cl = VNum x -> eval P fenv env cr = VNum y -> numQ t = Some tq ->
    Qeq_bool (Qmaxb x y) 0 = true -> (div0 P = VNull \/ div0 P = VInf) ->
    isT (sem P fenv env (gen_pctdiff cl cr t)) = false.
Proof. exact sem_pctdiff_zero. Qed.
Print Assumptions C16_percentage_difference_zero_never_true.

(* INTEGER columns: the emitted term (with the 1.0 factor, splink 89a1dbc7) is a real division on EVERY engine profile,
   also under SQLite's truncating integer `/` *)
Theorem C16_percentage_difference_integers :
  forall P fenv env cl cr t x y tq,
    eval P fenv env cl = VInt x -> eval P fenv env cr = VInt y -> numQ t = Some tq ->
    Qeq_bool (Qmaxb (inject_Z x) (inject_Z y)) 0 = false ->
    sem P fenv env (gen_pctdiff cl cr t) = doc_pctdiff (inject_Z x) (inject_Z y) tq.
Proof. exact sem_pctdiff_int. Qed.
Print Assumptions C16_percentage_difference_integers.

(* the term emitted BEFORE 89a1dbc7 (`gen_pctdiff_old`, no factor) is REFUTED for INTEGER columns on SQLite (integer
   division): 3 vs 9 at threshold 0.1 is accepted although the documented percentage difference is 2/3; DuckDB rejects it,
   and so does the current term on SQLite.  (Kept so that reverting the fix is recognised with this concrete input.) *)
Theorem C16_percentage_difference_old_term_sqlite_integers_refuted :
  exists (x y : Z) (t : Q),
    let env := fun (s : bool) (_ : string) => if s then VInt x else VInt y in
    sem sqlite_profile (std_fenv []) env (gen_pctdiff_old (ECol true "x") (ECol false "x") (VNum t)) = T
    /\ doc_pctdiff (inject_Z x) (inject_Z y) t = F
    /\ sem duckdb_profile (std_fenv []) env (gen_pctdiff_old (ECol true "x") (ECol false "x") (VNum t)) = F
    /\ sem sqlite_profile (std_fenv []) env (gen_pctdiff (ECol true "x") (ECol false "x") (VNum t)) = F.
Proof. exists 3%Z, 9%Z, (1 # 10)%Q. exact pctdiff_sqlite_integer_witness. Qed.
Print Assumptions C16_percentage_difference_old_term_sqlite_integers_refuted.

(* ---- AbsoluteTimeDifferenceLevel / AbsoluteDateDifferenceLevel over an abstract epoch ---- *)
Theorem C16_time_difference :
  forall P fenv env epochf cl cr thr m x y tq,
    fenv epochf [eval P fenv env cl] = VNum x -> fenv epochf [eval P fenv env cr] = VNum y ->
    numQ (time_threshold_seconds thr m) = Some tq ->
    sem P fenv env (gen_timediff epochf cl cr thr m) = doc_absdiff x y tq.
Proof. exact sem_timediff. Qed.
Print Assumptions C16_time_difference.

Theorem C16_time_difference_invalid_date_unknown :
  forall P fenv env epochf cl cr thr m,
    fenv epochf [eval P fenv env cl] = VNull \/ fenv epochf [eval P fenv env cr] = VNull ->
    sem P fenv env (gen_timediff epochf cl cr thr m) = U.
Proof. exact sem_timediff_invalid. Qed.
Print Assumptions C16_time_difference_invalid_date_unknown.

(* ---- ArrayIntersectLevel / ArraySubsetLevel over lists (DuckDB names; executable array functions) ---- *)
Theorem C16_array_intersect :
  forall P env cl cr n a b,
    eval P (std_fenv []) env cl = VArr a -> eval P (std_fenv []) env cr = VArr b ->
    sem P (std_fenv []) env (gen_arr_intersect "array_length" "list_intersect" cl cr (VInt n))
    = doc_ge (inject_Z (Z.of_nat (length (arr_intersect a b)))) (inject_Z n).
Proof. exact sem_arr_intersect_std. Qed.
Print Assumptions C16_array_intersect.

Theorem C16_array_intersect_is_set_intersection :
  forall a b, NoDup (arr_intersect a b) /\ forall x, In x (arr_intersect a b) <-> In x a /\ In x b.
Proof. intros a b. split; [apply arr_intersect_NoDup|intros x; apply arr_intersect_In]. Qed.
Print Assumptions C16_array_intersect_is_set_intersection.

(* duplicate-free arrays: TRUE exactly when the shorter array is contained in the longer one
   (and is non-empty unless empty_is_subset) *)
Theorem C16_array_subset :
  forall P env emp cl cr a b,
    eval P (std_fenv []) env cl = VArr a -> eval P (std_fenv []) env cr = VArr b -> NoDup a -> NoDup b ->
    sem P (std_fenv []) env (gen_arr_subset "array_length" "array_intersect" emp cl cr) = of_bool (subset_doc emp a b).
Proof. exact sem_arr_subset_std. Qed.
Print Assumptions C16_array_subset.

(* ---- DistanceInKMLevel: acos only ever sees a value in [-1, 1]; the level is the threshold test ---- *)
Theorem C16_km_clip_in_domain :
  forall P fenv env p q,
    numQ (eval P fenv env p) = Some q ->
    exists v, numQ (eval P fenv env (km_clipped p)) = Some v /\ (-1 <= v <= 1)%Q /\ ((-1 <= q <= 1)%Q -> (v == q)%Q).
Proof. exact km_clip_in_domain. Qed.
Print Assumptions C16_km_clip_in_domain.

Theorem C16_km_level :
  forall P fenv env fty latl latr lngl lngr t d tq,
    fenv "acos"%string [eval P fenv env (km_clipped (km_partial latl latr lngl lngr))] = VNum d ->
    (forall x, fenv ("cast:" ++ fty)%string [VNum x] = VNum x) -> numQ t = Some tq ->
    sem P fenv env (gen_km fty false latl latr lngl lngr t) = doc_le (d * 6371)%Q tq.
Proof. exact sem_km. Qed.
Print Assumptions C16_km_level.

(* DistanceInKMLevel is monotone: in the threshold, and in the haversine sum (closer pairs are accepted whenever
   farther ones are), for ANY interpretation of acos that is antitone on [-1, 1] *)
Theorem C16_km_monotone :
  forall P fenv (acosf : Q -> Q) fty,
    (forall v q, numQ v = Some q -> fenv "acos"%string [v] = VNum (acosf q)) ->
    (forall x y, (-1 <= x)%Q -> (x <= y)%Q -> (y <= 1)%Q -> (acosf y <= acosf x)%Q) ->
    (forall x, fenv ("cast:" ++ fty)%string [VNum x] = VNum x) ->
    (forall env latl latr lngl lngr t1 t2 q q1 q2,
        numQ (eval P fenv env (km_partial latl latr lngl lngr)) = Some q ->
        numQ t1 = Some q1 -> numQ t2 = Some q2 -> (q1 <= q2)%Q ->
        sem P fenv env (gen_km fty false latl latr lngl lngr t1) = T ->
        sem P fenv env (gen_km fty false latl latr lngl lngr t2) = T) /\
    (forall env1 env2 latl latr lngl lngr t tq qa qb,
        numQ (eval P fenv env1 (km_partial latl latr lngl lngr)) = Some qa ->
        numQ (eval P fenv env2 (km_partial latl latr lngl lngr)) = Some qb ->
        (qa <= qb)%Q -> numQ t = Some tq ->
        sem P fenv env1 (gen_km fty false latl latr lngl lngr t) = T ->
        sem P fenv env2 (gen_km fty false latl latr lngl lngr t) = T).
Proof.
  intros P fenv acosf fty H1 H2 H3. split.
  - exact (km_monotone_threshold P fenv acosf fty H1 H3).
  - exact (km_monotone_distance P fenv acosf fty H1 H2 H3).
Qed.
Print Assumptions C16_km_monotone.

(* ---- PairwiseStringDistanceFunctionLevel: TRUE iff SOME pair of the cross product meets the threshold ---- *)
Theorem C16_pairwise_level :
  forall P fenv env f higher cl cr t la lb (m : string -> string -> Q) tq,
    eval P fenv env cl = VArr la -> eval P fenv env cr = VArr lb ->
    (forall x y, fenv f [VStr x; VStr y] = VNum (m x y)) -> numQ t = Some tq -> pair_values m la lb <> [] ->
    sem P fenv env (gen_pairwise f higher cl cr t) =
    of_bool (existsb (fun q => if higher then Qle_bool tq q else Qle_bool q tq) (pair_values m la lb)).
Proof. exact sem_pairwise. Qed.
Print Assumptions C16_pairwise_level.

Theorem C16_pairwise_level_empty_array_unknown :
  forall P fenv env f higher cl cr t la lb,
    eval P fenv env cl = VArr la -> eval P fenv env cr = VArr lb -> cross la lb = [] ->
    sem P fenv env (gen_pairwise f higher cl cr t) = U.
Proof. exact sem_pairwise_empty. Qed.
Print Assumptions C16_pairwise_level_empty_array_unknown.

(* ---- And / Or / Not follow SQL three-valued logic ---- *)
Theorem C16_and_or_not_follow_3vl :
  forall P fenv env,
    (forall es, es <> [] -> sem P fenv env (gen_and es) = and3_all (map (sem P fenv env) es)) /\
    (forall es, es <> [] -> sem P fenv env (gen_or es) = or3_all (map (sem P fenv env) es)) /\
    (forall e, sem P fenv env (gen_not e) = not3 (sem P fenv env e)).
Proof.
  intros P fenv env. split; [|split].
  - exact (sem_gen_and P fenv env).
  - exact (sem_gen_or P fenv env).
  - exact (sem_gen_not P fenv env).
Qed.
Print Assumptions C16_and_or_not_follow_3vl.

(* ---- CASE WHEN .. ELSE: exactly one level ---- *)
Theorem C16_exactly_one_level : forall outs : list tv, exists! k, chosen outs k.
Proof. exact exactly_one_level. Qed.
Print Assumptions C16_exactly_one_level.

Theorem C16_case_assigns_first_true :
  forall P fenv env ws d,
    eval P fenv env (ECase ws d) =
    match nth_error ws (pick (map (fun cv => sem P fenv env (fst cv)) ws)) with
    | Some cv => eval P fenv env (snd cv)
    | None => eval P fenv env d
    end.
Proof. exact eval_case_pick. Qed.
Print Assumptions C16_case_assigns_first_true.

(* ---- levels_ok: null level first, else last, thresholds strict-to-loose ---- *)
Theorem C16_levels_ok_sound :
  forall ls, levels_ok ls = true ->
    (* the null level is an AND/OR combination of units `x_l IS NULL OR x_r IS NULL` over the same expression x on both records
       (not `l IS NULL AND r IS NULL`), every column it tests is compared by a later level, and it is FALSE when no tested
       value is missing / TRUE when every unit has a missing value *)
    (exists e0 rest us,
        ls = {| l_null := l_null (hd {| l_null := true; l_cond := None |} ls); l_cond := Some e0 |} :: rest
        /\ null_units e0 = Some us /\ us <> []
        /\ (forall u, In u us ->
              set_side true (fst u) = fst u /\ snd u = set_side false (fst u) /\ col_names (fst u) <> [] /\
              forall c, In c (col_names (fst u)) -> In c (flat_map col_names (conds rest)))
        /\ (forall P fenv env,
              ((forall u, In u us -> eval P fenv env (fst u) <> VNull /\ eval P fenv env (snd u) <> VNull) -> sem P fenv env e0 = F) /\
              ((forall u, In u us -> eval P fenv env (fst u) = VNull \/ eval P fenv env (snd u) = VNull) -> sem P fenv env e0 = T))) /\
    (* shape; the null level's condition is never unknown *)
    (exists e0 mid,
        ls = {| l_null := true; l_cond := Some e0 |} :: mid ++ [{| l_null := false; l_cond := None |}]
        /\ Forall (fun l => l_null l = false /\ l_cond l <> None) mid
        /\ (forall P fenv env, sem P fenv env e0 <> U)
        /\ (forall P fenv env, sem P fenv env e0 = T -> level_of P fenv env ls = 0)) /\
    (* every record pair falls in exactly one level *)
    (forall P fenv env,
        level_of P fenv env ls < length ls /\
        exists! k, chosen (map (sem P fenv env) (conds ls)) k) /\
    (* thresholds of one family (same left-hand side and comparison) nest, and the later level
       is not dead: some metric value satisfies it while the earlier level rejects the pair *)
    (forall i j li lj op lhs ti tj,
        i < j -> nth_error ls i = Some li -> nth_error ls j = Some lj ->
        In (op, lhs, ti) (cond_atoms li) -> In (op, lhs, tj) (cond_atoms lj) ->
        (forall v, sat op ti v = true -> sat op tj v = true) /\
        (exists v, sat op tj v = true /\ sat op ti v = false /\
           forall P fenv env e, l_cond li = Some e -> numQ (eval P fenv env lhs) = Some v ->
                                sem P fenv env e <> T)).
Proof.
  intros ls H0. unfold levels_ok in H0. apply andb_true_iff in H0 as [H Hnull]. split; [|split; [|split]].
  - destruct (null_level_ok_sound ls Hnull) as (e0 & rest & us & E & Hu & Hne & Hall). exists e0, rest, us.
    split; [exact E|]. split; [exact Hu|]. split; [exact Hne|]. split; [exact Hall|].
    intros P fenv env. exact (null_units_sem P fenv env e0 us Hu).
  - destruct (levels_ok_shape ls H) as (e0 & mid & E & Hn & Hm). exists e0, mid.
    split; [exact E|]. split; [exact Hm|]. split.
    + intros P fenv env. now apply null_shape_two_valued.
    + intros P fenv env. eapply levels_ok_null_first; eauto.
  - intros P fenv env. split; [now apply levels_ok_level_of|apply exactly_one_level].
  - exact (levels_ok_no_shadow ls H).
Qed.
Print Assumptions C16_levels_ok_sound.

(* the level list a comparison creator emits, accepted against the DOCUMENTED level list (built by the translator from the
   constructor arguments and the documented defaults, incl. every invalid_*_as_null / datetime_format / lat-long option
   combination): same length, same null flags, and level by level the same value on every record pair *)
Theorem C16_levels_match_sound :
  forall ls ex, levels_match ls ex = true ->
    length ls = length ex /\
    forall i l n c, nth_error ls i = Some l -> nth_error ex i = Some (n, c) ->
      l_null l = n /\
      match l_cond l, c with
      | Some a, Some b => forall P fenv env, eval P fenv env a = eval P fenv env b
      | None, None => True
      | _, _ => False
      end.
Proof. exact levels_match_sound. Qed.
Print Assumptions C16_levels_match_sound.

(* ---- non-vacuity ---- *)
Local Open Scope string_scope.
Definition ex_col (s : bool) := ECol s "name".
Definition ex_lev (t : Z) := gen_fn_thresh "levenshtein" false (ex_col true) (ex_col false) (VInt t).
Definition ex_levels (t1 t2 : Z) : list lvl :=
  [ {| l_null := true; l_cond := Some (gen_null (ex_col true) (ex_col false)) |};
    {| l_null := false; l_cond := Some (gen_exact (ex_col true) (ex_col false)) |};
    {| l_null := false; l_cond := Some (ex_lev t1) |};
    {| l_null := false; l_cond := Some (ex_lev t2) |};
    {| l_null := false; l_cond := None |} ].
Example C16_example_levels_ok : levels_ok (ex_levels 1 2) = true /\ levels_ok (ex_levels 2 1) = false.
Proof. vm_compute. auto. Qed.
Example C16_example_levels_ok_rejects_bad_null_levels :
  let mk := fun e0 => {| l_null := true; l_cond := Some e0 |} :: tl (ex_levels 1 2) in
  levels_ok (mk (EAnd (EIsNull (ex_col true)) (EIsNull (ex_col false)))) = false /\
  levels_ok (mk (gen_null (ECol true "other") (ECol false "other"))) = false /\
  levels_ok (mk (EOr (EIsNull (ex_col true)) (EIsNull (ECol false "other")))) = false /\
  levels_ok (mk (gen_null (ex_col true) (ex_col false))) = true.
Proof. vm_compute. repeat split. Qed.
Example C16_example_jaro_identical : jaro "martha" "martha" = 1%Q /\ jaro "aab" "aab" = 1%Q /\ jaro "a" "a" = 1%Q /\ jaro "" "" = 0%Q.
Proof. vm_compute. repeat split. Qed.
Example C16_example_level_of :
  let env := fun (s : bool) (_ : string) => if s then VStr "smith" else VStr "snyth" in
  level_of duckdb_profile (std_fenv []) env (ex_levels 1 2) = 3 /\
  eval duckdb_profile (std_fenv []) env (gen_case (ex_levels 1 2)) = VInt 1 /\
  sem duckdb_profile (std_fenv []) env (ex_lev 2) = T /\
  sem duckdb_profile (std_fenv []) env (ex_lev 1) = F.
Proof. vm_compute. auto. Qed.
Example C16_example_null :
  let env := fun (s : bool) (_ : string) => if s then VNull else VStr "x" in
  level_of sqlite_profile (std_fenv []) env (ex_levels 1 2) = 0 /\
  sem sqlite_profile (std_fenv []) env (ex_lev 1) = U.
Proof. vm_compute. auto. Qed.
Example C16_example_pairwise :
  let env := fun (s : bool) (_ : string) => if s then VArr ["smith"; "jones"] else VArr ["brown"; "jonse"] in
  sem duckdb_profile (std_fenv []) env (gen_pairwise "levenshtein" false (ECol true "arr") (ECol false "arr") (VInt 2)) = T /\
  sem duckdb_profile (std_fenv []) env (gen_pairwise "damerau_levenshtein" false (ECol true "arr") (ECol false "arr") (VInt 1)) = T /\
  sem duckdb_profile (std_fenv []) env (gen_pairwise "levenshtein" false (ECol true "arr") (ECol false "arr") (VInt 1)) = F /\
  dam_lev "ca" "abc" = 2 /\ lev "ca" "abc" = 3 /\ lev "kitten" "sitting" = 3 /\ lev "" "abc" = 3.
Proof. vm_compute. repeat split. Qed.
(* the hypotheses of C16_km_level / C16_km_monotone are satisfiable: an interpretation with acos q := 1 - q (antitone),
   radians x := x / 100, sin := id, cos x := 1 - x and an identity cast; the level is then T or F depending on the threshold *)
Definition ex_km_fenv (f : string) (args : list val) : val :=
  match args with
  | [v] => match numQ v with
           | Some q =>
             if String.eqb f "acos" then VNum (1 - q)
             else if String.eqb f "radians" then VNum (q / 100)
             else if String.eqb f "sin" then VNum q
             else if String.eqb f "cos" then VNum (1 - q)
             else if String.eqb f "cast:float" then VNum q
             else VNull
           | None => VNull
           end
  | _ => VNull
  end.
Example C16_example_km_hypotheses :
  (forall v q, numQ v = Some q -> ex_km_fenv "acos" [v] = VNum (1 - q)) /\
  (forall x y : Q, (-1 <= x)%Q -> (x <= y)%Q -> (y <= 1)%Q -> (1 - y <= 1 - x)%Q) /\
  (forall x, ex_km_fenv ("cast:" ++ "float") [VNum x] = VNum x) /\
  let env := fun (s : bool) (c : string) => if String.eqb c "lat" then (if s then VInt 10 else VInt 20) else (if s then VInt 10 else VInt 20) in
  let km := fun t => gen_km "float" false (ECol true "lat") (ECol false "lat") (ECol true "lng") (ECol false "lng") (VInt t) in
  sem duckdb_profile ex_km_fenv env (km 3000%Z) = T /\ sem duckdb_profile ex_km_fenv env (km 1000%Z) = F.
Proof.
  split; [|split; [|split]].
  - intros v q H. unfold ex_km_fenv. now rewrite H.
  - intros x y _ H _. lra.
  - intros x. reflexivity.
  - vm_compute. split; reflexivity.
Qed.
(* ... and C16_km_monotone applies to it (non-vacuous instance) *)
Example C16_example_km_monotone_instance :
  forall env latl latr lngl lngr t1 t2 q q1 q2,
    numQ (eval duckdb_profile ex_km_fenv env (km_partial latl latr lngl lngr)) = Some q ->
    numQ t1 = Some q1 -> numQ t2 = Some q2 -> (q1 <= q2)%Q ->
    sem duckdb_profile ex_km_fenv env (gen_km "float" false latl latr lngl lngr t1) = T ->
    sem duckdb_profile ex_km_fenv env (gen_km "float" false latl latr lngl lngr t2) = T.
Proof.
  destruct C16_example_km_hypotheses as (H1 & H2 & H3 & _).
  exact (proj1 (C16_km_monotone duckdb_profile ex_km_fenv (fun q => 1 - q)%Q "float" H1 H2 H3)).
Qed.
Example C16_example_month_seconds :
  time_threshold_seconds (VInt 1) MMonth = VNum 2629800 /\ time_threshold_seconds (VInt 2) MHour = VInt 7200.
Proof. vm_compute. auto. Qed.
