(* C09  A saved model reloads to the same model.
   Statements only; proofs are in Proofs/SerialiseP.v.  The rule tables / loaders of the
   *current* source tree are regenerated on every run (coq/gen/C09_gen.v) and `pipeline_ok`
   is evaluated on them by the kernel VM; the theorems below say what `pipeline_ok = true`
   guarantees for every record. *)
From Coq Require Import List Bool ZArith String.
From Splinkv Require Import Model.Serialise Proofs.SerialiseP.
Import ListNotations.
Open Scope string_scope.

(* table_ok t d = true -> forall l, wf l -> load d (save t l) = l   (literal equality; the
   run may be in any context `env`; `Some r` = no exception escaped) *)
Theorem C09_roundtrip :
  forall K allowed cons t d hints,
    table_ok K allowed cons t d hints = true ->
    forall l env r, wfb K allowed cons l = true -> normalised d l = true ->
      run_stage {| s_rules := t; s_loader := d |} l env = Some r -> r = l.
Proof. exact roundtrip. Qed.
Print Assumptions C09_roundtrip.

(* saving the reloaded object reproduces the first-generation content *)
Theorem C09_second_generation_equal :
  forall K allowed cons t d hints,
    table_ok K allowed cons t d hints = true ->
    forall l env r env2, wfb K allowed cons l = true -> normalised d l = true ->
      run_stage {| s_rules := t; s_loader := d |} l env = Some r ->
      save t r env2 = save t l env2.
Proof. exact second_generation. Qed.
Print Assumptions C09_second_generation_equal.

(* everything computed from the record (scores in particular) is unchanged by the round trip *)
Theorem C09_scores_equal :
  forall (A : Type) (score : record -> A) K allowed cons t d hints,
    table_ok K allowed cons t d hints = true ->
    forall l env r, wfb K allowed cons l = true -> normalised d l = true ->
      run_stage {| s_rules := t; s_loader := d |} l env = Some r -> score r = score l.
Proof. intros. f_equal. eapply roundtrip; eauto. Qed.
Print Assumptions C09_scores_equal.

(* The construction path (creator -> create_level_dict -> ComparisonLevel -> as_dict ->
   ComparisonLevel inside Comparison) and the reload path (saved dict -> CustomLevel ->
   create_level_dict -> ...) are compositions of save/load stages; the same checker covers
   them: if pipeline_ok accepts the stages then, for every well-formed input record and
   every context of every stage, each target field of the final object equals its
   specification evaluated on the input (for the reload path the specification is "the field
   itself"; for construction "the supplied value, or the documented default when none is
   supplied"). *)
Theorem C09_construction_preserves_user_values :
  forall K allowed cons ps targets,
    pipeline_ok K allowed cons (map fst ps) targets = true ->
    forall l r, wfb K allowed cons l = true -> run_pipeline ps l = Some r ->
    forall tg env v, In tg targets -> eval (t_spec tg) l env = Some v ->
                     get r (t_key tg) = v.
Proof. exact pipeline_sound. Qed.
Print Assumptions C09_construction_preserves_user_values.

(* the symbolic evaluator underneath the checker is sound for every expression *)
Theorem C09_symbolic_evaluation_sound :
  forall l K se r env, senv_ok l K se r ->
  forall e, match seval K se e with
            | RRaise => eval e r env = None
            | RVal s => forall v, eval e r env = Some v -> rel l K s v
            end.
Proof. exact seval_sound. Qed.
Print Assumptions C09_symbolic_evaluation_sound.

(* ---- refutations that do not depend on the current source: the two guard shapes behind
   defects 7.3 lose values, whatever else the table contains for other keys *)
Theorem C09_truthiness_guard_refuted :
  forall k dflt v env, truthy v = false -> v <> dflt ->
    run_stage {| s_rules := [{| r_key := k; r_guard := EField k; r_val := EField k |}];
                 s_loader := [{| l_key := k; l_default := dflt; l_post := EField k |}] |}
              [(k, v)] env = Some [(k, dflt)].
Proof. exact truthy_guard_loses_falsy. Qed.
Print Assumptions C09_truthiness_guard_refuted.

Theorem C09_not_equal_guard_refuted :
  forall k c dflt env,
    run_stage {| s_rules := [{| r_key := k; r_guard := ENot (EEq (EField k) c); r_val := EField k |}];
                 s_loader := [{| l_key := k; l_default := dflt; l_post := EField k |}] |}
              [(k, c)] env = Some [(k, dflt)].
Proof. exact ne_guard_loses_literal. Qed.
Print Assumptions C09_not_equal_guard_refuted.

(* ---- the level serialiser as of the pinned commit (hand transcription, used only as a
   worked example; the per-run obligation uses the regenerated table) *)
Definition NOBS := VStr "level not observed in training dataset".
Definition TT := EConst (VBool true).
Definition K0 := [VNone; VBool false; VBool true; VNum 0 1; VStr ""; VList []; VNum 1 1; NOBS; VNum 1 1000000].
Definition numc := [CC (VNum 0 1); CC (VNum 1 1); CC (VNum 1 1000000); CG].
Definition boolc := [CC (VBool false); CC (VBool true)].
Definition allowed0 : list (string * list cls) :=
 [("sql_condition", [CG]); ("label_for_charts", [CG]); ("is_null_level", boolc);
  ("tf_adjustment_column", [CC VNone; CG]); ("tf_adjustment_weight", numc); ("tf_minimum_u_value", numc);
  ("m_probability", CC VNone :: numc); ("u_probability", CC VNone :: numc);
  ("disable_tf_exact_match_detection", boolc); ("fix_m_probability", boolc); ("fix_u_probability", boolc)].
Definition cons0 : list constr :=
 [("tf_adjustment_column", CC VNone, "tf_adjustment_weight", [CC (VNum 1 1)]);
  ("tf_adjustment_column", CC VNone, "tf_minimum_u_value", [CC (VNum 0 1)]);
  (* a null level carries no m / u (as_dict raises otherwise) *)
  ("is_null_level", CC (VBool true), "m_probability", [CC VNone]);
  ("is_null_level", CC (VBool true), "u_probability", [CC VNone])].
Definition trained (p : string) :=
  EIf (EField "is_null_level") TT
      (EIf (EEq (EField p) NOBS) (EConst (VBool false)) (EIf (EIsNone (EField p)) (EConst (VBool false)) TT)).
Definition prob (p dp : string) :=
  EIf (EField "is_null_level") ERaise
      (EIf (EEq (EField p) NOBS) (EConst (VNum 1 1000000))
           (EIf (EAnd (EIsNone (EField p)) (ENot (EIsNone (ECtx dp)))) (ECtx dp) (EField p))).
Definition has_tf := ENot (EIsNone (EField "tf_adjustment_column")).
Definition lbl := EOr (EField "label_for_charts") (ECtx "str(cvv)").
Definition level_table (fixed : bool) : list rule := [
 {| r_key := "sql_condition"; r_guard := TT; r_val := EField "sql_condition" |};
 {| r_key := "label_for_charts"; r_guard := lbl; r_val := lbl |};
 {| r_key := "m_probability";
    r_guard := EAnd (if fixed then ENot (EIsNone (EField "m_probability")) else EField "m_probability") (trained "m_probability");
    r_val := prob "m_probability" "default_m" |};
 {| r_key := "u_probability";
    r_guard := EAnd (if fixed then ENot (EIsNone (EField "u_probability")) else EField "u_probability") (trained "u_probability");
    r_val := prob "u_probability" "default_u" |};
 {| r_key := "fix_m_probability"; r_guard := TT; r_val := EField "fix_m_probability" |};
 {| r_key := "fix_u_probability"; r_guard := TT; r_val := EField "fix_u_probability" |};
 {| r_key := "tf_adjustment_column"; r_guard := has_tf; r_val := EField "tf_adjustment_column" |};
 {| r_key := "tf_minimum_u_value";
    r_guard := EAnd has_tf (ENot (EEq (EField "tf_minimum_u_value") (VNum 0 1))); r_val := EField "tf_minimum_u_value" |};
 {| r_key := "tf_adjustment_weight";
    r_guard := if fixed then has_tf else EAnd has_tf (ENot (EEq (EField "tf_adjustment_weight") (VNum 0 1)));
    r_val := EField "tf_adjustment_weight" |};
 {| r_key := "is_null_level"; r_guard := EField "is_null_level"; r_val := TT |};
 {| r_key := "disable_tf_exact_match_detection"; r_guard := EField "disable_tf_exact_match_detection"; r_val := TT |}].
Definition level_loader := plain_loader
 [("sql_condition", VNone); ("label_for_charts", VNone); ("is_null_level", VBool false);
  ("tf_adjustment_column", VNone); ("tf_adjustment_weight", VNum 1 1); ("tf_minimum_u_value", VNum 0 1);
  ("m_probability", VNone); ("u_probability", VNone); ("disable_tf_exact_match_detection", VBool false);
  ("fix_m_probability", VBool false); ("fix_u_probability", VBool false)].
Definition hints0 :=
 [("m_probability", ["m_probability"; "is_null_level"]); ("u_probability", ["u_probability"; "is_null_level"]);
  ("tf_minimum_u_value", ["tf_minimum_u_value"; "tf_adjustment_column"]);
  ("tf_adjustment_weight", ["tf_adjustment_weight"; "tf_adjustment_column"])].

(* a level with term-frequency adjustment switched on and weight 0, m = 0.5, u = 0 *)
Definition level_w0 : record :=
 [("sql_condition", VStr "a_l = a_r"); ("label_for_charts", VStr "exact"); ("is_null_level", VBool false);
  ("tf_adjustment_column", VStr "a"); ("tf_adjustment_weight", VNum 0 1); ("tf_minimum_u_value", VNum 0 1);
  ("m_probability", VNum 1 2); ("u_probability", VNum 0 1); ("disable_tf_exact_match_detection", VBool false);
  ("fix_m_probability", VBool false); ("fix_u_probability", VBool true)].

(* the pinned serialiser is rejected, with exactly the falsy-value classes as counterexamples *)
Example C09_pinned_level_table_rejected :
  table_ok K0 allowed0 cons0 (level_table false) level_loader hints0 = false /\
  map fst (pipeline_cex K0 allowed0 cons0 [{| s_rules := level_table false; s_loader := level_loader |}]
                        (id_targets level_loader hints0))
  = ["tf_adjustment_weight"; "m_probability"; "u_probability"].
Proof. vm_compute. split; reflexivity. Qed.

(* C09_weight0_refuted: a well-formed level that the pinned serialiser does not give back:
   the weight 0 reloads as 1 and u = 0 is lost *)
Theorem C09_weight0_refuted :
  exists l r, wfb K0 allowed0 cons0 l = true /\ normalised level_loader l = true /\
    run_stage {| s_rules := level_table false; s_loader := level_loader |} l [] = Some r /\
    get r "tf_adjustment_weight" = VNum 1 1 /\ get l "tf_adjustment_weight" = VNum 0 1 /\
    get r "u_probability" = VNone /\ get l "u_probability" = VNum 0 1.
Proof. exists level_w0. eexists. vm_compute. repeat split; reflexivity. Qed.
Print Assumptions C09_weight0_refuted.

(* with `is not None` tests and the weight emitted whenever a TF column is set, the checker
   accepts the table, so C09_roundtrip applies to every well-formed level; non-vacuity: the
   same boundary-value level comes back unchanged *)
Example C09_fixed_level_table_accepted :
  table_ok K0 allowed0 cons0 (level_table true) level_loader hints0 = true.
Proof. vm_compute. reflexivity. Qed.

Example C09_example_roundtrip :
  wfb K0 allowed0 cons0 level_w0 = true /\ normalised level_loader level_w0 = true /\
  run_stage {| s_rules := level_table true; s_loader := level_loader |} level_w0 [] = Some level_w0.
Proof. vm_compute. repeat split; reflexivity. Qed.

(* A serialiser that can only raise is rejected (no-certain-raise conjunct of the checker): the
   theorems are about runs that return, and the checker refuses tables for which, for some
   allowed class of inputs, no run can return. *)
Example C09_raising_serialiser_rejected :
  table_ok K0 allowed0 cons0
    [{| r_key := "sql_condition"; r_guard := TT; r_val := ERaise |}]
    (plain_loader [("sql_condition", VNone)]) [] = false.
Proof. vm_compute. reflexivity. Qed.

(* The never-observed marker is NOT preserved: a level whose stored m is the marker is written
   without m (its _m_is_trained test is false) and reloads with m = None, i.e. it would score with
   the default m instead of 1e-6.  The marker is therefore outside `wf` (not among the allowed
   classes of m / u), and the check establishes on every trained model it generates that the marker
   never reaches a level of the linker's Settings (it lives in the EM session's working copy and in
   the _trained_* history only; such a level holds m = None, which does round-trip). *)
Definition level_nobs : record :=
 [("sql_condition", VStr "a_l = a_r"); ("label_for_charts", VStr "exact"); ("is_null_level", VBool false);
  ("tf_adjustment_column", VNone); ("tf_adjustment_weight", VNum 1 1); ("tf_minimum_u_value", VNum 0 1);
  ("m_probability", NOBS); ("u_probability", VNum 1 4); ("disable_tf_exact_match_detection", VBool false);
  ("fix_m_probability", VBool false); ("fix_u_probability", VBool false)].
Theorem C09_not_observed_marker_refuted :
  wfb K0 allowed0 cons0 level_nobs = false /\
  exists r, run_stage {| s_rules := level_table true; s_loader := level_loader |} level_nobs [] = Some r /\
            get r "m_probability" = VNone /\ get level_nobs "m_probability" = NOBS /\
            eval (prob "m_probability" "default_m") level_nobs [] = Some (VNum 1 1000000).
Proof. split; [vm_compute; reflexivity|]. eexists. vm_compute. repeat split; reflexivity. Qed.
Print Assumptions C09_not_observed_marker_refuted.

(* C09_description_refuted: reload goes through CustomComparison built from the saved dict, whose
   create_description returned the class name *)
Definition cmp_stage (fixed : bool) : list stage :=
 [ {| s_rules := [{| r_key := "output_column_name"; r_guard := TT; r_val := EField "output_column_name" |};
                  {| r_key := "comparison_description"; r_guard := TT; r_val := EField "comparison_description" |}];
      s_loader := plain_loader [("output_column_name", VNone); ("comparison_description", VNone)] |};
   {| s_rules := [{| r_key := "comparison_description"; r_guard := TT;
                     r_val := if fixed then EIf (ENot (EIsNone (EField "comparison_description")))
                                                (EField "comparison_description") (EConst (VStr "CustomComparison"))
                              else EConst (VStr "CustomComparison") |};
                  {| r_key := "output_column_name"; r_guard := TT; r_val := EField "output_column_name" |}];
      s_loader := [{| l_key := "output_column_name"; l_default := VNone;
                      l_post := EOr (EField "output_column_name") (ECtx "default name") |};
                   {| l_key := "comparison_description"; l_default := VNone;
                      l_post := EOr (EField "comparison_description") (EOr (EField "output_column_name") (ECtx "default name")) |}] |} ].
Definition cmp_K := [VNone; VBool false; VBool true; VNum 0 1; VStr ""; VList []; VStr "CustomComparison"].
Definition cmp_allowed : list (string * list cls) :=
 [("output_column_name", [CC (VStr "CustomComparison"); CG]); ("comparison_description", [CC (VStr "CustomComparison"); CG])].
Definition cmp_targets : list target :=
 [{| t_key := "output_column_name"; t_spec := EField "output_column_name"; t_hint := ["output_column_name"] |};
  {| t_key := "comparison_description"; t_spec := EField "comparison_description";
     t_hint := ["output_column_name"; "comparison_description"] |}].

Theorem C09_description_refuted :
  pipeline_ok cmp_K cmp_allowed [] (cmp_stage false) cmp_targets = false /\
  run_pipeline (map (fun s => (s, @nil (string * val))) (cmp_stage false))
               [("output_column_name", VStr "city"); ("comparison_description", VStr "my description")]
  = Some [("output_column_name", VStr "city"); ("comparison_description", VStr "CustomComparison")].
Proof. vm_compute. split; reflexivity. Qed.
Print Assumptions C09_description_refuted.

Example C09_fixed_description_accepted :
  pipeline_ok cmp_K cmp_allowed [] (cmp_stage true) cmp_targets = true /\
  run_pipeline (map (fun s => (s, @nil (string * val))) (cmp_stage true))
               [("output_column_name", VStr "city"); ("comparison_description", VStr "my description")]
  = Some [("output_column_name", VStr "city"); ("comparison_description", VStr "my description")].
Proof. vm_compute. split; reflexivity. Qed.
