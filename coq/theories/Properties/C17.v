(* C17  Turning a specification into SQL is deterministic and side-effect free.
   Statements only; proofs in Proofs/CreatorsP.v.  The programs (effect traces) of every
   creator class are regenerated from the source on every run and `pure` / `summary` are
   evaluated on them by the kernel VM (coq/gen/C17_gen.v). *)
From Coq Require Import List Bool String Arith.
From Splinkv Require Import Model.Creators Proofs.CreatorsP.
Import ListNotations.
Open Scope string_scope.
Open Scope list_scope.

(* If the checker accepts the program of a creator method then, for every interpretation of
   its conditions, every initial object state and every call history of any length (any
   order of dialects): the k-th call returns what a fresh object (state st0) returns for the
   k-th argument. *)
Theorem C17_pure_if_summary_ok :
  forall truth p out, pure p out = true ->
  forall st0 hist,
    fst (run truth p out st0 hist) = map (fun d => snd (call truth p out st0 d)) hist.
Proof.
  intros truth p out Hp st0 hist.
  exact (proj1 (pure_history truth p out Hp hist st0 st0 (fun a _ => eq_refl))).
Qed.
Print Assumptions C17_pure_if_summary_ok.

(* "leaves those objects unchanged": if the second per-run obligation holds - the program writes
   nothing but dialect slots (`*.sql_dialect`) - then after any call history every other attribute,
   i.e. everything the user supplied or can observe, still has its initial value. *)
Theorem C17_user_visible_state_unchanged :
  forall truth p out, writes_only_dialect_slots p = true ->
  forall st0 hist a, is_dialect_slot a = false -> snd (run truth p out st0 hist) a = st0 a.
Proof. exact user_visible_unchanged. Qed.
Print Assumptions C17_user_visible_state_unchanged.

(* the same for two different objects that were constructed alike (agree on the attributes
   the method does not write): a used object and a freshly constructed one *)
Theorem C17_used_object_equals_fresh_object :
  forall truth p out, pure p out = true ->
  forall used fresh hist, (forall a, mem a (writes p) = false -> used a = fresh a) ->
    fst (run truth p out used hist) = map (fun d => snd (call truth p out fresh d)) hist.
Proof.
  intros truth p out Hp used fresh hist Ha.
  exact (proj1 (pure_history truth p out Hp hist used fresh Ha)).
Qed.
Print Assumptions C17_used_object_equals_fresh_object.

(* "every write is SetFromArg" is what `pure` checks *)
Theorem C17_summary_all_set_from_arg_is_pure :
  forall p out,
    forallb is_sfa (summary p) = true ->
    reads_ok (writes p) (snd (summary_list (writes p) p [])) out = true ->
    pure p out = true.
Proof. exact summary_ok_pure. Qed.
Print Assumptions C17_summary_all_set_from_arg_is_pure.

(* A self-dependent write (self.a = f(self.a)) whose attribute feeds the output: the checker
   rejects it, classifies it SelfDependent, and two successive calls return different
   results for every initial state and arguments (free interpretation) - the generic witness
   instantiated by AbsoluteTimeDifferenceLevel.create_sql before the repair (7.10). *)
Theorem C17_selfdependent_refuted :
  forall truth f a st0 d1 d2,
    let p := [SSet a (AFn f (AAttr a))] in
    pure p (AAttr a) = false /\ summary p = [(a, SelfDependent)] /\
    exists o1 o2, fst (run truth p (AAttr a) st0 [d1; d2]) = [o1; o2] /\ o1 <> o2.
Proof.
  intros truth f a st0 d1 d2 p. destruct (selfdependent_summary f a) as [H1 H2].
  split; [exact H1|split; [exact H2|]]. apply selfdependent_two_calls_differ.
Qed.
Print Assumptions C17_selfdependent_refuted.

Theorem C17_mutation_rejected : forall a e rest out, pure (SMutate a e :: rest) out = false.
Proof. exact mutate_rejected. Qed.
Print Assumptions C17_mutation_rejected.

(* ---- worked examples (hand transcriptions; the per-run obligations use regenerated programs) *)
(* ExactMatchLevel.create_sql: self.col_expression.sql_dialect = d; return f(col_expression) *)
Definition exact_match_prog : list stmt :=
  [SSet "col_expression.sql_dialect" (AFn "id" AArg)].
Definition exact_match_out : aexpr :=
  AFn "sql" (APair (AAttr "col_expression") (APair (AAttr "col_expression.sql_dialect") AArg)).
Example C17_example_exact_match :
  pure exact_match_prog exact_match_out = true /\ writes_only_dialect_slots exact_match_prog = true /\
  summary exact_match_prog = [("col_expression.sql_dialect", SetFromArg)] /\
  outputs_all_equal_fresh exact_match_prog exact_match_out [TAtom "duckdb"; TAtom "spark"; TAtom "duckdb"; TAtom "sqlite"] = true /\
  changed_attrs exact_match_prog [TAtom "duckdb"; TAtom "spark"] = ["col_expression.sql_dialect"].
Proof. vm_compute. repeat split; reflexivity. Qed.

(* AbsoluteTimeDifferenceLevel.create_sql as of the pinned commit *)
Definition atd_prog : list stmt :=
  [SSet "col_expression.sql_dialect" (AFn "id" (APair AArg (AAttr "col_expression")));
   SIf (AAttr "input_is_string")
       [SSet "col_expression" (AFn "try_parse" (APair (AAttr "col_expression")
                                                     (APair (AAttr "col_expression.sql_dialect") (AAttr "datetime_format"))))]
       []].
Definition atd_out : aexpr :=
  AFn "sql" (APair (AAttr "col_expression") (APair (AAttr "col_expression.sql_dialect") (AAttr "time_threshold_seconds"))).
Example C17_example_absolute_time_difference_rejected :
  pure atd_prog atd_out = false /\ writes_only_dialect_slots atd_prog = false /\
  existsb (fun x => String.eqb (fst x) "col_expression" && wclass_eqb (snd x) SelfDependent) (summary atd_prog) = true /\
  outputs_all_equal_fresh atd_prog atd_out [TAtom "duckdb"; TAtom "duckdb"] = false.
Proof. vm_compute. repeat split; reflexivity. Qed.
