import pandas as pd, duckdb
import splink.comparison_library as cl
from splink import DuckDBAPI, Linker, SettingsCreator
from splink.internals.one_to_one_clustering import one_to_one_clustering
import logging; logging.disable(logging.CRITICAL)
def run(names):
    A,B=names
    nodes=pd.DataFrame({"unique_id":[1,2,3],"source_dataset":[A,B,B]})
    # node1 (A) - node2 (B) 0.9 ; node1 (A) - node3 (B) 0.8 : 2 and 3 are both B => must not be together
    edges=pd.DataFrame({"unique_id_l":[1,1],"unique_id_r":[2,3],"match_probability":[0.9,0.8]})
    db=DuckDBAPI(":memory:")
    n=db.register_table(nodes,"nodes_t"); e=db.register_table(edges,"edges_t")
    out=one_to_one_clustering(nodes_table=n,edges_table=e,node_id_column_name="unique_id",source_dataset_column_name="source_dataset",
        edge_id_column_name_left="unique_id_l",edge_id_column_name_right="unique_id_r",duplicate_free_datasets=[A,B],db_api=db,threshold_match_probability=0.5)
    return sorted(out.as_pandas_dataframe().to_dict("records"),key=lambda r:str(r))
for names in [("A","B"),("A","a"),("my data","other"),("x-1","y")]:
    try: print(names, run(names))
    except Exception as ex: print(names,"RAISES",type(ex).__name__,str(ex)[:150])
