From Coq Require Import List Bool Arith Lia Permutation.
Import ListNotations.
Inductive tv := T | F | U.
Definition isT (x:tv) : bool := match x with T => true | _ => false end.
Definition coalesce_false (x:tv) : bool := isT x.
Section Blocking.
Variable rec : Type.
Definition rule := rec -> rec -> tv.
Variable adm : rec -> rec -> bool.

(* pairs produced by rule k given preceding rules prev *)
Definition keep (prev : list rule) (rk : rule) (l r : rec) : bool :=
  isT (rk l r) && adm l r && negb (existsb (fun p => coalesce_false (p l r)) prev).

Definition cross (L R : list rec) : list (rec*rec) :=
  flat_map (fun l => map (fun r => (l,r)) R) L.

Fixpoint block_aux (prev : list rule) (k:nat) (rules : list rule) (L R : list rec) : list (nat*(rec*rec)) :=
  match rules with
  | [] => []
  | rk :: rest =>
     map (fun p => (k,p)) (filter (fun p => keep prev rk (fst p) (snd p)) (cross L R))
     ++ block_aux (prev ++ [rk]) (S k) rest L R
  end.
Definition block rules L R := block_aux [] 0 rules L R.

(* spec: first true rule *)
Fixpoint first_true (k:nat) (rules : list rule) (l r : rec) : option nat :=
  match rules with
  | [] => None
  | rk :: rest => if isT (rk l r) then Some k else first_true (S k) rest l r
  end.

Lemma in_cross L R l r : In (l,r) (cross L R) <-> In l L /\ In r R.
Proof.
  unfold cross. rewrite in_flat_map. split.
  - intros [x [Hx Hin]]. apply in_map_iff in Hin. destruct Hin as [y [Heq Hy]]. inversion Heq; subst; auto.
  - intros [Hl Hr]. exists l. split; auto. apply in_map_iff. exists r; auto.
Qed.

Lemma block_aux_spec prev k rules L R n l r :
  In (n,(l,r)) (block_aux prev k rules L R) <->
  In l L /\ In r R /\ adm l r = true /\
  existsb (fun p => coalesce_false (p l r)) prev = false /\
  first_true k rules l r = Some n.
Proof.
  revert prev k. induction rules as [|rk rest IH]; intros prev k; cbn [block_aux first_true].
  - split; [intros []| intros (_&_&_&_&H); discriminate].
  - rewrite in_app_iff, in_map_iff. split.
    + intros [[p [Heq Hin]] | Hin].
      * inversion Heq; subst. apply filter_In in Hin. destruct Hin as [Hc Hk].
        apply in_cross in Hc. unfold keep in Hk. cbn [fst snd] in Hk.
        apply andb_true_iff in Hk. destruct Hk as [Hk Hn]. apply andb_true_iff in Hk. destruct Hk as [Ht Ha].
        apply negb_true_iff in Hn. rewrite Ht. tauto.
      * apply IH in Hin. destruct Hin as (Hl&Hr&Ha&Hex&Hf).
        rewrite existsb_app in Hex. apply orb_false_iff in Hex. destruct Hex as [Hex Hrk].
        cbn in Hrk. rewrite orb_false_r in Hrk. unfold coalesce_false in Hrk. rewrite Hrk. tauto.
    + intros (Hl&Hr&Ha&Hex&Hf). destruct (isT (rk l r)) eqn:Ht.
      * inversion Hf; subst. left. exists (l,r). split; auto. apply filter_In. split.
        -- apply in_cross; auto.
        -- unfold keep; cbn [fst snd]. rewrite Ht, Ha. cbn. apply negb_true_iff. exact Hex.
      * right. apply IH. split; [exact Hl|]. split; [exact Hr|]. split; [exact Ha|]. split; [|exact Hf].
        rewrite existsb_app. apply orb_false_iff. split; [exact Hex|]. cbn. unfold coalesce_false. rewrite Ht. reflexivity.
Qed.

Theorem block_spec rules L R n l r :
  In (n,(l,r)) (block rules L R) <-> In l L /\ In r R /\ adm l r = true /\ first_true 0 rules l r = Some n.
Proof. unfold block. rewrite block_aux_spec. cbn. tauto. Qed.
End Blocking.
Print Assumptions block_spec.
