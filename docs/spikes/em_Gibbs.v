From Coq Require Import Reals List Lra.
Import ListNotations.
Open Scope R_scope.

Lemma ln_le_minus1 y : 0 < y -> ln y <= y - 1.
Proof.
  intros Hy. pose proof (exp_ineq1_le (ln y)) as H. rewrite exp_ln in H by assumption. lra.
Qed.

(* weighted sum over a list of (p,q) pairs *)
Fixpoint sump (l : list (R*R)) : R := match l with [] => 0 | (p,_) :: t => p + sump t end.
Fixpoint sumq (l : list (R*R)) : R := match l with [] => 0 | (_,q) :: t => q + sumq t end.
Fixpoint kl (l : list (R*R)) : R := match l with [] => 0 | (p,q) :: t => p * ln (q / p) + kl t end.

Lemma gibbs_aux l : Forall (fun pq => 0 < fst pq /\ 0 < snd pq) l -> kl l <= sumq l - sump l.
Proof.
  induction 1 as [|[p q] t [Hp Hq] _ IH]; cbn [kl sumq sump fst snd] in *; [lra|].
  assert (0 < q / p) by (apply Rdiv_lt_0_compat; assumption).
  pose proof (ln_le_minus1 (q/p) H) as L.
  assert (p * ln (q/p) <= p * (q/p - 1)) by (apply Rmult_le_compat_l; lra).
  replace (p * (q/p - 1)) with (q - p) in H0 by (field; lra). lra.
Qed.

Theorem gibbs l : Forall (fun pq => 0 < fst pq /\ 0 < snd pq) l -> sump l = sumq l -> kl l <= 0.
Proof. intros H E. pose proof (gibbs_aux l H). lra. Qed.

(* two-point Jensen for ln, derived from gibbs: ln (p x + (1-p) y) >= p ln x + (1-p) ln y *)
Lemma jensen2 p x y : 0 < p < 1 -> 0 < x -> 0 < y -> p * ln x + (1-p) * ln y <= ln (p*x + (1-p)*y).
Proof.
  intros [Hp0 Hp1] Hx Hy.
  set (s := p*x + (1-p)*y).
  assert (Hs : 0 < s) by (unfold s; nra).
  (* apply gibbs to [(p, p*x/s); (1-p, (1-p)*y/s)] *)
  assert (G := gibbs [(p, p*x/s); (1-p, (1-p)*y/s)]).
  cbn [kl sump sumq] in G.
  assert (Hq1 : 0 < p*x/s) by (apply Rdiv_lt_0_compat; nra).
  assert (Hq2 : 0 < (1-p)*y/s) by (apply Rdiv_lt_0_compat; nra).
  assert (F : Forall (fun pq : R*R => 0 < fst pq /\ 0 < snd pq) [(p, p*x/s); (1-p, (1-p)*y/s)]).
  { repeat constructor; cbn; lra. }
  assert (E : p + ((1-p) + 0) = p*x/s + ((1-p)*y/s + 0)).
  { unfold s. field. unfold s in Hs. lra. }
  specialize (G F E).
  replace (p*x/s/p) with (x/s) in G by (field; lra).
  replace ((1-p)*y/s/(1-p)) with (y/s) in G by (field; lra).
  assert (D : forall a b, 0 < a -> 0 < b -> ln (a / b) = ln a - ln b).
  { intros a b Ha Hb. unfold Rdiv. rewrite ln_mult by (try assumption; apply Rinv_0_lt_compat; assumption). rewrite ln_Rinv by assumption. lra. }
  rewrite !D in G by lra. fold s. nra.
Qed.
Print Assumptions jensen2.
