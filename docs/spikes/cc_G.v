From Coq Require Import ZArith List Bool Lia.
Import ListNotations.
Open Scope Z_scope.

(* ---------- min over a list with a default ---------- *)
Fixpoint minl (d : Z) (l : list Z) : Z :=
  match l with [] => d | x :: t => Z.min x (minl d t) end.

Lemma minl_le_d d l : minl d l <= d.
Proof. induction l; cbn; lia. Qed.
Lemma minl_le_in d l x : In x l -> minl d l <= x.
Proof. induction l as [|a t IH]; cbn; [tauto|]. intros [->|H]; [lia|]. specialize (IH H). lia. Qed.
Lemma minl_in d l : minl d l = d \/ In (minl d l) l.
Proof. induction l as [|a t IH]; cbn; [auto|]. destruct (Z.min_spec a (minl d t)) as [[_ ->]|[_ ->]]; [auto|]. destruct IH; auto. Qed.

Section CC.
Variable nodes : list Z.
Variable nbr : Z -> list Z.              (* neighbours incl. self *)
Hypothesis nbr_self : forall v, In v nodes -> In v (nbr v).
Hypothesis nbr_sym  : forall v w, In v nodes -> In w (nbr v) -> In v (nbr w).
Hypothesis nbr_closed : forall v w, In v nodes -> In w (nbr v) -> In w nodes.

(* connectivity: reflexive-transitive closure of nbr on nodes *)
Inductive conn : Z -> Z -> Prop :=
| conn_refl v : In v nodes -> conn v v
| conn_step v w x : conn v w -> In x (nbr w) -> conn v x.

Lemma conn_in_l v w : conn v w -> In v nodes. Proof. induction 1; auto. Qed.
Lemma conn_in_r v w : conn v w -> In w nodes.
Proof. induction 1; auto. eapply nbr_closed; eauto. Qed.
Lemma conn_trans a b c : conn a b -> conn b c -> conn a c.
Proof. intros H1 H2. induction H2 as [v Hv|v w x Hvw IH Hx]; [exact H1|]. econstructor; [apply IH; exact H1|exact Hx]. Qed.
Lemma conn_sym a b : conn a b -> conn b a.
Proof. induction 1 as [v Hv|v w x Hvw IH Hx].
  - constructor; auto.
  - assert (In w nodes) by (eapply conn_in_r; eauto).
    assert (In x nodes) by (eapply nbr_closed; eauto).
    eapply conn_trans; [|exact IH]. econstructor; [constructor; auto|]. apply nbr_sym; auto.
Qed.

(* one generic "propagation" state: rep_k and rep_{k-1} *)
Definition flag (rep prev : Z -> Z) (v : Z) : bool := negb (rep v =? prev v).
Definition next (rep prev : Z -> Z) (v : Z) : Z :=
  minl (rep v) (map rep (filter (flag rep prev) (nbr v))).

Definition I1 (rep : Z -> Z) := forall v, In v nodes -> conn v (rep v).
Definition I2 (rep : Z -> Z) := forall v, In v nodes -> rep v <= v.
Definition J (rep prev : Z -> Z) := forall v w, In v nodes -> In w (nbr v) -> rep v <= prev w.
Definition Dec (rep prev : Z -> Z) := forall v, In v nodes -> rep v <= prev v.

Lemma next_I1 rep prev : I1 rep -> I1 (next rep prev).
Proof.
  intros H v Hv. unfold next.
  destruct (minl_in (rep v) (map rep (filter (flag rep prev) (nbr v)))) as [-> | Hin]; [auto|].
  apply in_map_iff in Hin. destruct Hin as [w [Hw Hin]]. apply filter_In in Hin. destruct Hin as [Hin _].
  rewrite <- Hw. eapply conn_trans; [|apply H; eapply nbr_closed; eauto].
  econstructor; [constructor; auto|auto].
Qed.

Lemma next_I2 rep prev : I2 rep -> I2 (next rep prev).
Proof. intros H v Hv. unfold next. pose proof (minl_le_d (rep v) (map rep (filter (flag rep prev) (nbr v)))). specialize (H v Hv). lia. Qed.

Lemma next_Dec rep prev : Dec (next rep prev) rep.
Proof. intros v _. apply minl_le_d. Qed.

Lemma next_J rep prev : J rep prev -> Dec rep prev -> J (next rep prev) rep.
Proof.
  intros HJ HD v w Hv Hw. unfold next.
  destruct (flag rep prev w) eqn:Hf.
  - apply minl_le_in. apply in_map. apply filter_In. auto.
  - unfold flag in Hf. apply negb_false_iff in Hf. apply Z.eqb_eq in Hf.
    pose proof (minl_le_d (rep v) (map rep (filter (flag rep prev) (nbr v)))).
    specialize (HJ v w Hv Hw). lia.
Qed.

(* exit: no flags set *)
Lemma exit_constant_on_edges rep prev :
  J rep prev -> (forall v, In v nodes -> flag rep prev v = false) ->
  forall v w, In v nodes -> In w (nbr v) -> rep v = rep w.
Proof.
  intros HJ Hex v w Hv Hw.
  assert (Hwn : In w nodes) by (eapply nbr_closed; eauto).
  assert (E : forall x, In x nodes -> rep x = prev x).
  { intros x Hx. specialize (Hex x Hx). unfold flag in Hex. apply negb_false_iff in Hex. apply Z.eqb_eq in Hex. exact Hex. }
  pose proof (HJ v w Hv Hw) as A1. pose proof (HJ w v Hwn (nbr_sym _ _ Hv Hw)) as A2.
  pose proof (E w Hwn) as Ew. pose proof (E v Hv) as Ev. lia.
Qed.

Lemma constant_on_conn (rep : Z -> Z) :
  (forall v w, In v nodes -> In w (nbr v) -> rep v = rep w) ->
  forall v w, conn v w -> rep v = rep w.
Proof.
  intros H v w C. induction C; auto. rewrite IHC. apply H; auto. eapply conn_in_r; eauto.
Qed.

Theorem exit_is_component_min rep prev :
  I1 rep -> I2 rep -> J rep prev -> (forall v, In v nodes -> flag rep prev v = false) ->
  forall v, In v nodes -> conn v (rep v) /\ forall w, conn v w -> rep v <= w.
Proof.
  intros H1 H2 HJ Hex v Hv. split; [auto|].
  intros w C. rewrite (constant_on_conn rep (exit_constant_on_edges rep prev HJ Hex) v w C).
  apply H2. eapply conn_in_r; eauto.
Qed.
End CC.
Print Assumptions exit_is_component_min.
