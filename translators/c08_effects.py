"""C08 translator: effect traces (Model/Atomic.v `prog`) of Splink's public operations.

Walks the Python `ast` of each public method and of the helpers it calls (a fixed list of
inlined callees), tracking which local names alias the linker-visible state
(`self._linker`, its `_settings_obj`, `core_model_settings`, comparisons, levels, blocking
rules ...) or a private copy of it (`deepcopy(linker)`, `CoreModelSettings.copy()`), and emits

    Sql site | Raise site | Mut field private value | Save slot field | Restore field slot
    | Try body fin | Choice node then else | Loop node body

Fail-closed: an unknown statement kind, an effect inside a conditional expression, a `return`
inside a loop or inside a try body that can also fall through, `try/except` around effects ->
Untranslatable; a call the tables below do not classify and that is handed (or invoked on)
visible state -> `Mut FOther` + `Sql` (so the checker rejects whatever depends on it).

Besides the program the translator returns the tables the harness needs to replay a real run
on the model: for every Sql/Raise site and every decision node the chain of
(function, statement line) through the inlined calls, so that a Python stack / line trace can be
mapped to sites, occurrences and decisions.
"""
from __future__ import annotations

import ast
import os
from dataclasses import dataclass, field as dfield
from pathlib import Path

REPO = Path(os.environ.get("VERIF_REPO", "/repo"))


class Untranslatable(Exception):
    pass


FILES = [
    "splink/internals/linker_components/training.py",
    "splink/internals/linker_components/inference.py",
    "splink/internals/linker_components/clustering.py",
    "splink/internals/linker_components/evaluation.py",
    "splink/internals/linker.py",
    "splink/internals/em_training_session.py",
    "splink/internals/estimate_u.py",
    "splink/internals/m_training.py",
    "splink/internals/m_from_labels.py",
    "splink/internals/m_u_records_to_parameters.py",
    "splink/internals/accuracy.py",
    "splink/internals/linker_components/table_management.py",
    "splink/internals/linker_components/misc.py",
    "splink/internals/linker_components/visualisations.py",
    "splink/internals/clustering.py",
    "splink/internals/unlinkables.py",
    "splink/internals/match_weights_histogram.py",
    "splink/internals/labelling_tool.py",
]

# public operations: name -> (class, method)
OPS = {
    "estimate_u_using_random_sampling": ("LinkerTraining", "estimate_u_using_random_sampling"),
    "estimate_parameters_using_expectation_maximisation": ("LinkerTraining", "estimate_parameters_using_expectation_maximisation"),
    "estimate_probability_two_random_records_match": ("LinkerTraining", "estimate_probability_two_random_records_match"),
    "estimate_m_from_label_column": ("LinkerTraining", "estimate_m_from_label_column"),
    "estimate_m_from_pairwise_labels": ("LinkerTraining", "estimate_m_from_pairwise_labels"),
    "predict": ("LinkerInference", "predict"),
    "deterministic_link": ("LinkerInference", "deterministic_link"),
    "find_matches_to_new_records": ("LinkerInference", "find_matches_to_new_records"),
    "compare_two_records": ("LinkerInference", "compare_two_records"),
    "cluster_pairwise_predictions_at_threshold": ("LinkerClustering", "cluster_pairwise_predictions_at_threshold"),
    "cluster_using_single_best_links": ("LinkerClustering", "cluster_using_single_best_links"),
    "accuracy_analysis_from_labels_column": ("LinkerEvalution", "accuracy_analysis_from_labels_column"),
    "accuracy_analysis_from_labels_table": ("LinkerEvalution", "accuracy_analysis_from_labels_table"),
    "prediction_errors_from_labels_column": ("LinkerEvalution", "prediction_errors_from_labels_column"),
    "prediction_errors_from_labels_table": ("LinkerEvalution", "prediction_errors_from_labels_table"),
    # second wave: table management, remaining evaluation / clustering, misc, visualisation data
    "compute_tf_table": ("LinkerTableManagement", "compute_tf_table"),
    "register_term_frequency_lookup": ("LinkerTableManagement", "register_term_frequency_lookup"),
    "register_table_input_nodes_concat_with_tf": ("LinkerTableManagement", "register_table_input_nodes_concat_with_tf"),
    "register_table_predict": ("LinkerTableManagement", "register_table_predict"),
    "register_labels_table": ("LinkerTableManagement", "register_labels_table"),
    "register_table": ("LinkerTableManagement", "register_table"),
    "invalidate_cache": ("LinkerTableManagement", "invalidate_cache"),
    "delete_tables_created_by_splink_from_db": ("LinkerTableManagement", "delete_tables_created_by_splink_from_db"),
    "unlinkables_chart": ("LinkerEvalution", "unlinkables_chart"),
    "labelling_tool_for_specific_record": ("LinkerEvalution", "labelling_tool_for_specific_record"),
    "compute_graph_metrics": ("LinkerClustering", "compute_graph_metrics"),
    "cluster_pairwise_predictions_at_multiple_thresholds": (None, "cluster_pairwise_predictions_at_multiple_thresholds"),
    "save_model_to_json": ("LinkerMisc", "save_model_to_json"),
    "query_sql": ("LinkerMisc", "query_sql"),
    "match_weights_histogram": ("LinkerVisualisations", "match_weights_histogram"),
    "comparison_viewer_dashboard": ("LinkerVisualisations", "comparison_viewer_dashboard"),
    "cluster_studio_dashboard": ("LinkerVisualisations", "cluster_studio_dashboard"),
    "waterfall_chart": ("LinkerVisualisations", "waterfall_chart"),
    "parameter_estimate_comparisons_chart": ("LinkerVisualisations", "parameter_estimate_comparisons_chart"),
    "tf_adjustment_chart": ("LinkerVisualisations", "tf_adjustment_chart"),
    "match_weights_chart": ("LinkerVisualisations", "match_weights_chart"),
    "m_u_parameters_chart": ("LinkerVisualisations", "m_u_parameters_chart"),
}

COMPONENTS = {"training", "inference", "clustering", "evaluation", "misc", "table_management", "visualisations"}
COMPONENT_OF_CLASS = {"LinkerTraining": "training", "LinkerInference": "inference", "LinkerClustering": "clustering",
                      "LinkerEvalution": "evaluation", "LinkerTableManagement": "table_management", "LinkerMisc": "misc",
                      "LinkerVisualisations": "visualisations"}

# callees whose bodies are inlined (simple name -> (class or None, name)); methods of the linker
# and of the EM session are resolved on the receiver
INLINE_FUNCS = {
    "estimate_u_values": (None, "estimate_u_values"),
    "estimate_m_values_from_label_column": (None, "estimate_m_values_from_label_column"),
    "estimate_m_from_pairwise_labels": (None, "estimate_m_from_pairwise_labels"),
    "append_u_probability_to_comparison_level_trained_probabilities": (None, "append_u_probability_to_comparison_level_trained_probabilities"),
    "append_m_probability_to_comparison_level_trained_probabilities": (None, "append_m_probability_to_comparison_level_trained_probabilities"),
    "truth_space_table_from_labels_column": (None, "truth_space_table_from_labels_column"),
    "truth_space_table_from_labels_table": (None, "truth_space_table_from_labels_table"),
    "_predict_from_label_column_sql": (None, "_predict_from_label_column_sql"),
    "prediction_errors_from_label_column": (None, "prediction_errors_from_label_column"),
    "prediction_errors_from_labels_table": (None, "prediction_errors_from_labels_table"),
    "predictions_from_sample_of_pairwise_labels_sql": (None, "predictions_from_sample_of_pairwise_labels_sql"),
    "unlinkables_data": (None, "unlinkables_data"),
    "histogram_data": (None, "histogram_data"),
    "generate_labelling_tool_comparisons": (None, "generate_labelling_tool_comparisons"),
}
LINKER_INLINE_METHODS = {
    "_populate_m_u_from_trained_values", "_populate_probability_two_random_records_match_from_trained_values",
    "_get_labels_tablename_from_input", "_raise_error_if_necessary_accuracy_columns_not_computed",
    "_raise_error_if_necessary_waterfall_columns_not_computed", "_predict_warning",
}
SESSION_CLASS = "EMTrainingSession"

# calls that (may) execute SQL: possible failure points.  Trusted not to write the settings
# object they are handed; the correspondence run checks both halves on every exercised path
# (every executed statement must map to one of these sites; the post-failure state is diffed).
SQL_NAMES = {
    "sql_pipeline_to_splink_dataframe", "sql_to_splink_dataframe_checking_cache", "_sql_to_splink_dataframe",
    "register_table", "register_multiple_tables", "register_labels_table",
    "compute_df_concat_with_tf", "compute_df_concat",
    "as_record_dict", "as_pandas_dataframe", "as_duckdbpyrelation",
    "drop_table_from_database_and_remove_from_cache", "drop_materialised_id_pairs_dataframe",
    "materialise_exploded_id_tables", "_cumulative_comparisons_to_be_scored_from_blocking_rules",
    "expectation_maximisation", "solve_connected_components", "one_to_one_clustering",
    "add_unique_id_and_source_dataset_cols_if_needed", "predict", "deterministic_link", "_self_link",
    "block_from_labels", "_join_new_table_to_df_concat_with_tf_sql", "table_exists_in_database",
    "delete_table_from_database", "concat_table_column_names", "_table_to_splink_dataframe",
    "compute_tf_table", "validate", "enqueue_df_concat", "enqueue_df_concat_with_tf",
    # helpers handed the linker that run SQL of their own (not inlined)
    "compute_edge_metrics", "tf_adjustment_chart", "render_labelling_tool_html", "render_splink_cluster_studio_html",
    "delete_tables_created_by_splink_from_db", "cluster_pairwise_predictions_at_threshold",
    "_calculate_stable_clusters_at_new_threshold", "_generate_detailed_cluster_comparison_sql",
    "_generate_cluster_summary_stats_sql", "find_matches_to_new_records",
}
SQL_ATTRS = {"columns", "columns_escaped"}

# calls handed visible state that neither execute SQL nor write it (SQL text generators, lookups,
# logging helpers)
PURE_NAMES = {
    # builtins / typing
    "len", "isinstance", "set", "list", "tuple", "dict", "sorted", "enumerate", "zip", "str", "int", "float", "bool",
    "sum", "max", "min", "any", "all", "print", "range", "filter", "map", "getattr", "hasattr", "type", "repr",
    "median", "issubset", "intersection", "join", "format", "get", "items", "keys", "values", "lower", "replace",
    "info", "warning", "debug", "log", "time", "cpu_count", "to_dict", "unquote",
    # Splink SQL-text generators and lookups
    "enqueue_sql", "enqueue_list_of_sqls", "append_input_dataframe",
    "block_using_rules_sqls", "blocking_rule_to_obj", "compute_comparison_vector_values_from_id_pairs_sqls",
    "compute_comparison_vector_values_sql", "compute_new_parameters_sql", "compute_proportions_for_new_parameters",
    "predict_from_comparison_vectors_sqls_using_settings", "predict_from_comparison_vectors_sqls",
    "split_df_concat_with_tf_into_two_tables_sqls", "m_u_records_to_lookup_dict", "not_trained_message",
    "_columns_without_estimated_parameters_message", "_not_trained_messages", "_random_sample_sql",
    "to_blocking_rule_creator", "get_blocking_rule", "ensure_is_iterable", "ensure_is_list", "ascii_uid",
    "table_to_splink_dataframe", "get_with_logging", "colname_to_tf_tablename",
    "_select_found_by_blocking_rules", "_composite_unique_id_from_edges_sql", "_composite_unique_id_from_nodes_sql",
    "threshold_args_to_match_prob", "_rows_needed_for_n_pairs", "_proportion_sample_size_link_only",
    "get_columns_used_from_sql", "_get_comparison_levels_corresponding_to_training_blocking_rule",
    "columns_to_select_for_comparison_vector_values", "prob_to_bayes_factor", "bayes_factor_to_prob",
    "CTEPipeline", "BlockingRule", "InputColumn", "ValueError", "TypeError", "Exception", "EMTrainingException",
    "SplinkException", "truth_space_table_from_labels_with_predictions_sqls", "calculate_cartesian",
    "threshold_selection_tool", "accuracy_chart", "roc_chart", "precision_recall_chart",
    "_node_degree_centralisation_sql", "_size_density_centralisation_sql", "copy_", "lower_id_to_left_hand_side",
    "_composite_unique_id_from_edges_sql", "GraphMetricsResults", "duckdb_chunk_sql",
    # second wave
    "term_frequencies_for_single_column_sql", "comparison_vector_distribution_sql", "comparison_viewer_table_sqls",
    "render_splink_comparison_viewer_html", "_as_completed_dict", "as_dict", "waterfall_chart", "unlinkables_chart",
    "match_weights_histogram", "parameter_estimate_comparisons", "match_weights_chart", "m_u_parameters_chart",
    "threshold_args_to_match_prob_list", "_get_edge_id_column_names",
    "_bins", "_hist_sql", "isfile", "open", "dump", "dumps", "write", "ensure_is_list", "Template", "read_resource",
}
# accessors that return a part of their receiver
SUBOBJECT = {
    "get_comparison_by_output_column_name": ("comparisons", "[]"),
    "_get_comparison_by_output_column_name": ("core_model_settings", "comparisons", "[]"),
    "_get_comparison_level_by_comparison_vector_value": ("comparison_levels", "[]"),
}
# pure calls whose result may be (or contain) their receiver / arguments
PASS_THROUGH = {"list", "sorted", "enumerate", "zip", "filter", "tuple", "set", "reversed", "copy", "dict", "map", "getattr",
                "get", "get_with_logging", "items", "keys", "values", "to_blocking_rule_creator", "ensure_is_iterable",
                "ensure_is_list", "max", "min", "blocking_rule_to_obj", "join_vals"}
ALIASING_BUILTINS = PASS_THROUGH
# the only names of PURE_NAMES accepted as *methods of a linker-visible object* (reviewed: none of them writes its
# receiver); any other method call on visible state is an unclassified call (Mut FOther + Sql)
VISIBLE_PURE_METHODS = {
    "_as_completed_dict", "as_dict",                       # Settings serialisers (C09's subject; no writes)
    "_columns_without_estimated_parameters_message", "_not_trained_messages",   # logging
    "m_u_parameters_chart", "match_weights_chart",         # chart builders of Settings (read-only)
    "get_with_logging",                                    # cache lookup (appends to a query log only)
    "table_to_splink_dataframe",                           # db api: wraps a table name
}
MUTATORS = {"append", "extend", "pop", "remove", "clear", "insert", "update", "sort", "reverse", "add", "discard",
            "add_preceding_rules", "_add_trained_m_probability", "_add_trained_u_probability", "setdefault",
            "invalidate_cache"}
# not model state: the db api and the input tables.  Writes to the table cache made by the operation's own code are
# FCache; linker._cache_uid is the `linker_uid` key of the saved settings, hence FOther.
NOT_MODEL_STATE = {"_db_api", "_input_tables_dict", "_sql_dialect", "_infinity_expression"}

FIELDS = ["FCoreModel", "FComparisons", "FPrior", "FLevelMU", "FLevelTrained", "FLevelOther", "FBlockingRules",
          "FLinkType", "FRetainMatching", "FRetainIntermediate", "FSessions", "FOther", "FCache"]
RESTORABLE = {"FCoreModel", "FComparisons", "FPrior", "FBlockingRules", "FLinkType", "FRetainMatching", "FRetainIntermediate"}


# ------------------------------------------------------------------------------------------
# abstract values
@dataclass(frozen=True)
class Ref:
    root: str            # "vis" | "priv"
    path: tuple


@dataclass(frozen=True)
class Obj:
    cls: str
    oid: int


OTHER = "OTHER"      # unknown provenance: may alias linker-visible state (operation arguments, results of pass-through calls)
FRESH = "FRESH"      # provably not linker state: constants, displays, module globals, objects constructed in this function


def norm_path(path: tuple) -> tuple:
    p = list(path)
    out = []
    i = 0
    while i < len(p):
        if p[i] in COMPONENTS and i + 1 < len(p) and p[i + 1] == "_linker":
            i += 2
            continue
        out.append(p[i])
        i += 1
    if out[:2] == ["_settings_obj", "comparisons"]:
        out[1:2] = ["core_model_settings", "comparisons"]
    if out[:2] == ["_settings_obj", "_probability_two_random_records_match"]:
        out[1:2] = ["core_model_settings", "probability_two_random_records_match"]
    # levels: both accessors name the same list
    out = ["comparison_levels" if x == "_comparison_levels_excluding_null" else x for x in out]
    return tuple(out)


def classify(path: tuple):
    """field written when the object at `path` (rooted at the linker) is assigned/mutated;
    None = not model state (table cache, db api)."""
    if not path:
        return "FOther"
    if path[0] in NOT_MODEL_STATE:
        return None
    if path[0] == "_em_training_sessions":
        return "FSessions"
    if path[0] == "_intermediate_table_cache":
        return "FCache"
    if path[0] != "_settings_obj":
        return "FOther"
    p = path[1:]
    if not p:
        return "FOther"
    if p[0] == "core_model_settings":
        q = p[1:]
        if not q:
            return "FCoreModel"
        if q[0] == "probability_two_random_records_match":
            return "FPrior"
        if q[0] == "comparisons":
            r = q[1:]
            if "comparison_levels" in r:
                k = r.index("comparison_levels")
                rest = r[k + 1:]
                if len(rest) >= 2 and rest[0] == "[]":
                    a = rest[1]
                    if a in ("m_probability", "u_probability", "_m_probability", "_u_probability"):
                        return "FLevelMU"
                    if a in ("_trained_m_probabilities", "_trained_u_probabilities"):
                        return "FLevelTrained"
                    return "FLevelOther"
                if rest == ("[]",):
                    return "FLevelOther"          # the level object itself
                return "FComparisons"
            return "FComparisons"
        return "FOther"
    if p[0] == "_blocking_rules_to_generate_predictions":
        return "FBlockingRules"
    if p[0] == "_link_type":
        return "FLinkType"
    if p[0] == "_retain_matching_columns":
        return "FRetainMatching"
    if p[0] == "_retain_intermediate_calculation_columns":
        return "FRetainIntermediate"
    return "FOther"


# ------------------------------------------------------------------------------------------
# source index
class Index:
    def __init__(self, repo: Path = None):
        self.repo = Path(repo or REPO)
        self.defs: dict[tuple, ast.FunctionDef] = {}     # (class or None, name) -> def
        self.file_of: dict[tuple, str] = {}
        self.props: set[tuple] = set()
        for rel in FILES:
            src = (self.repo / rel).read_text()
            tree = ast.parse(src)
            for node in tree.body:
                if isinstance(node, ast.FunctionDef):
                    self._add(None, node, rel)
                elif isinstance(node, ast.ClassDef):
                    for sub in node.body:
                        if isinstance(sub, ast.FunctionDef):
                            self._add(node.name, sub, rel)

    def _add(self, cls, node, rel):
        key = (cls, node.name)
        self.defs[key] = node
        self.file_of[key] = rel
        for d in node.decorator_list:
            if isinstance(d, ast.Name) and d.id == "property":
                self.props.add(key)

    def fkey(self, key) -> str:
        cls, name = key
        return f"{self.file_of[key]}::{cls + '.' if cls else ''}{name}"


def stmt_spans(fn: ast.FunctionDef):
    """[(first, last, norm_line)] for every simple statement and every compound header."""
    spans = []

    def header_end(s):
        if isinstance(s, (ast.If, ast.While)):
            return s.test.end_lineno
        if isinstance(s, (ast.For, ast.AsyncFor)):
            return s.iter.end_lineno
        if isinstance(s, ast.With):
            return max(i.context_expr.end_lineno for i in s.items)
        return s.lineno

    def walk(body):
        for s in body:
            if isinstance(s, (ast.If, ast.While, ast.For, ast.With, ast.Try)):
                spans.append((s.lineno, header_end(s), s.lineno))
                for name in ("body", "orelse", "finalbody"):
                    walk(getattr(s, name, []) or [])
                for h in getattr(s, "handlers", []) or []:
                    spans.append((h.lineno, h.lineno, h.lineno))
                    walk(h.body)
            elif isinstance(s, (ast.FunctionDef, ast.ClassDef)):
                spans.append((s.lineno, s.lineno, s.lineno))
            else:
                spans.append((s.lineno, s.end_lineno, s.lineno))
    walk(fn.body)
    return spans


# ------------------------------------------------------------------------------------------
# program terms
def seq(items):
    flat = []
    for i in items:
        if i == ("Skip",):
            continue
        if i[0] == "Seq":
            flat.extend(i[1])
        else:
            flat.append(i)
    if not flat:
        return ("Skip",)
    return ("Seq", flat) if len(flat) != 1 else flat[0]


def has_effect(p) -> bool:
    t = p[0]
    if t == "Skip":
        return False
    if t == "Seq":
        return any(has_effect(x) for x in p[1])
    if t in ("Sql", "Raise", "Mut", "Restore"):
        return True
    if t == "Save":
        return False
    if t == "Try":
        return has_effect(p[1]) or has_effect(p[2])
    if t == "Choice":
        return has_effect(p[2]) or has_effect(p[3])
    if t == "Loop":
        return has_effect(p[2])
    raise AssertionError(t)


def has_save(p) -> bool:
    t = p[0]
    if t == "Save":
        return True
    if t == "Seq":
        return any(has_save(x) for x in p[1])
    if t == "Try":
        return has_save(p[1]) or has_save(p[2])
    if t == "Choice":
        return has_save(p[2]) or has_save(p[3])
    if t == "Loop":
        return has_save(p[2])
    return False


def to_coq(p) -> str:
    t = p[0]
    if t == "Skip":
        return "Skip"
    if t == "Seq":
        if not p[1]:
            return "Skip"
        return "(seqs [" + "; ".join(to_coq(x) for x in p[1]) + "])"
    if t == "Sql":
        return f"(Sql {p[1]})"
    if t == "Raise":
        return f"(Raise {p[1]})"
    if t == "Mut":
        v = "VFresh" if p[3] is None else f"(VConst ({p[3]})%Z)"
        return f"(Mut {p[1]} {'true' if p[2] else 'false'} {v})"
    if t == "Save":
        return f"(Save {p[1]} {p[2]})"
    if t == "Restore":
        return f"(Restore {p[1]} {p[2]})"
    if t == "Try":
        return f"(Try {to_coq(p[1])} {to_coq(p[2])})"
    if t == "Choice":
        return f"(Choice {p[1]} {to_coq(p[2])} {to_coq(p[3])})"
    if t == "Loop":
        return f"(Loop {p[1]} {to_coq(p[2])})"
    raise AssertionError(t)


def pretty(p, ind=0) -> str:
    pad = "  " * ind
    t = p[0]
    if t == "Seq":
        return "\n".join(pretty(x, ind) for x in p[1]) if p[1] else pad + "Skip"
    if t == "Try":
        return f"{pad}Try\n{pretty(p[1], ind + 1)}\n{pad}Finally\n{pretty(p[2], ind + 1)}"
    if t == "Choice":
        return f"{pad}Choice {p[1]}\n{pretty(p[2], ind + 1)}\n{pad}Else\n{pretty(p[3], ind + 1)}"
    if t == "Loop":
        return f"{pad}Loop {p[1]}\n{pretty(p[2], ind + 1)}"
    return pad + " ".join(str(x) for x in p)


# ------------------------------------------------------------------------------------------
@dataclass
class Trace:
    op: str
    prog: tuple
    sites: dict = dfield(default_factory=dict)        # (chain, fkey, line) -> site id   (Sql)
    raises: dict = dfield(default_factory=dict)       # (chain, fkey, line) -> site id   (Raise)
    nodes: dict = dfield(default_factory=dict)        # (chain, fkey, header line) -> (node id, kind, body first line)
    frames: set = dfield(default_factory=set)         # valid (chain, fkey)
    site_desc: dict = dfield(default_factory=dict)    # site id -> text
    unknown_calls: list = dfield(default_factory=list)
    funcs: set = dfield(default_factory=set)          # (class, name) keys of all inlined defs


class Translator:
    def __init__(self, index: Index):
        self.ix = index

    # ---- entry
    def translate(self, op: str) -> Trace:
        cls, name = OPS[op]
        key = (cls, name)
        if key not in self.ix.defs:
            raise Untranslatable(f"operation {cls}.{name} not found")
        self.tr = Trace(op, ("Skip",))
        self.ids: dict = {}
        self.nslot: dict = {}
        self.heap: dict = {}
        self.noid = 0
        self.chain: tuple = ()
        self.stack: list = []
        fn = self.ix.defs[key]
        env = {}
        if cls is not None:
            env["self"] = Ref("vis", (COMPONENT_OF_CLASS[cls],))
        for a in fn.args.args + fn.args.kwonlyargs:
            env.setdefault(a.arg, OTHER)
        prog, _ret, _term = self.run_function(key, env)
        self.tr.prog = prog
        return self.tr

    # ---- ids
    def site_id(self, table: dict, line: int, desc: str) -> int:
        k = (self.chain, self.cur_fkey, line)
        # one id space for Sql and Raise sites
        if k not in table:
            table[k] = len(self.tr.sites) + len(self.tr.raises)
            self.tr.site_desc[table[k]] = f"{desc} @ {self.cur_fkey.split('::')[1]}:{line}"
        return table[k]

    def node_id(self, line: int, kind: str, body_first: int) -> int:
        k = (self.chain, self.cur_fkey, line)
        if k not in self.tr.nodes:
            self.tr.nodes[k] = (len(self.tr.nodes), kind, body_first)
        return self.tr.nodes[k][0]

    def slot_id(self, line: int, name: str) -> int:
        k = (self.chain, self.cur_fkey, line, name)
        if k not in self.nslot:
            self.nslot[k] = len(self.nslot)
        return self.nslot[k]

    # ---- functions
    def run_function(self, key, env):
        if len(self.stack) > 8 or key in [k for k, _ in self.stack]:
            raise Untranslatable(f"recursive / too deep inlining at {key}")
        fn = self.ix.defs[key]
        saved = (getattr(self, "cur_fkey", None), getattr(self, "env", None), getattr(self, "slots", None),
                 getattr(self, "rets", None), getattr(self, "cur_stmt_line", None))
        self.cur_fkey = self.ix.fkey(key)
        self.tr.frames.add((self.chain, self.cur_fkey))
        self.tr.funcs.add(key)
        self.stack.append((key, self.chain))
        self.env = env
        self.slots = {}
        self.rets = []
        prog, term = self.block(fn.body)
        rets = self.rets
        self.stack.pop()
        self.cur_fkey, self.env, self.slots, self.rets, self.cur_stmt_line = saved
        return prog, self.join_vals(rets), term

    def inline(self, key, selfv, call: ast.Call, argvals, kwvals):
        fn = self.ix.defs[key]
        params = [a.arg for a in fn.args.args]
        env = {}
        if selfv is not None:
            env[params[0]] = selfv
            params = params[1:]
        for p, v in zip(params, argvals):
            env[p] = v
        for k, v in kwvals.items():
            env[k] = v
        for a in fn.args.args + fn.args.kwonlyargs:
            env.setdefault(a.arg, OTHER)
        old_chain = self.chain
        self.chain = self.chain + ((self.cur_fkey, self.cur_stmt_line),)
        out_saved = self.out
        self.out = []
        try:
            prog, ret, term = self.run_function(key, env)
        finally:
            self.chain = old_chain
            self.out = out_saved
        # a callee that always raises terminates the caller's statement as well; keep it simple:
        self.out.append(prog)
        return ret

    @staticmethod
    def rank(v):
        if isinstance(v, Ref):
            return 3 if v.root == "vis" else 1
        if isinstance(v, Obj):
            return 2
        return -1 if v == FRESH else 0

    def join_vals(self, vals):
        vals = [v for v in vals if v is not None]
        if not vals:
            return FRESH
        return max(vals, key=self.rank)

    def join_env(self, e1, e2):
        out = {}
        for k in set(e1) | set(e2):
            a, b = e1.get(k, OTHER), e2.get(k, OTHER)
            out[k] = a if a == b else self.join_vals([a, b])
        return out

    # ---- statements
    def block(self, stmts):
        """-> (prog, terminated) ; terminated = every path ends in return/raise"""
        items = []
        for i, s in enumerate(stmts):
            self.cur_stmt_line = s.lineno
            if isinstance(s, ast.If):
                p, term = self.stmt_if(s, stmts[i + 1:])
                items.append(p)
                if term is not None:        # continuation consumed
                    return seq(items), term
                continue
            p, term = self.stmt(s)
            items.append(p)
            if term:
                return seq(items), True
        return seq(items), False

    def emit_expr(self, node):
        self.out = []
        v = self.ev(node) if node is not None else OTHER
        out, self.out = self.out, []
        return v, out

    def stmt_if(self, s: ast.If, rest):
        _v, pre = self.emit_expr(s.test)
        if s.body[0].lineno <= s.test.end_lineno:
            raise Untranslatable(f"one-line if at {self.cur_fkey}:{s.lineno}")
        env0, slots0 = dict(self.env), dict(self.slots)
        pa, ta = self.block(s.body)
        enva, slotsa = self.env, self.slots
        self.env, self.slots = dict(env0), dict(slots0)
        pb, tb = self.block(s.orelse) if s.orelse else (("Skip",), False)
        envb, slotsb = self.env, self.slots
        self.cur_stmt_line = s.lineno
        if not ta and not tb:
            self.env = self.join_env(enva, envb)
            self.slots = {k: v for k, v in slotsa.items() if slotsb.get(k) == v}
            if not has_effect(pa) and not has_effect(pb) and not has_save(pa) and not has_save(pb):
                return seq(pre), None
            n = self.node_id(s.lineno, "if", s.body[0].lineno)
            return seq(pre + [("Choice", n, pa, pb)]), None
        n = self.node_id(s.lineno, "if", s.body[0].lineno)
        if ta and tb:
            return seq(pre + [("Choice", n, pa, pb)]), True
        # exactly one branch ends the function: the rest of the block runs after the other one only
        if ta:
            self.env, self.slots = envb, slotsb
            pr, tr_ = self.block(rest)
            return seq(pre + [("Choice", n, pa, seq([pb, pr]))]), tr_
        self.env, self.slots = enva, slotsa
        pr, tr_ = self.block(rest)
        return seq(pre + [("Choice", n, seq([pa, pr]), pb)]), tr_

    def stmt(self, s):
        line = s.lineno
        if isinstance(s, (ast.Pass, ast.Import, ast.ImportFrom, ast.Global, ast.Nonlocal)):
            return ("Skip",), False
        if isinstance(s, ast.Expr):
            _v, out = self.emit_expr(s.value)
            return seq(out), False
        if isinstance(s, ast.Assign):
            v, out = self.emit_expr(s.value)
            self.out = out
            for t in s.targets:
                self.assign(t, v, s.value, line)
            out, self.out = self.out, []
            return seq(out), False
        if isinstance(s, ast.AnnAssign):
            if s.value is None:
                return ("Skip",), False
            v, out = self.emit_expr(s.value)
            self.out = out
            self.assign(s.target, v, s.value, line)
            out, self.out = self.out, []
            return seq(out), False
        if isinstance(s, ast.AugAssign):
            v, out = self.emit_expr(s.value)
            self.out = out
            t = s.target
            if isinstance(t, ast.Name):
                tv = self.env.get(t.id, OTHER)
                if isinstance(tv, Ref):
                    self.mut(tv.root, tv.path, None)
                elif tv == OTHER and not isinstance(s.value, (ast.Constant, ast.JoinedStr)):
                    self.lost_alias("augmented assignment on an object of unknown provenance", line)
            else:
                self.assign(t, OTHER, s.value, line)
            out, self.out = self.out, []
            return seq(out), False
        if isinstance(s, ast.Return):
            v, out = self.emit_expr(s.value)
            self.rets.append(v)
            return seq(out), True
        if isinstance(s, ast.Raise):
            _v, out = self.emit_expr(s.exc)
            sid = self.site_id(self.tr.raises, line, "raise")
            return seq(out + [("Raise", sid)]), True
        if isinstance(s, (ast.For, ast.While)):
            return self.stmt_loop(s), False
        if isinstance(s, ast.Try):
            return self.stmt_try(s)
        if isinstance(s, ast.Delete):
            self.out = []
            for t in s.targets:
                if isinstance(t, (ast.Subscript, ast.Attribute)):
                    bv = self.ev(t.value)
                    if isinstance(bv, Ref):
                        self.mut(bv.root, bv.path, None)
                    elif bv == OTHER:
                        self.lost_alias("del on an object of unknown provenance", line)
            out, self.out = self.out, []
            return seq(out), False
        if isinstance(s, ast.With):
            self.out = []
            for it in s.items:
                self.ev(it.context_expr)
                if it.optional_vars is not None:
                    self.bind_target(it.optional_vars, OTHER)
            pre, self.out = self.out, []
            body, term = self.block(s.body)
            if has_effect(seq(pre)) or has_effect(body) or term:
                raise Untranslatable(f"with-block around effects at {self.cur_fkey}:{line}")
            return ("Skip",), False
        if isinstance(s, ast.Assert):
            _v, out = self.emit_expr(s.test)
            if out:
                raise Untranslatable(f"assert with effects at {self.cur_fkey}:{line}")
            return ("Skip",), False
        if isinstance(s, ast.FunctionDef):
            # a closure is not analysed: accept it only if it cannot reach anything but fresh values
            params = {a.arg for a in s.args.args + s.args.kwonlyargs}
            for sub in ast.walk(s):
                if isinstance(sub, ast.Name) and sub.id not in params and self.env.get(sub.id, FRESH) != FRESH:
                    raise Untranslatable(f"nested def {s.name} captures {sub.id} (linker state or unknown) at {self.cur_fkey}:{line}")
            self.env[s.name] = FRESH
            return ("Skip",), False
        raise Untranslatable(f"statement {type(s).__name__} at {self.cur_fkey}:{line}")

    def stmt_loop(self, s):
        line = s.lineno
        if s.orelse:
            raise Untranslatable(f"loop else at {self.cur_fkey}:{line}")
        if isinstance(s, ast.For):
            iv, pre = self.emit_expr(s.iter)
            elem = Ref(iv.root, norm_path(iv.path + ("[]",))) if isinstance(iv, Ref) else (FRESH if iv == FRESH else OTHER)
        else:
            _v, pre = self.emit_expr(s.test)
            if pre:
                raise Untranslatable(f"while test with effects at {self.cur_fkey}:{line}")
            elem = None
        for sub in ast.walk(s):
            if isinstance(sub, ast.Return):
                raise Untranslatable(f"return inside loop at {self.cur_fkey}:{line}")
        if s.body[0].lineno <= (s.iter.end_lineno if isinstance(s, ast.For) else s.test.end_lineno):
            raise Untranslatable(f"one-line loop at {self.cur_fkey}:{line}")
        body = ("Skip",)
        for _pass in range(2):                 # second pass with the aliases the body itself creates
            env0 = dict(self.env)
            if elem is not None:
                self.bind_target(s.target, elem)
            body, term = self.block(s.body)
            if term:
                raise Untranslatable(f"loop body always leaves at {self.cur_fkey}:{line}")
            self.env = self.join_env(env0, self.env)
        self.cur_stmt_line = line
        if has_effect(body) or has_save(body):
            for sub in ast.walk(s):
                if isinstance(sub, (ast.Break, ast.Continue)):
                    raise Untranslatable(f"break/continue in a loop with effects at {self.cur_fkey}:{line}")
            n = self.node_id(line, "loop", s.body[0].lineno)
            return seq(pre + [("Loop", n, body)])
        return seq(pre)

    def stmt_try(self, s: ast.Try):
        line = s.lineno
        if s.orelse:
            raise Untranslatable(f"try/else at {self.cur_fkey}:{line}")
        body, tb = self.block(s.body)
        if s.handlers:
            hs = []
            env_after = self.env
            for h in s.handlers:
                self.env = dict(env_after)
                hp, _ht = self.block(h.body)
                hs.append(hp)
                env_after = self.join_env(env_after, self.env)
            self.env = env_after
            if has_effect(body) or any(has_effect(h) for h in hs):
                raise Untranslatable(f"try/except around effects at {self.cur_fkey}:{line}")
            if s.finalbody:
                raise Untranslatable(f"try/except/finally at {self.cur_fkey}:{line}")
            if tb:
                raise Untranslatable(f"return inside try/except at {self.cur_fkey}:{line}")
            return ("Skip",), False
        if not tb:
            for sub in s.body:
                for x in ast.walk(sub):
                    if isinstance(x, ast.Return):
                        raise Untranslatable(f"try body may return early at {self.cur_fkey}:{line}")
        fin, tf = self.block(s.finalbody)
        if tf:
            raise Untranslatable(f"finally leaves the function at {self.cur_fkey}:{line}")
        self.cur_stmt_line = line
        return ("Try", body, fin), tb

    # ---- assignment / mutation
    def mut(self, root, path, const, restore_slot=None):
        f = classify(norm_path(path))
        if f is None:
            return
        if restore_slot is not None and root == "vis":
            self.out.append(("Restore", f, restore_slot))
        else:
            self.out.append(("Mut", f, root == "priv", const))

    def bind_target(self, t, v):
        if isinstance(t, ast.Name):
            self.env[t.id] = v
            self.slots.pop(t.id, None)
        elif isinstance(t, (ast.Tuple, ast.List)):
            for e in t.elts:
                self.bind_target(e, v)
        # attribute / subscript loop targets do not occur

    def assign(self, t, v, value_node, line):
        if isinstance(t, ast.Name):
            self.env[t.id] = v
            self.slots.pop(t.id, None)
            if isinstance(v, Ref) and v.root == "vis":
                f = classify(v.path)
                if f in RESTORABLE and "[]" not in v.path:
                    k = self.slot_id(line, t.id)
                    self.slots[t.id] = (k, f)
                    self.out.append(("Save", k, f))
            return
        if isinstance(t, (ast.Tuple, ast.List)):
            if isinstance(value_node, (ast.Tuple, ast.List)) and len(value_node.elts) == len(t.elts):
                for te, ve in zip(t.elts, value_node.elts):
                    self.assign(te, self.peek(ve), ve, line)
            else:
                for te in t.elts:
                    self.assign(te, v if isinstance(v, Ref) or v == FRESH else OTHER, value_node, line)
            return
        if isinstance(t, ast.Attribute):
            bv = self.ev(t.value)
            if isinstance(bv, Ref):
                path = norm_path(bv.path + (t.attr,))
                const = None
                slot = None
                if isinstance(value_node, ast.Constant) and isinstance(value_node.value, bool):
                    const = 1 if value_node.value else 0
                elif isinstance(value_node, ast.Name) and value_node.id in self.slots:
                    k, f = self.slots[value_node.id]
                    if f == classify(path):
                        slot = k
                self.mut(bv.root, path, const, slot)
                if isinstance(value_node, ast.Name) and bv.root == "vis" and classify(path) is not None:
                    # the local now aliases visible state
                    self.env[value_node.id] = Ref("vis", path)
            elif isinstance(bv, Obj):
                self.heap[(bv.oid, t.attr)] = v
            elif bv != FRESH:
                self.lost_alias(f"assignment to .{t.attr} of an object of unknown provenance", line)
            return
        if isinstance(t, ast.Subscript):
            bv = self.ev(t.value)
            self.ev(t.slice)
            if isinstance(bv, Ref):
                self.mut(bv.root, bv.path, None)
            elif bv != FRESH and not isinstance(bv, Obj):
                self.lost_alias("item assignment on an object of unknown provenance", line)
            return
        if isinstance(t, ast.Starred):
            self.assign(t.value, OTHER, value_node, line)
            return
        raise Untranslatable(f"assignment target {type(t).__name__} at {self.cur_fkey}:{line}")

    def lost_alias(self, what, line):
        """fail closed: a write through something that may alias the linker's state"""
        self.tr.unknown_calls.append(f"{what} @ {self.cur_fkey}:{line}")
        self.out.append(("Mut", "FOther", False, None))

    def peek(self, node):
        """abstract value of an expression already evaluated for effects"""
        saved = self.out
        self.out = []
        v = self.ev(node)
        self.out = saved
        return v

    # ---- expressions
    def ev(self, node):
        if node is None:
            return OTHER
        if isinstance(node, ast.Name):
            return self.env.get(node.id, FRESH)      # not a local/parameter: module global or builtin
        if isinstance(node, ast.Constant):
            return FRESH
        if isinstance(node, ast.Attribute):
            bv = self.ev(node.value)
            if isinstance(bv, Ref):
                return Ref(bv.root, norm_path(bv.path + (node.attr,)))
            if isinstance(bv, Obj):
                if (bv.oid, node.attr) in self.heap:
                    return self.heap[(bv.oid, node.attr)]
                if (bv.cls, node.attr) in self.ix.props:
                    return self.inline_call((bv.cls, node.attr), bv, None, [], {})
                return OTHER
            if node.attr in SQL_ATTRS:
                self.out.append(("Sql", self.site_id(self.tr.sites, self.cur_stmt_line, "." + node.attr)))
                return FRESH
            return bv                                   # a part of a fresh object is fresh, of an unknown one unknown
        if isinstance(node, ast.Subscript):
            bv = self.ev(node.value)
            self.ev(node.slice)
            if isinstance(bv, Ref):
                return Ref(bv.root, norm_path(bv.path + ("[]",)))
            return bv if bv in (FRESH, OTHER) else OTHER
        if isinstance(node, ast.Call):
            return self.ev_call(node)
        if isinstance(node, (ast.IfExp, ast.BoolOp)):
            parts = [node.test, node.body, node.orelse] if isinstance(node, ast.IfExp) else node.values
            vals = [self.ev(parts[0])]
            n0 = len(self.out)
            for p in parts[1:]:
                vals.append(self.ev(p))
            if any(has_effect(x) for x in self.out[n0:]):
                raise Untranslatable(f"effect inside a conditional expression at {self.cur_fkey}:{self.cur_stmt_line}")
            return self.join_vals(vals[1:] if isinstance(node, ast.IfExp) else vals)
        if isinstance(node, (ast.ListComp, ast.SetComp, ast.GeneratorExp, ast.DictComp)):
            return self.ev_comp(node)
        if isinstance(node, ast.Lambda):
            for sub in ast.walk(node.body):
                if isinstance(sub, ast.Call):
                    raise Untranslatable(f"lambda with a call at {self.cur_fkey}:{self.cur_stmt_line}")
            return FRESH
        if isinstance(node, ast.NamedExpr):
            v = self.ev(node.value)
            self.env[node.target.id] = v
            return v
        if isinstance(node, (ast.Tuple, ast.List, ast.Set, ast.Dict)):
            elts = node.elts if not isinstance(node, ast.Dict) else [k for k in node.keys if k is not None] + node.values
            vals = [self.ev(e) for e in elts]
            # a new container: as visible / unknown as the most visible thing put into it
            return self.join_vals(vals)
        if isinstance(node, ast.Starred):
            return self.ev(node.value)
        if isinstance(node, (ast.Await, ast.Yield, ast.YieldFrom)):
            raise Untranslatable(f"{type(node).__name__} at {self.cur_fkey}:{self.cur_stmt_line}")
        # generic: evaluate children for their effects
        for ch in ast.iter_child_nodes(node):
            if isinstance(ch, ast.expr):
                self.ev(ch)
            elif isinstance(ch, ast.keyword):
                self.ev(ch.value)
            elif isinstance(ch, ast.comprehension):
                raise Untranslatable("comprehension in generic position")
        return FRESH            # arithmetic, comparisons, f-strings ...: a new value

    def ev_comp(self, node):
        saved_env = dict(self.env)
        pre_n = len(self.out)
        for g in node.generators:
            iv = self.ev(g.iter)
            elem = Ref(iv.root, norm_path(iv.path + ("[]",))) if isinstance(iv, Ref) else (FRESH if iv == FRESH else OTHER)
            self.bind_target(g.target, elem)
            n1 = len(self.out)
            for c in g.ifs:
                self.ev(c)
            if any(has_effect(x) for x in self.out[n1:]):
                raise Untranslatable(f"comprehension filter with effects at {self.cur_fkey}:{self.cur_stmt_line}")
        outer = self.out
        self.out = []
        if isinstance(node, ast.DictComp):
            self.ev(node.key)
            v = self.ev(node.value)
        else:
            v = self.ev(node.elt)
        body, self.out = self.out, outer
        self.env = saved_env
        if any(has_effect(x) for x in body):
            if len(node.generators) != 1:
                raise Untranslatable(f"nested comprehension with effects at {self.cur_fkey}:{self.cur_stmt_line}")
            n = self.node_id(self.cur_stmt_line, "comp", self.cur_stmt_line)
            self.out.append(("Loop", n, seq(body)))
        _ = pre_n
        return v if isinstance(v, Ref) or v == FRESH else OTHER

    def inline_call(self, key, selfv, call, argvals, kwvals):
        return self.inline(key, selfv, call, argvals, kwvals)

    def ev_call(self, node: ast.Call):
        f = node.func
        rv = None
        name = None
        if isinstance(f, ast.Attribute):
            rv = self.ev(f.value)
            name = f.attr
        elif isinstance(f, ast.Name):
            name = f.id
        else:
            self.ev(f)
        argvals = [self.ev(a) for a in node.args]
        kwvals = {k.arg: self.ev(k.value) for k in node.keywords if k.arg is not None}
        for k in node.keywords:
            if k.arg is None:
                self.ev(k.value)
        allvals = argvals + list(kwvals.values())
        line = self.cur_stmt_line

        # copies
        if name == "deepcopy" and rv is None and argvals:
            a = argvals[0]
            return Ref("priv", a.path) if isinstance(a, Ref) else a
        if name == "copy" and isinstance(rv, Ref):
            if rv.path and rv.path[-1] == "core_model_settings":
                return Ref("priv", rv.path)        # CoreModelSettings.copy() is a deepcopy
            return rv                              # list.copy(): elements still shared
        # constructor of the EM session
        if name == SESSION_CLASS and rv is None and (SESSION_CLASS, "__init__") in self.ix.defs:
            self.noid += 1
            o = Obj(SESSION_CLASS, self.noid)
            self.inline((SESSION_CLASS, "__init__"), o, node, argvals, kwvals)
            return o
        # methods of the EM session / of the linker / module-level helpers
        if isinstance(rv, Obj) and (rv.cls, name) in self.ix.defs:
            return self.inline((rv.cls, name), rv, node, argvals, kwvals)
        if isinstance(rv, Ref) and len(rv.path) == 1 and rv.path[0] in COMPONENTS:
            ckey = next(((c, name) for c, comp in COMPONENT_OF_CLASS.items()
                         if comp == rv.path[0] and (c, name) in self.ix.defs), None)
            # on the linker itself every component method is followed; on a private copy only helpers
            if ckey is not None and (rv.root == "vis" or (name.startswith("_") and name not in SQL_NAMES)):
                return self.inline(ckey, rv, node, argvals, kwvals)
        if isinstance(rv, Ref) and rv.path == () and name in LINKER_INLINE_METHODS and ("Linker", name) in self.ix.defs:
            return self.inline(("Linker", name), rv, node, argvals, kwvals)
        if rv is None and name in INLINE_FUNCS and INLINE_FUNCS[name] in self.ix.defs:
            return self.inline(INLINE_FUNCS[name], None, node, argvals, kwvals)
        if name in SQL_NAMES:
            e = ("Sql", self.site_id(self.tr.sites, line, name))
            if e not in self.out:          # one failure point per statement
                self.out.append(e)
            return FRESH                   # a new SplinkDataFrame / frame / records
        if name in MUTATORS:
            if isinstance(rv, Ref):
                if name.startswith("_add_trained_"):
                    self.mut(rv.root, rv.path + ("_trained_m_probabilities",), None)
                else:
                    self.mut(rv.root, rv.path, None)
            elif rv == OTHER:
                self.lost_alias(f"{name}() on an object of unknown provenance", line)
            return FRESH
        if name in SUBOBJECT and isinstance(rv, Ref):
            return Ref(rv.root, norm_path(rv.path + SUBOBJECT[name]))
        if name == "getattr" and rv is None and argvals and isinstance(argvals[0], Ref):
            a1 = node.args[1] if len(node.args) > 1 else None
            attr = a1.value if isinstance(a1, ast.Constant) and isinstance(a1.value, str) else "?"
            return Ref(argvals[0].root, norm_path(argvals[0].path + (attr,)))
        if name in PURE_NAMES and not (isinstance(rv, Ref) and rv.root == "vis" and name not in VISIBLE_PURE_METHODS):
            if name in PASS_THROUGH:
                return self.join_vals(allvals + ([rv] if rv is not None else []))
            return FRESH
        # unknown call
        if rv == OTHER or (rv is None and OTHER in allvals and name not in PURE_NAMES):
            self.lost_alias(f"unclassified call {name}() on / with an object of unknown provenance", line)
            self.out.append(("Sql", self.site_id(self.tr.sites, line, f"unknown:{name}")))
            return OTHER
        touched = [v for v in allvals + [rv] if isinstance(v, (Ref, Obj))]
        if any(isinstance(v, Obj) or (isinstance(v, Ref) and v.root == "vis" and classify(v.path) is not None
                                      or (isinstance(v, Ref) and v.root == "vis" and not v.path))
               for v in touched):
            self.tr.unknown_calls.append(f"{name} @ {self.cur_fkey}:{line} (handed visible state)")
            self.out.append(("Mut", "FOther", False, None))
            self.out.append(("Sql", self.site_id(self.tr.sites, line, f"unknown:{name}")))
        elif touched:
            self.tr.unknown_calls.append(f"{name} @ {self.cur_fkey}:{line} (handed private/cache state)")
            self.out.append(("Sql", self.site_id(self.tr.sites, line, f"unknown:{name}")))
        elif not touched:
            return FRESH if name is not None and name[:1].isupper() else OTHER     # constructor call: a new object
        return OTHER


COMPONENT_FILES = {
    "LinkerTraining": "splink/internals/linker_components/training.py",
    "LinkerInference": "splink/internals/linker_components/inference.py",
    "LinkerClustering": "splink/internals/linker_components/clustering.py",
    "LinkerEvalution": "splink/internals/linker_components/evaluation.py",
    "LinkerTableManagement": "splink/internals/linker_components/table_management.py",
    "LinkerMisc": "splink/internals/linker_components/misc.py",
    "LinkerVisualisations": "splink/internals/linker_components/visualisations.py",
}
# public methods deliberately outside the scope, with the reason
EXCLUDED_OPS: dict = {}


def completeness(ix: "Index"):
    """(public component methods that are neither an operation nor excluded, operations that no longer exist)"""
    have = {v for v in OPS.values()}
    public = set()
    for cls in COMPONENT_FILES:
        for (c, name) in ix.defs:
            if c == cls and not name.startswith("_"):
                public.add((c, name))
    missing = sorted(f"{c}.{n}" for c, n in public - have if f"{c}.{n}" not in EXCLUDED_OPS)
    stale = sorted(f"{c}.{n}" for c, n in have if c is not None and (c, n) not in ix.defs)
    stale += sorted(n for c, n in have if c is None and (None, n) not in ix.defs)
    return missing, stale


def translate_all(repo: Path = None):
    ix = Index(repo)
    out = {}
    for op in OPS:
        try:
            out[op] = Translator(ix).translate(op)
        except Untranslatable as e:
            out[op] = e
    return ix, out


if __name__ == "__main__":
    import sys
    ix, traces = translate_all()
    for op, t in traces.items():
        if len(sys.argv) > 1 and op not in sys.argv[1:]:
            continue
        print("=" * 20, op)
        if isinstance(t, Exception):
            print("UNTRANSLATABLE:", t)
            continue
        print(pretty(t.prog))
        for s, d in sorted(t.site_desc.items()):
            print("   site", s, d)
        for u in t.unknown_calls:
            print("   UNKNOWN", u)
