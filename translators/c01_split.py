"""Translator for the parts of the blocking path around block_using_rules_sqls: the vertical
concatenation of the input tables, the split used by the two-dataset fast path, and the
Python guards of the call sites that switch to it.  Emits Coq terms of the shape records in
Model/Blocking.v.  Fail-closed (Untranslatable)."""
from __future__ import annotations

import ast
import inspect
import textwrap

import sqlglot
import sqlglot.expressions as E


class Untranslatable(Exception):
    pass


def b(x):
    return "true" if x else "false"


class _FakeAPI:
    def __init__(self, dialect):
        from splink.internals.dialects import SplinkDialect
        self.sql_dialect = SplinkDialect.from_string(dialect)


def salt_is_uniform(expr, dialect: str) -> bool:
    """The salt must be a random number in [0, 1): `random()` where the engine's random() is
    one (DuckDB, Spark, Postgres), and for SQLite - whose random() is a signed 64-bit integer -
    exactly `random() / 2^64 + 0.5`."""
    x = expr
    while isinstance(x, E.Paren):
        x = x.this
    if dialect != "sqlite":
        return x.sql(dialect="duckdb").lower() == "random()"
    if not isinstance(x, E.Add):
        return False
    d, half = x.this, x.expression
    while isinstance(d, E.Paren):
        d = d.this
    if not (isinstance(d, E.Div) and isinstance(half, E.Literal) and float(half.this) == 0.5):
        return False
    num, den = d.this, d.expression
    return (num.sql(dialect="sqlite").lower() == "random()" and isinstance(den, E.Literal)
            and not den.is_string and "." in den.this and float(den.this) == 2.0 ** 64)


class FakeDF:
    def __init__(self, name, cols, dialect="duckdb"):
        self.physical_name = name
        self.templated_name = name + "_t"
        self._cols = cols
        self.db_api = _FakeAPI(dialect)

    @property
    def columns_escaped(self):
        return [f'"{c}"' for c in self._cols]

    @property
    def columns(self):
        from splink.internals.input_column import InputColumn
        return [InputColumn(c, sqlglot_dialect_str="duckdb") for c in self._cols]


def split_terms():
    from splink.internals.vertically_concatenate import split_df_concat_with_tf_into_two_tables_sqls
    out = []
    for sample in (False, True):
        sqls = split_df_concat_with_tf_into_two_tables_sqls("tbl", "source_dataset", sample_switch=sample)
        sels = []
        for d in sqls:
            t = sqlglot.parse_one(d["sql"], read="duckdb")
            name = d["output_table_name"]
            if not isinstance(t, E.Select) or t.args.get("joins") or len(t.expressions) != 1 or not isinstance(t.expressions[0], E.Star):
                raise Untranslatable("split select shape")
            w = t.args.get("where")
            eq_sub = False
            agg = "AOther"
            if w is not None and isinstance(w.this, E.EQ):
                lhs, rhs = w.this.this, w.this.expression
                sub = rhs.this if isinstance(rhs, (E.Subquery, E.Paren)) else rhs
                if isinstance(lhs, E.Column) and lhs.name == "source_dataset" and isinstance(sub, E.Select) \
                        and len(sub.expressions) == 1 and sub.args.get("where") is None \
                        and sub.args["from_"].this.name == t.args["from_"].this.name:
                    e = sub.expressions[0]
                    if isinstance(e, (E.Min, E.Max)) and isinstance(e.this, E.Column) and e.this.name == "source_dataset":
                        eq_sub = True
                        agg = "AMin" if isinstance(e, E.Min) else "AMax"
            sels.append(f"{{| ss_left := {b(name.endswith('_left'))}; ss_agg := {agg}; ss_eq_subselect := {b(eq_sub)} |}}")
        out.append(("split_sample" if sample else "split", "[" + "; ".join(sels) + "]"))
    return out


OPS = {ast.Eq: "OEq", ast.LtE: "OLe", ast.GtE: "OGe", ast.Lt: "OLt", ast.Gt: "OGt", ast.NotEq: "ONe"}


def guard_terms():
    """Every `if` whose body calls split_df_concat_with_tf_into_two_tables_sqls."""
    from splink.internals import estimate_u
    from splink.internals.linker_components import inference
    res = []
    for mod in (inference, estimate_u):
        tree = ast.parse(textwrap.dedent(inspect.getsource(mod)))
        for node in ast.walk(tree):
            if not isinstance(node, ast.If):
                continue
            calls = [c for st in node.body for c in ast.walk(st) if isinstance(c, ast.Call)
                     and getattr(c.func, "id", getattr(c.func, "attr", "")) == "split_df_concat_with_tf_into_two_tables_sqls"]
            if not calls:
                continue
            test = node.test
            op, n, lo = "OOther", 0, False
            conj = test.values if isinstance(test, ast.BoolOp) and isinstance(test.op, ast.And) else [test]
            if len(conj) != 2:
                raise Untranslatable(f"guard in {mod.__name__}: {ast.unparse(test)}")
            for c in conj:
                if not (isinstance(c, ast.Compare) and len(c.ops) == 1 and len(c.comparators) == 1):
                    raise Untranslatable(f"guard conjunct {ast.unparse(c)}")
                l, r = c.left, c.comparators[0]
                if isinstance(l, ast.Call) and getattr(l.func, "id", "") == "len" and isinstance(r, ast.Constant) and isinstance(r.value, int):
                    if "input_tables" not in ast.unparse(l):
                        raise Untranslatable(f"len() of something else: {ast.unparse(l)}")
                    op, n = OPS.get(type(c.ops[0]), "OOther"), r.value
                elif isinstance(r, ast.Constant) and r.value == "link_only" and isinstance(c.ops[0], ast.Eq) and "link_type" in ast.unparse(l):
                    lo = True
                else:
                    raise Untranslatable(f"guard conjunct {ast.unparse(c)}")
            res.append((f"guard {mod.__name__.split('.')[-1]}:{node.lineno}", f"{{| sg_op := {op}; sg_n := {n}; sg_link_only := {b(lo)} |}}"))
    if len(res) < 3:
        raise Untranslatable(f"expected >= 3 call sites of the two-dataset split, found {len(res)}")
    return res


def concat_terms():
    from splink.internals.input_column import InputColumn
    from splink.internals.vertically_concatenate import vertically_concatenate_sql
    out = []
    sds = InputColumn("source_dataset", sqlglot_dialect_str="duckdb")
    for ntab, salt, dialect in [(n, sl, d) for n in (2, 3) for sl in (False, True) for d in ("duckdb", "sqlite")]:
        if True:
            # every table lists the same columns in its own order: the SELECTs must all use
            # the FIRST table's order (UNION ALL is positional)
            base_cols = ["unique_id", "a", "b"]
            tabs = {f"t{i}": FakeDF(f"phys{i}", base_cols[i % 3:] + base_cols[:i % 3], dialect) for i in range(ntab)}
            sql = vertically_concatenate_sql(tabs, salting_required=salt, source_dataset_input_column=sds)
            t = sqlglot.parse_one(sql, read=dialect)
            sels, union_all = [], True

            def walk(x):
                nonlocal union_all
                if isinstance(x, E.Union):
                    if x.args.get("distinct") is not False:
                        union_all = False
                    walk(x.this)
                    walk(x.expression)
                elif isinstance(x, E.Select):
                    sels.append(x)
                else:
                    raise Untranslatable("concat shape")
            walk(t)
            sds_ok, salt_ok, cols_ok = True, True, True
            for s, df in zip(sels, tabs.values()):
                names = [e.alias_or_name for e in s.expressions]
                lit = [e for e in s.expressions if e.alias == "source_dataset" and isinstance(e.this, E.Literal) and e.this.this == df.templated_name]
                sds_ok &= len(lit) == 1
                has_salt = [e for e in s.expressions if e.alias == "__splink_salt"]
                salt_ok &= (len(has_salt) == 1 and salt_is_uniform(has_salt[0].this, dialect)) if salt else not has_salt
                cols_ok &= [n for n in names if n not in ("source_dataset", "__splink_salt")] == ["unique_id", "a", "b"]
                cols_ok &= s.args.get("where") is None and s.args["from_"].this.name == df.physical_name
            out.append((f"concat ntab={ntab} salt={salt} {dialect}",
                        f"{{| cs_union_all := {b(union_all)}; cs_sds_literal_each := {b(sds_ok)}; cs_salt_random := {b(salt_ok)}; "
                        f"cs_same_columns_each := {b(cols_ok)}; cs_one_select_per_table := {b(len(sels) == ntab)} |}}"))
    return out
