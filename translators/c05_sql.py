"""C05 translator: relational skeletons of the SQL that the real solve_connected_components
emits, regenerated from /repo on every run.

The real clustering is run once per variant (threshold 0.5 / none / match weight 0 / threshold 0.0)
on a 6-node path that
needs two passes of the loop; every CTE handed to DatabaseAPI.sql_pipeline_to_splink_dataframe is
recorded *before* execution (text straight from the generators in connected_components.py and
from the f-strings inside solve_connected_components), parsed with sqlglot and reduced to an
s-expression `sx` (Model/CCSkel.v):

  (select [distinct] (cols ..) (from T) (join inner|left T (on ..)).. [(where ..)] [(group ..)])
  (union a b) / (union_all a b)      UNION (distinct) vs UNION ALL
  (col T c)                          T = role of the table the alias stands for ('_' if unqualified;
                                     T#2 for the second occurrence of a table in one FROM list)
  (as name e) (min e) (max e) (count_star) (coalesce a b) (eq a b) (ne a b) (ge a b) (gt a b) ..
  (in e q) (not_in e q) (star) (num 0.5)  the probe threshold (also reached through match weight 0)

Table names are reduced to roles: physical-name hashes are stripped; inside pass k of the loop
representatives_{k-1} / neighbours_filtered_{k-1} (or the initial tables when k = 1) become
PREV_REPS / PREV_NBRS and the tables of pass k become STABLE, UNSTABLE, NBRS, REPS, so that every
pass must have the same skeleton and the data flow between passes is part of it.  ORDER BY is
dropped (DESIGN 3b).  Anything outside this fragment raises Untranslatable (fail-closed).
"""
from __future__ import annotations

import re

import sqlglot
from sqlglot import exp


class Untranslatable(Exception):
    pass


HASH = re.compile(r"_[0-9a-f]{9}$")
UID8 = re.compile(r"^(__splink__df_(?:nodes|edges))_[a-z0-9]{8}$")


def _strip(name: str) -> str:
    name = name.strip('"').lower()
    name = HASH.sub("", name)
    m = UID8.match(name)
    if m:
        name = m.group(1)
    return name


class Roles:
    """Table name -> role for one statement group (k = pass of the loop, or None)."""

    def __init__(self, k=None):
        self.k = k

    def role(self, raw: str) -> str:
        n = _strip(raw)
        k = self.k
        fixed = {"__splink__df_nodes": "NODES", "__splink__df_edges": "EDGES",
                 "__splink__df_edges_with_self_loops": "EWSL", "nodes_ids_only": "NODE_IDS",
                 "representatives": "REP0", "neighbours_first_iter": "FIRST_ITER",
                 "non_stable_representatives": "NON_STABLE", "r": "R"}
        if n in fixed:
            return fixed[n]
        if k is None:
            if n == "__splink__df_neighbours":
                return "NBRS0"
            if n == "__splink__df_representatives":
                return "REPS0"
            raise Untranslatable(f"unexpected table {raw!r} outside the loop")
        prev_reps = "__splink__df_representatives" if k == 1 else f"__splink__df_representatives_{k - 1}"
        prev_nbrs = "__splink__df_neighbours" if k == 1 else f"__splink__df_neighbours_filtered_{k - 1}"
        table = {prev_reps: "PREV_REPS", prev_nbrs: "PREV_NBRS",
                 f"__splink__representatives_stable_{k}": "STABLE",
                 f"__splink__representatives_unstable_{k}": "UNSTABLE",
                 f"__splink__df_neighbours_filtered_{k}": "NBRS",
                 f"__splink__df_representatives_{k}": "REPS"}
        if n in table:
            return table[n]
        raise Untranslatable(f"unexpected table {raw!r} in pass {k}")


def sx(tag, *kids):
    return (tag, list(kids))


def to_coq(t) -> str:
    tag, kids = t
    assert all(32 <= ord(c) < 127 and c != '"' for c in tag), tag
    if not kids:
        return f'(A "{tag}")'
    return f'(N "{tag}" [' + "; ".join(to_coq(k) for k in kids) + "])"


def to_text(t, indent=0) -> str:
    tag, kids = t
    if not kids:
        return tag
    inner = " ".join(to_text(k) for k in kids)
    return f"({tag} {inner})"


BINOPS = {exp.EQ: "eq", exp.NEQ: "ne", exp.GT: "gt", exp.GTE: "ge", exp.LT: "lt", exp.LTE: "le", exp.And: "and", exp.Or: "or"}


class Skel:
    def __init__(self, roles: Roles):
        self.roles = roles

    # ---- scopes: alias -> role (with occurrence index) for one SELECT
    def scope_of(self, sel: exp.Select):
        scope, seen = {}, {}
        sources = []
        frm = sel.args.get("from") or sel.args.get("from_")
        if frm is None:
            raise Untranslatable("SELECT without FROM")
        sources.append(frm.this)
        for j in sel.args.get("joins") or []:
            sources.append(j.this)
        names = []
        for s in sources:
            if isinstance(s, exp.Table):
                role = self.roles.role(s.name)
                seen[role] = seen.get(role, 0) + 1
                label = role if seen[role] == 1 else f"{role}#{seen[role]}"
                scope[(s.alias or s.name).lower()] = label
                names.append(("table", label))
            elif isinstance(s, exp.Subquery):
                alias = (s.alias or "").lower()
                if not alias:
                    raise Untranslatable("derived table without alias")
                scope[alias] = "SUB"
                names.append(("sub", s))
            else:
                raise Untranslatable(f"FROM item {type(s).__name__}")
        return scope, names

    def expr(self, e, scope):
        if isinstance(e, exp.Paren):
            return self.expr(e.this, scope)
        if isinstance(e, exp.Column):
            t = e.table.lower() if e.table else ""
            if t and t not in scope:
                raise Untranslatable(f"column {e.sql()} refers to unknown alias")
            return sx("col", sx(scope[t] if t else "_"), sx(e.name.lower()))
        if isinstance(e, exp.Alias):
            return sx("as", sx(e.alias.lower()), self.expr(e.this, scope))
        if isinstance(e, exp.Star):
            return sx("star")
        if isinstance(e, exp.Min):
            return sx("min", self.expr(e.this, scope))
        if isinstance(e, exp.Max):
            return sx("max", self.expr(e.this, scope))
        if isinstance(e, exp.Count):
            if isinstance(e.this, exp.Star):
                return sx("count_star")
            raise Untranslatable("count(expr)")
        if isinstance(e, exp.Coalesce):
            args = [e.this] + list(e.expressions)
            return sx("coalesce", *[self.expr(a, scope) for a in args])
        if isinstance(e, exp.Literal):
            return sx("num", sx(e.name)) if e.is_number else sx("lit", sx(e.name))
        if isinstance(e, exp.Not):
            inner = e.this
            if isinstance(inner, exp.In):
                return sx("not_in", *self._in(inner, scope))
            return sx("not", self.expr(inner, scope))
        if isinstance(e, exp.In):
            return sx("in", *self._in(e, scope))
        for cls, tag in BINOPS.items():
            if type(e) is cls:
                return sx(tag, self.expr(e.this, scope), self.expr(e.expression, scope))
        raise Untranslatable(f"expression {type(e).__name__}: {e.sql()}")

    def _in(self, e: exp.In, scope):
        q = e.args.get("query")
        if q is None or e.expressions:
            raise Untranslatable("IN without subquery")
        q = q.this if isinstance(q, exp.Subquery) else q
        return [self.expr(e.this, scope), self.query(q)]

    def query(self, q):
        if isinstance(q, exp.Subquery):
            return self.query(q.this)
        if isinstance(q, exp.Union):
            if set(q.args) - {"this", "expression", "distinct", "with", "with_", "by_name", "side", "kind", "on"}:
                extra = {k for k, v in q.args.items() if v} - {"this", "expression", "distinct"}
                if extra:
                    raise Untranslatable(f"UNION with {extra}")
            tag = "union" if q.args.get("distinct") else "union_all"
            return sx(tag, self.query(q.this), self.query(q.expression))
        if not isinstance(q, exp.Select):
            raise Untranslatable(f"query {type(q).__name__}")
        allowed = {"expressions", "from", "from_", "joins", "where", "group", "order", "distinct", "kind", "hint", "operation_modifiers"}
        extra = {k for k, v in q.args.items() if v} - allowed
        if extra:
            raise Untranslatable(f"SELECT with {sorted(extra)}")
        scope, sources = self.scope_of(q)
        parts = []
        if q.args.get("distinct"):
            parts.append(sx("distinct"))
        parts.append(sx("cols", *[self.expr(c, scope) for c in q.expressions]))
        kind0, src0 = sources[0]
        parts.append(sx("from", sx(src0) if kind0 == "table" else self.query(src0)))
        for (kind, src), j in zip(sources[1:], q.args.get("joins") or []):
            side = (j.args.get("side") or "").lower()
            jk = (j.args.get("kind") or "").lower()
            if side not in ("", "left") or jk not in ("", "inner") or j.args.get("using") or j.args.get("method"):
                raise Untranslatable(f"join {j.sql()}")
            if j.args.get("on") is None:
                raise Untranslatable("join without ON")
            parts.append(sx("join", sx("left" if side == "left" else "inner"),
                            sx(src) if kind == "table" else self.query(src),
                            sx("on", self.expr(j.args["on"], scope))))
        if q.args.get("where"):
            parts.append(sx("where", self.expr(q.args["where"].this, scope)))
        if q.args.get("group"):
            g = q.args["group"]
            extra = {k for k, v in g.args.items() if v} - {"expressions"}
            if extra:
                raise Untranslatable(f"GROUP BY with {extra}")
            parts.append(sx("group", *[self.expr(c, scope) for c in g.expressions]))
        return sx("select", *parts)


def statement(sql: str, roles: Roles):
    try:
        tree = sqlglot.parse_one(sql, read="duckdb")
    except Exception as e:  # noqa: BLE001
        raise Untranslatable(f"cannot parse: {e}") from e
    return Skel(roles).query(tree)


# ----------------------------------------------------------------------------------------
def python_loop():
    """Skeleton of the Python `while` around the SQL: test, number of break/return statements inside
    the loop body, and how the counter is refreshed."""
    import ast
    import inspect

    from splink.internals import connected_components as cc
    tree = ast.parse(inspect.getsource(cc.solve_connected_components))
    fn = tree.body[0]
    loops = [n for n in ast.walk(fn) if isinstance(n, (ast.While, ast.For))]
    if len(loops) != 2 or not isinstance(loops[0], ast.While):
        whiles = [n for n in loops if isinstance(n, ast.While)]
        if len(whiles) != 1:
            raise Untranslatable(f"expected exactly one while loop, found {len(whiles)}")
    w = next(n for n in loops if isinstance(n, ast.While))
    escapes = sum(isinstance(n, (ast.Break, ast.Return, ast.Raise)) for n in ast.walk(w))
    refresh = [ast.unparse(n.value) for n in ast.walk(w) if isinstance(n, ast.Assign)
               and any(isinstance(t, ast.Name) and t.id == "needs_updating_count" for t in n.targets)]
    init = [ast.unparse(n) for n in fn.body if isinstance(n, ast.Assign) and "needs_updating_count" in ast.unparse(n)]
    return sx("python_loop", sx("init", *[sx(i.replace('"', "'")) for i in init]),
              sx("while", sx(ast.unparse(w.test))), sx("escapes", sx(str(escapes))),
              sx("refresh", *[sx(r.replace('"', "'")) for r in refresh]), sx("orelse", sx(str(len(w.orelse)))))


def record_run(threshold):
    """Run the real clustering on DuckDB and return the recorded CTEs in order."""
    import pandas as pd

    from harness import splink_util as su
    from splink.clustering import cluster_pairwise_predictions_at_threshold as cpt
    api = su.make_api("duckdb")
    rec = []
    orig = api.sql_pipeline_to_splink_dataframe

    def wrap(pipeline, use_cache=True):
        for c in pipeline.queue:
            rec.append((c.output_table_name, c.sql))
        return orig(pipeline, use_cache)

    api.sql_pipeline_to_splink_dataframe = wrap
    from harness import c05_guard as G
    G.install(api, 6)
    nodes = pd.DataFrame({"uid": list(range(6))})
    edges = pd.DataFrame({"uid_l": [3, 1, 5, 0, 4], "uid_r": [1, 5, 0, 4, 2], "match_probability": [1.0] * 5})
    kw = {} if threshold is None else {"threshold_match_weight": 0} if threshold == "w0" else \
        {"threshold_match_probability": threshold}
    try:
        with G.time_limit(120, "probe clustering"):
            out = cpt(nodes, edges, api, "uid", **kw)
            rows = sorted((r["uid"], r["cluster_id"]) for r in out.as_record_dict())
    except G.NonTermination as e:
        raise Untranslatable(f"probe clustering does not terminate: {e}") from e
    return rec, rows


LOOP_NAMES = [("non_stable_representatives", "loop/non_stable_representatives"),
              ("__splink__representatives_stable_{k}", "loop/representatives_stable"),
              ("__splink__representatives_unstable_{k}", "loop/representatives_unstable"),
              ("__splink__df_neighbours_filtered_{k}", "loop/neighbours_filtered"),
              ("r", "loop/r"),
              ("__splink__df_representatives_{k}", "loop/df_representatives"),
              ("__splink__df_root_rows", "loop/exit_condition")]
INIT_NAMES = [("__splink__df_edges_with_self_loops", "edges_with_self_loops"), ("nodes_ids_only", "nodes_ids_only"),
              ("__splink__df_neighbours", "neighbours"), ("representatives", "representatives"),
              ("neighbours_first_iter", "neighbours_first_iter"), ("__splink__df_representatives", "df_representatives")]


def static_obligations():
    """Obligations that need no run of the implementation (evaluated before any probe: a loop that
    never exits must not keep them from being reported)."""
    try:
        return [("python_loop", python_loop(), None)]
    except Untranslatable as e:
        return [("python_loop", None, str(e))]


def obligations():
    """-> list of (obligation name, sx | None, error | None).  One per CTE (per pass for the loop
    CTEs, per threshold variant for the thresholded CTE) plus the data flow of the final UNION ALL."""
    obs = []
    for variant, thr in (("thr", 0.5), ("nothr", None), ("weight0", "w0"), ("thr0", 0.0)):
        try:
            rec, rows = record_run(thr)
        except Untranslatable as e:
            obs.append((f"statement sequence ({variant})", None, str(e)))
            continue
        pos = 0

        def take(expected_name):
            nonlocal pos
            if pos >= len(rec):
                raise Untranslatable(f"statement {expected_name} missing: only {len(rec)} statements recorded")
            name, sql = rec[pos]
            if name != expected_name:
                raise Untranslatable(f"statement #{pos} is {name!r}, expected {expected_name!r}")
            pos += 1
            return sql

        try:
            for tname, oname in INIT_NAMES:
                sql = take(tname)
                if variant != "thr" and oname != "edges_with_self_loops":
                    continue
                label = oname + {"thr": "", "nothr": "/nothr", "weight0": "@weight0", "thr0": "/thr0"}[variant]
                try:
                    obs.append((label, statement(sql, Roles(None)), None))
                except Untranslatable as e:
                    obs.append((label, None, str(e)))
            if variant != "thr":
                continue
            k = 0
            while pos < len(rec) and rec[pos][0] == "non_stable_representatives":
                k += 1
                for tname, oname in LOOP_NAMES:
                    sql = take(tname.format(k=k))
                    try:
                        s = statement(sql, Roles(k))
                        if oname == "loop/exit_condition":
                            # reads the table just produced
                            pass
                        obs.append((f"{oname}@pass{k}", s, None))
                    except Untranslatable as e:
                        obs.append((f"{oname}@pass{k}", None, str(e)))
            if k < 2:
                raise Untranslatable(f"probe graph needed {k} passes, expected at least 2")
            sql = take("__splink__clustering_output_final")
            if pos != len(rec):
                raise Untranslatable(f"{len(rec) - pos} unexpected statements after the final UNION ALL")
            obs.append(("final_union_all", final_union(sql, k), None))
            if rows != [(i, 0) for i in range(6)]:
                raise Untranslatable(f"probe run returned {rows}")
        except Untranslatable as e:
            obs.append((f"statement sequence ({variant})", None, str(e)))
    return obs


def final_union(sql: str, k: int):
    """The last statement: UNION ALL of every stable table and the last representatives table."""
    tree = sqlglot.parse_one(sql, read="duckdb")
    branches = []

    def walk(q):
        if isinstance(q, exp.Union):
            if q.args.get("distinct"):
                raise Untranslatable("final statement uses UNION instead of UNION ALL")
            walk(q.this)
            walk(q.expression)
        elif isinstance(q, exp.Select):
            branches.append(q)
        else:
            raise Untranslatable(f"final statement: {type(q).__name__}")

    walk(tree)
    want = [f"__splink__representatives_stable_{i}" for i in range(1, k + 1)] + [f"__splink__df_representatives_{k}"]
    got = []
    shapes = []
    for b in branches:
        frm = (b.args.get("from") or b.args.get("from_")).this
        if not isinstance(frm, exp.Table):
            raise Untranslatable("final statement branch without a plain table")
        got.append(_strip(frm.name))

        class One(Roles):
            def role(self, raw):
                return "T"

        shapes.append(Skel(One()).query(b))
    if any(s != shapes[0] for s in shapes):
        raise Untranslatable("branches of the final UNION ALL differ in shape")
    flow = "all_stable_tables_then_last_representatives" if got == want else "tables:" + ",".join(got)
    return sx("union_all_of", sx(flow), shapes[0])
