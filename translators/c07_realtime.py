"""C07 translator: the key ingredients of realtime.SQLCache, read off /repo's source on every run.

Fail-closed: a source shape that is not one of the recognised ones raises `Untranslatable` (the check then reports
the obligation as failed and goes on with the behavioural values, so that X can still look for a concrete input).

Extracted `rt_params` of Model/Cache.v:
  rp_flag_in_key        compare_records builds a key suffix from include_found_by_blocking_rules and hands it to both
                        SQLCache.get and SQLCache.set, which append it to _cache_id(...)
  rp_configured_in_key  the key of a settings dict holding creator objects is json.dumps of
                        SettingsCreator(**settings).create_settings_dict(...), and that dict contains the values given to
                        ComparisonCreator.configure() (checked by calling the real _cache_id on dicts that differ only there)
  rp_liveness_called    SQLCache.get tests `settings_ref() is None` (the weak reference is CALLED) before it trusts an
                        entry, deletes the entry and returns None when the object is gone
"""
from __future__ import annotations

import ast
import gc
import os
from pathlib import Path

REPO = Path(os.environ.get("VERIF_REPO", "/repo"))


class Untranslatable(Exception):
    pass


def _src() -> ast.Module:
    return ast.parse((REPO / "splink/internals/realtime.py").read_text())


def _find(tree, cls, name):
    for node in tree.body:
        if isinstance(node, ast.ClassDef) and node.name == cls:
            for f in node.body:
                if isinstance(f, ast.FunctionDef) and f.name == name:
                    return f
        if cls is None and isinstance(node, ast.FunctionDef) and node.name == name:
            return node
    raise Untranslatable(f"{cls}.{name} not found in realtime.py")


def _is_name(n, ident):
    return isinstance(n, ast.Name) and n.id == ident


def structural(part: str) -> dict:
    """Key ingredients as written in the source; part in {flag, liveness, dict_key}."""
    tree = _src()
    out = {}
    g, s_ = _find(tree, "SQLCache", "get"), _find(tree, "SQLCache", "set")
    if part == "flag":
        return _structural_flag(tree, g, s_)
    if part == "liveness":
        return _structural_liveness(g, s_)
    if part == "branches":
        return _structural_branches(tree)
    if part == "records":
        return _structural_records(tree)
    return _structural_dict_key(tree)


RECORD_NAMES = ("record_1", "record_2", "to_register_left", "to_register_right", "df_records_left", "df_records_right")


def _structural_records(tree) -> dict:
    """The cached SQL text must not depend on the records: the key covers settings, dialect and flag only.  Every mention of
    the records (arguments, what is registered, the registered frames) in compare_records is one of
      isinstance(record_k, dict) | to_register_x = [record_k] / record_k | db_api.register_table(to_register_x, ...)
      df_records_x = <that call> | df_records_x.templated_name = "..." | CTEPipeline([df_records_left, df_records_right])
    anything else (reading their columns, handing them to a helper that writes SQL) is untranslatable."""
    cr = _find(tree, None, "compare_records")
    parent = {}
    for n in ast.walk(cr):
        for c in ast.iter_child_nodes(n):
            parent[c] = n

    def allowed(n):
        p = parent.get(n)
        if isinstance(n.ctx, ast.Store):
            return isinstance(p, (ast.Assign, ast.AnnAssign))
        if isinstance(p, ast.Call) and _is_name(p.func, "isinstance") and p.args and p.args[0] is n:
            return True
        if isinstance(p, ast.Call) and isinstance(p.func, ast.Attribute) and p.func.attr == "register_table" and p.args and p.args[0] is n:
            return True
        if isinstance(p, (ast.Assign, ast.AnnAssign)) and p.value is n:                        # to_register_x = record_k
            return True
        if isinstance(p, ast.List):
            pp = parent.get(p)
            if isinstance(pp, (ast.Assign, ast.AnnAssign)) and pp.value is p and len(p.elts) == 1:      # to_register_x = [record_k]
                return True
            if isinstance(pp, ast.Call) and _is_name(pp.func, "CTEPipeline") and pp.args and pp.args[0] is p:
                return True
        if isinstance(p, ast.Attribute) and p.attr == "templated_name" and isinstance(p.ctx, ast.Store):
            return True
        return False
    for n in ast.walk(cr):
        if isinstance(n, ast.Name) and n.id in RECORD_NAMES and not allowed(n):
            raise Untranslatable(f"compare_records: line {n.lineno}: `{n.id}` is used while building the SQL "
                                 f"({ast.unparse(parent.get(n))[:80]}); the cached SQL would depend on the records, the key does not")
    # the records enter the pipeline only through the two registered frames
    return {"sql_text_independent_of_records": True}


def _structural_branches(tree) -> dict:
    """The isinstance branches of _cache_id, in order: SettingsCreator, str, Path, then the dict fallback."""
    cid = _find(tree, "SQLCache", "_cache_id")
    kinds = []
    for st in cid.body:
        if isinstance(st, ast.If) and isinstance(st.test, ast.Call) and _is_name(st.test.func, "isinstance") \
                and _is_name(st.test.args[0], "settings") and isinstance(st.test.args[1], ast.Name):
            kinds.append((st.test.args[1].id, st))
    if [k for k, _ in kinds] != ["SettingsCreator", "str", "Path"]:
        raise Untranslatable(f"_cache_id: isinstance branches are {[k for k, _ in kinds]}, expected SettingsCreator, str, Path")
    out = {}
    obj = kinds[0][1]
    uses_id = any(isinstance(n, ast.Call) and _is_name(n.func, "id") and n.args and _is_name(n.args[0], "settings") for n in ast.walk(obj))
    uses_content = any(isinstance(n, ast.Attribute) and n.attr == "create_settings_dict" for n in ast.walk(obj))
    if not uses_id:
        raise Untranslatable("_cache_id: the SettingsCreator branch does not use id(settings)")
    plain = len(obj.body) == 1 and isinstance(obj.body[0], ast.Return) and isinstance(obj.body[0].value, ast.Call) \
        and _is_name(obj.body[0].value.func, "str")
    if not (plain or uses_content):
        raise Untranslatable("_cache_id: unrecognised key for SettingsCreator objects")
    out["rp_content_in_key"] = bool(uses_content)
    s_ret, p_ret = kinds[1][1].body, kinds[2][1].body

    def via_file_key(body):
        return (len(body) == 1 and isinstance(body[0], ast.Return) and isinstance(body[0].value, ast.Call)
                and isinstance(body[0].value.func, ast.Attribute) and body[0].value.func.attr == "_file_key"
                and len(body[0].value.args) == 1 and _is_name(body[0].value.args[0], "settings"))
    if via_file_key(s_ret) and via_file_key(p_ret):
        # both branches go through SQLCache._file_key, which must read the file (read_bytes / read_text / stat)
        fk = _find(tree, "SQLCache", "_file_key")
        reads = any(isinstance(n, ast.Attribute) and n.attr in ("read_bytes", "read_text", "stat") for n in ast.walk(fk))
        if not reads:
            raise Untranslatable("_cache_id: _file_key does not look at the file")
        out["file_content_in_key"] = True
        return out
    if not (len(s_ret) == 1 and isinstance(s_ret[0], ast.Return) and _is_name(s_ret[0].value, "settings")):
        raise Untranslatable("_cache_id: the str branch does not return the string itself")
    if not (len(p_ret) == 1 and isinstance(p_ret[0], ast.Return) and isinstance(p_ret[0].value, ast.Call)
            and _is_name(p_ret[0].value.func, "str") and _is_name(p_ret[0].value.args[0], "settings")):
        raise Untranslatable("_cache_id: the Path branch does not return str(path)")
    out["file_content_in_key"] = False
    return out


def _structural_flag(tree, g, s_) -> dict:
    out = {}
    # ---- flag: `... = self._cache_id(settings, sql_dialect_str) + key_suffix` in get and set
    def key_has_suffix(fn):
        hits = []
        for n in ast.walk(fn):
            if isinstance(n, ast.Call) and isinstance(n.func, ast.Attribute) and n.func.attr == "_cache_id":
                hits.append(n)
        if len(hits) != 1:
            raise Untranslatable(f"SQLCache.{fn.name}: expected exactly one _cache_id call, found {len(hits)}")
        for n in ast.walk(fn):
            if isinstance(n, ast.BinOp) and isinstance(n.op, ast.Add) and n.left is hits[0]:
                if _is_name(n.right, "key_suffix"):
                    return True
                raise Untranslatable(f"SQLCache.{fn.name}: _cache_id(...) + <unrecognised suffix>")
        return False
    suffix_get, suffix_set = key_has_suffix(g), key_has_suffix(s_)
    if suffix_get != suffix_set:
        raise Untranslatable("SQLCache.get and SQLCache.set compute different keys")
    cr = _find(tree, None, "compare_records")
    suffix_from_flag, passed = False, 0
    for n in ast.walk(cr):
        if isinstance(n, ast.Assign) and len(n.targets) == 1 and _is_name(n.targets[0], "key_suffix"):
            suffix_from_flag = any(_is_name(x, "include_found_by_blocking_rules") for x in ast.walk(n.value))
        if isinstance(n, ast.Call) and isinstance(n.func, ast.Attribute) and n.func.attr in ("get", "set") \
                and isinstance(n.func.value, ast.Name) and n.func.value.id == "_sql_cache":
            passed += any(k.arg == "key_suffix" and _is_name(k.value, "key_suffix") for k in n.keywords)
    if suffix_get and not (suffix_from_flag and passed == 2):
        raise Untranslatable("key_suffix exists but is not built from include_found_by_blocking_rules / not passed to get and set")
    out["rp_flag_in_key"] = bool(suffix_get and suffix_from_flag and passed == 2)
    return out


def _structural_liveness(g, s_) -> dict:
    # an `if <settings_ref...> is None:` that deletes the entry and returns None
    out = {}
    live = None
    for n in ast.walk(g):
        if isinstance(n, ast.If) and isinstance(n.test, ast.Compare) and len(n.test.ops) == 1 \
                and isinstance(n.test.ops[0], ast.Is) and isinstance(n.test.comparators[0], ast.Constant) \
                and n.test.comparators[0].value is None:
            left = n.test.left
            called = isinstance(left, ast.Call) and _is_name(left.func, "settings_ref") and not left.args and not left.keywords
            bare = _is_name(left, "settings_ref")
            if not (called or bare):
                continue
            deletes = any(isinstance(x, ast.Delete) for x in n.body)
            returns_none = any(isinstance(x, ast.Return) and (x.value is None or (isinstance(x.value, ast.Constant) and x.value.value is None))
                               for x in n.body)
            if not (deletes and returns_none):
                raise Untranslatable("SQLCache.get: the dead-reference branch does not delete the entry and return None")
            if live is not None:
                raise Untranslatable("SQLCache.get: more than one liveness test")
            live = called
    if live is None:
        raise Untranslatable("SQLCache.get: no `settings_ref() is None` test found")
    # the reference must be what set() stored third in the entry: ref(settings) for a SettingsCreator
    stores_ref = any(isinstance(n, ast.Call) and _is_name(n.func, "ref") and n.args and _is_name(n.args[0], "settings")
                     for n in ast.walk(s_))
    if not stores_ref:
        raise Untranslatable("SQLCache.set does not store ref(settings)")
    out["rp_liveness_called"] = bool(live)
    return out


def _structural_dict_key(tree) -> dict:
    # try json.dumps(settings) except TypeError: SettingsCreator(**settings).create_settings_dict(...)
    out = {}
    cid = _find(tree, "SQLCache", "_cache_id")
    handler = None
    for n in ast.walk(cid):
        if isinstance(n, ast.Try):
            if len(n.handlers) != 1 or not _is_name(n.handlers[0].type, "TypeError"):
                raise Untranslatable("_cache_id: unexpected exception handlers")
            handler = n.handlers[0]
    if handler is None:
        raise Untranslatable("_cache_id: no try/except TypeError around json.dumps(settings)")
    via_settings_creator = False
    for n in ast.walk(handler):
        if isinstance(n, ast.Call) and isinstance(n.func, ast.Attribute) and n.func.attr == "create_settings_dict":
            inner = n.func.value
            if isinstance(inner, ast.Call) and _is_name(inner.func, "SettingsCreator") and inner.keywords \
                    and inner.keywords[0].arg is None and _is_name(inner.keywords[0].value, "settings"):
                via_settings_creator = True
    if not via_settings_creator:
        raise Untranslatable("_cache_id: the TypeError fallback does not go through "
                             "SettingsCreator(**settings).create_settings_dict(...)")
    out["dict_key_via_settings_creator"] = True
    return out


# ------------------------------------------------------------------------------------- behavioural
def creators_dict(conf: int, base: int = 0) -> dict:
    """A settings dict holding creator objects; `conf` only changes ComparisonCreator.configure() values."""
    import splink.comparison_library as cl
    from splink import block_on
    m = [[0.9, 0.1], [0.7, 0.3], [0.6, 0.4]][conf % 3]
    u = [[0.1, 0.9], [0.2, 0.8], [0.05, 0.95]][conf % 3]
    first = cl.ExactMatch("first_name").configure(m_probabilities=m, u_probabilities=u,
                                                  term_frequency_adjustments=bool(conf // 3 % 2))
    comps = [first, cl.ExactMatch("surname")] + ([cl.ExactMatch("city")] if base else [])
    return {"link_type": "dedupe_only", "comparisons": comps,
            "blocking_rules_to_generate_predictions": [block_on("surname")]}


def behavioural() -> dict:
    """The same ingredients observed on the real SQLCache (no database involved)."""
    from splink import SettingsCreator
    from splink.internals.realtime import SQLCache
    out = {}
    kid = SQLCache._cache_id
    keys = [kid(creators_dict(c), "duckdb") for c in (0, 1, 2, 3)]
    out["configured_values_distinguish_keys"] = len(set(keys)) == 4
    out["same_configuration_same_key"] = kid(creators_dict(1), "duckdb") == kid(creators_dict(1), "duckdb")
    out["base_distinguishes_keys"] = kid(creators_dict(1, 0), "duckdb") != kid(creators_dict(1, 1), "duckdb")

    # liveness: an entry keyed like a collected SettingsCreator must not be served
    class Fixed(SQLCache):
        key = None

        @staticmethod
        def _cache_id(settings, sql_dialect_str):
            return Fixed.key
    c = Fixed()
    s = SettingsCreator(**creators_dict(0))
    Fixed.key = str(id(s))
    c.set(s, "select 1 /* uidA */", "uidA", sql_dialect_str="duckdb")
    alive = c.get(s, "uidB", sql_dialect_str="duckdb")
    del s
    gc.collect()
    other = SettingsCreator(**creators_dict(1))
    dead = c.get(other, "uidC", sql_dialect_str="duckdb")
    # mutation: the key of an object whose comparisons are replaced
    mut = SettingsCreator(**creators_dict(0))
    k_before = kid(mut, "duckdb")
    mut.comparisons = creators_dict(1)["comparisons"]
    out["mutation_changes_key"] = kid(mut, "duckdb") != k_before
    out["flag_changes_key"] = _flag_changes_key()
    out.update(_file_keys())
    out["live_entry_served"] = alive is not None
    out["dead_entry_not_served"] = dead is None
    out["dead_entry_evicted"] = Fixed.key not in c._cache
    return out


def _file_keys() -> dict:
    """Keys of settings given as file names: str and Path of one file agree; two files with the same basename differ;
    whether rewriting the file changes the key."""
    import json
    import os
    import shutil
    import tempfile
    from pathlib import Path
    from splink import SettingsCreator
    from splink.internals.realtime import SQLCache
    kid = SQLCache._cache_id
    tmp = tempfile.mkdtemp(prefix="c07rt_T_")
    try:
        names = []
        for d, conf in (("a", 0), ("b", 1)):
            os.makedirs(os.path.join(tmp, d))
            names.append(os.path.join(tmp, d, "model.json"))
            with open(names[-1], "w") as f:
                json.dump(SettingsCreator(**creators_dict(conf)).create_settings_dict("duckdb"), f)
        out = {"str_and_path_of_one_file_same_key": kid(names[0], "duckdb") == kid(Path(names[0]), "duckdb"),
               "same_basename_other_directory_other_key": kid(names[0], "duckdb") != kid(names[1], "duckdb")}
        before = kid(names[0], "duckdb")
        with open(names[0], "w") as f:
            json.dump(SettingsCreator(**creators_dict(2)).create_settings_dict("duckdb"), f)
        out["file_rewrite_changes_key"] = kid(names[0], "duckdb") != before
        return out
    finally:
        shutil.rmtree(tmp, ignore_errors=True)


def _flag_changes_key() -> bool:
    """Key-inequality probe for the flag: the keys under which compare_records stores its SQL for flag False / True."""
    import splink.internals.realtime as R
    from splink import DuckDBAPI, SettingsCreator
    saved = R._sql_cache
    try:
        R._sql_cache = R.SQLCache()
        s = SettingsCreator(**creators_dict(0))
        api = DuckDBAPI()
        r1 = {"unique_id": 1, "first_name": "ann", "surname": "x", "tf_first_name": 0.1}
        r2 = {"unique_id": 2, "first_name": "ann", "surname": "x", "tf_first_name": 0.1}
        R.compare_records(r1, r2, s, api, use_sql_from_cache=False, include_found_by_blocking_rules=False)
        k1 = set(R._sql_cache._cache)
        R.compare_records(r1, r2, s, api, use_sql_from_cache=False, include_found_by_blocking_rules=True)
        return len(set(R._sql_cache._cache) - k1) == 1
    finally:
        R._sql_cache = saved


def params() -> tuple[dict, list[str], dict]:
    """rt_params for Model/Cache.v, the list of problems (empty = all obligations of the translation hold), details."""
    problems = []
    beh = behavioural()
    st = {}
    for part in ("flag", "liveness", "dict_key", "branches", "records"):
        try:
            st.update(structural(part))
        except Untranslatable as e:
            problems.append(f"untranslatable ({part}): {e}")
    p = {
        "rp_flag_in_key": st.get("rp_flag_in_key"),
        "rp_configured_in_key": bool(beh["configured_values_distinguish_keys"]),
        "rp_liveness_called": bool(beh["dead_entry_not_served"]),
        "rp_content_in_key": bool(beh["mutation_changes_key"]),
    }
    if "rp_content_in_key" in st and st["rp_content_in_key"] != beh["mutation_changes_key"]:
        problems.append("source and probe disagree on whether the key of a SettingsCreator object follows its content")
    if p["rp_flag_in_key"] is not None and p["rp_flag_in_key"] != beh["flag_changes_key"]:
        problems.append("source and probe disagree on whether include_found_by_blocking_rules is part of the key")
    if not beh["mutation_changes_key"]:
        problems.append("a SettingsCreator object mutated between calls keeps its key (id() only): the cached SQL of its old content is served")
    if "rp_liveness_called" in st and st["rp_liveness_called"] != beh["dead_entry_not_served"]:
        problems.append("source says the weak reference is %scalled but a dead entry is %sserved"
                        % ("" if st["rp_liveness_called"] else "not ", "not " if beh["dead_entry_not_served"] else ""))
    if not beh["configured_values_distinguish_keys"]:
        problems.append("dicts holding creators that differ only in configure() values get the same key")
    if not beh["dead_entry_not_served"]:
        problems.append("the entry of a garbage-collected SettingsCreator is still served (weak reference not called)")
    if "file_content_in_key" in st and st["file_content_in_key"] != beh["file_rewrite_changes_key"]:
        problems.append("source and probe disagree on whether the key of a settings file follows the file's content")
    for k in ("same_configuration_same_key", "base_distinguishes_keys", "live_entry_served",
              "str_and_path_of_one_file_same_key", "same_basename_other_directory_other_key"):
        if not beh[k]:
            problems.append(f"behavioural probe failed: {k}")
    if beh["dead_entry_not_served"] and not beh["dead_entry_evicted"]:
        problems.append("a dead entry is not served but stays in the cache")
    return p, problems, {"structural": st, "behavioural": beh}
