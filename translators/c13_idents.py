"""C13 identifier layer - translator.

Regenerates, from the current source of Splink (python `ast`, fail-closed), the table of string
operations (`ops` of coq/theories/Model/Idents.v) used by
  * EMTrainingSession.__init__                       (which comparisons the training rule deactivates)
  * Settings._get_comparison_levels_corresponding_to_training_blocking_rule
  * comparison_level._is_exact_match / _exact_match_colname, ComparisonLevel._is_exact_match /
    _exact_match_colnames / _input_columns_used_by_sql_condition
  * Comparison._default_output_column_name / _gamma_column_name / _bf_column_name
  * InputColumn.name_l / name_r / _quote_if_sql_keyword
Every recognised shape maps to one constructor of the model; anything else raises Untranslatable
(the obligation then fails and the harness searches a concrete name).
"""
from __future__ import annotations

import ast
import inspect
import textwrap


class Untranslatable(Exception):
    pass


def fn_ast(obj):
    if isinstance(obj, property):
        obj = obj.fget
    if isinstance(obj, (staticmethod, classmethod)):
        obj = obj.__func__
    try:
        return ast.parse(textwrap.dedent(inspect.getsource(obj))).body[0]
    except (OSError, TypeError) as e:
        raise Untranslatable(f"no source for {obj}") from e


def src(n):
    return ast.unparse(n)


def is_lower_call(n):
    """returns the receiver when n is  <recv>.lower()"""
    if isinstance(n, ast.Call) and isinstance(n.func, ast.Attribute) and n.func.attr == "lower" and not n.args:
        return n.func.value
    return None


# ------------------------------------------------------------------------- strip operations
def strip_of(expr, var):
    """the strip applied to the comprehension variable `var` in `expr`"""
    if isinstance(expr, ast.Name) and expr.id == var:
        return "NoStrip"
    # c[:-2]
    if (isinstance(expr, ast.Subscript) and isinstance(expr.value, ast.Name) and expr.value.id == var
            and isinstance(expr.slice, ast.Slice) and expr.slice.lower is None and expr.slice.step is None
            and isinstance(expr.slice.upper, ast.UnaryOp) and isinstance(expr.slice.upper.op, ast.USub)
            and isinstance(expr.slice.upper.operand, ast.Constant) and expr.slice.upper.operand.value == 2):
        return "Chop2"
    # re.sub(pattern, "", c [, flags=re.IGNORECASE])
    if (isinstance(expr, ast.Call) and isinstance(expr.func, ast.Attribute) and expr.func.attr == "sub"
            and isinstance(expr.func.value, ast.Name) and expr.func.value.id == "re" and len(expr.args) >= 3
            and isinstance(expr.args[0], ast.Constant) and isinstance(expr.args[1], ast.Constant)
            and expr.args[1].value == "" and isinstance(expr.args[2], ast.Name) and expr.args[2].id == var):
        pat = expr.args[0].value
        ci = False
        for k in expr.keywords:
            if k.arg == "flags":
                if src(k.value) in ("re.IGNORECASE", "re.I"):
                    ci = True
                else:
                    raise Untranslatable(f"regex flags {src(k.value)}")
            else:
                raise Untranslatable(f"re.sub keyword {k.arg}")
        if len(expr.args) > 3:
            raise Untranslatable("re.sub with count/flags positional")
        anchored = {"_l$|_r$", "_r$|_l$", "_[lr]$", "_[rl]$", "(_l|_r)$", "_(l|r)$"}
        anchored_ci = {"_L$|_R$", "_R$|_L$", "_[LR]$"}
        if pat in anchored:
            return f"(StripEnd {'true' if ci else 'false'})"
        if pat in anchored_ci and ci:
            return "(StripEnd true)"
        if pat in ("_[lr]", "_[rl]", "_l|_r", "_r|_l", "(_l|_r)", "_(l|r)") and not ci:
            return "RemoveAllLR"
        raise Untranslatable(f"suffix regex {pat!r} (ignorecase={ci}) has no modelled meaning")
    raise Untranslatable(f"unrecognised strip expression {src(expr)}")


def find_listcomp_assign(fd, target, nth=0):
    """the nth statement  target = [elt for v in <iter>]  (iter arbitrary)"""
    found = []
    for n in ast.walk(fd):
        if (isinstance(n, ast.Assign) and len(n.targets) == 1 and isinstance(n.targets[0], ast.Name)
                and n.targets[0].id == target and isinstance(n.value, ast.ListComp) and len(n.value.generators) == 1
                and isinstance(n.value.generators[0].target, ast.Name)):
            found.append(n)
    found.sort(key=lambda n: n.lineno)
    if len(found) <= nth:
        raise Untranslatable(f"{fd.name}: assignment #{nth} of a list comprehension to {target} not found")
    return found[nth].value


# ------------------------------------------------------------------------- the functions
def tr_deactivation():
    from splink.internals.em_training_session import EMTrainingSession
    fd = fn_ast(EMTrainingSession.__init__)
    loop = None
    for n in ast.walk(fd):
        if isinstance(n, ast.For) and src(n.iter).endswith("comparisons") and isinstance(n.target, ast.Name):
            if any(isinstance(x, ast.Attribute) and x.attr == "_input_columns_used_by_case_statement" for x in ast.walk(n)):
                loop = n
    if loop is None:
        raise Untranslatable("EMTrainingSession.__init__: deactivation loop not found")
    # br_cols = get_columns_used_from_sql(...)
    ok = any(isinstance(n, ast.Assign) and src(n.targets[0]) == "br_cols" and isinstance(n.value, ast.Call)
             and src(n.value.func) == "get_columns_used_from_sql" for n in ast.walk(fd))
    if not ok:
        raise Untranslatable("br_cols is no longer get_columns_used_from_sql(rule)")
    comp = None
    for n in loop.body:
        if (isinstance(n, ast.Assign) and src(n.targets[0]) == "cc_cols" and isinstance(n.value, ast.ListComp)):
            comp = n.value
    if comp is None:
        raise Untranslatable("cc_cols = [... for c in cc_cols] not found")
    var = comp.generators[0].target.id
    elt = comp.elt
    lower_cc = False
    r = is_lower_call(elt)
    if r is not None:
        lower_cc, elt = True, r
    s = src(elt)
    if s == f"{var}.input_name":
        attr = "AInputName"
    elif s == f"{var}.col_builder.column_name":
        attr = "AColumnName"
    else:
        raise Untranslatable(f"comparison side of the deactivation test: {s}")
    test = None
    for n in loop.body:
        if isinstance(n, ast.If):
            test = n.test
    if test is None or not (isinstance(test, ast.Call) and isinstance(test.func, ast.Attribute)
                            and test.func.attr == "intersection" and src(test.args[0]) == "cc_cols"):
        raise Untranslatable(f"deactivation test: {src(test) if test is not None else None}")
    lhs = test.func.value
    if src(lhs) == "set(br_cols)":
        lower_br = False
    elif (isinstance(lhs, (ast.SetComp, ast.GeneratorExp)) or (isinstance(lhs, ast.Call) and src(lhs.func) == "set"
                                                               and isinstance(lhs.args[0], (ast.GeneratorExp, ast.ListComp)))):
        c = lhs if isinstance(lhs, ast.SetComp) else lhs.args[0]
        r = is_lower_call(c.elt)
        if r is None or src(r) != c.generators[0].target.id or src(c.generators[0].iter) != "br_cols" or c.generators[0].ifs:
            raise Untranslatable(f"rule side of the deactivation test: {src(lhs)}")
        lower_br = True
    else:
        raise Untranslatable(f"rule side of the deactivation test: {src(lhs)}")
    return {"o_deact_attr": attr, "o_deact_lower_cc": lower_cc, "o_deact_lower_br": lower_br}


def tr_prior():
    from splink.internals.settings import Settings
    fd = fn_ast(inspect.getattr_static(Settings, "_get_comparison_levels_corresponding_to_training_blocking_rule"))
    asg = None
    for n in ast.walk(fd):
        if isinstance(n, ast.Assign) and src(n.targets[0]) == "blocking_exact_match_columns" and asg is None:
            asg = n.value
    if asg is None or not (isinstance(asg, ast.Call) and src(asg.func) == "set" and len(asg.args) == 1):
        raise Untranslatable("blocking_exact_match_columns = set(...) not found")
    a = asg.args[0]
    if isinstance(a, ast.Call) and src(a.func) == "get_columns_used_from_sql":
        lower_br = False
    elif isinstance(a, (ast.GeneratorExp, ast.ListComp)) and isinstance(a.generators[0].iter, ast.Call) \
            and src(a.generators[0].iter.func) == "get_columns_used_from_sql" and not a.generators[0].ifs:
        r = is_lower_call(a.elt)
        if r is None or src(r) != a.generators[0].target.id:
            raise Untranslatable(f"rule columns: {src(a)}")
        lower_br = True
    else:
        raise Untranslatable(f"rule columns: {src(a)}")
    body = src(fd)
    for needle in ("._is_exact_match", "key=lambda x: -len(x['level']._exact_match_colnames)", ".issubset(blocking_exact_match_columns)",
                   "blocking_exact_match_columns = blocking_exact_match_columns - exact_cols"):
        if needle not in body:
            raise Untranslatable(f"greedy matching of exact levels changed shape (missing `{needle}`)")
    return {"o_prior_lower_br": lower_br}


def tr_levels():
    from splink.internals import comparison_level as CL
    out = {}
    # module functions
    fd = fn_ast(CL._is_exact_match)
    comp = find_listcomp_assign(fd, "cols_truncated")
    out["o_isexact_strip"] = strip_of(comp.elt, comp.generators[0].target.id)
    if "s.output_name" not in src(fd) or "cols_truncated[0] == cols_truncated[1]" not in src(fd):
        raise Untranslatable("_is_exact_match changed shape")
    fd = fn_ast(CL._exact_match_colname)
    text_comp = find_listcomp_assign(fd, "cols", 0)
    v = text_comp.generators[0].target.id
    t = src(text_comp.elt)
    if t == f"{v}.sql()":
        if 'identifier.args["quoted"] = False' not in src(fd).replace("'", '"'):
            raise Untranslatable("_exact_match_colname: .sql() without quoted=False")
        out["o_exact_text"] = "IdSqlUnquoted"
    elif t in (f"{v}.name", f"{v}.this", f"{v}.args['this']"):
        out["o_exact_text"] = "IdName"
    else:
        raise Untranslatable(f"_exact_match_colname takes the identifier text by {t}")
    if "depth == 2" not in src(text_comp):
        raise Untranslatable("_exact_match_colname no longer restricts to the identifiers of the clause")
    strip_comp = find_listcomp_assign(fd, "cols", 1)
    out["o_exact_strip"] = strip_of(strip_comp.elt, strip_comp.generators[0].target.id)
    if "len(cols) != 1" not in src(fd):
        raise Untranslatable("_exact_match_colname no longer requires a single column")
    # lower-casing of the condition
    lows = []
    for prop in ("_is_exact_match", "_exact_match_colnames"):
        fdp = fn_ast(inspect.getattr_static(CL.ComparisonLevel, prop))
        lows.append("self.sql_condition.lower()" in src(fdp))
    if lows[0] != lows[1]:
        raise Untranslatable("condition lower-cased in only one of _is_exact_match / _exact_match_colnames")
    out["o_cond_lower"] = lows[0]
    fdp = fn_ast(inspect.getattr_static(CL.ComparisonLevel, "_input_columns_used_by_sql_condition"))
    comp = None
    for n in ast.walk(fdp):
        if isinstance(n, ast.Assign) and src(n.targets[0]) == "cols" and isinstance(n.value, ast.ListComp):
            comp = n.value
    if comp is None:
        out["o_incol_strip"] = "NoStrip"
    else:
        out["o_incol_strip"] = strip_of(comp.elt, comp.generators[0].target.id)
    if "get_columns_used_from_sql" not in src(fdp) or "InputColumn(c" not in src(fdp):
        raise Untranslatable("_input_columns_used_by_sql_condition changed shape")
    return out


def tr_names():
    from splink.internals.comparison import Comparison
    from splink.internals.input_column import InputColumn
    out = {}
    fd = fn_ast(Comparison._default_output_column_name)
    comp = find_listcomp_assign(fd, "cols")
    v = comp.generators[0].target.id
    t = src(comp.elt)
    if t == f"{v}.input_name":
        out["o_out_attr"] = "AInputName"
    elif t in (f"{v}.col_builder.column_name", f"{v}.unquote().name"):
        out["o_out_attr"] = "AColumnName"
    else:
        raise Untranslatable(f"_default_output_column_name uses {t}")
    if "if len(cols) == 1" not in src(fd):
        raise Untranslatable("_default_output_column_name changed shape")
    desp = []
    for prop in ("_gamma_column_name", "_bf_column_name"):
        s = src(fn_ast(inspect.getattr_static(Comparison, prop))).replace('"', "'")
        desp.append(".replace(' ', '_')" in s)
        if "self.output_column_name}" not in s:
            raise Untranslatable(f"{prop} no longer built from prefix + output_column_name")
    if desp[0] != desp[1]:
        raise Untranslatable("spaces replaced in only one of gamma / bf column names")
    out["o_despace"] = desp[0]
    fd = fn_ast(InputColumn._quote_if_sql_keyword)
    kws = None
    for n in ast.walk(fd):
        if isinstance(n, ast.Compare) and isinstance(n.ops[0], ast.NotIn) and isinstance(n.comparators[0], ast.Set):
            kws = sorted(e.value for e in n.comparators[0].elts if isinstance(e, ast.Constant))
    if kws is None or "start + name + end" not in src(fd):
        raise Untranslatable("_quote_if_sql_keyword changed shape")
    out["o_keywords"] = kws
    for prop, key in (("name_l", "o_suffix_l"), ("name_r", "o_suffix_r")):
        fdp = fn_ast(inspect.getattr_static(InputColumn, prop))
        suf = None
        for n in ast.walk(fdp):
            if isinstance(n, ast.BinOp) and isinstance(n.op, ast.Add) and src(n.left) == "self.col_builder.column_name" \
                    and isinstance(n.right, ast.Constant):
                suf = n.right.value
        if suf is None or "replace(self.col_builder, column_name=new_column_name).sql" not in src(fdp):
            raise Untranslatable(f"InputColumn.{prop} changed shape")
        out[key] = suf
    return out


FIELDS = ["o_deact_attr", "o_deact_lower_cc", "o_deact_lower_br", "o_incol_strip", "o_prior_lower_br", "o_cond_lower",
          "o_isexact_strip", "o_exact_strip", "o_exact_text", "o_out_attr", "o_despace", "o_keywords", "o_suffix_l",
          "o_suffix_r"]


def current_ops():
    ops = {}
    for f in (tr_deactivation, tr_prior, tr_levels, tr_names):
        ops.update(f())
    missing = [k for k in FIELDS if k not in ops]
    if missing:
        raise Untranslatable(f"fields not extracted: {missing}")
    return ops


def cstr(s):
    assert all(32 <= ord(c) < 127 for c in s), s
    return '"' + s.replace('"', '""') + '"'


def ops_to_coq(ops):
    def v(k):
        x = ops[k]
        if isinstance(x, bool):
            return "true" if x else "false"
        if isinstance(x, list):
            return "[" + "; ".join(cstr(i) for i in x) + "]"
        if k in ("o_suffix_l", "o_suffix_r"):
            return cstr(x)
        return x
    return "{| " + "; ".join(f"{k} := {v(k)}" for k in FIELDS) + " |}"


MODELLED = {"o_deact_attr": "AColumnName", "o_deact_lower_cc": True, "o_deact_lower_br": True,
            "o_incol_strip": "(StripEnd true)", "o_prior_lower_br": True, "o_cond_lower": True, "o_isexact_strip": "Chop2",
            "o_exact_strip": "Chop2", "o_exact_text": "IdName", "o_out_attr": "AInputName", "o_despace": True,
            "o_keywords": ["group", "index"], "o_suffix_l": "_l", "o_suffix_r": "_r"}

GEN_HEADER = """(* GENERATED by translators/c13_idents.py from the working tree of Splink - do not edit *)
From Coq Require Import List Bool String Ascii.
From Splinkv Require Import Model.Idents.
Import ListNotations.
Open Scope string_scope.
Open Scope list_scope.
"""


def gen_text(ops):
    return (GEN_HEADER + f"Definition ops_current : ops := {ops_to_coq(ops)}.\n"
            "Eval vm_compute in (ops_good ops_current, ops_eqb ops_current (ops_modelled IdName), "
            "ops_eqb ops_current (ops_modelled IdSqlUnquoted)).\n")


if __name__ == "__main__":
    o = current_ops()
    print(o)
    print(gen_text(o))
