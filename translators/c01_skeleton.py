"""Translator for C01: calls the real blocking SQL generator of /repo with placeholder rule
texts, parses the emitted SQL with sqlglot and emits the boolean skeleton as a Coq term of
type Model.Blocking.skeleton.  Fail-closed: any construct it does not recognise raises
Untranslatable (reported as a broken obligation, never skipped)."""
from __future__ import annotations

import itertools

import sqlglot
import sqlglot.expressions as E


class Untranslatable(Exception):
    pass


KINDS = ("P", "S2", "S3", "X")  # plain, salted 2, salted 3, exploding
LINK_TYPES = {"dedupe_only": "Dedupe", "link_and_dedupe": "LinkAndDedupe", "link_only": "LinkOnly",
              "two_dataset_link_only": "TwoDatasetLinkOnly"}


class FakeDF:
    def __init__(self, name):
        self.physical_name = name


def rule_text(k: int, shape: str) -> str:
    if shape == "atom":
        return f"l.p{k} = r.p{k}"
    if shape == "and":  # a compound equi-join rule (what a multi-column block_on produces)
        return f"l.p{k} = r.p{k} AND l.q{k} = r.q{k}"
    return f"l.p{k} = r.p{k} OR l.q{k} = r.q{k}"


def rule_bexp(k: int, shape: str) -> str:
    if shape == "atom":
        return f"(BAtom {2*k})"
    if shape == "and":
        return f"(BAnd (BAtom {2*k}) (BAtom {2*k+1}))"
    return f"(BOr (BAtom {2*k}) (BAtom {2*k+1}))"


def build_rules(kinds, shapes):
    from splink.internals.settings import Settings
    specs = []
    for k, (kind, shape) in enumerate(zip(kinds, shapes)):
        txt = rule_text(k, shape)
        if kind == "P":
            specs.append(txt)
        elif kind.startswith("S"):
            specs.append({"blocking_rule": txt, "salting_partitions": int(kind[1:])})
        else:
            specs.append({"blocking_rule": txt, "arrays_to_explode": [f"p{k}"]})
    # the real code path that links rules to their predecessors
    return Settings._brs_as_objs(None, specs)


def norm(t):
    return t.sql(dialect="duckdb") if t is not None else None


class Conv:
    def __init__(self, id_l, id_r, sds_name):
        self.id_l, self.id_r, self.sds = id_l, id_r, sds_name

    def col(self, t):
        if isinstance(t, E.Column) and t.table in ("l", "r"):
            return t.table, t.name
        return None

    def conv(self, t) -> str:
        if isinstance(t, E.Paren):
            return self.conv(t.this)
        if isinstance(t, E.And):
            return f"(BAnd {self.conv(t.this)} {self.conv(t.expression)})"
        if isinstance(t, E.Or):
            return f"(BOr {self.conv(t.this)} {self.conv(t.expression)})"
        if isinstance(t, E.Not):
            return f"(BNot {self.conv(t.this)})"
        if isinstance(t, E.Coalesce):
            ex = t.expressions
            if len(ex) == 1 and isinstance(ex[0], E.Boolean) and ex[0].this is False:
                return f"(BCoalF {self.conv(t.this)})"
            raise Untranslatable(f"coalesce shape {t.sql()}")
        if isinstance(t, E.EQ):
            a, b = t.this, t.expression
            ca, cb = self.col(a), self.col(b)
            if ca and cb and ca[0] == "l" and cb[0] == "r" and ca[1] == cb[1] and ca[1][0] in "pq" and ca[1][1:].isdigit():
                k = int(ca[1][1:])
                return f"(BAtom {2*k + (1 if ca[1][0] == 'q' else 0)})"
            if isinstance(a, E.Literal) and isinstance(b, E.Literal) and a.this == b.this:
                return "BTrue"
            if isinstance(a, E.Ceil) and isinstance(b, E.Literal) and not b.is_string:
                m = a.this
                if isinstance(m, E.Mul) and self.col(m.this) == ("l", "__splink_salt") and isinstance(m.expression, E.Literal):
                    return f"(BSalt {int(b.this)} {int(m.expression.this)})"
            raise Untranslatable(f"EQ shape {t.sql()}")
        if isinstance(t, E.LT):
            if norm(t.this) == self.id_l and norm(t.expression) == self.id_r:
                return "BIdLt"
            if self.col(t.this) == ("l", "source_dataset") and self.col(t.expression) == ("r", "source_dataset"):
                return "BSdsLt"
            raise Untranslatable(f"LT shape {t.sql()}")
        if isinstance(t, E.NEQ):
            if self.sds and self.col(t.this) == ("l", self.sds) and self.col(t.expression) == ("r", self.sds):
                return "BSdsNe"
            raise Untranslatable(f"NEQ shape {t.sql()}")
        if isinstance(t, E.Exists):
            sub = t.this
            if not isinstance(sub, E.Select):
                raise Untranslatable("exists")
            frm = sub.args["from_"].this
            if not (isinstance(frm, E.Subquery) and frm.alias == "ids_to_compare"):
                raise Untranslatable("exists-from")
            inner = frm.this
            tname = inner.args["from_"].this.name
            if not tname.startswith("__ids_") or norm(inner.expressions[0]) != "*" or inner.args.get("where") is not None:
                raise Untranslatable("exists-inner")
            w = sub.args["where"].this
            while isinstance(w, E.Paren):
                w = w.this
            if not isinstance(w, E.And):
                raise Untranslatable("exists-where")
            c1, c2 = w.this, w.expression
            ok = (isinstance(c1, E.EQ) and isinstance(c2, E.EQ)
                  and norm(c1.this) == self.id_l and norm(c1.expression) == 'ids_to_compare."unique_id_l"'
                  and norm(c2.this) == self.id_r and norm(c2.expression) == 'ids_to_compare."unique_id_r"')
            if not ok:
                raise Untranslatable(f"exists-where shape {w.sql()}")
            return f"(BInIds {int(tname[len('__ids_'):])})"
        raise Untranslatable(f"{type(t).__name__}: {t.sql()[:120]}")


def flatten_union(t):
    if isinstance(t, E.Union):
        if t.args.get("distinct"):
            raise Untranslatable("UNION DISTINCT")
        return flatten_union(t.this) + flatten_union(t.expression)
    if isinstance(t, E.Select):
        return [t]
    raise Untranslatable(f"top-level {type(t).__name__}")


def skeleton_for(kinds, shapes, link_type):
    """Returns dict with Coq terms: sk, rules, natoms, ns, lt."""
    from splink.internals.blocking import ExplodingBlockingRule, block_using_rules_sqls
    from splink.internals.input_column import InputColumn
    from splink.internals.unique_id_concat import _composite_unique_id_from_nodes_sql

    uid = InputColumn("unique_id", sqlglot_dialect_str="duckdb")
    sds = None if link_type == "dedupe_only" else InputColumn("source_dataset", sqlglot_dialect_str="duckdb")
    cols = [c for c in (sds, uid) if c is not None]
    id_l = norm(sqlglot.parse_one(_composite_unique_id_from_nodes_sql(cols, "l"), read="duckdb"))
    id_r = norm(sqlglot.parse_one(_composite_unique_id_from_nodes_sql(cols, "r"), read="duckdb"))
    cv = Conv(id_l, id_r, "source_dataset" if sds else None)

    objs = build_rules(kinds, shapes)
    ids_defs = []
    for k, o in enumerate(objs):
        if isinstance(o, ExplodingBlockingRule):
            o.exploded_id_pair_table = FakeDF(f"__ids_{k}")
            msql = o.marginal_exploded_id_pairs_table_sql(sds, uid, o, link_type)
            mt = sqlglot.parse_one(msql, read="duckdb")
            if not (isinstance(mt, E.Select) and mt.args.get("distinct")):
                raise Untranslatable("marginal table is not SELECT DISTINCT")
            ex = mt.expressions
            if not (len(ex) == 2 and norm(ex[0].this) == id_l and ex[0].alias == "unique_id_l"
                    and norm(ex[1].this) == id_r and ex[1].alias == "unique_id_r"):
                raise Untranslatable("marginal select list")
            if mt.args["from_"].this.name != "__splink__df_concat_unnested" or len(mt.args["joins"]) != 1 \
                    or mt.args["joins"][0].this.name != "__splink__df_concat_unnested":
                raise Untranslatable("marginal from/join")
            on = cv.conv(mt.args["joins"][0].args["on"])
            wh = cv.conv(mt.args["where"].this)
            ids_defs.append(f"({k}, ({on}, {wh}))")
    sqls = block_using_rules_sqls(input_tablename_l="tl", input_tablename_r="tr", blocking_rules=objs,
                                  link_type=link_type, source_dataset_input_column=sds,
                                  unique_id_input_column=uid)
    if len(sqls) != 1 or sqls[0]["output_table_name"] != "__splink__blocked_id_pairs":
        raise Untranslatable("unexpected list of sqls")
    tree = sqlglot.parse_one(sqls[0]["sql"], read="duckdb")
    sels = []
    for s in flatten_union(tree):
        ex = s.expressions
        if not (len(ex) == 3 and ex[0].alias == "match_key" and isinstance(ex[0].this, E.Literal)
                and ex[1].alias == "join_key_l" and ex[2].alias == "join_key_r"):
            raise Untranslatable("select list")
        mk = int(ex[0].this.this)
        frm = s.args["from_"].this
        joins = s.args.get("joins") or []
        if not joins:
            if not frm.name.startswith("__ids_") or s.args.get("where") is not None:
                raise Untranslatable("from-ids select")
            if norm(ex[1].this) != '"unique_id_l"' or norm(ex[2].this) != '"unique_id_r"':
                raise Untranslatable("from-ids join keys")
            sels.append(f"{{| s_mk := {mk}; s_kind := SFromIds {int(frm.name[len('__ids_'):])}; s_on := BTrue; s_where := BTrue |}}")
            continue
        if len(joins) != 1 or frm.name != "tl" or frm.alias != "l" or joins[0].this.name != "tr" or joins[0].this.alias != "r":
            raise Untranslatable("join shape")
        if (joins[0].args.get("kind") or "").upper() not in ("INNER", "") or joins[0].args.get("side"):
            raise Untranslatable("join kind")
        if norm(ex[1].this) != id_l or norm(ex[2].this) != id_r:
            raise Untranslatable("join keys are not the composite ids")
        on = cv.conv(joins[0].args["on"])
        wh = cv.conv(s.args["where"].this) if s.args.get("where") is not None else "BTrue"
        sels.append(f"{{| s_mk := {mk}; s_kind := SJoin; s_on := {on}; s_where := {wh} |}}")
    n = len(kinds)
    ns = sorted({int(k[1:]) for k in kinds if k.startswith("S")})
    rules = "[" + "; ".join(rule_bexp(k, sh) for k, sh in enumerate(shapes)) + "]"
    return {
        "lt": LINK_TYPES[link_type], "natoms": 2 * n, "ns": "[" + "; ".join(map(str, ns)) + "]" if ns else "(@nil nat)",
        "rules": rules if n else "(@nil bexp)",
        "sk": "{| sels := [" + "; ".join(sels) + "]; ids_defs := " + ("[" + "; ".join(ids_defs) + "]" if ids_defs else "(@nil (nat * (bexp * bexp)))") + " |}",
        "kinds": list(kinds), "shapes": list(shapes), "link_type": link_type,
    }


def configs(tier: str, rng):
    """All kind vectors for n<=3 (x 2 shape vectors x link types); n=4 sampled in quick,
    complete in thorough."""
    out = []
    lts = list(LINK_TYPES)
    for n in range(0, 4):
        for kinds in itertools.product(KINDS, repeat=n):
            for shape in ("atom", "or", "and"):
                if n == 0 and shape != "atom":
                    continue
                if shape == "and" and n == 3 and tier != "thorough" and rng.random() < 0.6:
                    continue
                # rotate link types to bound the number of obligations; every (kinds, shape)
                # gets two link types in quick and all four in thorough
                ls = lts if tier == "thorough" or n <= 2 else rng.sample(lts, 2)
                for lt in ls:
                    out.append((kinds, (shape,) * n, lt))
    all4 = list(itertools.product(KINDS, repeat=4))
    pick = all4 if tier == "thorough" else rng.sample(all4, 24)
    for kinds in pick:
        shapes = tuple(rng.choice(("atom", "or", "and")) for _ in range(4))
        for lt in (lts if tier == "thorough" else [rng.choice(lts)]):
            out.append((kinds, shapes, lt))
    return out
