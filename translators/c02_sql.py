"""Translator for C02: takes a real `Settings` object of /repo, calls the real SQL generators
(`Comparison._case_statement` via `_columns_to_select_for_comparison_vector_values`, the
Bayes-factor / TF-adjustment CASEs and the final combination + WHERE clause via
`predict_from_comparison_vectors_sqls_using_settings`), parses the emitted SQL with sqlglot and
emits the arithmetic/boolean trees as Coq terms of type Model.Scoring.nx / bx / final_select.

Fail-closed: every construct outside the shapes below raises Untranslatable (reported by the
harness as a broken obligation, never skipped).

  numeric   column | number | -number | cast(number as float8) | cast('infinity' as float8) | 'infinity'
            | a * b | a / b | a + b | pow(a, b) | coalesce(a, b) | (e) | CASE WHEN c THEN e ... [ELSE e] END
  boolean   a = b | a >= b | a > b | c AND d | c OR d | e IS NOT NULL | (c)
            | <the SQL text of a comparison level>   (only as WHEN condition of a gamma CASE)
"""
from __future__ import annotations

from fractions import Fraction

import sqlglot
import sqlglot.expressions as E


class Untranslatable(Exception):
    pass


def q(fr: Fraction) -> str:
    return f"(Qmake ({fr.numerator})%Z {fr.denominator}%positive)"


def _num_literal(t) -> Fraction | None:
    if isinstance(t, E.Literal) and not t.is_string:
        try:
            return Fraction(t.this)
        except (ValueError, ZeroDivisionError):
            raise Untranslatable(f"numeric literal {t.this!r}")
    if isinstance(t, E.Neg):
        v = _num_literal(t.this)
        return None if v is None else -v
    return None


def _is_inf_string(t) -> bool:
    return isinstance(t, E.Literal) and t.is_string and str(t.this).lower() in ("infinity", "inf", "+infinity")


class Conv:
    """colmap: output column name -> Coq colref text; condmap: normalised condition SQL -> level index"""

    def __init__(self, colmap: dict[str, str], dialect: str):
        self.colmap = colmap
        self.dialect = dialect

    # largest finite IEEE double; a numeric literal above it overflows to +infinity when the engine reads it
    DBL_MAX = Fraction(2 ** 1024 - 2 ** 971)

    def inf_literal(self, t) -> bool:
        """is t this dialect's way of writing +infinity?  DuckDB / Spark: the text 'infinity' (cast to a float);
        SQLite: casting that text gives 0.0, there infinity is an overflowing numeric literal (9e999).  Each form is
        accepted only on its own dialect."""
        if _is_inf_string(t):
            if self.dialect == "sqlite":
                raise Untranslatable("the text 'infinity' on SQLite (CAST('infinity' AS float8) is 0.0 there)")
            return True
        v = _num_literal(t)
        if v is not None and v > self.DBL_MAX:
            if self.dialect != "sqlite":
                raise Untranslatable(f"overflowing numeric literal {t.sql()} outside SQLite")
            return True
        return False

    def num(self, t) -> str:
        if isinstance(t, E.Paren):
            return self.num(t.this)
        if self.inf_literal(t):
            return "NInf"
        v = _num_literal(t)
        if v is not None:
            return f"(NLit {q(v)})"
        if isinstance(t, E.Cast):
            to = t.args["to"].sql(dialect="duckdb").upper()
            if to not in ("DOUBLE", "FLOAT8", "DOUBLE PRECISION", "REAL", "FLOAT"):
                raise Untranslatable(f"cast to {to}")
            inner = t.this
            if self.inf_literal(inner):
                return "NInf"
            v = _num_literal(inner)
            if v is None:
                raise Untranslatable(f"cast of non-literal {inner.sql()}")
            return f"(NLit {q(v)})"
        if isinstance(t, E.Column):
            if t.table:
                raise Untranslatable(f"qualified column {t.sql()}")
            name = t.name
            if name not in self.colmap:
                raise Untranslatable(f"unknown column {name}")
            return f"(NCol {self.colmap[name]})"
        if isinstance(t, E.Mul):
            return f"(NMul {self.num(t.this)} {self.num(t.expression)})"
        if isinstance(t, E.Div):
            return f"(NDiv {self.num(t.this)} {self.num(t.expression)})"
        if isinstance(t, E.Add):
            return f"(NAdd {self.num(t.this)} {self.num(t.expression)})"
        if isinstance(t, E.Pow):
            return f"(NPow {self.num(t.this)} {self.num(t.expression)})"
        if isinstance(t, E.Coalesce):
            rest = t.expressions
            if len(rest) != 1:
                raise Untranslatable(f"coalesce arity {t.sql()}")
            return f"(NCoalesce {self.num(t.this)} {self.num(rest[0])})"
        if isinstance(t, E.Case):
            return self.case(t, self.boolean)
        raise Untranslatable(f"numeric shape {type(t).__name__}: {t.sql()[:80]}")

    def case(self, t: E.Case, cond_conv) -> str:
        if t.this is not None:
            raise Untranslatable("CASE <operand> WHEN form")
        default = t.args.get("default")
        out = self.num(default) if default is not None else "NNull"
        for br in reversed(t.args["ifs"]):
            if not isinstance(br, E.If):
                raise Untranslatable("CASE branch")
            out = f"(NIf {cond_conv(br.this)} {self.num(br.args['true'])} {out})"
        return out

    def boolean(self, t) -> str:
        if isinstance(t, E.Paren):
            return self.boolean(t.this)
        if isinstance(t, E.EQ):
            return f"(BEq {self.num(t.this)} {self.num(t.expression)})"
        if isinstance(t, E.GTE):
            return f"(BGe {self.num(t.this)} {self.num(t.expression)})"
        if isinstance(t, E.GT):
            return f"(BGt {self.num(t.this)} {self.num(t.expression)})"
        if isinstance(t, E.And):
            return f"(BAnd {self.boolean(t.this)} {self.boolean(t.expression)})"
        if isinstance(t, E.Or):
            return f"(BOr {self.boolean(t.this)} {self.boolean(t.expression)})"
        if isinstance(t, E.Not) and isinstance(t.this, E.Is) and isinstance(t.this.expression, E.Null):
            return f"(BNotNull {self.num(t.this.this)})"
        raise Untranslatable(f"boolean shape {type(t).__name__}: {t.sql()[:80]}")


def norm_sql(sql: str, dialect: str) -> str:
    return sqlglot.parse_one(sql, read=dialect).sql(dialect=dialect)


def _select_items(sql: str, dialect: str):
    t = sqlglot.parse_one(sql, read=dialect)
    if not isinstance(t, E.Select):
        raise Untranslatable("not a SELECT")
    items = {}
    for e in t.expressions:
        items[e.alias_or_name] = e.unalias() if isinstance(e, E.Alias) else e
    return t, items


def colmap_for(settings_obj, tf_cols: list[str]) -> dict[str, str]:
    cm = {}
    for i, cc in enumerate(settings_obj.comparisons):
        cm[cc._gamma_column_name] = f"(CGamma {i})"
        cm[cc._bf_column_name] = f"(CBf {i})"
        cm[cc._bf_tf_adj_column_name] = f"(CTfAdj {i})"
    for k, c in enumerate(tf_cols):
        cm[f"tf_{c}_l"] = f"(CTfL {k})"
        cm[f"tf_{c}_r"] = f"(CTfR {k})"
    return cm


OPS = {E.GTE: "OpGe", E.GT: "OpGt", E.LTE: "OpLe", E.LT: "OpLt", E.EQ: "OpEq"}


def select_items_of(tree) -> dict:
    return {e.alias_or_name: (e.unalias() if isinstance(e, E.Alias) else e) for e in tree.expressions}


def translate_selects(settings_obj, tf_cols: list[str], dialect: str, cv_items: dict, parts: dict, predict_tree) -> dict:
    """cv_items / parts: alias -> expression of the comparison-vector and match-weight-parts selects;
    predict_tree: the SELECT computing match_weight / match_probability (with its WHERE)."""
    conv = Conv(colmap_for(settings_obj, tf_cols), dialect)
    gammas = []
    for cc in settings_obj.comparisons:
        g = cv_items.get(cc._gamma_column_name)
        if not isinstance(g, E.Case):
            raise Untranslatable(f"gamma expression of {cc.output_column_name} not found as a single CASE")
        condmap = {}
        for i, lv in enumerate(cc.comparison_levels):
            if not lv._is_else_level:
                condmap.setdefault(norm_sql(lv.sql_condition, dialect), i)

        def cond_conv(t, condmap=condmap):
            key = t.sql(dialect=dialect)
            if key not in condmap:
                raise Untranslatable(f"WHEN condition is not a level condition: {key[:80]}")
            return f"(BCond {condmap[key]})"
        gammas.append(conv.case(g, cond_conv))
    bfs, tfs = [], []
    for cc in settings_obj.comparisons:
        if cc._bf_column_name not in parts:
            raise Untranslatable(f"no {cc._bf_column_name} item")
        bfs.append(conv.num(parts[cc._bf_column_name]))
        tfs.append(conv.num(parts[cc._bf_tf_adj_column_name]) if cc._bf_tf_adj_column_name in parts else None)
    items = select_items_of(predict_tree)
    mw = items.get("match_weight")
    if not (isinstance(mw, E.Log) and _num_literal(mw.this) == 2):
        raise Untranslatable("match_weight is not log2(..)")
    weight_arg = conv.num(mw.expression)
    if "match_probability" not in items:
        raise Untranslatable("no match_probability item")
    prob = conv.num(items["match_probability"])
    where = predict_tree.args.get("where")
    if where is None:
        wtxt = "None"
    else:
        w = where.this
        if type(w) not in OPS or not (isinstance(w.this, E.Log) and _num_literal(w.this.this) == 2):
            raise Untranslatable(f"WHERE shape {w.sql()[:80]}")
        lit = _num_literal(w.expression)
        if lit is None:
            raise Untranslatable(f"WHERE threshold {w.expression.sql()}")
        wtxt = f"(Some ({conv.num(w.this.expression)}, {OPS[type(w)]}, {q(lit)}))"
    final = f"{{| f_weight_arg := {weight_arg}; f_prob := {prob}; f_where := {wtxt} |}}"
    return {"gammas": gammas, "bfs": bfs, "tfs": tfs, "final": final, "final_items": list(items.keys())}


def translate(settings_obj, tf_cols: list[str], thr_prob, thr_weight, dialect: str, infinity_expr: str) -> dict:
    """Returns Coq texts: gammas (list nx), bfs (list nx), tfs (list option nx), final (final_select)."""
    from splink.internals.predict import predict_from_comparison_vectors_sqls_using_settings

    # 1. gamma CASE statements, from the list of select expressions the pipeline really uses
    cv_items = {}
    for c in settings_obj._columns_to_select_for_comparison_vector_values:
        try:
            e = sqlglot.parse_one("select " + c, read=dialect).expressions[0]
        except Exception as ex:
            raise Untranslatable(f"select item does not parse: {c[:80]}") from ex
        if isinstance(e, E.Alias):
            if e.alias in cv_items:
                raise Untranslatable(f"duplicate select item {e.alias}")
            cv_items[e.alias] = e.this
    # 2./3. the two stages of predict
    sqls = predict_from_comparison_vectors_sqls_using_settings(
        settings_obj, thr_prob, thr_weight, sql_infinity_expression=infinity_expr)
    by_name = {s["output_table_name"]: s["sql"] for s in sqls}
    if set(by_name) != {"__splink__df_match_weight_parts", "__splink__df_predict"}:
        raise Untranslatable(f"predict stages {sorted(by_name)}")
    _, parts = _select_items(by_name["__splink__df_match_weight_parts"], dialect)
    tree, _ = _select_items(by_name["__splink__df_predict"], dialect)
    return translate_selects(settings_obj, tf_cols, dialect, cv_items, parts, tree)
