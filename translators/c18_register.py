"""C18 translator: the shape of DatabaseAPI.register_multiple_tables, read off /repo's source on every run.

Model/Catalog.v `register_multiple` follows the method statement by statement:

    loop 1   for table, alias in zip(input_tables, input_aliases):      -> reg_clashes / reg_drop_existing over `combine items aliases`
                 if isinstance(table, str): continue                    -> is_frame (fst p)
                 exists = self.table_exists_in_database(alias)          -> name_taken db (snd p)
                 if exists: (not overwrite -> remember) / (overwrite -> delete_table_from_database(alias))
    raise    if existing_tables: raise ValueError                       -> (s, map Refused clashes)
    loop 2   for table, alias in zip(input_tables, input_aliases):      -> reg_frames over `combine items aliases`
                 if not isinstance(table, str): self._table_registration(table, alias); table = alias
                 ... table_to_splink_dataframe(alias, table) ...

What matters for C18 is the ALIGNMENT: both loops walk the same zip of the FULL item list with the FULL alias list and
decide by-name / frame per pair inside the loop.  `shape()` returns that description; it is fail-closed: any other
statement structure (a pre-filtered list, another iterable, a different guard, extra rebinding of the two lists, extra
loops) raises `Untranslatable`.
"""
from __future__ import annotations

import ast
import os
from pathlib import Path

REPO = Path(os.environ.get("VERIF_REPO", "/repo"))
SOURCE = "splink/internals/database_api.py"

# what Model/Catalog.v encodes (register_multiple: `combine items aliases` in both loops, `is_frame (fst p)` inside)
MODEL_SHAPE = {
    "clash_loop_zips": ["input_tables", "input_aliases"],
    "clash_loop_skips_by_name_inside": True,
    "clash_test": "table_exists_in_database(alias)",
    "on_clash": {"not overwrite": "existing_tables.append(alias)", "overwrite": "delete_table_from_database(alias)"},
    "raises_if_any_clash_before_registering": True,
    "register_loop_zips": ["input_tables", "input_aliases"],
    "registers_frames_only_under": "_table_registration(table, alias)",
}


class Untranslatable(Exception):
    pass


def _need(cond: bool, what: str):
    if not cond:
        raise Untranslatable(f"register_multiple_tables: unrecognised shape: {what}")


def _function() -> ast.FunctionDef:
    tree = ast.parse((REPO / SOURCE).read_text())
    for node in tree.body:
        if isinstance(node, ast.ClassDef) and node.name == "DatabaseAPI":
            for f in node.body:
                if isinstance(f, ast.FunctionDef) and f.name == "register_multiple_tables":
                    return f
    raise Untranslatable("DatabaseAPI.register_multiple_tables not found")


def _u(node) -> str:
    return ast.unparse(node)


def _zip_names(loop: ast.For) -> list[str]:
    _need(isinstance(loop.target, ast.Tuple) and [_u(e) for e in loop.target.elts] == ["table", "alias"],
          f"loop target {_u(loop.target)}")
    it = loop.iter
    _need(isinstance(it, ast.Call) and _u(it.func) == "zip" and len(it.args) == 2 and not it.keywords
          and all(isinstance(a, ast.Name) for a in it.args), f"loop iterable {_u(it)}")
    return [a.id for a in it.args]


def _assigned_names(stmts) -> list[str]:
    out = []
    for st in stmts:
        for n in ast.walk(st):
            if isinstance(n, (ast.Assign, ast.AnnAssign, ast.AugAssign)):
                targets = n.targets if isinstance(n, ast.Assign) else [n.target]
                for t in targets:
                    out += [x.id for x in ast.walk(t) if isinstance(x, ast.Name)]
            if isinstance(n, (ast.For, ast.comprehension)):
                out += [x.id for x in ast.walk(n.target) if isinstance(x, ast.Name)]
    return out


def shape() -> dict:
    f = _function()
    _need([a.arg for a in f.args.args] == ["self", "input_tables", "input_aliases", "overwrite"], "parameters")
    body = [st for st in f.body if not (isinstance(st, ast.Expr) and isinstance(st.value, ast.Constant))]
    loops = [i for i, st in enumerate(body) if isinstance(st, ast.For)]
    _need(len(loops) == 2, f"{len(loops)} top-level loops")
    _need(not any(isinstance(n, (ast.For, ast.While, ast.ListComp, ast.GeneratorExp, ast.DictComp, ast.SetComp))
                  for i, st in enumerate(body) if i not in loops for n in ast.walk(st)
                  if not (isinstance(st, ast.If) and _u(st.test) == "not input_aliases")),
          "another loop or comprehension outside the default-alias block")
    pre, l1, mid, l2, post = body[:loops[0]], body[loops[0]], body[loops[0] + 1:loops[1]], body[loops[1]], body[loops[1] + 1:]

    # before the loops: process_input_tables, two accumulators, the default aliases; the two lists are bound nowhere else
    _need(_u(pre[0]) == "input_tables = self.process_input_tables(input_tables)", f"first statement {_u(pre[0])}")
    defaults = [st for st in pre if isinstance(st, ast.If)]
    _need(len(defaults) == 1 and _u(defaults[0].test) == "not input_aliases" and not defaults[0].orelse, "default-alias block")
    others = [st for st in pre[1:] if st is not defaults[0]]
    _need(sorted(_u(st) for st in others) == ["existing_tables = []", "tables_as_splink_dataframes = {}"],
          f"statements before the loops: {[_u(st) for st in others]}")
    _need("input_tables" not in _assigned_names(pre[1:]), "input_tables is rebound")
    _need(set(_assigned_names(others)) == {"existing_tables", "tables_as_splink_dataframes"}, "extra bindings before the loops")
    _need("input_aliases" not in _assigned_names([l1] + mid + [l2] + post) and "input_tables" not in _assigned_names([l1] + mid + [l2] + post),
          "the lists are rebound after the default-alias block")

    # loop 1: clash check
    z1 = _zip_names(l1)
    _need(not l1.orelse and len(l1.body) == 3, "clash loop body")
    skip, assign, test = l1.body
    _need(isinstance(skip, ast.If) and _u(skip.test) == "isinstance(table, str)" and not skip.orelse
          and len(skip.body) == 1 and isinstance(skip.body[0], ast.Continue), f"by-name skip: {_u(skip)}")
    _need(_u(assign) == "exists = self.table_exists_in_database(alias)", f"existence test: {_u(assign)}")
    _need(isinstance(test, ast.If) and _u(test.test) == "exists" and not test.orelse and len(test.body) == 1, "if exists")
    inner = test.body[0]
    _need(isinstance(inner, ast.If) and _u(inner.test) == "not overwrite" and len(inner.body) == 1 and len(inner.orelse) == 1
          and _u(inner.body[0]) == "existing_tables.append(alias)" and _u(inner.orelse[0]) == "self.delete_table_from_database(alias)",
          f"clash handling: {_u(inner)}")

    # between: raise iff a clash was remembered
    _need(len(mid) == 1 and isinstance(mid[0], ast.If) and _u(mid[0].test) == "existing_tables" and not mid[0].orelse
          and isinstance(mid[0].body[-1], ast.Raise) and _u(mid[0].body[-1].exc).startswith("ValueError("), "raise block")

    # loop 2: registration
    z2 = _zip_names(l2)
    _need(not l2.orelse and len(l2.body) == 3, "registration loop body")
    reg, frame, store = l2.body
    _need(isinstance(reg, ast.If) and _u(reg.test) == "not isinstance(table, str)" and not reg.orelse
          and [_u(x) for x in reg.body] == ["self._table_registration(table, alias)", "table = alias"], f"registration: {_u(reg)}")
    _need(_u(frame) == "sdf = self.table_to_splink_dataframe(alias, table)" and _u(store) == "tables_as_splink_dataframes[alias] = sdf",
          "frame construction")
    _need(len(post) == 1 and _u(post[0]) == "return tables_as_splink_dataframes", "return")

    return {
        "clash_loop_zips": z1,
        "clash_loop_skips_by_name_inside": True,
        "clash_test": "table_exists_in_database(alias)",
        "on_clash": {"not overwrite": "existing_tables.append(alias)", "overwrite": "delete_table_from_database(alias)"},
        "raises_if_any_clash_before_registering": True,
        "register_loop_zips": z2,
        "registers_frames_only_under": "_table_registration(table, alias)",
    }


def linker_defaults() -> dict:
    """Linker._register_input_tables: the aliases and the overwrite flag handed to register_multiple_tables."""
    tree = ast.parse((REPO / "splink/internals/linker.py").read_text())
    f = next((g for node in tree.body if isinstance(node, ast.ClassDef) and node.name == "Linker"
              for g in node.body if isinstance(g, ast.FunctionDef) and g.name == "_register_input_tables"), None)
    if f is None:
        raise Untranslatable("Linker._register_input_tables not found")
    body = [st for st in f.body if not (isinstance(st, ast.Expr) and isinstance(st.value, ast.Constant))]
    _need(len(body) == 3 and _u(body[0]) == "input_tables_list = ensure_is_list(input_tables)", "Linker._register_input_tables body")
    br, ret = body[1], body[2]
    _need(isinstance(br, ast.If) and _u(br.test) == "input_aliases is None", "Linker._register_input_tables branch")
    _need([_u(x) for x in br.body] == ["input_table_aliases = [f'__splink__input_table_{i}' for i, _ in enumerate(input_tables_list)]",
                                       "overwrite = True"], f"default aliases: {[_u(x) for x in br.body]}")
    _need([_u(x) for x in br.orelse] == ["input_table_aliases = ensure_is_list(input_aliases)", "overwrite = False"],
          f"given aliases: {[_u(x) for x in br.orelse]}")
    _need(_u(ret) == "return self._db_api.register_multiple_tables(input_tables, input_table_aliases, overwrite)", f"call: {_u(ret)}")
    return {"default_alias": "__splink__input_table_{i}", "default_overwrite": True, "given_aliases_overwrite": False}


LINKER_MODEL = {"default_alias": "__splink__input_table_{i}", "default_overwrite": True, "given_aliases_overwrite": False}
