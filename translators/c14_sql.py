"""C14 translator.

(1) The cumulative pipeline must embed the same blocking SQL as predict(): for a vector of rule
    kinds (plain / array-exploding) with placeholder rule texts, the REAL
    cumulative_comparisons_to_be_scored_from_blocking_rules_data and the REAL predict() are run
    on a tiny DuckDB dataset behind a wrapped DatabaseAPI that records the SQL of the CTE
    `__splink__blocked_id_pairs` and of the materialised exploded id tables.  Both texts are
    turned into Coq terms of C01's type `skeleton` (helpers of translators/c01_skeleton.py,
    imported read-only) and Coq decides (a) that the two skeletons emit the same match keys on
    every valuation and (b) that each meets C01's specification `expected`.
(2) The count / pre-filter SQL of count_comparisons_from_blocking_rule is captured the same way
    and its sqlglot-normalised text compared with the audited form (count( * ) on both sides,
    GROUP BY the key expressions, inner join USING the keys, sum of products).
Fail-closed: unknown shapes raise Untranslatable.
"""
from __future__ import annotations

import itertools
import re

import pandas as pd
import sqlglot
import sqlglot.expressions as E

from translators.c01_skeleton import LINK_TYPES, Conv, Untranslatable, flatten_union, norm, rule_bexp, rule_text

KINDS = ("P", "X")


def _frames(n, ntab, exploding):
    out = []
    for t in range(ntab):
        rows = []
        for i in range(2):
            r = {"unique_id": 10 * t + i}
            for k in range(max(n, 1)):
                r[f"p{k}"] = ["u", "v"] if k in exploding else "x"
                r[f"q{k}"] = "y"
            rows.append(r)
        d = pd.DataFrame(rows)
        for c in d.columns:
            if c != "unique_id" and not (c[0] == "p" and int(c[1:]) in exploding):
                d[c] = d[c].astype("string")
        out.append(d)
    return out


def _specs(kinds, shapes):
    specs = []
    for k, (kind, shape) in enumerate(zip(kinds, shapes)):
        txt = rule_text(k, shape)
        specs.append(txt if kind == "P" else {"blocking_rule": txt, "arrays_to_explode": [f"p{k}"]})
    return specs


def _tap(api, cap):
    orig = api.sql_pipeline_to_splink_dataframe

    def w(pipeline, use_cache=True):
        for c in pipeline.ctes_pipeline():
            cap.append((c.output_table_name, c.sql))
        return orig(pipeline, use_cache)
    api.sql_pipeline_to_splink_dataframe = w


def capture(kinds, shapes, link_type, ntab):
    """-> {"cum": (blocked_sql, {k: marginal_sql}), "pred": (...)}"""
    import splink.comparison_library as cl
    from splink import SettingsCreator
    from splink.blocking_analysis import cumulative_comparisons_to_be_scored_from_blocking_rules_data

    from harness import splink_util as su
    n = len(kinds)
    exploding = {k for k, kd in enumerate(kinds) if kd == "X"}
    frames = _frames(n, ntab, exploding)
    specs = _specs(kinds, shapes)
    out = {}
    for tag in ("cum", "pred"):
        cap = []
        api = su.make_api("duckdb")
        _tap(api, cap)
        if tag == "cum":
            cumulative_comparisons_to_be_scored_from_blocking_rules_data(
                table_or_tables=frames, blocking_rules=specs, link_type=link_type, db_api=api)
        else:
            s = SettingsCreator(link_type=link_type, comparisons=[cl.ExactMatch("q0")],
                                blocking_rules_to_generate_predictions=specs)
            lk = su.linker(frames, s, "duckdb", api=api, aliases=[f"t{i}" for i in range(ntab)] if ntab > 1 else None)
            lk.inference.predict()
        blocked = [sql for name, sql in cap if name == "__splink__blocked_id_pairs" and "match_key" in sql]
        if len(blocked) != 1:
            raise Untranslatable(f"{tag}: expected one __splink__blocked_id_pairs CTE, found {len(blocked)}")
        marg = {}
        for name, sql in cap:
            m = re.fullmatch(r"__splink__marginal_exploded_ids_blocking_rule_mk_(\d+)", name)
            if m:
                marg[int(m.group(1))] = sql
        out[tag] = (blocked[0], marg)
    return out


_IDS = re.compile(r"__splink__marginal_exploded_ids_blocking_rule_mk_(\d+)_[0-9a-f]+")


def to_skeleton(blocked_sql, marginals, link_type):
    """Coq term of type Model.Blocking.skeleton for one captured pipeline."""
    from splink.internals.input_column import InputColumn
    from splink.internals.unique_id_concat import _composite_unique_id_from_nodes_sql
    uid = InputColumn("unique_id", sqlglot_dialect_str="duckdb")
    sds = None if link_type == "dedupe_only" else InputColumn("source_dataset", sqlglot_dialect_str="duckdb")
    cols = [c for c in (sds, uid) if c is not None]
    id_l = norm(sqlglot.parse_one(_composite_unique_id_from_nodes_sql(cols, "l"), read="duckdb"))
    id_r = norm(sqlglot.parse_one(_composite_unique_id_from_nodes_sql(cols, "r"), read="duckdb"))
    cv = Conv(id_l, id_r, "source_dataset" if sds else None)
    ids_defs = []
    for k in sorted(marginals):
        mt = sqlglot.parse_one(_IDS.sub(lambda m: f"__ids_{m.group(1)}", marginals[k]), read="duckdb")
        if not (isinstance(mt, E.Select) and mt.args.get("distinct")):
            raise Untranslatable("marginal table is not SELECT DISTINCT")
        ex = mt.expressions
        if not (len(ex) == 2 and norm(ex[0].this) == id_l and ex[0].alias == "unique_id_l"
                and norm(ex[1].this) == id_r and ex[1].alias == "unique_id_r"):
            raise Untranslatable("marginal select list")
        joins = mt.args.get("joins") or []
        if mt.args["from_"].this.name != "__splink__df_concat_unnested" or len(joins) != 1 \
                or joins[0].this.name != "__splink__df_concat_unnested" or joins[0].args.get("side"):
            raise Untranslatable("marginal from/join")
        ids_defs.append(f"({k}, ({cv.conv(joins[0].args['on'])}, {cv.conv(mt.args['where'].this)}))")
    tree = sqlglot.parse_one(_IDS.sub(lambda m: f"__ids_{m.group(1)}", blocked_sql), read="duckdb")
    sels = []
    for s in flatten_union(tree):
        ex = s.expressions
        if not (len(ex) == 3 and ex[0].alias == "match_key" and isinstance(ex[0].this, E.Literal)
                and ex[1].alias == "join_key_l" and ex[2].alias == "join_key_r"):
            raise Untranslatable("select list")
        mk = int(ex[0].this.this)
        frm = s.args["from_"].this
        joins = s.args.get("joins") or []
        if not joins:
            if not frm.name.startswith("__ids_") or s.args.get("where") is not None:
                raise Untranslatable("from-ids select")
            if norm(ex[1].this) != '"unique_id_l"' or norm(ex[2].this) != '"unique_id_r"':
                raise Untranslatable("from-ids join keys")
            sels.append(f"{{| s_mk := {mk}; s_kind := SFromIds {int(frm.name[len('__ids_'):])}; s_on := BTrue; s_where := BTrue |}}")
            continue
        if len(joins) != 1 or frm.alias != "l" or joins[0].this.alias != "r":
            raise Untranslatable("join shape")
        names = (frm.name, joins[0].this.name)
        ok_names = (names[0] == names[1] and re.fullmatch(r"__splink__df_concat(_with_tf)?", names[0])) or \
                   (re.fullmatch(r"__splink__df_concat(_with_tf)?_left", names[0])
                    and re.fullmatch(r"__splink__df_concat(_with_tf)?_right", names[1]))
        if not ok_names:
            raise Untranslatable(f"join tables {names}")
        if (joins[0].args.get("kind") or "").upper() not in ("INNER", "") or joins[0].args.get("side"):
            raise Untranslatable("join kind")
        if norm(ex[1].this) != id_l or norm(ex[2].this) != id_r:
            raise Untranslatable("join keys are not the composite ids")
        on = cv.conv(joins[0].args["on"])
        wh = cv.conv(s.args["where"].this) if s.args.get("where") is not None else "BTrue"
        sels.append(f"{{| s_mk := {mk}; s_kind := SJoin; s_on := {on}; s_where := {wh} |}}")
    return ("{| sels := [" + "; ".join(sels) + "]; ids_defs := "
            + ("[" + "; ".join(ids_defs) + "]" if ids_defs else "(@nil (nat * (bexp * bexp)))") + " |}")


def obligation(kinds, shapes, link_type, ntab):
    """-> Coq term (lt, natoms, rules, sk_cumulative, sk_predict)"""
    cap = capture(kinds, shapes, link_type, ntab)
    lt = "two_dataset_link_only" if (link_type == "link_only" and ntab == 2) else link_type
    n = len(kinds)
    rules = "[" + "; ".join(rule_bexp(k, sh) for k, sh in enumerate(shapes)) + "]"
    skc = to_skeleton(*cap["cum"], link_type)
    skp = to_skeleton(*cap["pred"], link_type)
    return f"({LINK_TYPES[lt]}, {2 * n}, {rules}, {skc}, {skp})"


def configs(tier, rng):
    lts = [("dedupe_only", 1), ("link_and_dedupe", 2), ("link_only", 2), ("link_only", 3)]
    out = []
    for n in (1, 2):
        for kinds in itertools.product(KINDS, repeat=n):
            for shape in ("atom", "or"):
                for lt, ntab in (lts if tier == "thorough" or n == 1 else rng.sample(lts, 2)):
                    out.append((kinds, (shape,) * n, lt, ntab))
    all3 = list(itertools.product(KINDS, repeat=3))
    for kinds in (all3 if tier == "thorough" else rng.sample(all3, 4)):
        shapes = tuple(rng.choice(("atom", "or")) for _ in range(3))
        for lt, ntab in (lts if tier == "thorough" else rng.sample(lts, 2)):
            out.append((kinds, shapes, lt, ntab))
    return out


# ---------------------------------------------------------------------------- count SQL shape
def count_sql_shapes():
    """normalised text of the CTEs of count_comparisons_from_blocking_rule (dedupe, one table)"""
    from splink.blocking_analysis import count_comparisons_from_blocking_rule

    from harness import splink_util as su
    cap = []
    api = su.make_api("duckdb")
    _tap(api, cap)
    d = _frames(2, 1, set())[0]
    count_comparisons_from_blocking_rule(table_or_tables=[d], blocking_rule="l.p0 = r.p0 and substr(l.q0,1,1) = substr(r.q0,1,1) and l.p1 <> r.p1",
                                         link_type="dedupe_only", db_api=api)
    out = {}
    for name, sql in cap:
        if name in ("__splink__count_comparisons_from_blocking_l", "__splink__count_comparisons_from_blocking_r",
                    "__splink__block_counts", "__splink__total_of_block_counts", "__splink__comparions_post_filter"):
            s = sqlglot.parse_one(sql).sql(normalize=True)
            out[name] = re.sub(r"\s+", " ", s).strip().lower()
    return out


EXPECTED_COUNT = {'__splink__block_counts': 'select count_l, count_r, count_l * count_r as block_count from '
                           '__splink__count_comparisons_from_blocking_l inner join '
                           '__splink__count_comparisons_from_blocking_r using (key_0, key_1)',
 '__splink__comparions_post_filter': 'select count(*) as count_of_pairwise_comparisons_generated from '
                                     '__splink__df_concat as l inner join __splink__df_concat as r on l.p0 = '
                                     'r.p0 and substring(l.q0, 1, 1) = substring(r.q0, 1, 1) and l.p1 <> '
                                     'r.p1 where l."unique_id" < r."unique_id"',
 '__splink__count_comparisons_from_blocking_l': 'select p0 as key_0, substring(q0, 1, 1) as key_1, count(*) '
                                                'as count_l from __splink__df_concat group by p0, '
                                                'substring(q0, 1, 1)',
 '__splink__count_comparisons_from_blocking_r': 'select p0 as key_0, substring(q0, 1, 1) as key_1, count(*) '
                                                'as count_r from __splink__df_concat group by p0, '
                                                'substring(q0, 1, 1)',
 '__splink__total_of_block_counts': 'select cast(sum(block_count) as bigint) as '
                                    'count_of_pairwise_comparisons_generated from __splink__block_counts'}
